from .mt_common import MT_TB, MT_RULE, real_thread_run

CFG = dict(
    coq="Properties/C09.v",
    areas=["mt"],
    level="proof",
    theorems_expected=["C09_mt_no_deadlock", "C09_mt_measure", "C09_mt_terminates", "C09_mt_complete", "C09_mt_error_sticky",
                       "C09_mt_deadlock_refuted", "C09_mt_empty_input_refuted", "C09_mt_finish_after_error_refuted"],
    rule=MT_RULE,
    trusted_base=MT_TB,
    assumptions=[
        "positive theorems are about the repaired protocol (repo-patches 10..13 applied); the pinned code is refuted by witness schedules",
        "termination = no infinite schedule of the model (every enabled thread may be delayed arbitrarily but finitely); OS-level starvation "
        "and a panicking unit function are outside the model",
        "writers: the sink accepts every write (I/O faults of the sink are C05's business)",
    ],
    extra=[real_thread_run],
)
