from .mt_common import MT_TB, MT_RULE, real_thread_run

CFG = dict(
    coq=["Properties/C08.v", "Properties/C08Units.v"],
    areas=["mt"],
    level="proof",
    theorems_expected=["C08_mt_safety", "C08_mt_once", "C08_mt_tagged", "C08_mt_output_schedule_free",
                       "C08_cut_fixed_concat", "C08_cut_writes_partition", "C08_unit_cut_sound", "C08_lzip_scan_sound",
                       "C08_lzma2_units_independent", "C08_lzma2_unit_cut_sound", "C08_lzma2_reader_sound",
                       "C08_lzma2_reader_complete", "C08_lzma2_cut_units", "C08_lzma2_mt_reader_data",
                       "C08_lzma2_mt_writer_data", "C08_lzma2_mt_writer_mt_reader", "C08_lzip_units_data"],
    rule=MT_RULE,
    trusted_base=MT_TB,
    assumptions=[
        "the unit function does not panic and is a function of the unit (decoders/encoders are deterministic: C13's other clauses)",
        "data side (Properties/C08Units.v): the worker's unit function is the LZMA2Reader / LZMA2Writer / LZIPReader MODEL of C01/C02/C16 "
        "(tied to the code by those properties' correspondence checks); sources are byte strings; LZMA2WriterMT units: the writer model "
        "accepts the encoder's decisions (as in C01); LZIP: side conditions of C12_lzip_multi_lzma1",
        "sequence numbers do not wrap (fewer than 2^64 units)",
    ],
    extra=[real_thread_run],
)
