from .mt_common import MT_TB, MT_RULE, real_thread_run

CFG = dict(
    coq="Properties/C08.v",
    areas=["mt"],
    level="proof",
    theorems_expected=["C08_mt_safety", "C08_mt_once", "C08_mt_tagged", "C08_mt_output_schedule_free",
                       "C08_cut_fixed_concat", "C08_cut_writes_partition", "C08_unit_cut_sound", "C08_lzip_scan_sound"],
    rule=MT_RULE,
    trusted_base=MT_TB,
    assumptions=[
        "the unit function does not panic and is a function of the unit (decoders/encoders are deterministic: C13's other clauses)",
        "LZMA2 unit-cutting soundness is stated over an abstract chunk decoder whose state after a dictionary-reset chunk does not depend "
        "on the state before (to be discharged by the LZMA2 framing model of C01/C16)",
        "sequence numbers do not wrap (fewer than 2^64 units)",
    ],
    extra=[real_thread_run],
)
