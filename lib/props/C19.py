from .common import COMMON_TB

CFG = dict(
        coq="Properties/C19.v",
        areas=["options", "lzmaenc", "c02"],
    # c02 belongs to C02; here: a container writer that reported success wrote something its own reader returns
    # the shared workloads run in the release profile only (their own properties run them in theirs)
    area_profiles={"lzmaenc": ["release"], "c02": ["release"]},
    oracle_filter={"c02": r"own reader does not return|writer panicked|writer returned error|valid file rejected|valid file decoded to different"},
        profiles=["release", "checked"],
        level="proof",
        theorems_expected=["C19_in", "C19_out", "C19_ctx_index_bounds", "C19_props_roundtrip", "C19_encoder_new_ok"],
        rule="cases = the boundary grid of every public option field, one field at a time around a valid base and random combinations of boundary values "
             "(dict_size {0,1,2,4095,4096,4097,...,768 MiB,768 MiB+1,2^30,2^31-1,2^31,0xFFFFFFF0,u32::MAX}, lc {0..9,31,32,33,64,u32::MAX}, lp, pb likewise, "
             "lc+lp around 4, nice_len {0,1,2,3,7,8,9,272,273,274,1000,2^31,u32::MAX}, depth_limit {i32::MIN,-1,0,1,1000,i32::MAX}, preset_dict {None, Some(empty), "
             "Some(1/100/5000/70000 bytes)}, XZ pre-filter chains (delta distance {0,1,2,255,256,257,512,u32::MAX}, BCJ start offsets aligned/unaligned for all 8 "
             "filters, 3 and 4 filters, mixed chains)) x writer kind {LZMAWriter with header, LZMAWriter without header, LZMA2Writer, XZWriter, LZIPWriter} x input "
             "{empty, 1, 20, 3000 compressible, 3000 random, 70000 bytes}, in two build profiles (release; checked = overflow-checks + debug-assertions). "
             "Observation = outcome class of construct / write_all / finish: OK | ERR <kind> <stage new|write|finish> | PANIC <stage>, which the extracted model "
             "(Arith/Options.v writer_outcome) must predict exactly. Oracle on the implementation = the property itself: an error, or the produced stream decodes "
             "with the crate's corresponding reader (same dict_size / preset dictionary) to the input; a panic or an undecodable success is a failure. "
             "distinct_nontrivial = distinct command lines whose observation is not plain OK",
        trusted_base=COMMON_TB + [
            "repo hook H3 (/repo b3d60da): #[cfg(hasenbanck_lzma_rust2_verif)] pub use xz::{FilterConfig, FilterType}; needed to configure XZ pre-filter chains from outside the crate",
        ],
        assumptions=[
            "the model covers the option / constructor / table-index arithmetic and the validation; that a stream produced from in-range options decodes to the input is "
            "C01/C02's theorem (codec and container models) and is checked here by the implementation oracle only",
            "XZWriter with empty input writes an undecodable file (F4, owned by C02): listed as known finding xz-empty-input",
            "an allocation the machine cannot serve aborts the process (not a panic); after the fixes every option value that could request more than the estimator's figure is rejected before allocating",
            "multi-threaded writers (LZMA2WriterMT, LZIPWriterMT) are not exercised here",
        ],
    )
