"""Shared pieces of the MT properties C08, C09, C10 (area "mt")."""
import os

from .common import COMMON_TB

MT_TB = COMMON_TB + [
    "Hook H4 (repo-patches/14-hook-mt-shuttle-trace.patch): with --cfg hasenbanck_lzma_rust2_verif the crate's MT code "
    "uses shuttle::{sync, thread} instead of std::{sync, thread}; the checked build is not the shipped build. shuttle 0.9.3 is "
    "trusted to implement mutex / condvar / mpsc / atomics (sequentially consistent) and to report deadlocks exactly",
    "crate::verif::event(kind, arg) calls report what the code did at each shared-state access; checked indirectly: the model must "
    "predict every reported value, and the scripted scheduler must reproduce every recorded trace",
    "Memory model of the theorems: sequential consistency over the modelled operations (the real atomics are Acquire/Release on "
    "single flags; data-race freedom of the Rust code is not proved here)",
    "Section variables: the worker's unit function f : nat -> payload + error kind (decode/encode of one unit, assumed not to panic), "
    "the source script (what read_and_dispatch_chunk / dispatch_next_member deliver), the caller's program; writers: a perfect sink",
]

MT_RULE = (
    "cases: (MT type in {LZMA2ReaderMT, LZIPReaderMT, LZMA2WriterMT, LZIPWriterMT}, worker count 1..4, input scenario in {valid k units, "
    "unit j corrupt, truncated, empty, missing terminator, inner reader I/O error after n bytes, invalid control byte; writers: histories of "
    "write/flush of 0..3 units}, drop point, schedule). Schedules of the REAL code are explored under shuttle (random and PCT with seeds derived "
    "from VERIF_SEED by SplitMix64, DFS for the small scenarios) and every execution's event trace is recorded into the command line; the case "
    "is then re-executed on the real code by a scripted scheduler that must reproduce the trace, and the extracted protocol model must accept "
    "the trace step by step (every observed value - queue length, closed flag, received sequence number, active counter, shutdown flag - is "
    "the one the model state predicts) and end in the same outcome (result class, units handed out, workers spawned, all workers exited). "
    "Oracle on the implementation: MT output == single-threaded output (readers) / == per-unit single-threaded encoding and decodes to the input "
    "(writers); the call returned; an error was reported for a bad input; no task blocked after drop. Witness schedules of the refutations "
    "(corpus/mt.txt) are imposed on the real code. mt_cut / mt_scan compare the unit cutting (number of units pushed, member table) with "
    "Mt/Units.v. distinct_nontrivial = distinct command lines whose observation is not the trivial one"
)


def real_thread_run(cfg, tier, seed, results, broken, log):
    """Supporting exploration only (never a substitute for the theorems or the shuttle tie): the same
    scenarios on real OS threads with a guard-off build: wall-clock guard per call, /proc/self/task
    census after drop.  One OS schedule per run."""
    import framework as fw
    ok, out = fw.build_harness("release", hooks=False, config="nohook")
    if not ok:
        # the crate (and the harness) must build with the guard off: not building is a broken obligation
        log("guard-off harness build failed")
        broken.append(dict(kind="build", what="harness build with the verification guard OFF against /repo failed (real-thread run)", log=out[-2500:]))
        return
    d = os.path.join(fw.BUILD, "run", "mt-real")
    fw.sh(f"rm -rf {d}; mkdir -p {d}")
    rep = 200 if tier == "thorough" else 30
    unit = lambda s: "0100%02x%s" % (len(s) - 1, s.encode().hex())
    valid = unit("hello world") + unit("second unit") + unit("third") + "00"
    lines = [
        f"mt_real lzma2r 1 - end {rep}",
        f"mt_real lzma2r 4 - 0 {rep}",
        f"mt_real lzma2r 3 {valid} end {rep}",
        f"mt_real lzma2r 3 {valid} 1 {rep}",
        f"mt_real lzma2r 2 {valid[:-2]} end {rep}",
        f"mt_real lzma2r 2 e000030003ff0102030400 end {rep}",
        f"mt_real lzma2r 4 {unit('a')}e000030003ff01020304{unit('b')}00 end {rep}",
        f"mt_real lzma2w 3 text:{seed}:w5000+w4096+f+w100 end {rep}",
        f"mt_real lzma2w 2 text:{seed}:w9000 1 {rep}",
        f"mt_real lzipw 4 text:{seed}:w4096+w4096+w1 end {rep}",
        f"mt_real lzipw 1 text:{seed}:- end {rep}",
        # finish() over a sink whose flush() fails, then drop: the error is reported and no worker stays behind
        f"mt_real lzma2wf 3 text:{seed}:w9000 end {max(rep // 3, 5)}",
        f"mt_real lzipwf 2 text:{seed}:w9000 end {max(rep // 3, 5)}",
        f"mt_real lzipwf 2 text:{seed}:- end {max(rep // 3, 5)}",
        # more members than the thread limit, and a request far above the limit (clamped to 256 by the crate)
        f"mt_real lziprm 1000 300 end 2",
        f"mt_real lziprm 257 300 end 2",
    ]
    open(f"{d}/cmds.txt", "w").write("\n".join(lines) + "\n")
    hb = fw.harness_bin("release", "nohook")
    rc, out = fw.sh(f"{hb} exec mt {d}/cmds.txt {d}/out", timeout=3000)
    if rc != 0:
        log(f"real-thread run failed to execute (rc={rc}); supporting exploration only")
        return
    r = fw.AreaResult()
    impl = fw.read_kv(f"{d}/out/impl.txt")
    orc = fw.read_kv(f"{d}/out/oracle.txt")
    cases = fw.read_kv(f"{d}/out/cases.txt")
    for k, c in cases.items():
        r.n += 1
        if orc.get(k) != "ok":
            r.oracle_fails.append((c, impl.get(k, "?"), orc.get(k, "?")))
    r.dist = {"real_thread_runs": r.n * rep}
    results[("mt-real-threads", "nohook")] = r
    log(f"real OS threads (supporting): {r.n} scenarios x {rep} runs, {len(r.oracle_fails)} failures")
