from .common import COMMON_TB

CFG = dict(
    coq="Properties/C04.v",
    areas=["c04"],
    level="proof",
    theorems_expected=["C04_sound_xz", "C04_sound_lzip", "C04_magic_xz", "C04_magic_lzip", "C04_magic_lzip_refuted", "C04_lzip_empty_input_known",
                       "C04_crc32_one_byte", "C04_crc64_one_byte", "C04_bitflip_stream_header", "C04_bitflip_block_header",
                       "C04_bitflip_stream_footer", "C04_bitflip_check_field", "C04_bitflip_lzip_trailer"],
    rule="cases = valid files written by the crate (XZ: all check types, delta chains, block sizes; LZIP: dictionary/member sizes) "
         "damaged by: every single-bit flip at every position of tiny files (exhaustive: 3 XZ files incl. CRC64+delta and SHA-256, 2 LZIP "
         "files in quick; more in thorough), random single-bit flips, byte substitution, truncation, region deletion / duplication / "
         "transposition / insertion / zeroing, structured edits of every header, size, CRC, check and trailer field with and without "
         "CRC-32 fix-up (so that the damage reaches the deep checks), and byte strings that are not the format at all (random, or a "
         "prefix of the magic/header followed by junk); derived from VERIF_SEED by SplitMix64. Observation of XZReader (multi-stream "
         "on/off) and LZIPReader under a destination-size history (END+bytes+unconsumed | ERR kind+bytes | CAP | PANIC) vs the extracted "
         "call-by-call reader model, cross-checked against the whole-file function of the theorems. Oracle on the implementation: an "
         "error, or exactly the original content (LZIP multi-member files: or the content of a prefix of complete members when the "
         "damage destroyed the next member's magic - the loss the format defines); non-format strings must be rejected; no panic/hang; "
         "agreement with liblzma when both accept. XZ files with check type None are compared with the model but have no content oracle "
         "(the property excludes them). distinct_nontrivial = distinct command lines whose observation is not an empty result",
    trusted_base=COMMON_TB + ["liblzma 5.x (liblzma-sys 0.4.8, static) as reference decoder in the oracle",
                              "Codec/Lzma2Dec.v, Codec/Lzma1.v as payload decoders of the executable reader models"],
    assumptions=["'never' is modulo collisions of the block check / CRC-32 (stated in C04_sound_xz: the stored check equals H of the returned bytes); "
                 "the one-byte theorems give certainty only inside fixed-extent regions (a damaged block-header size byte or index "
                 "multibyte integer changes the extent of the CRC-covered region: the 2^-32 case)",
                 "C04_sound_xz assumes the block payload decoder only consumes input (returns a suffix of its source)",
                 "LZIPReaderMT is not covered by this check",
                 "perfect in-memory source (I/O faults are C05's business); /repo carries the fix patches /repo 90fabde..49 "
                 "(on the historical code C04 is false: C04_magic_lzip_refuted)",
                 "an output budget (cap) cuts off runs in which damaged size fields make the decoder produce more than 2x+1024 bytes; "
                 "such runs are reported as CAP on both sides and have no verdict"],
)
