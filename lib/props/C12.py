from .common import COMMON_TB

CFG = dict(
    coq=["Properties/C12.v", "Properties/C02Compose.v"],
    areas=["c12", "mt", "iofault"],
    # iofault belongs to C05: here only the concatenated-XZ-streams format under short reads / Interrupted counts
    oracle_filter={"iofault": r"^fault_r xzcat "},
    level="proof",
    theorems_expected=["C12_xz_multi", "C12_xz_bad_padding", "C12_xz_garbage_after_stream", "C12_xz_single_stream_stops",
                       "C12_xz_concat_refuted", "C12_xz_trailing_padding_refuted", "C12_lzip_multi", "C12_lzip_trailing_data",
                       "C12_xz_multi_lzma2", "C12_xz_multi_lzma2_delta", "C12_xz_bad_padding_lzma2", "C12_xz_garbage_after_stream_lzma2",
                       "C12_lzip_multi_lzma1", "C12_lzip_trailing_data_lzma1"],
    rule="cases = concatenations of 1..4 complete XZ streams written by the crate (own options/check type per stream, empty streams "
         "included) with stream padding after each stream from {0,4,8,12,16} (valid) and {1,2,3,5,6,7} (invalid), sometimes non-zero "
         "garbage after the last stream; each file is read with multi-stream decoding on (expected: concatenated content, or an error for "
         "malformed padding/garbage) and off (expected: first stream's content, source left right after it); 1..4 LZIP files (each "
         "possibly multi-member) concatenated, sometimes followed by trailing data or by a damaged/truncated member header. "
         "Observation (END+bytes+unconsumed | ERR kind+bytes | SKIP for BCJ chains) of XZReader/LZIPReader under a destination-size "
         "history vs the extracted reader model; oracle: the expected content/rejection above and agreement with liblzma "
         "(LZMA_CONCATENATED). distinct_nontrivial = distinct command lines whose observation is not an empty result",
    trusted_base=COMMON_TB + ["liblzma 5.x (liblzma-sys 0.4.8, static) as reference decoder in the oracle",
                              "Codec/Lzma2Dec.v, Codec/Lzma1.v as payload decoders of the executable reader models"],
    assumptions=["payload/filter codec round trips are hypotheses of the theorems (C01/C16, C11)",
                 "LZIPReaderMT (member scan) is not covered by this check",
                 "the theorems are about the whole-file reader function; agreement with the call-by-call model is checked by the correspondence run",
                 "/repo carries the fix patches /repo 90fabde..49; on the historical code C12 is false (C12_xz_concat_refuted)"],
)
