from .common import COMMON_TB

CFG = dict(
    coq=["Properties/C01.v", "Properties/C01Lzma1.v", "Properties/C01Lzma2.v"],
    areas=["lzmaenc", "lzmadec", "twins"],
    level="proof",
    theorems_expected=["C01_prob_update_twins", "C01_rc_roundtrip", "C01_lit_roundtrip", "C01_len_roundtrip", "C01_dist_slot_spec", "C01_match_roundtrip", "C01_rep_roundtrip", "C01_window_decode_is_spec", "C01_chunk_roundtrip",
                       "C01_lzma1_roundtrip_raw", "C01_lzma1_roundtrip_preset", "C01_lzma1_roundtrip_header", "C01_lzma1_read_zero",
                       "C01_lzma2_frame_sync", "C01_lzma2_roundtrip", "C01_lzma2_roundtrip_preset"],
    rule="lzmaenc: cases = (option vector lc/lp/pb/dict/nice_len/mode/mf/depth, header|marker|declared-size variant or LZMA2 chunk_size, "
         "optional preset dictionary, data from 10 compressibility classes plus multi-100-KiB structured cases crossing the LZMA2 chunk "
         "limits and the window move, write-call partition with flushes); the real LZMAWriter/LZMA2Writer runs with the symbol-trace hook, "
         "the extracted model validates the trace against the data (every literal/match is a true description of the next bytes, inside the "
         "dictionary) and re-encodes it: the bytes must be identical; the oracle decodes the stream with the crate's own reader and compares "
         "with the input. lzmadec: the readers vs the decoder model on valid, corrupted and random streams under read-size histories. "
         "twins: (among its other commands) lzma1encb/lzma2encb run the same encoder cases with the match finders' position counter biased "
         "(hook H2) so that the 31-bit renormalisation happens inside the run: the trace is validated and re-encoded like any other and the "
         "output must equal the unbiased run's. distinct_nontrivial = distinct command lines whose observation is a non-empty result",
    trusted_base=COMMON_TB + ["hook H1 (verif_hooks.rs): the symbol trace is what the encoder coded (checked indirectly: re-encoding the trace must reproduce the bytes)",
                              "the parser and match finders are validated per run (verified-validator pattern), not proved"],
    assumptions=["in-memory source/sink without faults (C05)"],
)
