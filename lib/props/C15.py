"""C15 - unsafe fast paths stay in bounds."""
from .common import COMMON_TB

CFG = dict(
    coq="Properties/C15.v",
    areas=["twins", "lzmaenc", "lzmadec"],
    level="proof",
    theorems_expected=[
        "C15_extend_match_bounds", "C15_extend_match_far_distance", "C15_fast_reject_bounds", "C15_fast_reject_far_distance",
        "C15_asm_clamp_bounds", "C15_asm_clamp_signed_hole", "C15_asm_loads_in_bounds", "C15_aligned_alloc_ok",
    ],
    rule="the crate is built with its `optimization` feature and the shadow assertions of hook H6 (safe restatement of the bounds "
         "precondition immediately before every get_unchecked / read_unaligned / raw-pointer word read / aligned SIMD load / assembly "
         "byte load, and after the aligned allocation). twins: the H5 accessors drive extend_match, get_match_len_fast_reject, "
         "decode_direct_bits (runs at and beyond the end of the chunk buffer) and AlignedMemoryI32::new on generated states inside and "
         "outside the precondition and compare with the model of the index arithmetic (an H6 failure inside the precondition is an oracle "
         "failure reported with the input). lzmaenc / lzmadec: the C01 / C06 workloads (matches touching both window ends, window moves, "
         "finishing with < 8 bytes, corrupt LZMA2 chunks) run with H6 on: a failing assertion surfaces as PANIC, i.e. a model/implementation "
         "difference with the input as replay. distinct_nontrivial = distinct command lines with a non-empty observation",
    trusted_base=COMMON_TB + [
        "hook H6 (repo-patches/60): the assertions restate the preconditions in safe code; they observe, they do not change behaviour",
        "memory safety itself (pointer provenance, the allocator, the assembly's memory operands, SIMD loads) is a run-time fact outside Gallina: "
        "what is proved is that each index is in range given the stated precondition - claimed PARTIAL",
        "preconditions owned by the match finders (distance <= read_pos + current_len, i.e. delta < cyclic_size <= retained history) are assumed in the theorems and asserted at run time only",
        "supporting exploration (not counted as proof): cargo +nightly miri / AddressSanitizer runs described in docs/design-notes/twins.md",
    ],
    assumptions=["buffer lengths < 2^62 (Rust allocations are <= isize::MAX)", "in-memory source/sink without faults (C05)"],
)
