"""C15 - unsafe fast paths stay in bounds."""
import os
import re

import framework as fw
from .common import COMMON_TB


def h6_census(cfg, tier, seed, results, broken, log):
    """Measures how often each H6 shadow assertion is evaluated under the workloads of this check
    (a serial run of generated lzmaenc/lzmadec/twins cases inside one harness process): the run-time
    half of C15 must not be vacuous."""
    d = os.path.join(fw.BUILD, "run", f"twins-{tier}-h6stats")
    fw.sh(f"rm -rf {d}; mkdir -p {d}")
    with open(f"{d}/cmd.txt", "w") as f:
        f.write(f"h6stats {seed} {150 if tier == 'quick' else 1500}\n")
    rc, out = fw.sh(f"{fw.harness_bin('release')} exec twins {d}/cmd.txt {d}", timeout=3000)
    obs = open(f"{d}/impl.txt").read().strip() if os.path.exists(f"{d}/impl.txt") else ""
    verdict = open(f"{d}/oracle.txt").read().strip() if os.path.exists(f"{d}/oracle.txt") else ""
    counts = {k: int(v) for k, v in re.findall(r"(\w+)=(\d+)", obs)}
    log(f"H6 census: {counts}")
    r = results.get(("twins", "release"))
    if r is not None:
        for k, v in counts.items():
            r.dist["h6_evaluations." + k] = v
    if rc != 0 or not verdict.endswith(" ok"):
        broken.append(dict(kind="run", what="H6 census: " + (verdict or out[-300:]), log=obs))
    # NEON cannot run here; every other site must have been exercised
    for site in ("extend_match", "extend_match_safe_word", "extend_match_safe_byte", "fast_reject",
                 "direct_bits_asm", "normalize_simd_vector", "aligned_alloc"):
        if counts.get(site, 0) == 0:
            broken.append(dict(kind="run", what=f"H6 shadow assertion '{site}' was never evaluated: the run-time part of C15 is vacuous "
                                                f"(hooks missing from /repo, or the optimization feature is off)", log=obs))

CFG = dict(
    coq="Properties/C15.v",
    areas=["twins", "lzmaenc", "lzmadec"],
    level="proof",
    extra=[h6_census],
    theorems_expected=[
        "C15_extend_match_bounds", "C15_extend_match_far_distance", "C15_fast_reject_bounds", "C15_fast_reject_far_distance",
        "C15_asm_clamp_bounds", "C15_asm_clamp_signed_hole", "C15_asm_loads_in_bounds", "C15_aligned_alloc_ok",
    ],
    rule="the crate is built with its `optimization` feature and the shadow assertions of hook H6 (safe restatement of the bounds "
         "precondition immediately before every get_unchecked / read_unaligned / raw-pointer word read / aligned SIMD load / assembly "
         "byte load, and after the aligned allocation). twins: the H5 accessors drive extend_match, get_match_len_fast_reject, "
         "decode_direct_bits (runs at and beyond the end of the chunk buffer) and AlignedMemoryI32::new on generated states inside and "
         "outside the precondition and compare with the model of the index arithmetic (an H6 failure inside the precondition is an oracle "
         "failure reported with the input). lzmaenc / lzmadec: the C01 / C06 workloads (matches touching both window ends, window moves, "
         "finishing with < 8 bytes, corrupt LZMA2 chunks) run with H6 on: a failing assertion surfaces as PANIC, i.e. a model/implementation "
         "difference with the input as replay. distinct_nontrivial = distinct command lines with a non-empty observation",
    trusted_base=COMMON_TB + [
        "hook H6 (repo-patches/60): the assertions restate the preconditions in safe code; they observe, they do not change behaviour",
        "memory safety itself (pointer provenance, the allocator, the assembly's memory operands, SIMD loads) is a run-time fact outside Gallina: "
        "what is proved is that each index is in range given the stated precondition - claimed PARTIAL",
        "preconditions owned by the match finders (distance <= read_pos + current_len, i.e. delta < cyclic_size <= retained history) are assumed in the theorems and asserted at run time only",
        "supporting exploration (not counted as proof): cargo +nightly miri / AddressSanitizer runs described in docs/design-notes/twins.md",
    ],
    assumptions=["buffer lengths < 2^62 (Rust allocations are <= isize::MAX)", "in-memory source/sink without faults (C05)"],
)
