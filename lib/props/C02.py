from .common import COMMON_TB

CFG = dict(
    coq=["Properties/C02.v", "Properties/C02Compose.v"],
    areas=["c02"],
    level="proof",
    theorems_expected=["C02_xz", "C02_xz_encode_is_writer", "C02_xz_blocks_partition", "C02_xz_dict_ok", "C02_xz_dict_sound",
                       "C02_vli_roundtrip", "C02_xz_block_header", "C02_xz_empty_input_refuted", "C02_lzip", "C02_lzip_dict_ok",
                       "C02_lzip_members_partition",
                       "C02_lzma2_payload_larger_dict", "C02_lzma1_payload_larger_dict", "C02_xz_lzma2", "C02_xz_lzma2_delta",
                       "C02_delta_filter_codec", "C02_lzip_lzma1", "C02_lzip_lzma1_c", "C02_l2_encoder_exists"],
    rule="cases = (check type {None, CRC32, CRC64, SHA-256}, block/member size {unset, = dict, < input, > input}, pre-filter chain "
         "{none, delta d, 2-3 deltas, each BCJ kind with/without start offset, BCJ+delta combinations}, LZMA options from encutil::gen_opts, "
         "LZIP dictionary sizes representable / not representable / below the minimum, data from 10 compressibility classes incl. empty, "
         "write() partition with empty writes and flushes, destination-size history incl. 0 and 1) derived from VERIF_SEED by SplitMix64. "
         "xz_write/lzip_write: the extracted writer model, given the write() calls and the LZMA2/LZMA payload of each block/member "
         "(sliced from the implementation's output; the encoder is C01's business), must reproduce the implementation's file byte for "
         "byte. xz_read/lzip_read: XZReader/LZIPReader driven with the size history vs the extracted call-by-call reader model "
         "(outcome END+bytes+unconsumed | ERR kind+bytes | CAP | PANIC), cross-checked inside the driver against the whole-file "
         "function the theorems are about. Files with a BCJ filter in the chain are outside the executable reader model (both sides "
         "print SKIP) and are decided by the oracle only. Oracle on the implementation: own reader returns exactly the bytes written, "
         "liblzma accepts the file and agrees, block sizes within the limit. distinct_nontrivial = distinct command lines whose "
         "observation is not an empty result",
    trusted_base=COMMON_TB + ["liblzma 5.x (liblzma-sys 0.4.8, static) as reference decoder in the oracle",
                              "Codec/Lzma2Dec.v, Codec/Lzma1.v (LZMA2Reader / LZMAReader models, validated by the lzmadec area) as payload decoders of the executable reader models"],
    assumptions=["C02Compose.v closes the composition: C02_xz_lzma2 / C02_xz_lzma2_delta / C02_lzip_lzma1 have the LZMA2 / LZMA writer and reader models in place of the abstract payload codec "
                 "(encoder = any choice function the writer model accepts; Delta instantiated, BCJ filter codecs still abstract); "
                 "payload codec round trip (C01/C16) and filter codec round trip (C11) are hypotheses of C02_xz / C02_lzip (universally quantified codecs); "
                 "for BCJ filters the tie of the codec to the code is C11's check, and BCJWriter is exact only for one write() per block (C07, F9)",
                 "the theorems are about the whole-file reader function; its agreement with the call-by-call model on every read-size history is "
                 "checked by the correspondence run (cross-check in the driver), not proved",
                 "perfect in-memory source and sink (I/O faults are C05's business)",
                 "/repo carries the fix patches /repo 90fabde..49 (F4, F5, F20, F11, F13, F16, F16b, F8, F6); on the historical code C02 is false "
                 "(C02_xz_empty_input_refuted; lzip_dict_old_refuted)",
                 "C02_lzip: the data are bytes and fewer than 2^64 bytes per member (u64 trailer counters)"],
)
