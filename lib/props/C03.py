from .common import COMMON_TB

CFG = dict(
    coq=["Properties/C03.v", "Properties/C03In.v"],
    areas=["c03", "lzmaenc"],
    # lzmaenc belongs to C01; here only the reference implementation's verdict on the .lzma / raw LZMA2
    # streams the crate wrote counts (the .lzma and LZMA2 clauses of C03)
    oracle_filter={"lzmaenc": r"liblzma"},
    level="proof",
    theorems_expected=["C03_out_xz", "C03_out_xz_refuted", "C03_out_lzip", "C03_in_lzip",
                       "C03_in_xz", "C03_in_xz_single", "C03_in_xz_exec", "C03_in_xz_exec_single"],
    rule="three-way tie, cases derived from VERIF_SEED by SplitMix64: (1) crate -> reference: files written by XZWriter/LZIPWriter over the "
         "option space of C02 (xz_write/lzip_write: container bytes vs the writer model; oracle: liblzma accepts the file and returns the "
         "input); (2) reference -> crate: files written by liblzma (easy presets 0-9 and extreme; explicit filter chains with custom "
         "lc/lp/pb, dictionary sizes incl. non powers of two, nice_len, match finder, mode, depth; delta and BCJ pre-filters; all four "
         "checks; multi-block through LZMA_FULL_FLUSH; the multi-threaded encoder whose block headers carry compressed and uncompressed "
         "size) read by XZReader under a destination-size history vs the reader model, oracle: exactly the input; LZIP: liblzma cannot "
         "encode lzip, so reference-made members are liblzma LZMA_Alone streams (lc=3 lp=0 pb=2, end marker) wrapped in a member frame by "
         "the harness (1-3 members); (3) specification vs liblzma (xz_spec/lzip_spec): the observed 'implementation' is liblzma "
         "(LZMA_CONCATENATED, whole input must be consumed), the model is the extracted format specification Format/XzSpec.v with the "
         "LZMA2/LZMA decoder models as payload decoders: OK+content | REJECT must agree on all files of (1) and (2), on concatenations "
         "with valid and invalid stream padding, and on damaged variants (bit flips, region damage, field edits with CRC fix-up); oracle "
         "of these commands: the crate decodes whatever liblzma accepts to the same bytes. Files with BCJ chains print SKIP for the "
         "model-compared observation (oracle still evaluated); damaged files on which liblzma produces more than the model's output "
         "budget are left out of (3); lzip files ending in a proper prefix of the magic (liblzma drops it, lzip(1) and the crate report "
         "a truncated header) and version-0 members (liblzma only) are left out of (3). distinct_nontrivial = distinct command lines "
         "whose observation is not an empty result",
    trusted_base=COMMON_TB + ["liblzma 5.x (liblzma-sys 0.4.8, static, feature parallel) as the reference implementation",
                              "Format/XzSpec.v: my reading of 'The .xz File Format' 1.x and of the lzip manual's file format chapter",
                              "Codec/Lzma2Dec.v, Codec/Lzma1.v as payload decoders of the executable specification and reader models"],
    assumptions=["C03_in_xz / C03_in_xz_single (Properties/C03In.v): for byte strings (bytes_ok); block decoders abstract with two hypotheses - "
                 "the crate's chain decoder decodes whatever the specification's decodes (for BCJ chains this is C07/C11 for the reference "
                 "semantics, not proved here), and the specification's decoder only consumes input; strict specification mode (check types "
                 "None/CRC32/CRC64/SHA-256: the crate refuses the reserved check IDs liblzma tolerates). C03_in_xz_exec has no codec "
                 "hypothesis (both sides run the LZMA2Reader model; Delta executed) but the executable specification accepts no BCJ chain",
                 "the .lzma and raw LZMA2 clauses of C03 are not covered by this check",
                 "the theorems are about XzSpec, which is tied to liblzma only by sampling",
                 "C03_out_xz: files below 16 GiB (32-bit backward size field); block decoder hypotheses = C01/C11 for the reference semantics",
                 "/repo carries the fix patches /repo 90fabde..49; on the historical code C03 is false (C03_out_xz_refuted: liblzma rejected every non-empty file)"],
)
