from .common import COMMON_TB

CFG = dict(
        coq="Properties/C11.v",
        areas=["delta", "bcj"],
        profiles=["release", "checked"],
        level="proof",
        theorems_expected=["C11_delta_inverse", "C11_delta_matches_reference", "C11_delta_write_partition", "C11_delta_read_partition"],
        rule="cases = (filter, parameters, data from 10 compressibility classes, write-call partition / inner chunking + destination-size history) "
             "derived from VERIF_SEED by SplitMix64; each case is run on the implementation (DeltaWriter/DeltaReader, BCJ writers/readers) and on the "
             "extracted Gallina model and the bytes are compared; the oracle additionally checks decode(encode(x)) = x on the implementation and "
             "byte equality with liblzma's filter. distinct_nontrivial = distinct command lines whose output is non-empty",
        trusted_base=COMMON_TB + ["liblzma 5.x (liblzma-sys 0.4.8, static) as the reference filter implementation in the oracle"],
        assumptions=["the inner reader/writer of the filter behaves as a perfect source/sink (fault behaviour is C05's business)"],
    )
