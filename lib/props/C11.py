from .common import COMMON_TB

CFG = dict(
        coq="Properties/C11.v",
        areas=["delta", "bcj", "bcj2"],
        profiles=["release", "checked"],
        level="proof",
        theorems_expected=["C11_delta_inverse", "C11_delta_matches_reference", "C11_delta_write_partition", "C11_delta_read_partition",
                           "C11_bcj_inverse_arm", "C11_bcj_inverse_armthumb", "C11_bcj_inverse_arm64", "C11_bcj_inverse_ppc",
                           "C11_bcj_inverse_sparc", "C11_bcj_inverse_ia64", "C11_bcj_inverse_x86", "C11_bcj_inverse_riscv", "C11_bcj_inverse_all", "C11_bcj_roundtrip", "C11_bcj_reader_any_sizes", "C11_bcj_reader_zero_read",
                           "C11_bcj_reader_retry", "C11_bcj_writer_partition_refuted", "C11_bcj_writer_partition_known",
                           "C11_bcj_checked_add_refuted",
                           "C11_bcj2_decodes_spec", "C11_bcj2_reader_any_chunking", "C11_bcj2_reader_zero_read",
                           "C11_bcj2_reader_interrupted_refuted", "C11_bcj2_reader_partial_word_refuted",
                           "C11_bcj2_ip_checked_add_refuted"],
        rule="cases = (filter, parameters, data, write-call partition / inner reader script + destination-size history) derived from VERIF_SEED by "
             "SplitMix64. Delta: data from 10 compressibility classes. BCJ: 8 architectures x {random, slices of the real executables "
             "/repo/tests/data/wget-*, synthetic code dense in the architecture's branch instructions, instructions straddling offset 4096/8192, "
             "00/FF/E8 runs, lengths 0..alignment+k} x start offsets {0, small aligned, random u32 aligned, near 2^31, near 2^32, above 2^32 up to "
             "usize::MAX, unaligned} x write partitions {one, aligned, small, pow2+-1, random, with empty, bytes; 1 in 10 into a sink taking <= k bytes} / "
             "inner-reader scripts {one chunk, small, pow2, random, bytes, 4096+-4; 3 in 10 with Interrupted failures, 1 in 10 with a hard failure} x "
             "read-size cycles {4096, 1, with zeros, 4095/1/4097, 100000, tiny, random}. Every case is run on the implementation (release profile AND "
             "the profile 'checked' = release + overflow checks + debug assertions) and on the extracted Gallina model; the observations (bytes / error "
             "kind / panic) must be identical strings. The oracle evaluates the property on the implementation: decode(encode(x)) = x through "
             "BCJWriter -> BCJReader for aligned start offsets, byte equality of the filtered/unfiltered bytes with liblzma's filters (start offset as "
             "4-byte LE property, when it fits), sink receives every byte, reader output independent of chunking, read sizes and transient inner "
             "failures. BCJ2 (area bcj2): four-stream inputs made by a reference BCJ2 encoder inside the harness (a transcription of 7-Zip's "
             "Bcj2Enc, END_STREAM mode, with the conversion decisions taken from the case; every case class also checks that encoder against "
             "the Gallina specification encoder, byte for byte) from data {0..11 bytes, random, dense E8/E9/0F 8x code with targets near 0 and "
             "2^32 and opcodes inside operands, slices of /repo/tests/data/wget-x86, 00/FF/E8/0F runs, 2-60 KB} x decision lists {all, none, "
             "alternating, random, mostly, ending early} x per-stream inner-reader scripts {one chunk, pieces of 1,2,3,5,6,7 bytes, bytes, "
             "multiples of 4, small primes, pow2+-1, random; 3 in 10 with Interrupted failures, 1 in 10 with a hard failure} x destination-size "
             "cycles {4096, 1, with zeros, 3/0/5/2, 100000, 4/1/2/3, random}; 1 in 4 cases malformed {truncated stream, flipped bits, declared "
             "size too small / too big / 0, CALL and JUMP swapped, garbage, first RC byte non-zero, RC = FF FF FF FF, trailing bytes, a "
             "stream dropped, CALL/JUMP length not a multiple of 4}. Oracle: for uncorrupted input the output is the data (also through the "
             "one-chunk / one-big-destination run: independence of chunking, read sizes and transient failures), errors only those the inner "
             "readers produced; for malformed input no panic and no hang. distinct_nontrivial = distinct command lines whose output is non-empty",
        trusted_base=COMMON_TB + ["liblzma 5.x (liblzma-sys 0.4.8, static) as the reference filter implementation in the oracle"],
        assumptions=["Delta: the inner reader/writer behaves as a perfect source/sink. BCJ: the inner reader follows a script of non-empty chunks and "
                     "failing calls (any error kind), Ok(0) only at its end; the inner writer takes every byte (write_all in BCJWriter makes its "
                     "chunking irrelevant, exercised by the bcj_enc_short cases); faults beyond that are C05's business",
                     "usize = 64 bit (the harness platform); the model's position arithmetic wraps at 2^64",
                     "BCJ2: 'correctly encoded four-stream input' = output of the specification encoder Filter/Bcj2Enc.v for some data and some "
                     "list of conversion decisions (7-Zip's Bcj2Enc with its heuristics replaced by an arbitrary choice; tied to the harness's "
                     "transcription of Bcj2Enc.c, no 7-Zip binary is available offline); data shorter than 2^32 - 6 bytes; the four inner readers "
                     "follow scripts of non-empty chunks (theorems: data only; the correspondence also runs failing calls); the 4 x 256 KiB buffer "
                     "is represented by the live regions of its four parts"],
    )
