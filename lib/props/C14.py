"""C14 - feature configurations behave identically."""
import os

import framework as fw
from .common import COMMON_TB

NOOPT = "release@noopt"


def run_noopt(cfg, tier, seed, results, broken, log):
    """Runs the same seeded case lists against the harness built WITHOUT the crate's `optimization`
    feature.  Both configurations are compared with the same extracted model (equal to one model =>
    equal to each other) and, for the whole-codec areas, with each other directly."""
    ok, out = fw.build_harness(NOOPT, hooks=True)
    if not ok:
        broken.append(dict(kind="build", what="harness build (std without optimization) against /repo failed", log=out[-2500:]))
        return
    for area in cfg["areas"]:
        r = fw.run_area(area, tier, seed, profile=NOOPT, tag="-noopt")
        results[(area, NOOPT)] = r
        log(f"area {area}/{NOOPT}: {r.n} cases, {len(r.mismatches)} model/impl differences, "
            f"{len(r.oracle_fails)} oracle failures, errors={len(r.errors)}")
        for e in r.errors:
            broken.append(dict(kind="run", what=f"area {area} (noopt): {e[:300]}", log=e))
        # direct comparison of the two builds on the same generated cases (bytes, decode outcome,
        # error kind, failure point); the twins area's accessor lines legitimately name the build
        n_same = 0
        for stage in ("corpus", "gen"):
            a = os.path.join(fw.BUILD, "run", f"{area}-{tier}", stage)
            b = os.path.join(fw.BUILD, "run", f"{area}-{tier}-noopt", stage)
            if not (os.path.exists(a + "/impl.txt") and os.path.exists(b + "/impl.txt")):
                continue
            ca, ia = fw.read_kv(a + "/cases.txt"), fw.read_kv(a + "/impl.txt")
            cb, ib = fw.read_kv(b + "/cases.txt"), fw.read_kv(b + "/impl.txt")
            for k, line in cb.items():
                cmd = line.split(" ", 1)[0]
                if area == "twins" and not cmd.startswith("lzma"):
                    continue
                # the same command (the trace appended for the model may differ in length only if the outputs differ)
                if k in ia and ca.get(k, "").split(" ")[:3] == line.split(" ")[:3]:
                    if ia[k] != ib[k]:
                        r.mismatches.append((line, ib[k], "OPTIMIZATION-BUILD-OBSERVES " + ia[k]))
                    else:
                        n_same += 1
        log(f"area {area}: {n_same} cases observed identically in both builds")
        r.dist["cross_config_identical"] = n_same


CFG = dict(
    coq="Properties/C14.v",
    areas=["twins", "lzmaenc", "lzmadec"],
    level="proof",
    extra=[run_noopt],
    theorems_expected=[
        "C14_normalize_twins", "C14_normalize_keeps_window", "C14_normalize_scalar_old_refuted",
        "C14_direct_bits_twins", "C14_direct_bits_overrun_refuted", "C14_direct_bits_dispatch_eq",
        "C14_direct_bits_loop_eq", "C14_direct_bits_aarch64_refuted",
        "C14_extend_match_safe_cpl", "C14_extend_match_twins", "C14_fast_reject_twins",
    ],
    rule="twins: the cfg-gated accessors (hook H5) run the alternative code paths on the same state: scalar vs dispatching (AVX2/SSE4.1) "
         "renormalisation on i32 tables at aligned and deliberately misaligned addresses (prefix/suffix path) and offsets over the whole "
         "non-negative i32 range; portable vs assembly vs dispatching decode_direct_bits on chunk buffers with runs inside, crossing, at and "
         "beyond the end; extend_match and get_match_len_fast_reject on buffers with matches touching both ends and with out-of-domain "
         "arguments; encoders with the lz_pos bias (hook H2) so that a table renormalisation happens inside the run (output must equal "
         "the unbiased run); LZMA2 streams whose last chunk is cut short so that the range decoder runs off the chunk buffer. Every case is "
         "compared with the extracted Gallina model of THIS build's twin and the oracle demands scalar == dispatch, assembly/dispatch == portable. "
         "lzmaenc, lzmadec (the C01/C06 workloads): run in two builds of the crate - default features and std WITHOUT optimization - against the "
         "SAME model (encoder: trace validator + bit-exact re-encoding; decoder: bytes, error kind, failure point), and the two builds' "
         "observations are also compared with each other directly. distinct_nontrivial = distinct command lines with a non-empty observation",
    trusted_base=COMMON_TB + [
        "hooks H5/H6/H2 (repo-patches/60..61): accessors call the crate's own functions; VerifPortableBuffer delegates every read to RangeDecoderBuffer and only hides is_buffer()",
        "the x86-64 inline assembly of decode_direct_bits is modelled by hand transcription of the instruction text (Arith/DirectBitsAsm.v); only the differential run ties it",
        "SIMD intrinsics (_mm256_max_epi32/_mm256_sub_epi32, SSE4.1, NEON) are modelled per lane by their documented semantics; AVX2 and SSE4.1 are executed here, NEON is not",
        "aarch64 code paths (normalize_neon, decode_direct_bits_aarch64) cannot run on this x86-64 machine: modelled and (dis)proved, NOT tied",
        "the no_std configurations (crate-own Read/Write/Error) are not built by this check: claimed partial",
    ],
    assumptions=["range >= 2^16 on entry to decode_direct_bits (an invariant of every reachable decoder state, see C14_direct_bits_loop_eq)",
                 "in-memory source/sink without faults (C05)"],
)
