from .common import COMMON_TB

CFG = dict(
        coq="Properties/C17.v",
        areas=["memusage"],
        profiles=["release", "checked"],
        level="proof",
        theorems_expected=["C17_enc_estimate_no_overflow", "C17_enc_estimate_sound", "C17_enc_estimate_tight", "C17_enc_estimate_factor2",
                           "C17_dec_estimate_no_overflow", "C17_dec_estimate_sound", "C17_dec_estimate_tight",
                           "C17_dec2_estimate_no_overflow", "C17_dec2_estimate_sound", "C17_dec2_estimate_tight",
                           "C17_mem_limit_enforced", "C17_mem_limit_check_precedes_allocation", "C17_mem_limit_success_within_limit",
                           "C17_enc_estimate_old_refuted", "C17_dec2_estimate_old_refuted", "C17_enc_restart_exceeds_estimate"],
        rule="cases, derived from VERIF_SEED by SplitMix64 and run in two build profiles (release; checked = overflow-checks + debug-assertions on): "
             "(i) the pure estimators LZMAOptions::get_memory_usage, lzma_get_memory_usage, lzma_get_memory_usage_by_props, lzma2_get_memory_usage on a "
             "boundary grid of dict_size (0, 1, 2^k, 3*2^k +-1, 768 MiB +-1, 0xFFFFFFF0 +-1, u32::MAX) x lc/lp (in and out of range) x mode x match finder "
             "plus random parameters: the extracted model must return the same number / error code / PANIC; (ii) measured allocation: a counting "
             "#[global_allocator] (per-thread live bytes and peak of REQUESTED sizes) around construction + write + finish of LZMAWriter / LZMA2Writer and "
             "construction + read to end of LZMAReader::new_mem_limit / LZMA2Reader for dict_size 4 KiB .. 32 MiB (128 MiB thorough), sinks and sources "
             "pre-allocated outside the measurement: the model's alloc(params) must equal the measured peak EXACTLY (slack 0 on requested bytes) and the "
             "estimate must agree; (iii) LZMAReader::new_mem_limit on 13-byte headers x limits around the need x range-decoder start bytes: result class "
             "and bytes allocated must equal the model's allocation trace. Oracle on the implementation = the property itself: measured peak <= 1024*estimate, "
             "1024*estimate <= peak + C (C = 327680 / 10240 / 40965 for encoder / LZMA decoder / LZMA2 decoder), need > limit -> OutOfMemory with 0 bytes "
             "allocated, no panic of an estimator inside the documented range, decoded data equal to the input. "
             "distinct_nontrivial = distinct command lines whose observation is not the trivial OK/OK 0",
        trusted_base=COMMON_TB + [
            "the counting allocator of harness/src/a_memusage.rs (GlobalAlloc wrapper around System; counts Layout::size() of alloc/alloc_zeroed/realloc/dealloc per thread): "
            "it sees requested sizes, not the allocator's own overhead or page rounding",
            "layout facts of the 64-bit target used by the allocation model: size_of::<Vec<T>>() = 24, size_of::<Optimum>() = 48 (checked by the exact tie on every run)",
        ],
        assumptions=[
            "heap = bytes requested from the global allocator (Layout::size); allocator overhead, page granularity and the stack/inline size of the reader/writer structs themselves are not counted",
            "the sink/source the caller passes (Vec, slice) is the caller's memory and is excluded from the measurement",
            "encoder tightness/soundness are proved for the documented option range 4096 <= dict_size <= 768 MiB, lc <= 8, lp <= 4 (lc+lp <= 4 for LZMA2), pb <= 4, 8 <= nice_len <= 273; "
            "LZMA2Writer with chunk_size set is excluded (known finding C17 lzma2-chunk-restart: two encoders coexist at a restart)",
            "decoder tightness of lzma_get_memory_usage is claimed when the declared uncompressed size does not let the reader shrink its window",
        ],
    )
