from .common import COMMON_TB

CFG = dict(
    coq=["Properties/C06.v", "Properties/C06Mt.v", "Properties/C06Containers.v", "Properties/C06Readers.v"],
    areas=["lzmadec", "mt", "c04", "bcj", "bcj2"],
    level="proof",
    # c04's own oracle (content of damaged files) is C04's business; here only totality counts
    oracle_filter={"c04": r"PANIC|TIMEOUT|RUNAWAY|panic|hang|terminat|endless|without bound|HARNESS",
                   # bcj / bcj2 belong to C11 (and C07): here only totality of the filter readers counts
                   "bcj": r"PANIC|TIMEOUT|RUNAWAY|panic|hang|terminat|endless|without bound|HARNESS",
                   "bcj2": r"PANIC|TIMEOUT|RUNAWAY|panic|hang|terminat|endless|without bound|HARNESS"},
    theorems_expected=["C06_decode_bit_never_panics", "C06_run_rc_total", "C06_window_rejects_far", "C06_decode_total", "C06_lzip_scan_total",
                       "C06_xz_decode_total", "C06_xz_decode_chain_total", "C06_xz_blockdec_shr", "C06_lzip_decode_total",
                       "C06_xz_index_alloc_refuted", "C06_growing_rest_needs_fuel",
                       # Properties/C06Readers.v: the LZMA / LZMA2 reader models and the closed container theorems
                       "C06_decode_post", "C06_bits_cost_input", "C06_lzma1_construct_total", "C06_lzma1_header_total",
                       "C06_lzma1_read_total", "C06_lzma1_raw_total", "C06_lzma1_props_total", "C06_lzma1_hdr_total", "C06_zero_sizes_need_fuel",
                       "C06_lzma2_new_total", "C06_lzma2_header_total", "C06_lzma2_read_total", "C06_lzma2_total",
                       "C06_lzip_payload_dec_shr", "C06_lzip_payload_dec_n_shr", "C06_lzip_decode_c_total",
                       "C06_lzma2_payload_dec_shrb", "C06_lzma2_payload_dec_n_shrb", "C06_xz_decode_c_total"],
    rule="cases = streams produced by the crate's LZMA/LZMA2 writers under random in-range options (plus trailing bytes), the same streams "
         "corrupted (bit flip, byte substitution, truncation, deletion, header flip) and random byte strings, each fed to LZMAReader "
         "(new_mem_limit / new_with_props / new) and LZMA2Reader with a destination-size history; the observation "
         "(END+bytes+unconsumed | ERR kind+bytes | constructor error | PANIC | TIMEOUT) must equal the extracted model's; "
         "area c04 (shared with C04): XZ and LZIP files damaged in every structural region (single byte substitutions, truncation at every "
         "boundary, size/count fields at their borders incl. the 2^63-1 index record count) read by XZReader / LZIPReader and by the extracted "
         "container models: outcome class, bytes and error kind must agree, PANIC / TIMEOUT / RUNAWAY are failures; "
         "area mt (shared with C08-C10): the multi-threaded readers/writers on the shuttle scheduler, including LZIP files whose member_size "
         "fields are hostile (0 in the last or an earlier member, below a header, off by one, beyond the file, 2^63, 2^64-1), truncated, bit-flipped or "
         "prefixed by garbage: LZIPReaderMT::new must return a member count or an error equal to the model's scan_members, within the watchdog's "
         "CPU budget and without passing the allocation cap (RUNAWAY); "
         "distinct_nontrivial = distinct command lines whose observation is not an empty result",
    trusted_base=COMMON_TB + ["liblzma as reference decoder in the oracle (content must agree when both accept)"],
    assumptions=["the underlying reader is a perfect in-memory source (I/O faults are C05's business)"],
)
