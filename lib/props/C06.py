from .common import COMMON_TB

CFG = dict(
    coq="Properties/C06.v",
    areas=["lzmadec"],
    level="proof",
    theorems_expected=["C06_decode_bit_never_panics", "C06_run_rc_total", "C06_window_rejects_far", "C06_decode_total"],
    rule="cases = streams produced by the crate's LZMA/LZMA2 writers under random in-range options (plus trailing bytes), the same streams "
         "corrupted (bit flip, byte substitution, truncation, deletion, header flip) and random byte strings, each fed to LZMAReader "
         "(new_mem_limit / new_with_props / new) and LZMA2Reader with a destination-size history; the observation "
         "(END+bytes+unconsumed | ERR kind+bytes | constructor error | PANIC | TIMEOUT) must equal the extracted model's; "
         "distinct_nontrivial = distinct command lines whose observation is not an empty result",
    trusted_base=COMMON_TB + ["liblzma as reference decoder in the oracle (content must agree when both accept)"],
    assumptions=["the underlying reader is a perfect in-memory source (I/O faults are C05's business)"],
)
