from .common import COMMON_TB

CFG = dict(
    coq=["Properties/C07.v", "Properties/C07Readers.v", "Properties/C07Bcj2.v"],
    areas=["purity", "delta", "lzmaenc", "lzmadec", "bcj", "bcj2", "c02"],
    level="proof",
    theorems_expected=["C07_lzma1_no_byte_lost", "C07_lzma2_no_byte_lost", "C07_uncompressed_fallback_old_refuted", "C07_uncompressed_fallback_max_refuted", "C07_fill_window_huge_slice_old_refuted", "C07_process_pending_strict_assert_refuted", "C07_lzma_expected_size", "C07_delta_write_partition", "C07_delta_read_partition",
                       "C07_lzma1_zero_read", "C07_lzma2_zero_read", "C07_bcj_reader_zero_read", "C07_xz_reader_zero_read", "C07_lzip_reader_zero_read",
                       "C07_xz_reader_zero_read_refuted", "C07_lzma1_reader_any_sizes", "C07_lzma2_reader_any_sizes", "C07_bcj_reader_any_sizes",
                       "C07_delta_reader_any_chunking", "C07_xz_reader_any_sizes", "C07_xz_reader_matches_whole_file",
                       "C07_lzip_reader_any_sizes", "C07_lzip_reader_matches_whole_file", "C07_lzip_reader_written_file", "C07_bcj2_reader_any_sizes", "C07_bcj2_reader_zero_read"],
    rule="purity: cases = (option vector, writer kind LZMAWriter header/marker/declared-size variants | LZIPWriter | LZMA2Writer with/without "
         "chunk_size | XZWriter, optional preset dictionary, data from 10 compressibility classes plus multi-100-KiB cases that fill and move the "
         "encoder window, TWO call histories over the same data: write partitions from 6 classes with empty writes and flushes); the real writer "
         "runs under both histories (each twice with the heap churned in between) with the symbol-trace hook H1 and the position hook H7; the "
         "extracted EncWindow model replays the parser's decisions (moves and length per consultation, compressed size per chunk) on the call "
         "history and must predict every position event (read_pos/avail/read_ahead at each parser consultation, every move_pos, fill_window, "
         "move_window, write_chunk, copy_uncompressed; compared as counts + a digest of the full sequence) and whether the two outputs agree; "
         "oracle: every write() returned its slice length, both outputs decode (own reader) to the concatenation of the slices, repeated runs "
         "are identical. delta / lzmaenc / lzmadec: as for C11 / C01 (filter writer and reader under partitions; encoder validator under "
         "partitions with flushes; readers under destination-size histories incl. 0 and 1). distinct_nontrivial = distinct command lines with a "
         "non-empty observation",
    trusted_base=COMMON_TB + ["hooks H1 (symbol trace) and H7 (position trace) report what the encoder did; H7's events are what the model must predict, so a wrong hook shows up as a difference",
                              "the parser and the match finders are not modelled: they enter the EncWindow theorems as an arbitrary strategy (universally quantified) and the correspondence run replays their decisions",
                              "liblzma as reference filter in the delta area"],
    assumptions=["in-memory sink without faults (C05)",
                 "reader half (destination-size histories of XZ/LZIP/BCJ readers) and the BCJ writer are stated by their own developments; this property file holds the writer half for LZMA/LZIP and the Delta filter"],
)
