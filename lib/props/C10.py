from .mt_common import MT_TB, MT_RULE, real_thread_run

CFG = dict(
    coq="Properties/C10.v",
    areas=["mt"],
    level="proof",
    theorems_expected=["C10_spawn_bound", "C10_drop_nonblocking", "C10_holder_releases", "C10_drop_releases",
                       "C10_continuations_finite", "C10_lost_wakeup_refuted"],
    rule=MT_RULE,
    trusted_base=MT_TB,
    assumptions=[
        "drop_releases is about the repaired protocol (repo-patch 10: close() under the queue mutex); the pinned code is refuted by a witness schedule",
        "a worker thread 'terminates' = its worker function returns; the OS reclaiming the thread is outside the model",
    ],
    extra=[real_thread_run],
)
