from .common import COMMON_TB

CFG = dict(
    coq=["Properties/C16.v", "Properties/C16Readers.v", "Properties/C02Compose.v"],
    areas=["lzmadec", "c12"],
    level="proof",
    theorems_expected=["C16_range_decoder_consumes_exactly", "C16_decode_leaves_tail", "C16_lzma2_payload_exact",
                       "C16_lzma1_reader_leaves_tail", "C16_lzma1_header_reader_leaves_tail", "C16_lzma2_reader_leaves_tail", "C16_xz_single_stream_leaves_rest",
                       "C16_xz_single_stream_lzma2", "C16_xz_single_stream_lzma2_delta"],
    rule="lzmadec: streams written by the crate's LZMA/LZMA2 writers under random in-range options, followed by trailing bytes "
         "(none, zeros, random), read through LZMAReader (end marker; declared size without marker) and LZMA2Reader with a "
         "destination-size history; after the reader returned end of stream the number of source bytes not consumed is compared with the "
         "extracted model's (which itself equals the length of the trailing bytes for valid streams); corrupted and random streams run "
         "through the same comparison. c12 (shared with C12): XZ files (one or several streams, stream padding, trailing null bytes / garbage / "
         "container data) read by XZReader in single-stream and multi-stream mode; observation = content + number of source bytes left, compared "
         "with the extracted XzFormat model; the oracle demands that a single-stream reader leaves exactly the bytes after the first stream's footer. "
         "distinct_nontrivial = distinct command lines whose observation is a non-empty result",
    trusted_base=COMMON_TB,
    assumptions=["in-memory source (std::io::Cursor) whose position is the number of bytes the reader requested"],
)
