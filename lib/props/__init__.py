"""Per-property configuration of ./check: one module Cxx.py per property, each defining CFG."""
import importlib
import os
import re

PROPS = {}
for _f in sorted(os.listdir(os.path.dirname(__file__))):
    _m = re.match(r"(C\d+)\.py$", _f)
    if _m:
        PROPS[_m.group(1)] = importlib.import_module("." + _m.group(1), __name__).CFG
