from .common import COMMON_TB

CFG = dict(
    coq=["Properties/C18.v", "Properties/C18Lzma.v"],
    areas=["c18", "purity", "mt"],
    # purity belongs to C13/C07: here the declared-size verdicts of LZMAWriter (lzexp / lzexpn) count;
    # mt: the MT writers cut units / members of exactly the configured size (output == per-unit encoding)
    oracle_filter={"purity": r"declared|accepted|header does not carry|finish was rejected", "mt": r"MT output|partial MT output|MT reader cut"},
    level="proof",
    theorems_expected=["C18_xz_block_bound", "C18_xz_blocks_unset", "C18_xz_block_bound_refuted",
                       "C18_xz_block_bound_refuted_small_writes", "C18_lzip_member_bound", "C18_lzip_members",
                       "C18_lzip_members_unset", "C18_lzma_expected_size"],
    rule="cases = (block/member size option {unset, 1, = dict, dict+k, > input, random}, dictionary size, total length, "
         "write() partition {one huge write, many small, around the limit, powers of two, random, with empty writes}) derived from "
         "VERIF_SEED by SplitMix64. xz_sizes/lzip_sizes: XZWriter/LZIPWriter are fed constant bytes of the given call lengths; the "
         "uncompressed sizes in the index records / member trailers of the produced file must equal the block/member cut computed by the "
         "extracted model (Format/XzFormat.v xz_blocks_of, Format/LzipFormat.v lz_members_of). xz_write/lzip_write: the whole container "
         "must be reproduced byte for byte by the model given the LZMA payloads. Oracle on the implementation: own reader and liblzma decode "
         "the file to the input, every block/member holds at most max(size option, dict) bytes and all but the last exactly that. "
         "distinct_nontrivial = distinct command lines whose result is not an empty file",
    trusted_base=COMMON_TB + ["liblzma 5.x (liblzma-sys 0.4.8, static) as reference decoder in the oracle"],
    assumptions=["the sink accepts every byte (I/O faults are C05's business)",
                 "the inner LZMA/LZMA2/filter writers consume the whole buffer of each write() (true of the current code: "
                 "LZMAWriter::write, LZMA2Writer::write, DeltaWriter::write, BCJWriter::write return buf.len() over a perfect sink)",
                 "the .lzma expected-size clause and the multi-threaded unit/counter clauses of C18 are not covered by this check "
                 "(decided by other checks); byte counters (u64) are modelled as unbounded integers"],
)
