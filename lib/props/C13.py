from .common import COMMON_TB

CFG = dict(
    coq="Properties/C13.v",
    areas=["purity", "mt"],
    oracle_filter={"mt": r"MT output|partial MT output"},
    level="proof",
    # "checked" = release speed with debug assertions and overflow checks: ties the model's Panic outcomes
    # (debug_assert!, checked arithmetic) to the code
    profiles=["release", "checked"],
    theorems_expected=["C13_lookahead_clamped", "C13_enc_partition_independent_lzma1", "C13_enc_partition_independent_lzma2", "C13_lzma2_run_exact", "C13_history_kept"],
    rule="purity: cases = (option vector, writer kind LZMAWriter header/marker/declared-size variants | LZIPWriter with/without member size | "
         "LZMA2Writer | XZWriter (no chunk/block size for the C13 verdict), optional preset dictionary, data from 10 compressibility classes plus "
         "multi-100-KiB cases that fill and move the encoder window and reach the LZMA2 chunk limits, TWO write partitions of the same data "
         "from 6 partition classes); the real writer runs under both partitions, and a third time after the heap has been churned with non-zero "
         "garbage, with the symbol-trace hook H1 and the position hook H7; observation = SAME/DIFF (output bytes and symbol traces of the two "
         "partitions) plus, per partition, the counts of position events and a digest of the full event sequence (read_pos/avail/read_ahead at "
         "every parser consultation, every move_pos with its returned avail, fill_window, move_window, write_chunk, copy_uncompressed); the "
         "extracted EncWindow model replays the parser's decisions on each call history and must reproduce all of it; oracle = the property: "
         "bytes identical across partitions and across repeated runs in one process, streams decode to the input. The multi-threaded writers "
         "(schedules, worker counts) are outside this file's areas. distinct_nontrivial = distinct command lines with a non-empty observation",
    trusted_base=COMMON_TB + ["hooks H1 (symbol trace) and H7 (position trace): what they report is what the model must predict, so a wrong hook shows up as a difference",
                              "NOT modelled: HC4/BT4 match finders and the fast/normal parsers; they enter the theorems as an arbitrary strategy over clamped observations (see the header of Properties/C13.v) — the assumption that the real ones are such strategies (function of window content, own zero-initialised state, clamped avail) is why this property is claimed partial",
                              "allocator-state independence cannot be expressed in the model: covered only by the repeated-run comparison after heap churn"],
    assumptions=["the real match finders and parsers are functions of the window content in [read_pos - dict_size, read_pos + clamp), of their own (zero-initialised) state and of the clamped avail values; they use lz.get_pos() only modulo a power of two <= 16",
                 "the range coder enters the LZMA2 theorems as an oracle (one bit per symbol, compressed size per chunk) with the contract 1 <= c, c + 2 <= 65536, bit <-> c > 65510; the correspondence run checks the contract on every chunk",
                 "multi-threaded writers (worker counts, schedules) are decided by the MT protocol development, not here",
                 "in-memory sink without faults (C05)"],
)
