"""Per-property configuration of ./check."""

COMMON_TB = [
    "Coq 8.16.1 kernel (coqc, full .vo builds; guard/positivity/universe checks on; no -type-in-type, no -impredicative-set); native_compute is not used, vm_compute is used for finite facts",
    "Extraction: ExtrOcamlBasic + ExtrOcamlZBigInt (bool/option/unit/list/prod/sumbool -> OCaml natives; positive/N/Z -> zarith Z.t with the library's Extract Constant directives for add, sub, mul, div, modulo, compare, min/max, pred/succ, abs, opp, of_nat/to_nat...); no hand-written Extract Constant; OCaml 4.13.1 + zarith 1.12",
    "Correspondence machinery: Rust harness /verif/harness (generators, executors, oracles), OCaml driver line protocol, lib/framework.py (diff, evidence)",
    "Hand-written Gallina models: the theorems are about the models; the Rust code is tied to them only by the correspondence run of this check",
]

