from .common import COMMON_TB

CFG = dict(
    coq=["Properties/C05.v", "Properties/C05Readers.v"],
    areas=["iofault", "lzmadec"],
    level="proof",
    theorems_expected=["C05_read_exact_abstracts", "C05_read_exact_short", "C05_write_all_soft", "C05_write_all_prefix",
                       "C05_run_rc_input_monotone", "C05_run_rc_truncated", "C05_lzma_decode_input_monotone", "C05_lzma_decode_truncated",
                       "C05_lzma1_reader_input_monotone", "C05_lzma1_truncated_raw", "C05_lzma1_truncated_header", "C05_lzma1_read_obs_is_read_all",
                       "C05_lzma2_reader_truncated_step", "C05_lzma2_truncated", "C05_lzma2_truncated_preset", "C05_lzma2_error_sticky",
                       "C05_lzip_truncated", "C05_lzip_truncated_written", "C05_lzip_truncated_single_member", "C05_lzip_empty_prefix_known",
                       "C05_xz_truncated", "C05_xz_truncated_written", "C05_lzma2_payload_truncated_step",
                       "C05_bcj_reader_retry", "C05_delta_reader_short_reads"],
    rule="iofault: (1) random source/sink scripts (data chunks, Interrupted, hard error kinds, EOF / Ok(0)) run through std's read_exact / "
         "write_all and through the extracted Io/Script.v model: results must be identical; (2) for each of 14 formats (lzma1, lzma2, xz, "
         "lzip, delta, 8 BCJ) a stream produced by the crate is read through a source that chops reads and reports Interrupted (output "
         "must be unchanged), that fails at read call j with kind k (result must be Err(k) or the complete original), that ends after k "
         "bytes (Err or the complete original; every truncation point for streams <= 48 bytes); writers run over sinks that short-write / "
         "report Interrupted (bytes unchanged), fail at call j (Err(k) returned) or return Ok(0) (error). lzmadec: truncated LZMA/LZMA2 "
         "streams vs the decoder model. distinct_nontrivial = distinct command lines with a non-empty observation",
    trusted_base=COMMON_TB + ["fault cases of part (2) are decided by the oracle on the implementation only (model side prints SKIP); "
                              "the reader models the truncation theorems of Properties/C05Readers.v are about are tied to the code by the lzmadec area "
                              "(truncated LZMA/LZMA2 streams: observation incl. error kind compared with the extracted models) and by the container areas of C04/C12"],
    assumptions=["std::io::Read::read_exact / Write::write_all behave as modelled in Io/Script.v (checked by part (1) of the area)"],
)
