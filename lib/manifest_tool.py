#!/usr/bin/env python3
"""Adds/updates a check entry in MANIFEST.json:  manifest_tool.py <Cxx> <snippet.json>
(snippet = JSON object with technique, level_claimed{category,text,design_ref}, level_note)."""
import json, sys
prop, snip = sys.argv[1], json.load(open(sys.argv[2]))
m = json.load(open('/verif/MANIFEST.json'))
e = dict(property_id=prop, quick_cmd=f"./check {prop} quick", thorough_cmd=f"./check {prop} thorough",
         evidence_file=f"evidence/{prop}.json", replay_cmd_template=f"./check {prop} --replay {{path}}", engine="rocq-model")
for k in ("technique", "level_claimed", "level_note"):
    if k in snip:
        e[k] = snip[k]
m['checks'] = sorted([c for c in m['checks'] if c['property_id'] != prop] + [e], key=lambda c: c['property_id'])
claimed = {c['property_id'] for c in m['checks']}
m['not_applicable'] = [x for x in m.get('not_applicable', []) if x['property_id'] not in claimed]
for en in m.get('engines', []):
    en['serves_properties'] = sorted(claimed)
json.dump(m, open('/verif/MANIFEST.json', 'w'), indent=1)
print("claimed:", sorted(claimed))
