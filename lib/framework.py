"""Shared machinery of ./check: Coq build + audit, extraction/driver build, harness build,
correspondence runs (implementation vs extracted model), oracle verdicts, known findings,
failing-input search, replay files and evidence."""
import hashlib
import json
import os
import re
import subprocess
import sys
import time
from concurrent.futures import ThreadPoolExecutor

VERIF = os.path.dirname(os.path.dirname(os.path.abspath(__file__)))
COQ = os.path.join(VERIF, "coq")
BUILD = os.path.join(VERIF, "build")
DRIVER = os.path.join(BUILD, "driver", "driver")
CARGO_TARGET = os.path.join(BUILD, "cargo")
GUARD = "hasenbanck_lzma_rust2_verif"
ENV = dict(os.environ, CARGO_NET_OFFLINE="true", CARGO_TARGET_DIR=CARGO_TARGET)

FORBIDDEN = re.compile(
    r"\b(Admitted|admit|Axiom|Axioms|Parameter|Parameters|Conjecture|Conjectures|Admit Obligations)\b"
    r"|Unset\s+Guard|bypass_check|type-in-type|impredicative-set|Unset\s+Universe\s+Checking|Unset\s+Positivity")

# Axioms that may appear under Print Assumptions (standard-library axioms only; see DESIGN.md §8)
ALLOWED_AXIOMS = {
    "FunctionalExtensionality.functional_extensionality_dep",
    "functional_extensionality_dep",
    "Eqdep.Eq_rect_eq.eq_rect_eq",
    "Classical_Prop.classic",
    "ProofIrrelevance.proof_irrelevance",
    "JMeq.JMeq_eq",
}


def sh(cmd, timeout=None, cwd=None, env=None, input=None):
    """Run a shell command; returns (rc, output). rc=124 on timeout."""
    try:
        p = subprocess.run(cmd, shell=isinstance(cmd, str), cwd=cwd, env=env or ENV, input=input,
                           stdout=subprocess.PIPE, stderr=subprocess.STDOUT, timeout=timeout, text=True)
        out = "\n".join(l for l in p.stdout.splitlines() if not l.startswith("WARNING conda"))
        return p.returncode, out
    except subprocess.TimeoutExpired as e:
        return 124, (e.stdout or "") if isinstance(e.stdout, str) else "timeout"


# ------------------------------------------------------------------------------------------------
# Coq side
# ------------------------------------------------------------------------------------------------

def coq_sources():
    out = []
    for root, _, files in os.walk(COQ):
        for f in files:
            if f.endswith(".v"):
                out.append(os.path.join(root, f))
    return sorted(out)


def strip_comments(text):
    """Remove (possibly nested) Coq comments so that words inside comments are not flagged."""
    out, depth, i = [], 0, 0
    while i < len(text):
        if text.startswith("(*", i):
            depth += 1
            i += 2
        elif text.startswith("*)", i) and depth > 0:
            depth -= 1
            i += 2
        else:
            if depth == 0:
                out.append(text[i])
            i += 1
    return "".join(out)


def hygiene():
    """Forbidden constructs anywhere in the development (outside comments)."""
    bad = []
    for p in coq_sources():
        body = strip_comments(open(p).read())
        for n, line in enumerate(body.splitlines(), 1):
            if FORBIDDEN.search(line):
                bad.append(f"{os.path.relpath(p, VERIF)}: {line.strip()[:120]}")
    # section-less Variable/Hypothesis: flag any use at top level (we do not use sections with
    # Variables outside Section ... End, checked by coqc itself through Print Assumptions)
    return bad


def ensure_makefile():
    """_CoqProject is generated: every .v under coq/ is part of the development."""
    mk = os.path.join(COQ, "Makefile")
    cp = os.path.join(COQ, "_CoqProject")
    files = sorted(os.path.relpath(p, COQ) for p in coq_sources())
    text = ("-Q . LzVerif\n-arg -w -arg -notation-overridden,-deprecated-hint-without-locality,"
            "-deprecated-instance-without-locality\n" + "\n".join(files) + "\n")
    old = open(cp).read() if os.path.exists(cp) else ""
    if old != text or not os.path.exists(mk):
        open(cp, "w").write(text)
        sh("coq_makefile -f _CoqProject -o Makefile", cwd=COQ, timeout=120)


def coq_build(target, timeout=3000):
    """Full .vo build (never -vos) of one target and its dependencies."""
    ensure_makefile()
    rc, out = sh(f"make -j16 {target}", cwd=COQ, timeout=timeout)
    return rc == 0, out


def coq_audit(prop_file):
    """Re-compiles Properties/<prop>.v on its own (output outside the source tree) and parses the
    Print Assumptions answers.  Returns dict(theorems=[names], closed=[...], axioms={name:[...]},
    ok=bool, log=str)."""
    src = os.path.join(COQ, prop_file)
    text = strip_comments(open(src).read())
    theorems = re.findall(r"^\s*Theorem\s+(\w+)", text, re.M)
    printed = re.findall(r"Print\s+Assumptions\s+(\w+)\s*\.", text)
    os.makedirs(os.path.join(BUILD, "audit"), exist_ok=True)
    vo = os.path.join(BUILD, "audit", os.path.basename(prop_file) + "o")
    rc, out = sh(f"coqc -Q {COQ} LzVerif -o {vo} {src}", timeout=1200)
    res = dict(theorems=theorems, printed=printed, closed=[], axioms={}, ok=False, log=out[-3000:])
    if rc != 0:
        return res
    blocks = re.split(r"^(?=Closed under the global context|Axioms:)", out, flags=re.M)
    blocks = [b for b in blocks if b.startswith("Closed under") or b.startswith("Axioms:")]
    if len(blocks) != len(printed):
        res["log"] += f"\n[audit] {len(printed)} Print Assumptions but {len(blocks)} answers"
        return res
    ok = set(theorems) <= set(printed) and len(theorems) > 0
    for name, b in zip(printed, blocks):
        if b.startswith("Closed under"):
            res["closed"].append(name)
        else:
            ax = re.findall(r"^(\S+)\s*:", b, re.M)
            ax = [a for a in ax if a != "Axioms"]
            res["axioms"][name] = ax
            if not all(a in ALLOWED_AXIOMS for a in ax):
                ok = False
    res["ok"] = ok
    return res


# ------------------------------------------------------------------------------------------------
# Executables
# ------------------------------------------------------------------------------------------------

def newest_mtime(paths):
    m = 0
    for p in paths:
        if os.path.isdir(p):
            for root, _, files in os.walk(p):
                for f in files:
                    m = max(m, os.path.getmtime(os.path.join(root, f)))
        elif os.path.exists(p):
            m = max(m, os.path.getmtime(p))
    return m


def build_driver():
    """Extraction + ocamlopt; skipped when the binary is newer than every model/driver source."""
    srcs = [p for p in coq_sources() if "/Properties/" not in p and not p.endswith("Proofs.v")]
    srcs.append(os.path.join(VERIF, "driver"))
    srcs.append(os.path.join(COQ, "Extract"))
    if os.path.exists(DRIVER) and os.path.getmtime(DRIVER) >= newest_mtime(srcs):
        return True, "up to date"
    # extraction needs the .vo of everything Extract.v imports
    mods = ["Base.Bytes"]
    exdir = os.path.join(COQ, "Extract")
    for f in sorted(os.listdir(exdir)):
        if f.endswith(".ext"):
            for l in open(os.path.join(exdir, f)):
                if l.startswith("Require:"):
                    mods += l.split()[1:]
    ok, out = coq_build(" ".join(x.replace(".", "/") + ".vo" for x in mods))
    if not ok:
        return False, out
    rc, out = sh(os.path.join(VERIF, "driver", "build.sh"), timeout=1800)
    return rc == 0, out


# Feature configurations of the crate under test (harness cargo arguments).  A profile string may
# carry a configuration as "<profile>@<config>" (e.g. "release@noopt"), so that results, replay
# files and ./check --replay name the binary they belong to.
CONFIGS = {
    "default": "",
    "noopt": "--no-default-features",       # std, encoder, xz, lzip WITHOUT the crate's `optimization` feature
}


def split_profile(profile, config="default"):
    if "@" in profile:
        profile, config = profile.split("@", 1)
    return profile, config


def harness_bin(profile="release", config="default"):
    profile, config = split_profile(profile, config)
    sub = "release" if profile == "release" else profile
    return os.path.join(CARGO_TARGET + ("" if config == "default" else "-" + config), sub, "lzverif")


def build_harness(profile="release", hooks=True, config="default", features=None):
    """cargo build of the harness against /repo's current working tree."""
    profile, config = split_profile(profile, config)
    if features is None:
        features = CONFIGS.get(config, "")
    env = dict(ENV)
    if hooks:
        env["RUSTFLAGS"] = f"--cfg {GUARD}"
    if config != "default":
        env["CARGO_TARGET_DIR"] = CARGO_TARGET + "-" + config
    # the area registry is generated by harness/build.rs from the a_*.rs files present: make sure it
    # is regenerated whenever that set changes (cargo's directory mtime tracking is not reliable here)
    hdir = os.path.join(VERIF, "harness")
    names = ",".join(sorted(f for f in os.listdir(os.path.join(hdir, "src")) if f.startswith("a_")))
    stamp = os.path.join(BUILD, "areas.list")
    os.makedirs(BUILD, exist_ok=True)
    if not os.path.exists(stamp) or open(stamp).read() != names:
        os.utime(os.path.join(hdir, "build.rs"), None)
        open(stamp, "w").write(names)
    prof = "--release" if profile == "release" else f"--profile {profile}"
    feat = "" if not features else " " + features
    rc, out = sh(f"cargo build --offline {prof}{feat}", cwd=os.path.join(VERIF, "harness"), env=env, timeout=3000)
    return rc == 0, out


def run_driver(cases_path, out_path, shards=16, timeout=3000):
    lines = open(cases_path).read().splitlines()
    if not lines:
        open(out_path, "w").write("")
        return True, ""
    # balance shards by line length (long inputs dominate)
    order = sorted(range(len(lines)), key=lambda i: -len(lines[i]))
    buckets = [[] for _ in range(min(shards, len(lines)))]
    loads = [0] * len(buckets)
    for i in order:
        k = loads.index(min(loads))
        buckets[k].append(lines[i])
        loads[k] += len(lines[i]) + 50

    def one(b):
        # deep (non-tail) recursion of extracted list functions on multi-megabyte inputs
        p = subprocess.run(["bash", "-c", f"ulimit -s unlimited 2>/dev/null; exec {DRIVER}"],
                           input="\n".join(b) + "\n", stdout=subprocess.PIPE, stderr=subprocess.PIPE,
                           text=True, timeout=timeout)
        return p.returncode, p.stdout, p.stderr

    results = {}
    errs = []
    with ThreadPoolExecutor(len(buckets)) as ex:
        for rc, so, se in ex.map(one, buckets):
            if rc != 0:
                errs.append(se[-500:])
            for l in so.splitlines():
                k, _, v = l.partition(" ")
                results[k] = v
    with open(out_path, "w") as f:
        for l in lines:
            k = l.split(" ", 1)[0]
            f.write(f"{k} {results.get(k, 'MISSING')}\n")
    return not errs, "\n".join(errs)


def read_kv(path):
    d = {}
    for l in open(path).read().splitlines():
        k, _, v = l.partition(" ")
        d[k] = v
    return d


# ------------------------------------------------------------------------------------------------
# Extraction cross-check: a sample of the cases the extracted driver answered is evaluated again
# inside Coq (vm_compute on the same Gallina definitions) and compared there (Base/XCheck.v).
# ------------------------------------------------------------------------------------------------

def _z(s):
    return f"({int(s)})"


def _zl(hexs):
    if hexs == "-":
        return "[]"
    return "[" + ";".join(str(int(hexs[i:i + 2], 16)) for i in range(0, len(hexs), 2)) + "]"


def _parts(s):
    if s == ".":
        return "[]"
    return "[" + ";".join(_zl(x) for x in s.split(",")) + "]"


def _b(s):
    return "true" if s == "1" else "false"


def _us(s):
    return "18446744073709551615" if s == "-" else _z(s)


_ARCH = dict(x86="X86", arm="ARM", armthumb="ARMT", arm64="ARM64", ppc="PPC", sparc="SPARC", ia64="IA64", riscv="RISCV")


def _exp_out(txt, kind):
    """Driver answer -> Gallina term of type xout _ ; None if the answer is not a value of the model."""
    w = txt.split(" ")
    try:
        if w[0] == "OK":
            if kind == "bytes" and len(w) == 2:
                return f"(XOk {_zl(w[1])})"
            if kind == "z" and len(w) == 2:
                return f"(XOk {_z(w[1])})"
            if kind == "pair" and len(w) == 3:
                return f"(XOk ({_z(w[1])}, {_z(w[2])}))"
            return None
        if w[0] == "ERR" and len(w) == 2:
            return f"(XErr {_z(w[1])})"
        if txt == "PANIC":
            return "XPanic"
        if txt == "FUEL":
            return "XFuel"
    except ValueError:
        return None
    return None


def _exp_opt(txt):
    w = txt.split(" ")
    if w[0] == "OK" and len(w) == 2:
        return f"(Some {_zl(w[1])})"
    if txt == "PANIC":
        return "None"
    return None


def _ep(d, lc, lp, pb, mode, mf, nice):
    return f"(mk_enc_params {_z(d)} {_z(lc)} {_z(lp)} {_z(pb)} {_z(mode)} {_z(mf)} {_z(nice)})"


def _xc_out(kind, term):
    eqb = dict(bytes="zlist_eqb", z="Z.eqb", pair="zpair_eqb")[kind]
    return lambda a, m: (lambda e: e and f"x_outcome {eqb} ({term(a)}) {e}")(_exp_out(m, kind))


# command -> (modules, function(args, model answer) -> Gallina boolean term or None).  The terms
# repeat, in Gallina, exactly what the handler of the same command in driver/h_<area>.ml applies.
XCHECK = {
    "delta_enc": ("Filter.Delta", lambda a, m: (lambda e: e and f"x_option zlist_eqb (delta_write_parts {_z(a[0])} {_parts(a[1])}) {e}")(_exp_opt(m))),
    "delta_dec": ("Filter.Delta", lambda a, m: (lambda e: e and f"x_option zlist_eqb (delta_read_parts {_z(a[0])} {_parts(a[1])}) {e}")(_exp_opt(m))),
    "delta_spec": ("Filter.Delta", lambda a, m: (lambda e: e and f"x_option zlist_eqb (Some (delta_spec_enc {_z(a[0])} [] {_zl(a[1])})) {e}")(_exp_opt(m))),
    "bcj_enc": ("Filter.Bcj Filter.BcjStream", _xc_out("bytes", lambda a: f"bcj_enc_parts {_ARCH[a[0]]} {_z(a[1])} {_parts(a[2])}")),
    "bcj_enc_short": ("Filter.Bcj Filter.BcjStream", _xc_out("bytes", lambda a: f"bcj_enc_parts {_ARCH[a[0]]} {_z(a[1])} {_parts(a[2])}")),
    "bcj_spec": ("Filter.Bcj Filter.BcjStream", _xc_out("bytes", lambda a: f"bcj_stream {_ARCH[a[0]]} {'true' if a[1] == 'enc' else 'false'} {_z(a[2])} {_zl(a[3])}")),
    "lzip_dict_enc": ("Format.LzipDict", _xc_out("z", lambda a: f"lzip_encode_dict_size {_z(a[0])}")),
    "lzip_dict_enc_old": ("Format.LzipDict", _xc_out("z", lambda a: f"lzip_encode_dict_size_old {_z(a[0])}")),
    "lzip_dict_dec": ("Format.LzipDict", _xc_out("z", lambda a: f"lzip_decode_dict_size {_z(a[0])}")),
    "lzip_header_dict": ("Format.LzipDict", _xc_out("z", lambda a: f"lzip_header_dict {_z(a[0])}")),
    "mu_enc": ("Arith.MemUsage", _xc_out("z", lambda a: f"enc_estimate {_b(a[0])} {_ep(a[1], a[2], a[3], 2, a[4], a[5], 64)}")),
    "mu_enc_old": ("Arith.MemUsage", _xc_out("z", lambda a: f"enc_estimate_old {_b(a[0])} {_ep(a[1], a[2], a[3], 2, a[4], a[5], 64)}")),
    "mu_dec": ("Arith.MemUsage", _xc_out("z", lambda a: f"dec_estimate {_b(a[0])} {_z(a[1])} {_z(a[2])} {_z(a[3])}")),
    "mu_decp": ("Arith.MemUsage", _xc_out("z", lambda a: f"dec_estimate_by_props {_b(a[0])} {_z(a[1])} {_z(a[2])}")),
    "mu_dec2": ("Arith.MemUsage", _xc_out("z", lambda a: f"dec2_estimate {_b(a[0])} {_z(a[1])}")),
    "mu_dec2_old": ("Arith.MemUsage", _xc_out("z", lambda a: f"dec2_estimate_old {_b(a[0])} {_z(a[1])}")),
    "al_enc": ("Arith.MemUsage", _xc_out("pair", lambda a: f"obs_al_enc {_b(a[0])} {_z(a[1])} {_ep(*a[2:9])}")),
    "al_encr": ("Arith.MemUsage", _xc_out("pair", lambda a: f"obs_al_encr {_b(a[0])} {_ep(*a[1:8])}")),
    "al_dec": ("Arith.MemUsage", _xc_out("pair", lambda a: f"obs_al_dec {_b(a[0])} {_z(a[1])} {_z(a[2])} {_z(a[3])} {_us(a[5])}")),
    "al_dec2": ("Arith.MemUsage", _xc_out("pair", lambda a: f"obs_al_dec2 {_b(a[0])} {_z(a[1])} {_z(a[2])} {_z(a[3])}")),
}
_XCHECK_DONE = set()
_FILTER_CODE = dict(delta=0, x86=1, ppc=2, ia64=3, arm=4, armthumb=5, sparc=6, arm64=7, riscv=8)


def _opt_filters(s):
    if s == ".":
        return "[]"
    out = []
    for f in s.split(","):
        w = f.split(":")
        out += [str(_FILTER_CODE.get(w[0], 9)), _z(w[1])] if len(w) == 2 else ["9", "0"]
    return "[" + ";".join(out) + "]"


def _opt_term(a, m):
    """driver/h_options.ml: opt <ck> <kind> <d> <lc> <lp> <pb> <mode> <mf> <nice> <depth> <preset> <filters> <_> <len>"""
    preset = "(-1)" if a[10] == "-" else "0" if a[10] == "e" else _z(a[10][1:])
    w = m.split(" ")
    st = dict(new=0, write=1, finish=2)
    if m == "OK":
        e = "(0, 0, 0)"
    elif w[0] == "ERR" and len(w) == 3 and w[2] in st:
        e = f"(1, {_z(w[1])}, {st[w[2]]})"
    elif w[0] == "PANIC" and len(w) == 2 and w[1] in st:
        e = f"(2, 0, {st[w[1]]})"
    else:
        return None
    o = f"(mk_lzma_opts {_z(a[2])} {_z(a[3])} {_z(a[4])} {_z(a[5])} {_z(a[6])} {_z(a[7])} {_z(a[8])} {_z(a[9])} {preset})"
    return f"ztriple_eqb (obs_opt {_b(a[0])} {_z(a[1])} {o} {_opt_filters(a[11])} {_z(a[13])}) {e}"


XCHECK["opt"] = ("Arith.Options", _opt_term)


def _xread(m):
    """driver/h_lzmadec.ml answers -> Gallina term of type xread"""
    w = m.split(" ")
    try:
        if w[0] == "END" and len(w) == 3:
            return f"(XEnd {_zl(w[1])} {_z(w[2])})"
        if w[0].startswith("ERR") and len(w) == 2:
            return f"(XErrOut {_z(w[0][3:])} {_zl(w[1])})"
        if w[0].startswith("CERR") and len(w) == 1:
            return f"(XCErr {_z(w[0][4:])})"
    except ValueError:
        return None
    return {"PANIC": "XRPanic"}.get(m)        # FUEL answers depend on the driver's own budget: not compared


def _ints(s):
    return "[]" if s == "." else "[" + ";".join(_z(x) for x in s.split(",")) + "]"


def _pre(s):
    return "None" if s == "none" else f"(Some {_zl(s)})"


def _unc(s):
    return "18446744073709551615" if s == "-1" else _z(s)


def _rd(fn, new, szs_ix):
    return lambda a, m: (lambda e: e and f"{fn} ({new(a)}) {_ints(a[szs_ix])} {e}")(_xread(m))


def _bcj_dec_term(a, m):
    """driver/h_bcj.ml read_all: OK <hex> | ERR <c> <hex> (error after delivered bytes) | ERR <c> | PANIC"""
    evs = []
    if a[2] != ".":
        for t in a[2].split(","):
            if t.startswith("!"):
                evs.append(f"IErr {_z(t[1:])}")
            elif t not in ("-", ""):
                evs.append(f"IData {_zl(t)}")
    call = f"bcj_dec_script {_ARCH[a[0]]} {_z(a[1])} [{';'.join(evs)}] {_ints(a[3])}"
    w = m.split(" ")
    if w[0] == "OK" and len(w) == 2:
        pat = f"Ok (b, None) => zlist_eqb b {_zl(w[1])}"
    elif w[0] == "ERR" and len(w) == 3:
        pat = f"Ok (b, Some c) => (c =? {_z(w[1])}) && zlist_eqb b {_zl(w[2])}"
    elif w[0] == "ERR" and len(w) == 2:
        pat = f"Err c => c =? {_z(w[1])}"
    elif m == "PANIC":
        pat = "Panic _ => true"
    else:
        return None
    return f"match {call} with {pat} | _ => false end"


XCHECK["bcj_dec"] = ("Filter.Bcj Filter.BcjStream", _bcj_dec_term)
def _fl(s):
    return ("true" if s[:1] == "c" else "false") + " " + ("true" if s[1:2] == "o" else "false")


# area twins (C14/C15): the bounds models of the unsafe fast paths
XCHECK["xmatch"] = ("Arith.UnsafeBounds", _xc_out("z", lambda a: f"extend_match {_fl(a[5])} {_zl(a[0])} {_z(a[1])} {_z(a[2])} {_z(a[3])} {_z(a[4])}"))
XCHECK["freject"] = ("Arith.UnsafeBounds", _xc_out("z", lambda a: f"match_len_fast_reject {_fl(a[4])} {_zl(a[0])} {_z(a[1])} {_z(a[2])} {_z(a[3])}"))
def _quad(call, q):
    """driver/h_twins.ml quad: "v,r,c,p" | E | X   -> Gallina boolean"""
    if q == "E":
        return f"match {call} with Err _ => true | _ => false end"
    if q == "X":
        return f"match {call} with Panic _ => true | _ => false end"
    w = q.split(",")
    if len(w) != 4:
        return None
    v, r, c, pp = (_z(x) for x in w)
    return f"match {call} with Ok (v, r, c, p) => (v =? {v}) && (r =? {r}) && (c =? {c}) && (p =? {pp}) | _ => false end"


def _dbits_term(disp):
    def f(a, m):
        w = m.split(" ")
        if w[0] != "OK" or len(w) != 4:
            return None
        args = f"{_zl(a[0])} {_z(a[1])} {_z(a[2])} {_z(a[3])} {_z(a[4])}"
        has_asm = "true" if a[5] == "asm" else "false"
        ts = [_quad(f"direct_bits_rust_loop {args}", w[1]),
              "true" if w[2] == "-" else _quad(f"direct_bits_asm {args}", w[2]),
              _quad(f"{disp} {has_asm} {args}", w[3])]
        if any(t is None for t in ts):
            return None
        # "-" is printed exactly when the assembly twin is not evaluated
        if (w[2] == "-") != (not (a[5] == "asm" and int(a[4]) > 0)):
            return "false"
        return "(" + ") && (".join(ts) + ")"
    return f


XCHECK["dbits"] = ("Arith.DirectBitsAsm", _dbits_term("direct_bits_dispatch"))
XCHECK["dbits_old"] = ("Arith.DirectBitsAsm", _dbits_term("direct_bits_dispatch_old"))
_DEC = "Codec.Lzma1 Codec.Lzma2Dec Codec.XCheckDec"
XCHECK["lzma2"] = (_DEC, _rd("x_lzma2", lambda a: f"lzma2_new {_zl(a[2])} {_z(a[0])} {_pre(a[1])}", 3))
XCHECK["lzma1_hdr"] = (_DEC, _rd("x_lzma1", lambda a: f"lzma1_new_mem_limit {_zl(a[1])} {_z(a[0])} None", 2))
XCHECK["lzma1_raw"] = (_DEC, _rd("x_lzma1", lambda a: f"lzma1_construct2 {_zl(a[6])} {_unc(a[0])} {_z(a[1])} {_z(a[2])} {_z(a[3])} {_z(a[4])} {_pre(a[5])}", 7))
XCHECK["lzma1_props"] = (_DEC, _rd("x_lzma1", lambda a: f"lzma1_construct1 {_zl(a[4])} {_unc(a[0])} {_z(a[1])} {_z(a[2])} {_pre(a[3])}", 5))
# reader cases are evaluated byte by byte inside Coq: only short sources
XCHECK_MAXLEN_BY_CMD = dict(lzma2=700, lzma1_hdr=700, lzma1_raw=700, lzma1_props=700)
XCHECK_SAMPLE = 48          # cases per area (at least 8 per stratum)
XCHECK_MAXLEN = 6000        # characters of a case line (a hex byte becomes a Z literal)


def xcheck(cases, model, workdir):
    """cases/model: dicts id -> command line / driver answer.  Returns dict(sampled, agreed,
    disagreed=[(cmd, driver answer)], skipped=reason or None)."""
    res = dict(sampled=0, agreed=0, disagreed=[], skipped=None)
    elig = []
    for k, line in cases.items():
        w = line.split(" ")
        if w[0] in XCHECK and len(line) <= XCHECK_MAXLEN_BY_CMD.get(w[0], XCHECK_MAXLEN) and k.lstrip("-").isdigit():
            elig.append(k)
    if not elig:
        res["skipped"] = "no command of this area has an in-Coq twin"
        return res
    # deterministic sample: evenly strided over the eligible cases of every stratum
    by_cmd = {}
    for k in elig:
        # strata: command x class of the driver's answer (OK / ERR / PANIC ...), so that the error
        # and panic branches of the model are cross-checked too
        by_cmd.setdefault(cases[k].split(" ")[0] + " " + model.get(k, "MISSING").split(" ")[0], []).append(k)
    per = max(8, XCHECK_SAMPLE // len(by_cmd))
    pick = []
    for cmd in sorted(by_cmd):
        ks = by_cmd[cmd]
        step = max(1, len(ks) // per)
        pick += ks[::step][:per]
    mods, terms = set(), []
    for k in pick:
        w = cases[k].split(" ")
        m, f = XCHECK[w[0]]
        try:
            t = f(w[1:], model.get(k, "MISSING"))
        except (IndexError, KeyError, ValueError):
            t = None
        if t:
            mods.update(m.split())
            terms.append((k, t))
    if not terms:
        res["skipped"] = "no sampled case had a model value to compare"
        return res
    ok, out = coq_build(" ".join(x.replace(".", "/") + ".vo" for x in sorted(mods | {"Base.XCheck"})))
    if not ok:
        res["skipped"] = "model libraries do not build (reported by the proof step)"
        return res
    os.makedirs(workdir, exist_ok=True)
    src = os.path.join(workdir, "xcheck.v")
    with open(src, "w") as f:
        f.write("From LzVerif Require Import Base.Bytes Base.XCheck " + " ".join(sorted(mods)) + ".\nOpen Scope Z_scope.\n")
        f.write("Definition xc : list (Z * bool) := [\n" + ";\n".join(f"({int(k)}, {t})" for k, t in terms) + "].\n")
        f.write("Eval vm_compute in x_failed xc.\n")
    rc, out = sh(f"coqc -noglob -Q {COQ} LzVerif -o {os.path.join(workdir, 'xcheck.vo')} {src}", timeout=900)
    res["sampled"] = len(terms)
    m = re.search(r"=\s*(\[[^\]]*\])\s*:\s*list Z", out)
    if rc == 124:
        res["sampled"] = 0
        res["skipped"] = "coqc time limit (900 s) reached; says nothing about the cases"
        return res
    if rc != 0 or not m:
        # a term that does not type-check means the table above no longer matches the model's
        # signatures: that is a fault of the cross-check, reported as such
        res["disagreed"] = [("xcheck.v did not compile", out[-600:])]
        return res
    bad = [x for x in re.findall(r"-?\d+", m.group(1))]
    res["agreed"] = len(terms) - len(bad)
    res["disagreed"] = [(short(cases[b], 300), model.get(b, "?")) for b in bad if b in cases]
    return res


# ------------------------------------------------------------------------------------------------
# Known findings
# ------------------------------------------------------------------------------------------------

def load_known(prop):
    """known-findings.txt lines:  known: property=Cxx id=<slug> match=/<regex>/ <description>
    The regex is matched against "<area> <command line> || <impl observation> || <oracle verdict>"."""
    out = []
    p = os.path.join(VERIF, "known-findings.txt")
    if not os.path.exists(p):
        return out
    for l in open(p).read().splitlines():
        m = re.match(r"known:\s+property=(\S+)\s+id=(\S+)\s+match=/(.*?)/\s+(.*)$", l)
        if m and m.group(1) == prop:
            out.append(dict(id=m.group(2), rx=re.compile(m.group(3)), desc=m.group(4)))
    return out


# ------------------------------------------------------------------------------------------------
# One correspondence run of an area
# ------------------------------------------------------------------------------------------------

class AreaResult:
    def __init__(self):
        self.n = 0
        self.mismatches = []      # (cmd, impl, model)
        self.oracle_fails = []    # (cmd, impl, verdict)
        self.dist = {}
        self.samples = []
        self.nontrivial = set()
        self.errors = []
        self.xcheck = dict(sampled=0, agreed=0)


def short(s, n=400):
    return s if len(s) <= n else s[:n] + f"...[{len(s)} chars]"


def run_area(area, tier, seed, profile="release", config="default", corpus=True, tag=""):
    """Corpus first, then generated cases; returns AreaResult."""
    res = AreaResult()
    hb = harness_bin(profile, config)
    base = os.path.join(BUILD, "run", f"{area}-{tier}{tag}")
    stages = []
    cfile = os.path.join(VERIF, "corpus", area + ".txt")
    if corpus and os.path.exists(cfile):
        stages.append(("corpus", f"{hb} exec {area} {cfile} {base}/corpus"))
    stages.append(("gen", f"{hb} gen {area} {tier} {seed} {base}/gen"))
    for name, cmd in stages:
        d = f"{base}/{name}"
        sh(f"rm -rf {d}")
        rc, out = sh(cmd, timeout=6000)
        if rc != 0:
            res.errors.append(f"harness {name} failed rc={rc}: {out[-800:]}")
            continue
        ok, err = run_driver(f"{d}/cases.txt", f"{d}/model.txt")
        if not ok:
            res.errors.append(f"driver failed on {name}: {err}")
        cases = read_kv(f"{d}/cases.txt")
        impl = read_kv(f"{d}/impl.txt")
        model = read_kv(f"{d}/model.txt")
        oracle = read_kv(f"{d}/oracle.txt")
        # once per area and check run: the model's answers do not depend on the build profile
        if os.environ.get("LZVERIF_NO_XCHECK") != "1" and name == "gen" and tag in ("", "-checked") \
                and area not in _XCHECK_DONE:
            _XCHECK_DONE.add(area)
            xc = xcheck(cases, model, f"{d}/xcheck")
            res.xcheck["sampled"] += xc["sampled"]
            res.xcheck["agreed"] += xc["agreed"]
            for c, a in xc["disagreed"]:
                res.errors.append(f"extraction cross-check: the extracted driver answered [{short(a, 200)}] on [{c}] but "
                                  f"vm_compute inside Coq on the same definitions does not (see {d}/xcheck/xcheck.v)")
        for k, cmd_line in cases.items():
            res.n += 1
            i, m, o = impl.get(k, "MISSING"), model.get(k, "MISSING"), oracle.get(k, "MISSING")
            if i != m:
                res.mismatches.append((cmd_line, i, m))
            if o != "ok":
                res.oracle_fails.append((cmd_line, i, o))
            if i not in ("OK -", "OK", "OK 0"):
                res.nontrivial.add(hashlib.sha1(cmd_line.encode()).hexdigest())
            if len(res.samples) < 4 and name == "gen" and (int(k) % 97 == 3 or len(cases) < 50):
                res.samples.append(dict(area=area, case=short(cmd_line, 300), impl=short(i, 200), model=short(m, 200), oracle=o))
        if name == "gen" and os.path.exists(f"{d}/dist.json"):
            try:
                res.dist = json.load(open(f"{d}/dist.json"))
            except Exception:
                pass
    return res


# ------------------------------------------------------------------------------------------------
# Reporting
# ------------------------------------------------------------------------------------------------

def write_replay(prop, kind, payload):
    os.makedirs(os.path.join(VERIF, "replays"), exist_ok=True)
    h = hashlib.sha1(json.dumps(payload, sort_keys=True).encode()).hexdigest()[:12]
    path = os.path.join(VERIF, "replays", f"{prop}-{kind}-{h}.json")
    with open(path, "w") as f:
        json.dump(payload, f, indent=1)
    return path


def write_evidence(prop, ev):
    os.makedirs(os.path.join(VERIF, "evidence"), exist_ok=True)
    with open(os.path.join(VERIF, "evidence", prop + ".json"), "w") as f:
        json.dump(ev, f, indent=1)
