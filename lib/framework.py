"""Shared machinery of ./check: Coq build + audit, extraction/driver build, harness build,
correspondence runs (implementation vs extracted model), oracle verdicts, known findings,
failing-input search, replay files and evidence."""
import hashlib
import json
import os
import re
import subprocess
import sys
import time
from concurrent.futures import ThreadPoolExecutor

VERIF = os.path.dirname(os.path.dirname(os.path.abspath(__file__)))
COQ = os.path.join(VERIF, "coq")
BUILD = os.path.join(VERIF, "build")
DRIVER = os.path.join(BUILD, "driver", "driver")
CARGO_TARGET = os.path.join(BUILD, "cargo")
GUARD = "hasenbanck_lzma_rust2_verif"
ENV = dict(os.environ, CARGO_NET_OFFLINE="true", CARGO_TARGET_DIR=CARGO_TARGET)

FORBIDDEN = re.compile(
    r"\b(Admitted|admit|Axiom|Axioms|Parameter|Parameters|Conjecture|Conjectures|Admit Obligations)\b"
    r"|Unset\s+Guard|bypass_check|type-in-type|impredicative-set|Unset\s+Universe\s+Checking|Unset\s+Positivity")

# Axioms that may appear under Print Assumptions (standard-library axioms only; see DESIGN.md §8)
ALLOWED_AXIOMS = {
    "FunctionalExtensionality.functional_extensionality_dep",
    "functional_extensionality_dep",
    "Eqdep.Eq_rect_eq.eq_rect_eq",
    "Classical_Prop.classic",
    "ProofIrrelevance.proof_irrelevance",
    "JMeq.JMeq_eq",
}


def sh(cmd, timeout=None, cwd=None, env=None, input=None):
    """Run a shell command; returns (rc, output). rc=124 on timeout."""
    try:
        p = subprocess.run(cmd, shell=isinstance(cmd, str), cwd=cwd, env=env or ENV, input=input,
                           stdout=subprocess.PIPE, stderr=subprocess.STDOUT, timeout=timeout, text=True)
        out = "\n".join(l for l in p.stdout.splitlines() if not l.startswith("WARNING conda"))
        return p.returncode, out
    except subprocess.TimeoutExpired as e:
        return 124, (e.stdout or "") if isinstance(e.stdout, str) else "timeout"


# ------------------------------------------------------------------------------------------------
# Coq side
# ------------------------------------------------------------------------------------------------

def coq_sources():
    out = []
    for root, _, files in os.walk(COQ):
        for f in files:
            if f.endswith(".v"):
                out.append(os.path.join(root, f))
    return sorted(out)


def strip_comments(text):
    """Remove (possibly nested) Coq comments so that words inside comments are not flagged."""
    out, depth, i = [], 0, 0
    while i < len(text):
        if text.startswith("(*", i):
            depth += 1
            i += 2
        elif text.startswith("*)", i) and depth > 0:
            depth -= 1
            i += 2
        else:
            if depth == 0:
                out.append(text[i])
            i += 1
    return "".join(out)


def hygiene():
    """Forbidden constructs anywhere in the development (outside comments)."""
    bad = []
    for p in coq_sources():
        body = strip_comments(open(p).read())
        for n, line in enumerate(body.splitlines(), 1):
            if FORBIDDEN.search(line):
                bad.append(f"{os.path.relpath(p, VERIF)}: {line.strip()[:120]}")
    # section-less Variable/Hypothesis: flag any use at top level (we do not use sections with
    # Variables outside Section ... End, checked by coqc itself through Print Assumptions)
    return bad


def ensure_makefile():
    """_CoqProject is generated: every .v under coq/ is part of the development."""
    mk = os.path.join(COQ, "Makefile")
    cp = os.path.join(COQ, "_CoqProject")
    files = sorted(os.path.relpath(p, COQ) for p in coq_sources())
    text = ("-Q . LzVerif\n-arg -w -arg -notation-overridden,-deprecated-hint-without-locality,"
            "-deprecated-instance-without-locality\n" + "\n".join(files) + "\n")
    old = open(cp).read() if os.path.exists(cp) else ""
    if old != text or not os.path.exists(mk):
        open(cp, "w").write(text)
        sh("coq_makefile -f _CoqProject -o Makefile", cwd=COQ, timeout=120)


def coq_build(target, timeout=3000):
    """Full .vo build (never -vos) of one target and its dependencies."""
    ensure_makefile()
    rc, out = sh(f"make -j16 {target}", cwd=COQ, timeout=timeout)
    return rc == 0, out


def coq_audit(prop_file):
    """Re-compiles Properties/<prop>.v on its own (output outside the source tree) and parses the
    Print Assumptions answers.  Returns dict(theorems=[names], closed=[...], axioms={name:[...]},
    ok=bool, log=str)."""
    src = os.path.join(COQ, prop_file)
    text = strip_comments(open(src).read())
    theorems = re.findall(r"^\s*Theorem\s+(\w+)", text, re.M)
    printed = re.findall(r"Print\s+Assumptions\s+(\w+)\s*\.", text)
    os.makedirs(os.path.join(BUILD, "audit"), exist_ok=True)
    vo = os.path.join(BUILD, "audit", os.path.basename(prop_file) + "o")
    rc, out = sh(f"coqc -Q {COQ} LzVerif -o {vo} {src}", timeout=1200)
    res = dict(theorems=theorems, printed=printed, closed=[], axioms={}, ok=False, log=out[-3000:])
    if rc != 0:
        return res
    blocks = re.split(r"^(?=Closed under the global context|Axioms:)", out, flags=re.M)
    blocks = [b for b in blocks if b.startswith("Closed under") or b.startswith("Axioms:")]
    if len(blocks) != len(printed):
        res["log"] += f"\n[audit] {len(printed)} Print Assumptions but {len(blocks)} answers"
        return res
    ok = set(theorems) <= set(printed) and len(theorems) > 0
    for name, b in zip(printed, blocks):
        if b.startswith("Closed under"):
            res["closed"].append(name)
        else:
            ax = re.findall(r"^(\S+)\s*:", b, re.M)
            ax = [a for a in ax if a != "Axioms"]
            res["axioms"][name] = ax
            if not all(a in ALLOWED_AXIOMS for a in ax):
                ok = False
    res["ok"] = ok
    return res


# ------------------------------------------------------------------------------------------------
# Executables
# ------------------------------------------------------------------------------------------------

def newest_mtime(paths):
    m = 0
    for p in paths:
        if os.path.isdir(p):
            for root, _, files in os.walk(p):
                for f in files:
                    m = max(m, os.path.getmtime(os.path.join(root, f)))
        elif os.path.exists(p):
            m = max(m, os.path.getmtime(p))
    return m


def build_driver():
    """Extraction + ocamlopt; skipped when the binary is newer than every model/driver source."""
    srcs = [p for p in coq_sources() if "/Properties/" not in p and not p.endswith("Proofs.v")]
    srcs.append(os.path.join(VERIF, "driver"))
    srcs.append(os.path.join(COQ, "Extract"))
    if os.path.exists(DRIVER) and os.path.getmtime(DRIVER) >= newest_mtime(srcs):
        return True, "up to date"
    # extraction needs the .vo of everything Extract.v imports
    mods = ["Base.Bytes"]
    exdir = os.path.join(COQ, "Extract")
    for f in sorted(os.listdir(exdir)):
        if f.endswith(".ext"):
            for l in open(os.path.join(exdir, f)):
                if l.startswith("Require:"):
                    mods += l.split()[1:]
    ok, out = coq_build(" ".join(x.replace(".", "/") + ".vo" for x in mods))
    if not ok:
        return False, out
    rc, out = sh(os.path.join(VERIF, "driver", "build.sh"), timeout=1800)
    return rc == 0, out


# Feature configurations of the crate under test (harness cargo arguments).  A profile string may
# carry a configuration as "<profile>@<config>" (e.g. "release@noopt"), so that results, replay
# files and ./check --replay name the binary they belong to.
CONFIGS = {
    "default": "",
    "noopt": "--no-default-features",       # std, encoder, xz, lzip WITHOUT the crate's `optimization` feature
}


def split_profile(profile, config="default"):
    if "@" in profile:
        profile, config = profile.split("@", 1)
    return profile, config


def harness_bin(profile="release", config="default"):
    profile, config = split_profile(profile, config)
    sub = "release" if profile == "release" else profile
    return os.path.join(CARGO_TARGET + ("" if config == "default" else "-" + config), sub, "lzverif")


def build_harness(profile="release", hooks=True, config="default", features=None):
    """cargo build of the harness against /repo's current working tree."""
    profile, config = split_profile(profile, config)
    if features is None:
        features = CONFIGS.get(config, "")
    env = dict(ENV)
    if hooks:
        env["RUSTFLAGS"] = f"--cfg {GUARD}"
    if config != "default":
        env["CARGO_TARGET_DIR"] = CARGO_TARGET + "-" + config
    # the area registry is generated by harness/build.rs from the a_*.rs files present: make sure it
    # is regenerated whenever that set changes (cargo's directory mtime tracking is not reliable here)
    hdir = os.path.join(VERIF, "harness")
    names = ",".join(sorted(f for f in os.listdir(os.path.join(hdir, "src")) if f.startswith("a_")))
    stamp = os.path.join(BUILD, "areas.list")
    os.makedirs(BUILD, exist_ok=True)
    if not os.path.exists(stamp) or open(stamp).read() != names:
        os.utime(os.path.join(hdir, "build.rs"), None)
        open(stamp, "w").write(names)
    prof = "--release" if profile == "release" else f"--profile {profile}"
    feat = "" if not features else " " + features
    rc, out = sh(f"cargo build --offline {prof}{feat}", cwd=os.path.join(VERIF, "harness"), env=env, timeout=3000)
    return rc == 0, out


def run_driver(cases_path, out_path, shards=16, timeout=3000):
    lines = open(cases_path).read().splitlines()
    if not lines:
        open(out_path, "w").write("")
        return True, ""
    # balance shards by line length (long inputs dominate)
    order = sorted(range(len(lines)), key=lambda i: -len(lines[i]))
    buckets = [[] for _ in range(min(shards, len(lines)))]
    loads = [0] * len(buckets)
    for i in order:
        k = loads.index(min(loads))
        buckets[k].append(lines[i])
        loads[k] += len(lines[i]) + 50

    def one(b):
        # deep (non-tail) recursion of extracted list functions on multi-megabyte inputs
        p = subprocess.run(["bash", "-c", f"ulimit -s unlimited 2>/dev/null; exec {DRIVER}"],
                           input="\n".join(b) + "\n", stdout=subprocess.PIPE, stderr=subprocess.PIPE,
                           text=True, timeout=timeout)
        return p.returncode, p.stdout, p.stderr

    results = {}
    errs = []
    with ThreadPoolExecutor(len(buckets)) as ex:
        for rc, so, se in ex.map(one, buckets):
            if rc != 0:
                errs.append(se[-500:])
            for l in so.splitlines():
                k, _, v = l.partition(" ")
                results[k] = v
    with open(out_path, "w") as f:
        for l in lines:
            k = l.split(" ", 1)[0]
            f.write(f"{k} {results.get(k, 'MISSING')}\n")
    return not errs, "\n".join(errs)


def read_kv(path):
    d = {}
    for l in open(path).read().splitlines():
        k, _, v = l.partition(" ")
        d[k] = v
    return d


# ------------------------------------------------------------------------------------------------
# Known findings
# ------------------------------------------------------------------------------------------------

def load_known(prop):
    """known-findings.txt lines:  known: property=Cxx id=<slug> match=/<regex>/ <description>
    The regex is matched against "<area> <command line> || <impl observation> || <oracle verdict>"."""
    out = []
    p = os.path.join(VERIF, "known-findings.txt")
    if not os.path.exists(p):
        return out
    for l in open(p).read().splitlines():
        m = re.match(r"known:\s+property=(\S+)\s+id=(\S+)\s+match=/(.*?)/\s+(.*)$", l)
        if m and m.group(1) == prop:
            out.append(dict(id=m.group(2), rx=re.compile(m.group(3)), desc=m.group(4)))
    return out


# ------------------------------------------------------------------------------------------------
# One correspondence run of an area
# ------------------------------------------------------------------------------------------------

class AreaResult:
    def __init__(self):
        self.n = 0
        self.mismatches = []      # (cmd, impl, model)
        self.oracle_fails = []    # (cmd, impl, verdict)
        self.dist = {}
        self.samples = []
        self.nontrivial = set()
        self.errors = []


def short(s, n=400):
    return s if len(s) <= n else s[:n] + f"...[{len(s)} chars]"


def run_area(area, tier, seed, profile="release", config="default", corpus=True, tag=""):
    """Corpus first, then generated cases; returns AreaResult."""
    res = AreaResult()
    hb = harness_bin(profile, config)
    base = os.path.join(BUILD, "run", f"{area}-{tier}{tag}")
    stages = []
    cfile = os.path.join(VERIF, "corpus", area + ".txt")
    if corpus and os.path.exists(cfile):
        stages.append(("corpus", f"{hb} exec {area} {cfile} {base}/corpus"))
    stages.append(("gen", f"{hb} gen {area} {tier} {seed} {base}/gen"))
    for name, cmd in stages:
        d = f"{base}/{name}"
        sh(f"rm -rf {d}")
        rc, out = sh(cmd, timeout=6000)
        if rc != 0:
            res.errors.append(f"harness {name} failed rc={rc}: {out[-800:]}")
            continue
        ok, err = run_driver(f"{d}/cases.txt", f"{d}/model.txt")
        if not ok:
            res.errors.append(f"driver failed on {name}: {err}")
        cases = read_kv(f"{d}/cases.txt")
        impl = read_kv(f"{d}/impl.txt")
        model = read_kv(f"{d}/model.txt")
        oracle = read_kv(f"{d}/oracle.txt")
        for k, cmd_line in cases.items():
            res.n += 1
            i, m, o = impl.get(k, "MISSING"), model.get(k, "MISSING"), oracle.get(k, "MISSING")
            if i != m:
                res.mismatches.append((cmd_line, i, m))
            if o != "ok":
                res.oracle_fails.append((cmd_line, i, o))
            if i not in ("OK -", "OK", "OK 0"):
                res.nontrivial.add(hashlib.sha1(cmd_line.encode()).hexdigest())
            if len(res.samples) < 4 and name == "gen" and (int(k) % 97 == 3 or len(cases) < 50):
                res.samples.append(dict(area=area, case=short(cmd_line, 300), impl=short(i, 200), model=short(m, 200), oracle=o))
        if name == "gen" and os.path.exists(f"{d}/dist.json"):
            try:
                res.dist = json.load(open(f"{d}/dist.json"))
            except Exception:
                pass
    return res


# ------------------------------------------------------------------------------------------------
# Reporting
# ------------------------------------------------------------------------------------------------

def write_replay(prop, kind, payload):
    os.makedirs(os.path.join(VERIF, "replays"), exist_ok=True)
    h = hashlib.sha1(json.dumps(payload, sort_keys=True).encode()).hexdigest()[:12]
    path = os.path.join(VERIF, "replays", f"{prop}-{kind}-{h}.json")
    with open(path, "w") as f:
        json.dump(payload, f, indent=1)
    return path


def write_evidence(prop, ev):
    os.makedirs(os.path.join(VERIF, "evidence"), exist_ok=True)
    with open(os.path.join(VERIF, "evidence", prop + ".json"), "w") as f:
        json.dump(ev, f, indent=1)
