"""Per-property configuration of ./check."""

COMMON_TB = [
    "Coq 8.16.1 kernel (coqc, full .vo builds; guard/positivity/universe checks on; no -type-in-type, no -impredicative-set); native_compute is not used, vm_compute is used for finite facts",
    "Extraction: ExtrOcamlBasic + ExtrOcamlZBigInt (bool/option/unit/list/prod/sumbool -> OCaml natives; positive/N/Z -> zarith Z.t with the library's Extract Constant directives for add, sub, mul, div, modulo, compare, min/max, pred/succ, abs, opp, of_nat/to_nat...); no hand-written Extract Constant; OCaml 4.13.1 + zarith 1.12",
    "Correspondence machinery: Rust harness /verif/harness (generators, executors, oracles), OCaml driver line protocol, lib/framework.py (diff, evidence)",
    "Hand-written Gallina models: the theorems are about the models; the Rust code is tied to them only by the correspondence run of this check",
]

PROPS = {
    "C11": dict(
        coq="Properties/C11.v",
        areas=["delta"],
        level="proof",
        theorems_expected=["C11_delta_inverse", "C11_delta_matches_reference", "C11_delta_write_partition", "C11_delta_read_partition"],
        rule="cases = (filter, parameters, data from 10 compressibility classes, write-call partition / inner chunking + destination-size history) "
             "derived from VERIF_SEED by SplitMix64; each case is run on the implementation (DeltaWriter/DeltaReader, BCJ writers/readers) and on the "
             "extracted Gallina model and the bytes are compared; the oracle additionally checks decode(encode(x)) = x on the implementation and "
             "byte equality with liblzma's filter. distinct_nontrivial = distinct command lines whose output is non-empty",
        trusted_base=COMMON_TB + ["liblzma 5.x (liblzma-sys 0.4.8, static) as the reference filter implementation in the oracle"],
        assumptions=["the inner reader/writer of the filter behaves as a perfect source/sink (fault behaviour is C05's business)"],
    ),
}
