//! Area "twins" (C14 / C15): the alternative code paths of the crate, driven on the same state
//! through the cfg-gated accessors (hook H5), with the shadow assertions (hook H6) compiled in.
//!   norm <offset> <align> <i32 list>                        scalar vs dispatching renormalisation
//!   dbits <buf> <pos> <range> <code> <count>                portable vs assembly vs dispatch
//!   xmatch <buf> <read_pos> <cur_len> <distance> <limit>    extend_match
//!   freject <buf> <read_pos> <dist> <len_limit>             get_match_len_fast_reject
//!   aalloc <min_length>                                     AlignedMemoryI32::new
//!   lzma1encb / lzma2encb <k> <args of lzma1enc/lzma2enc>   encoder with lz_pos bias k (hook H2)
//!   lzma2 ...                                               (area lzmadec's command) truncated chunks
//! The build configuration (SIMD lanes, assembly present, overflow checks, optimization) is handed
//! to the model as one extra argument, because the model has to predict this build's twin.
use crate::areas::{a_lzmadec, a_lzmaenc};
use crate::encutil::*;
use crate::util::*;

#[cfg(hasenbanck_lzma_rust2_verif)]
use lzma_rust2::verif_hooks as vh;

const OPT: bool = cfg!(feature = "opt");

/// overflow checks of this build (the whole dependency graph shares the profile)
fn checked_build() -> bool {
    std::panic::catch_unwind(|| {
        let x: u8 = std::hint::black_box(255);
        std::hint::black_box(x + std::hint::black_box(1))
    })
    .is_err()
}

fn flags() -> String {
    format!("{}{}", if checked_build() { 'c' } else { '-' }, if OPT { 'o' } else { '-' })
}

fn ilist(v: &[i32]) -> String {
    if v.is_empty() {
        return ".".into();
    }
    v.iter().map(|x| x.to_string()).collect::<Vec<_>>().join(",")
}

fn parse_ilist(s: &str) -> Vec<i32> {
    if s == "." { vec![] } else { s.split(',').map(|x| x.parse().unwrap()).collect() }
}

/// Runs `f` on a copy of `vals` placed `align` elements behind a 64-byte aligned address.
fn on_aligned(vals: &[i32], align: usize, f: impl FnOnce(&mut [i32])) -> Vec<i32> {
    let mut store = vec![0i32; vals.len() + 64];
    let base = (0..16).find(|i| (store[*i..].as_ptr() as usize) % 64 == 0).unwrap();
    let s = &mut store[base + align..base + align + vals.len()];
    s.copy_from_slice(vals);
    f(s);
    s.to_vec()
}

fn simd_lanes() -> usize {
    #[cfg(target_arch = "x86_64")]
    {
        if std::arch::is_x86_feature_detected!("avx2") {
            return 8;
        }
        if std::arch::is_x86_feature_detected!("sse4.1") {
            return 4;
        }
    }
    0
}

#[cfg(not(hasenbanck_lzma_rust2_verif))]
pub fn exec(_a: &[&str]) -> (String, String) {
    ("NOHOOK".into(), "FAIL the twins area needs the verification hooks".into())
}

#[cfg(hasenbanck_lzma_rust2_verif)]
pub fn exec(a: &[&str]) -> (String, String) {
    let caught = |f: &mut dyn FnMut() -> String| -> String {
        std::panic::catch_unwind(std::panic::AssertUnwindSafe(f)).unwrap_or_else(|p| {
            let m = p.downcast_ref::<String>().cloned().or_else(|| p.downcast_ref::<&str>().map(|s| s.to_string())).unwrap_or_default();
            if m.contains("verif H6") { format!("PANIC-H6 {}", m.replace(' ', "_")) } else { "PANIC".into() }
        })
    };
    match a[0] {
        "norm" => {
            let off: i32 = a[1].parse().unwrap();
            let align: usize = a[2].parse().unwrap();
            let vals = parse_ilist(a[3]);
            let lanes = simd_lanes();
            let obs = caught(&mut || {
                let sc = on_aligned(&vals, align, |s| vh::verif_normalize_scalar(s, off));
                let di = on_aligned(&vals, align, |s| vh::verif_normalize_dispatch(s, off));
                let mut sse = None;
                let s4 = on_aligned(&vals, align, |s| {
                    if vh::verif_normalize_sse41(s, off) {
                        sse = Some(());
                    }
                });
                // third and fourth observation only feed the oracle
                format!("OK {} {}###{}", ilist(&sc), ilist(&di), if sse.is_some() { ilist(&s4) } else { "none".into() })
            });
            if let Some((main, sse)) = obs.split_once("###") {
                let mut it = main.split(' ').skip(1);
                let (sc, di) = (it.next().unwrap_or(""), it.next().unwrap_or(""));
                let oracle = if sc != di {
                    "FAIL scalar and dispatching renormalisation leave different tables".to_string()
                } else if sse != "none" && sse != sc {
                    "FAIL scalar and SSE4.1 renormalisation leave different tables".to_string()
                } else {
                    "ok".to_string()
                };
                (format!("{main} ||| {lanes}"), oracle)
            } else {
                (format!("{obs} ||| {lanes}"), "FAIL renormalisation panics".into())
            }
        }
        "dbits" => {
            let buf = unhex(a[1]);
            let pos: usize = a[2].parse().unwrap();
            let range: u32 = a[3].parse().unwrap();
            let code: u32 = a[4].parse().unwrap();
            let count: u32 = a[5].parse().unwrap();
            let has_asm = vh::VERIF_HAS_ASM;
            let q = |r: (i32, u32, u32, usize)| format!("{},{},{},{}", r.0 as u32, r.1, r.2, r.3);
            let p = caught(&mut || q(vh::verif_direct_bits(&buf, pos, range, code, count, false)));
            let asm = if has_asm && count > 0 { caught(&mut || q(vh::verif_direct_bits(&buf, pos, range, code, count, true))) } else { "-".into() };
            let d = caught(&mut || q(vh::verif_direct_bits_dispatch(&buf, pos, range, code, count)));
            let x = |s: String| if s.starts_with("PANIC") { "X".to_string() } else { s };
            let (p, asm, d) = (x(p), x(asm), x(d));
            // oracle: in every state a decoder can reach (range >= 2^16) the function the decoder
            // calls equals the portable loop; the raw assembly equals it while it stays inside
            let mut oracle = "ok".to_string();
            if range >= 65536 {
                if d != p {
                    oracle = format!("FAIL decode_direct_bits differs between the assembly build and the portable loop: {d} vs {p}");
                } else if asm != "-" && pos + count as usize <= buf.len() && asm != p {
                    oracle = format!("FAIL assembly differs from the portable loop inside the buffer: {asm} vs {p}");
                }
            }
            (format!("OK {p} {asm} {d} ||| {}", if has_asm { "asm" } else { "noasm" }), oracle)
        }
        "xmatch" => {
            let buf = unhex(a[1]);
            let v: Vec<i32> = a[2..6].iter().map(|x| x.parse().unwrap()).collect();
            let obs = caught(&mut || format!("OK {}", vh::verif_extend_match(&buf, v[0], v[1], v[2], v[3])));
            // oracle inside the callers' domain: the common-prefix length, bounded by the limit
            let (rp, cl, d, lim) = (v[0] as i64, v[1] as i64, v[2] as i64, v[3] as i64);
            let mut oracle = "ok".to_string();
            if rp >= 0 && cl >= 0 && cl <= lim && d >= 0 && d <= rp + cl && rp + lim <= buf.len() as i64 {
                let (s1, s2) = ((rp + cl) as usize, (rp + cl - d) as usize);
                let mut n = 0usize;
                while (n as i64) < lim - cl && buf[s1 + n] == buf[s2 + n] {
                    n += 1;
                }
                let want = format!("OK {}", cl + n as i64);
                if obs != want {
                    oracle = format!("FAIL extend_match returns {obs}, the common prefix gives {want}");
                }
            } else if obs.starts_with("PANIC-H6") && !(d > rp + cl || cl > lim || rp + cl > buf.len() as i64) {
                oracle = format!("FAIL shadow assertion fails inside the precondition: {obs}");
            }
            let obs = if obs.starts_with("PANIC") { "PANIC".to_string() } else { obs };
            (format!("{obs} ||| {}", flags()), oracle)
        }
        "freject" => {
            let buf = unhex(a[1]);
            let v: Vec<i32> = a[2..5].iter().map(|x| x.parse().unwrap()).collect();
            let obs = caught(&mut || format!("OK {}", vh::verif_fast_reject(&buf, v[0], v[1], v[2])));
            let (rp, md, lim) = (v[0] as i64, v[1] as i64 + 1, v[2] as i64);
            let mut oracle = "ok".to_string();
            if rp >= 0 && md >= 1 && md <= rp && lim >= 2 && rp + lim <= buf.len() as i64 {
                let (s1, s2) = (rp as usize, (rp - md) as usize);
                let mut n = 0usize;
                while (n as i64) < lim && buf[s1 + n] == buf[s2 + n] {
                    n += 1;
                }
                let want = format!("OK {}", if n < 2 { 0 } else { n });
                if obs != want {
                    oracle = format!("FAIL get_match_len_fast_reject returns {obs}, expected {want}");
                }
            }
            let obs = if obs.starts_with("PANIC") { "PANIC".to_string() } else { obs };
            (format!("{obs} ||| {}", flags()), oracle)
        }
        "aalloc" => {
            let n: usize = a[1].parse().unwrap();
            let obs = caught(&mut || match vh::verif_aligned_alloc(n) {
                Some((len, rem, zero)) => format!("OK {} {} {}", len, rem, zero as u8),
                None => "NONE".into(),
            });
            let oracle = if obs.starts_with("PANIC") { format!("FAIL {obs}") } else { "ok".into() };
            let obs = if obs.starts_with("PANIC") { "PANIC".to_string() } else { obs };
            (format!("{obs} ||| {}", flags()), oracle)
        }
        "lzma1encb" | "lzma2encb" => {
            let k: u32 = a[1].parse().unwrap();
            let mut inner: Vec<&str> = vec![if a[0] == "lzma1encb" { "lzma1enc" } else { "lzma2enc" }];
            inner.extend_from_slice(&a[2..]);
            // reference run without the bias (trace discarded), then the biased run that is reported
            vh::verif_set_lz_pos_bias(None);
            let (plain, _) = a_lzmaenc::exec(&inner);
            vh::verif_set_lz_pos_bias(Some(k));
            let (obs, mut oracle) = a_lzmaenc::exec(&inner);
            vh::verif_set_lz_pos_bias(None);
            let bytes = |s: &str| s.split(" ||| ").next().unwrap_or("").to_string();
            if oracle == "ok" && bytes(&plain) != bytes(&obs) {
                oracle = "FAIL the encoder's output changes when a table renormalisation happens inside the run".into();
            }
            (obs, oracle)
        }
        "lzma2" => a_lzmadec::exec(a),
        // h6stats <seed> <n>: runs the first n generated cases of lzmaenc, lzmadec and all of this
        // area's cases serially in this process and reports how often each H6 shadow assertion
        // was evaluated (measurement for the evidence; not compared with a model)
        "h6stats" => {
            let seed: u64 = a[1].parse().unwrap();
            let n: usize = a[2].parse().unwrap();
            let mut failures = 0usize;
            let mut ran = 0usize;
            for (which, cmds) in [
                (0, a_lzmaenc::gen(&mut Rng::new(seed), "quick", &mut Dist::default())),
                (1, a_lzmadec::gen(&mut Rng::new(seed), "quick", &mut Dist::default())),
                (2, gen(&mut Rng::new(seed), "quick", &mut Dist::default())),
            ] {
                for c in cmds.iter().filter(|c| c.len() < 400_000 && !c.starts_with("h6stats")).take(if which == 2 { usize::MAX } else { n }) {
                    let parts: Vec<&str> = c.split(' ').collect();
                    let (obs, _) = match which { 0 => a_lzmaenc::exec(&parts), 1 => a_lzmadec::exec(&parts), _ => exec(&parts) };
                    ran += 1;
                    if obs.contains("verif_H6") {
                        failures += 1;
                    }
                }
            }
            let hits = vh::verif_h6_hits();
            let body: Vec<String> = vh::VERIF_H6_SITES.iter().zip(hits.iter()).map(|(s, h)| format!("{s}={h}")).collect();
            (format!("OK cases={ran} {}", body.join(" ")), if failures == 0 { "ok".into() } else { format!("FAIL {failures} shadow assertions failed") })
        }
        _ => ("NOCMD".into(), "FAIL unknown command".into()),
    }
}

/// Walks the chunk structure of an LZMA2 stream: (offset of the control byte, header length,
/// payload length) of every LZMA chunk.
fn lzma_chunks(s: &[u8]) -> Vec<(usize, usize, usize)> {
    let mut out = Vec::new();
    let mut i = 0;
    while i < s.len() {
        let c = s[i];
        if c == 0 {
            break;
        }
        if c >= 0x80 {
            if i + 5 > s.len() {
                break;
            }
            let csize = ((s[i + 3] as usize) << 8 | s[i + 4] as usize) + 1;
            let hdr = if c >= 0xC0 { 6 } else { 5 };
            out.push((i, hdr, csize));
            i += hdr + csize;
        } else {
            if i + 3 > s.len() {
                break;
            }
            let usize_ = ((s[i + 1] as usize) << 8 | s[i + 2] as usize) + 1;
            i += 3 + usize_;
        }
    }
    out
}

/// Shortens the payload of the last LZMA chunk by `t` bytes and announces the shorter size, so
/// that the range decoder runs off the end of the chunk buffer.
fn truncate_last_chunk(s: &[u8], t: usize) -> Option<Vec<u8>> {
    let &(off, hdr, csize) = lzma_chunks(s).last()?;
    if csize <= t + 5 || off + hdr + csize > s.len() {
        return None;
    }
    let mut v = s.to_vec();
    let n = csize - t - 1;
    v[off + 3] = (n >> 8) as u8;
    v[off + 4] = n as u8;
    v.drain(off + hdr + csize - t..off + hdr + csize);
    Some(v)
}

pub fn gen(rng: &mut Rng, tier: &str, dist: &mut Dist) -> Vec<String> {
    let scale = if tier == "thorough" { 10 } else { 1 };
    let mut cmds = Vec::new();
    // ---- renormalisation -----------------------------------------------------------------------
    for i in 0..300 * scale {
        let off: i32 = match rng.below(6) {
            0 => 0,
            1 => i32::MAX,
            2 => i32::MAX - 4097,
            3 => i32::MAX - (1 + rng.below(1 << 30) as i32),
            4 => rng.below(1 << 31) as i32,
            _ => 1 + rng.below(1000) as i32,
        };
        let n = match rng.below(4) { 0 => rng.below(9), 1 => 8 + rng.below(9), _ => rng.below(80) } as usize;
        let vals: Vec<i32> = (0..n)
            .map(|_| match rng.below(9) {
                0 => 0,
                1 => i32::MIN,
                2 => i32::MAX,
                3 => off.wrapping_add(rng.below(3) as i32 - 1),
                4 => -(rng.below(1 << 31) as i32),
                5 => off.saturating_add(rng.below(70000) as i32),
                6 => off.saturating_sub(rng.below(70000) as i32),
                _ => rng.next() as i32,
            })
            .collect();
        let align = if i % 3 == 0 { 0 } else { rng.below(16) as usize };
        dist.bump(if align == 0 { "norm.aligned" } else { "norm.misaligned" });
        cmds.push(format!("norm {off} {align} {}", ilist(&vals)));
    }
    // ---- direct bits ---------------------------------------------------------------------------
    for _ in 0..900 * scale {
        let len = 1 + rng.below(12) as usize;
        let buf: Vec<u8> = match rng.below(4) {
            0 => vec![0xFF; len],
            1 => vec![0; len],
            _ => (0..len).map(|_| rng.next() as u8).collect(),
        };
        let pos = match rng.below(5) { 0 => len, 1 => len + 1 + rng.below(3) as usize, 2 => len - 1, _ => rng.below(len as u64 + 1) as usize };
        let range: u32 = match rng.below(8) {
            0 => 0xFFFF_FFFF,
            1 => 0x0100_0000,
            2 => 0x00FF_FFFF,
            3 => 0x0001_0000 + rng.below(0x00FF_0000) as u32,
            4 => 0x0001_0000,
            5 => 1 + rng.below(0xFFFF) as u32,
            _ => 0x0100_0000 + rng.below(0xFF00_0000) as u32,
        };
        let code: u32 = match rng.below(6) { 0 => 0, 1 => range.wrapping_sub(1), 2 => range, 3 => rng.next() as u32, _ => rng.below(range as u64) as u32 };
        let count: u32 = match rng.below(10) { 0 => 0, 1 => 26, 2 => 32, 3 => 33 + rng.below(8) as u32, _ => 1 + rng.below(26) as u32 };
        dist.bump(if pos + count as usize <= len { "dbits.inside" } else if pos >= len { "dbits.starts_at_or_beyond_end" } else { "dbits.crosses_end" });
        dist.bump(if range >= 65536 { "dbits.range_reachable" } else { "dbits.range_below_2^16" });
        cmds.push(format!("dbits {} {pos} {range} {code} {count}", hex(&buf)));
    }
    // ---- extend_match / fast reject ------------------------------------------------------------
    for _ in 0..900 * scale {
        let maxlen = if rng.chance(1, 5) { 700 } else { 60 };
        let len = 1 + rng.below(maxlen) as usize;
        let class = *rng.pick(&["constant", "periodic", "lowentropy", "runs", "random"]);
        let buf = gen_data_len(rng, class, len);
        let start1 = match rng.below(5) { 0 => len, 1 => 0, _ => rng.below(len as u64 + 1) as usize };
        let cl = rng.below(start1.min(5) as u64 + 1) as usize;
        let rp = start1 - cl;
        let d = match rng.below(8) { 0 => start1 + 1 + rng.below(4) as usize, 1 => start1, 2 => 0, _ => rng.below(start1 as u64 + 1) as usize };
        let room = len - rp;
        let lim = match rng.below(8) { 0 => room + 1 + rng.below(300) as usize, 1 => room, 2 => cl, _ => cl + rng.below((room.saturating_sub(cl)) as u64 + 1) as usize };
        dist.bump(if d > start1 { "xmatch.distance_before_buffer" } else if rp + lim > len { "xmatch.limit_beyond_buffer" } else if rp + lim == len { "xmatch.touches_end" } else if d == start1 { "xmatch.touches_start" } else { "xmatch.inside" });
        cmds.push(format!("xmatch {} {rp} {cl} {d} {lim}", hex(&buf)));
    }
    for _ in 0..400 * scale {
        let len = 2 + rng.below(80) as usize;
        let class = *rng.pick(&["constant", "periodic", "lowentropy", "runs"]);
        let buf = gen_data_len(rng, class, len);
        let rp = match rng.below(6) { 0 => len - 1, 1 => len - 2, 2 => 1, _ => 1 + rng.below(len as u64 - 1) as usize };
        let dist_ = match rng.below(8) { 0 => rp, 1 => rp + rng.below(5) as usize, _ => rng.below(rp as u64) as usize };
        let room = len - rp;
        let lim = match rng.below(8) { 0 => room + 1 + rng.below(20) as usize, 1 => room, _ => 2 + rng.below((room.saturating_sub(2)) as u64 + 1) as usize };
        dist.bump(if dist_ + 1 > rp { "freject.distance_before_buffer" } else if rp + 2 > len { "freject.last_byte" } else if rp + lim > len { "freject.limit_beyond_buffer" } else { "freject.inside" });
        cmds.push(format!("freject {} {rp} {dist_} {lim}", hex(&buf)));
    }
    for n in [1usize, 2, 15, 16, 17, 1 << 10, 4097, 1 << 16, 65537, 2 * 4097] {
        dist.bump("aalloc");
        cmds.push(format!("aalloc {n}"));
    }
    // ---- encoder with a table renormalisation inside the run (hook H2) -----------------------------
    for i in 0..40 * scale {
        let class = *rng.pick(&["periodic", "text", "mixed", "copyfar", "lowentropy", "runs", "random"]);
        let len = 3000 + rng.below(if tier == "thorough" { 60000 } else { 14000 }) as usize;
        let data = gen_data_len(rng, class, len);
        let pclass = *rng.pick(&["one", "pow2", "random"]);
        let lens = gen_partition(rng, pclass, data.len());
        let parts = split_by(&data, &lens);
        let k = match rng.below(5) { 0 => 1, 1 => 2 + rng.below(20), 2 => 4097, _ => 1 + rng.below(len as u64 - 1) } as u32;
        dist.bump(&format!("bias.{class}"));
        if i % 2 == 0 {
            let mut o = gen_opts(rng, true, 1 << 16);
            o.mf = (i / 2 % 2) as u32;
            cmds.push(format!("lzma2encb {k} {} 0 none {} .", o.to_string(), hex_parts(&parts)));
        } else {
            let mut o = gen_opts(rng, false, 1 << 16);
            o.mf = (i / 2 % 2) as u32;
            cmds.push(format!("lzma1encb {k} {} {} none {}", o.to_string(), rng.below(4), hex_parts(&parts)));
        }
    }
    // ---- LZMA2 chunks whose range decoder runs off the end of the chunk buffer ---------------------
    let mut made = 0;
    let mut tries = 0;
    while made < 200 * scale && tries < 4000 * scale {
        tries += 1;
        // far copies of random material: most symbols are matches with long distances, i.e.
        // many direct bits close to the end of the chunk
        let len = 200 + rng.below(3000) as usize;
        let dclass = *rng.pick(&["copyfar", "copyfar", "mixed"]);
        let data = gen_data_len(rng, dclass, len);
        let mut o = gen_opts(rng, true, 1 << 16);
        o.dict = 65536;
        let stream = match lzma2_encode(&o, None, None, &[data], &[]) {
            Outcome::Ok(v) => v,
            _ => continue,
        };
        let t = 1 + rng.below(6) as usize;
        let Some(cut) = truncate_last_chunk(&stream, t) else { continue };
        made += 1;
        dist.bump(&format!("lzma2.truncated_chunk.{t}"));
        let sizes = match rng.below(3) { 0 => "1".to_string(), 1 => ".".to_string(), _ => format!("{}", 1 + rng.below(50)) };
        cmds.push(format!("lzma2 65536 none {} {}", hex(&cut), sizes));
    }
    cmds
}

pub const AREA: Area = Area { name: "twins", gen, exec };
