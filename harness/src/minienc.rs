//! A small stand-alone LZMA symbol + range encoder used to hand-build streams the crate's own
//! encoder would never emit (distances at and beyond the dictionary border, matches at buffer
//! wrap points, ...).  It follows the format, not the crate: it shares no code with /repo.
#![allow(dead_code)]

pub struct Rc {
    low: u64,
    range: u32,
    cache: u8,
    cache_size: u64,
    pub out: Vec<u8>,
}

impl Rc {
    pub fn new() -> Self {
        Rc { low: 0, range: 0xFFFF_FFFF, cache: 0, cache_size: 1, out: Vec::new() }
    }
    fn shift_low(&mut self) {
        if self.low < 0xFF00_0000 || self.low > 0xFFFF_FFFF {
            let carry = (self.low >> 32) as u8;
            let mut temp = self.cache;
            loop {
                self.out.push(temp.wrapping_add(carry));
                temp = 0xFF;
                self.cache_size -= 1;
                if self.cache_size == 0 {
                    break;
                }
            }
            self.cache = (self.low >> 24) as u8;
        }
        self.cache_size += 1;
        self.low = (self.low & 0x00FF_FFFF) << 8;
    }
    pub fn bit(&mut self, p: &mut u16, b: u32) {
        let bound = (self.range >> 11) * (*p as u32);
        if b == 0 {
            self.range = bound;
            *p += (2048 - *p) >> 5;
        } else {
            self.low += bound as u64;
            self.range -= bound;
            *p -= *p >> 5;
        }
        while self.range < (1 << 24) {
            self.range <<= 8;
            self.shift_low();
        }
    }
    pub fn direct(&mut self, v: u32, n: u32) {
        for i in (0..n).rev() {
            self.range >>= 1;
            if (v >> i) & 1 == 1 {
                self.low += self.range as u64;
            }
            while self.range < (1 << 24) {
                self.range <<= 8;
                self.shift_low();
            }
        }
    }
    pub fn finish(mut self) -> Vec<u8> {
        for _ in 0..5 {
            self.shift_low();
        }
        self.out
    }
}

#[derive(Clone, Copy, Debug)]
pub enum Sym {
    Lit(u8),
    Match(u32, u32), // distance - 1, length
    Rep(u32, u32),   // index 0..3, length (1 = short rep, index 0 only)
}

struct LenCoder {
    choice: [u16; 2],
    low: [[u16; 8]; 16],
    mid: [[u16; 8]; 16],
    high: [u16; 256],
}
impl LenCoder {
    fn new() -> Self {
        LenCoder { choice: [1024; 2], low: [[1024; 8]; 16], mid: [[1024; 8]; 16], high: [1024; 256] }
    }
}

fn tree(rc: &mut Rc, probs: &mut [u16], bits: u32, sym: u32) {
    let mut m = 1usize;
    for i in (0..bits).rev() {
        let b = (sym >> i) & 1;
        rc.bit(&mut probs[m], b);
        m = (m << 1) | b as usize;
    }
}
fn rtree(rc: &mut Rc, probs: &mut [u16], bits: u32, sym: u32) {
    let mut m = 1usize;
    for i in 0..bits {
        let b = (sym >> i) & 1;
        rc.bit(&mut probs[m], b);
        m = (m << 1) | b as usize;
    }
}

pub struct Enc {
    pub lc: u32,
    pub lp: u32,
    pub pb: u32,
    state: usize,
    reps: [u32; 4],
    is_match: [[u16; 16]; 12],
    is_rep: [u16; 12],
    is_rep0: [u16; 12],
    is_rep1: [u16; 12],
    is_rep2: [u16; 12],
    is_rep0_long: [[u16; 16]; 12],
    dist_slot: [[u16; 64]; 4],
    dist_special: [u16; 128],
    dist_align: [u16; 16],
    lit: Vec<[u16; 0x300]>,
    mlen: LenCoder,
    rlen: LenCoder,
    pub hist: Vec<u8>, // everything since the last dictionary reset (incl. a preset)
    pub rc: Rc,
}

impl Enc {
    pub fn new(lc: u32, lp: u32, pb: u32) -> Self {
        Enc {
            lc, lp, pb, state: 0, reps: [0; 4],
            is_match: [[1024; 16]; 12], is_rep: [1024; 12], is_rep0: [1024; 12], is_rep1: [1024; 12], is_rep2: [1024; 12],
            is_rep0_long: [[1024; 16]; 12], dist_slot: [[1024; 64]; 4], dist_special: [1024; 128], dist_align: [1024; 16],
            lit: vec![[1024; 0x300]; 1 << (lc + lp)], mlen: LenCoder::new(), rlen: LenCoder::new(), hist: Vec::new(), rc: Rc::new(),
        }
    }
    fn len(rc: &mut Rc, lcod: &mut LenCoder, len: u32, ps: usize) {
        let l = len - 2;
        if l < 8 {
            rc.bit(&mut lcod.choice[0], 0);
            tree(rc, &mut lcod.low[ps], 3, l);
        } else if l < 16 {
            rc.bit(&mut lcod.choice[0], 1);
            rc.bit(&mut lcod.choice[1], 0);
            tree(rc, &mut lcod.mid[ps], 3, l - 8);
        } else {
            rc.bit(&mut lcod.choice[0], 1);
            rc.bit(&mut lcod.choice[1], 1);
            tree(rc, &mut lcod.high, 8, l - 16);
        }
    }
    fn byte_at(&self, dist: u32) -> u8 {
        let n = self.hist.len();
        if (dist as usize) < n { self.hist[n - 1 - dist as usize] } else { 0 }
    }
    /// Codes one symbol.  `copy` says what the decoder is expected to append (for matches whose
    /// distance is invalid nothing sensible exists: pass false and stop afterwards).
    pub fn sym(&mut self, s: Sym, copy: bool) {
        let pos = self.hist.len();
        let ps = pos & ((1usize << self.pb) - 1);
        match s {
            Sym::Lit(b) => {
                self.rc.bit(&mut self.is_match[self.state][ps], 0);
                let prev = if pos == 0 { 0 } else { self.hist[pos - 1] } as usize;
                let idx = (prev >> (8 - self.lc)) + ((pos & ((1usize << self.lp) - 1)) << self.lc);
                let probs = &mut self.lit[idx];
                let mut sym = 1usize;
                if self.state < 7 {
                    for i in (0..8).rev() {
                        let bit = ((b >> i) & 1) as u32;
                        self.rc.bit(&mut probs[sym], bit);
                        sym = (sym << 1) | bit as usize;
                    }
                } else {
                    let n = pos;
                    let mut mb = if (self.reps[0] as usize) < n { self.hist[n - 1 - self.reps[0] as usize] } else { 0 } as usize;
                    let mut offset = 0x100usize;
                    for i in (0..8).rev() {
                        mb <<= 1;
                        let match_bit = mb & offset;
                        let bit = ((b >> i) & 1) as usize;
                        self.rc.bit(&mut probs[offset + match_bit + sym], bit as u32);
                        sym = (sym << 1) | bit;
                        offset &= if bit == 1 { match_bit } else { !match_bit };
                    }
                }
                self.hist.push(b);
                self.state = if self.state <= 3 { 0 } else if self.state <= 9 { self.state - 3 } else { self.state - 6 };
            }
            Sym::Match(dist, len) => {
                self.rc.bit(&mut self.is_match[self.state][ps], 1);
                self.rc.bit(&mut self.is_rep[self.state], 0);
                Self::len(&mut self.rc, &mut self.mlen, len, ps);
                let slot = if dist < 4 { dist } else { let i = 31 - dist.leading_zeros(); 2 * i + ((dist >> (i - 1)) & 1) };
                let ds = if len < 6 { len - 2 } else { 3 } as usize;
                tree(&mut self.rc, &mut self.dist_slot[ds], 6, slot);
                if slot >= 4 {
                    let fb = (slot >> 1) - 1;
                    let base = (2 | (slot & 1)) << fb;
                    let red = dist - base;
                    if slot < 14 {
                        let off = (base - slot) as usize; // standard layout of the special table
                        // reverse tree over fb bits with table base `off` (1-based inside)
                        let mut m = 1usize;
                        for i in 0..fb {
                            let b = (red >> i) & 1;
                            self.rc.bit(&mut self.dist_special[off + m], b);
                            m = (m << 1) | b as usize;
                        }
                    } else {
                        self.rc.direct(red >> 4, fb - 4);
                        rtree(&mut self.rc, &mut self.dist_align, 4, red & 15);
                    }
                }
                self.reps = [dist, self.reps[0], self.reps[1], self.reps[2]];
                self.state = if self.state < 7 { 7 } else { 10 };
                if copy { self.copy(dist, len); }
            }
            Sym::Rep(idx, len) => {
                self.rc.bit(&mut self.is_match[self.state][ps], 1);
                self.rc.bit(&mut self.is_rep[self.state], 1);
                if idx == 0 {
                    self.rc.bit(&mut self.is_rep0[self.state], 0);
                    self.rc.bit(&mut self.is_rep0_long[self.state][ps], if len == 1 { 0 } else { 1 });
                } else {
                    self.rc.bit(&mut self.is_rep0[self.state], 1);
                    if idx == 1 {
                        self.rc.bit(&mut self.is_rep1[self.state], 0);
                        self.reps = [self.reps[1], self.reps[0], self.reps[2], self.reps[3]];
                    } else {
                        self.rc.bit(&mut self.is_rep1[self.state], 1);
                        self.rc.bit(&mut self.is_rep2[self.state], idx - 2);
                        if idx == 2 { self.reps = [self.reps[2], self.reps[0], self.reps[1], self.reps[3]]; } else { self.reps = [self.reps[3], self.reps[0], self.reps[1], self.reps[2]]; }
                    }
                }
                if len == 1 {
                    self.state = if self.state < 7 { 9 } else { 11 };
                } else {
                    Self::len(&mut self.rc, &mut self.rlen, len, ps);
                    self.state = if self.state < 7 { 8 } else { 11 };
                }
                if copy { let d = self.reps[0]; self.copy(d, len); }
            }
        }
    }
    fn copy(&mut self, dist: u32, len: u32) {
        for _ in 0..len {
            let b = self.byte_at(dist);
            self.hist.push(b);
        }
    }
    /// Takes the range-coded bytes produced so far and starts a new range coder (new chunk);
    /// probabilities, state and history persist.
    pub fn take_chunk(&mut self) -> Vec<u8> {
        std::mem::replace(&mut self.rc, Rc::new()).finish()
    }
}

/// One LZMA2 stream: stored chunk(s) holding `stored`, then one LZMA chunk (control 0xC0 + props,
/// or 0xE0 when `stored` is empty) with the given symbols; `usize_claim` is what the chunk header
/// announces as its uncompressed size.
pub fn lzma2_stored_then_lzma(stored: &[u8], syms: &[(Sym, bool)], usize_claim: usize, lc: u32, lp: u32, pb: u32) -> Vec<u8> {
    let mut out = Vec::new();
    let mut first = true;
    for c in stored.chunks(65536) {
        out.push(if first { 1 } else { 2 });
        out.push(((c.len() - 1) >> 8) as u8);
        out.push((c.len() - 1) as u8);
        out.extend_from_slice(c);
        first = false;
    }
    let mut e = Enc::new(lc, lp, pb);
    e.hist = stored.to_vec();
    for (s, copy) in syms {
        e.sym(*s, *copy);
    }
    let body = e.take_chunk();
    let control = (if stored.is_empty() { 0xE0u32 } else { 0xC0 }) | (((usize_claim - 1) >> 16) as u32 & 0x1F);
    out.push(control as u8);
    out.push(((usize_claim - 1) >> 8) as u8);
    out.push((usize_claim - 1) as u8);
    out.push(((body.len() - 1) >> 8) as u8);
    out.push((body.len() - 1) as u8);
    out.push(((pb * 5 + lp) * 9 + lc) as u8);
    out.extend_from_slice(&body);
    out.push(0);
    out
}
