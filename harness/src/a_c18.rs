//! Area "c18": block / member size options are honoured.  XZWriter and LZIPWriter under write
//! partitions {one huge write, many small ones, mixed with empty writes}; the uncompressed size of
//! every block / member (index records, member trailers of the produced file) must equal the
//! model's and be at most max(size option, dictionary size) - all but the last exactly that.
//! Commands and executors: see a_c02.rs (xz_sizes / lzip_sizes carry only the lengths of the
//! write() calls; the implementation is fed constant bytes of these lengths).
// requires-verif-hooks (hook H3: FilterConfig / FilterType re-exports); left out of guard-off builds by build.rs
use super::a_c02::*;
use crate::encutil::*;
use crate::util::*;

fn gen_lens(rng: &mut Rng, total: usize, dist: &mut Dist) -> Vec<usize> {
    let class = *rng.pick(&["one_huge", "one_huge", "many_small", "many_small", "pow2", "random", "with_empty", "around_limit"]);
    dist.bump(&format!("partition.{class}"));
    match class {
        "one_huge" => vec![total],
        "many_small" => {
            let unit = 1 + rng.below(3000) as usize;
            let mut v = Vec::new();
            let mut left = total;
            while left > 0 {
                let n = unit.min(left);
                v.push(n);
                left -= n;
            }
            v
        }
        "around_limit" => {
            // writes of 4095 / 4096 / 4097 bytes: block borders fall at, before and after call borders
            let mut v = Vec::new();
            let mut left = total;
            while left > 0 {
                let n = (*rng.pick(&[4095usize, 4096, 4097, 1, 8192, 8191])).min(left);
                v.push(n);
                left -= n;
            }
            v
        }
        c => gen_partition(rng, c, total),
    }
}

pub fn gen(rng: &mut Rng, tier: &str, dist: &mut Dist) -> Vec<String> {
    let n = if tier == "thorough" { 8000 } else { 1000 };
    let max_total = if tier == "thorough" { 2_000_000 } else { 300_000 };
    let mut cmds = Vec::new();
    for i in 0..n {
        let mut o = gen_opts(rng, i % 2 == 0, 1 << 16);
        o.depth = 4;
        o.nice = 32;
        let dict = *rng.pick(&[4096u32, 4096, 4097, 8192, 12288, 65536]);
        o.dict = dict;
        let total = match rng.below(6) {
            0 => rng.below(4096) as usize,
            1 => 4096 * (1 + rng.below(8) as usize),
            2 => 4096 * (1 + rng.below(8) as usize) + 1,
            _ => rng.below(max_total as u64) as usize,
        };
        let size_opt = match rng.below(7) {
            0 => None,
            1 => Some(1u64),
            2 => Some(dict as u64),
            3 => Some(dict as u64 + 1 + rng.below(5000)),
            4 => Some(total as u64 + 1 + rng.below(100)),
            5 => Some((total as u64 / 2).max(1)),
            _ => Some(1 + rng.below(100_000)),
        };
        dist.bump(&format!("size_option.{}", match size_opt { None => "unset", Some(s) if s <= dict as u64 => "le_dict", Some(s) if s > total as u64 => "gt_input", _ => "lt_input" }));
        let lens = gen_lens(rng, total, dist);
        if i % 2 == 0 {
            cmds.push(format!("xz_sizes {} {} {} {}", fmt_optu(size_opt), dict, ints(&lens), o.to_string()));
        } else {
            // LZIP clamps the dictionary into [4 KiB, 512 MiB]; below-minimum requests included
            let d = if rng.chance(1, 6) { *rng.pick(&[0u32, 1, 4095]) } else { dict };
            cmds.push(format!("lzip_sizes {} {} {} {}", d, fmt_optu(size_opt), ints(&lens), o.to_string()));
        }
    }
    // complete files (with payloads) for small multi-block / multi-member inputs
    let m = if tier == "thorough" { 1500 } else { 200 };
    for i in 0..m {
        if i % 2 == 0 {
            let mut g = gen_xz(rng, i, 2000, false, dist);
            g.opts.dict = 4096;
            let len = 4000 + rng.below(9000) as usize;
            let data = gen_multiblock_data(rng, len);
            g.bs = Some(*rng.pick(&[1u64, 4096, 4097, 6000]));
            let lens = gen_lens(rng, data.len(), dist);
            g.parts = split_by(&data, &lens);
            g.flushes = vec![];
            let f = match g.write() { Outcome::Ok(f) => Some(f), _ => None };
            cmds.push(g.write_cmd(f.as_deref()));
        } else {
            let mut g = gen_lzip(rng, i, 2000, dist);
            g.dict = 4096;
            let len = 4000 + rng.below(9000) as usize;
            let data = gen_multiblock_data(rng, len);
            g.ms = Some(*rng.pick(&[1u64, 4096, 4097, 6000]));
            let lens = gen_lens(rng, data.len(), dist);
            g.parts = split_by(&data, &lens);
            let f = match g.write() { Outcome::Ok(f) => Some(f), _ => None };
            cmds.push(g.write_cmd(f.as_deref()));
        }
    }
    cmds
}

pub const AREA: Area = Area { name: "c18", gen, exec };
