//! Option vectors and encoder helpers shared by several areas.
#![allow(dead_code)]
use crate::util::*;
use lzma_rust2::{EncodeMode, LZMA2Options, LZMA2Writer, LZMAOptions, LZMAWriter, MFType};
use std::io::Write;
use std::num::NonZeroU64;

#[derive(Clone, Debug)]
pub struct Opts {
    pub lc: u32,
    pub lp: u32,
    pub pb: u32,
    pub dict: u32,
    pub nice: u32,
    pub mode: u32, // 0 fast, 1 normal
    pub mf: u32,   // 0 hc4, 1 bt4
    pub depth: i32,
}

impl Opts {
    pub fn to_string(&self) -> String {
        format!("{},{},{},{},{},{},{},{}", self.lc, self.lp, self.pb, self.dict, self.nice, self.mode, self.mf, self.depth)
    }
    pub fn parse(s: &str) -> Opts {
        let v: Vec<i64> = s.split(',').map(|x| x.parse().unwrap()).collect();
        Opts { lc: v[0] as u32, lp: v[1] as u32, pb: v[2] as u32, dict: v[3] as u32, nice: v[4] as u32, mode: v[5] as u32, mf: v[6] as u32, depth: v[7] as i32 }
    }
    pub fn lzma(&self, preset: Option<Vec<u8>>) -> LZMAOptions {
        let mut o = LZMAOptions::new(
            self.dict,
            self.lc,
            self.lp,
            self.pb,
            if self.mode == 0 { EncodeMode::Fast } else { EncodeMode::Normal },
            self.nice,
            if self.mf == 0 { MFType::HC4 } else { MFType::BT4 },
            self.depth,
        );
        o.preset_dict = preset;
        o
    }
    pub fn props(&self) -> u32 {
        (self.pb * 5 + self.lp) * 9 + self.lc
    }
}

/// In-range option vectors; `lzma2` restricts lc + lp <= 4.
pub fn gen_opts(rng: &mut Rng, lzma2: bool, max_dict: u32) -> Opts {
    let (lc, lp) = loop {
        let lc = match rng.below(4) { 0 => 3, 1 => 0, _ => rng.below(9) as u32 };
        let lp = match rng.below(3) { 0 => 0, _ => rng.below(5) as u32 };
        if !lzma2 || lc + lp <= 4 {
            break (lc, lp);
        }
    };
    let pb = match rng.below(3) { 0 => 2, _ => rng.below(5) as u32 };
    let dict = match rng.below(6) {
        0 => 4096,
        1 => 65536,
        2 => 1 << 20,
        3 => (4096 + rng.below(61440)) as u32,
        4 => *rng.pick(&[4097u32, 5000, 8192, 12288, 65535, 65537, 100_000]),
        _ => rng.range(4096, max_dict as u64) as u32,
    }
    .min(max_dict);
    let nice = match rng.below(4) { 0 => 8, 1 => 273, 2 => 64, _ => rng.range(8, 273) as u32 };
    Opts { lc, lp, pb, dict, nice, mode: rng.below(2) as u32, mf: rng.below(2) as u32, depth: *rng.pick(&[0i32, 0, 1, 4, 48, 1000]) }
}

pub fn lzma1_encode(o: &Opts, preset: Option<Vec<u8>>, header: bool, end_marker: bool, expected: Option<u64>, parts: &[Vec<u8>]) -> Outcome<Vec<u8>> {
    guarded(|| {
        let mut w = LZMAWriter::new(Vec::new(), &o.lzma(preset), header, end_marker, expected)?;
        for p in parts {
            w.write_all(p)?;
        }
        w.finish()
    })
}

pub fn lzma2_encode(o: &Opts, preset: Option<Vec<u8>>, chunk_size: Option<u64>, parts: &[Vec<u8>], flush_after: &[usize]) -> Outcome<Vec<u8>> {
    guarded(|| {
        let mut opt = LZMA2Options::default();
        opt.lzma_options = o.lzma(preset);
        opt.chunk_size = chunk_size.and_then(NonZeroU64::new);
        let mut w = LZMA2Writer::new(Vec::new(), opt);
        for (i, p) in parts.iter().enumerate() {
            w.write_all(p)?;
            if flush_after.contains(&i) {
                w.flush()?;
            }
        }
        w.finish()
    })
}
