//! Area "bcj": BCJWriter / BCJReader (eight architectures) vs. Filter/Bcj.v + Filter/BcjStream.v,
//! plus the reference filters of liblzma.
//!   bcj_enc <arch> <start_pos> <parts>                 BCJWriter under a write-call partition
//!   bcj_enc_short <arch> <start_pos> <parts> <k>       the same into a sink taking <= k bytes per call
//!   bcj_dec <arch> <start_pos> <inner script> <sizes>  BCJReader over an inner reader following the
//!                                                      script (hex chunk | !<error code> for one
//!                                                      failing call; !8 = Interrupted), read by a
//!                                                      loop with destination sizes <sizes> (cycled)
//!                                                      that retries on Interrupted
//! arch = x86 | arm | armthumb | arm64 | ppc | sparc | ia64 | riscv
use crate::reflib;
use crate::util::*;
use lzma_rust2::filter::bcj::{BCJReader, BCJWriter};
use std::io::{self, Read, Write};

pub const ARCHS: &[&str] = &["x86", "arm", "armthumb", "arm64", "ppc", "sparc", "ia64", "riscv"];

fn align(arch: &str) -> usize {
    match arch {
        "x86" => 1,
        "armthumb" | "riscv" => 2,
        "ia64" => 16,
        _ => 4,
    }
}

/// the shortest buffer of which `code` converts a non-empty prefix
fn min_len(arch: &str) -> usize {
    match arch {
        "x86" => 5,
        "ia64" => 16,
        "riscv" => 8,
        _ => 4,
    }
}

fn writer<W: Write>(arch: &str, inner: W, start: usize) -> BCJWriter<W> {
    match arch {
        "x86" => BCJWriter::new_x86(inner, start),
        "arm" => BCJWriter::new_arm(inner, start),
        "armthumb" => BCJWriter::new_arm_thumb(inner, start),
        "arm64" => BCJWriter::new_arm64(inner, start),
        "ppc" => BCJWriter::new_ppc(inner, start),
        "sparc" => BCJWriter::new_sparc(inner, start),
        "ia64" => BCJWriter::new_ia64(inner, start),
        "riscv" => BCJWriter::new_riscv(inner, start),
        _ => panic!("unknown arch {arch}"),
    }
}

fn reader<R: Read>(arch: &str, inner: R, start: usize) -> BCJReader<R> {
    match arch {
        "x86" => BCJReader::new_x86(inner, start),
        "arm" => BCJReader::new_arm(inner, start),
        "armthumb" => BCJReader::new_arm_thumb(inner, start),
        "arm64" => BCJReader::new_arm64(inner, start),
        "ppc" => BCJReader::new_ppc(inner, start),
        "sparc" => BCJReader::new_sparc(inner, start),
        "ia64" => BCJReader::new_ia64(inner, start),
        "riscv" => BCJReader::new_riscv(inner, start),
        _ => panic!("unknown arch {arch}"),
    }
}

/// A sink that records the length of every write() call it receives and accepts at most `max`
/// bytes per call.
struct RecSink {
    data: Vec<u8>,
    calls: std::rc::Rc<std::cell::Cell<usize>>,
    max: usize,
}

impl Write for RecSink {
    fn write(&mut self, buf: &[u8]) -> io::Result<usize> {
        let n = buf.len().min(self.max);
        self.calls.set(self.calls.get() + 1);
        self.data.extend_from_slice(&buf[..n]);
        Ok(n)
    }
    fn flush(&mut self) -> io::Result<()> {
        Ok(())
    }
}

/// Runs the writer over the partition. Returns the sink's bytes and, per outer write call, whether
/// the call left an unconverted tail (seen from outside: the writer hands the sink the converted
/// prefix and the tail in two separate calls; a call shorter than the filter's minimum is all tail).
fn impl_encode(arch: &str, start: usize, parts: &[Vec<u8>], max: usize) -> Outcome<(Vec<u8>, Vec<bool>)> {
    guarded(|| {
        let calls = std::rc::Rc::new(std::cell::Cell::new(0usize));
        let mut w = writer(arch, RecSink { data: Vec::new(), calls: calls.clone(), max }, start);
        let mut tails = Vec::new();
        for p in parts {
            let before = calls.get();
            let n = w.write(p)?;
            if n != p.len() {
                return Err(io::Error::new(io::ErrorKind::Other, "writer accepted fewer bytes than given"));
            }
            if p.is_empty() {
                w.flush()?;
            }
            let inner_calls = calls.get() - before;
            tails.push(!p.is_empty() && (p.len() < min_len(arch) || inner_calls >= 2));
        }
        let s = w.into_inner();
        Ok((s.data, tails))
    })
}

/// One step of the inner reader's script: a chunk to deliver or a failing call.
#[derive(Clone)]
pub enum Ev {
    Data(Vec<u8>),
    Fail(u32),
}

pub fn parse_script(s: &str) -> Vec<Ev> {
    if s == "." {
        return Vec::new();
    }
    s.split(',')
        .filter_map(|t| {
            if let Some(c) = t.strip_prefix('!') {
                Some(Ev::Fail(c.parse().unwrap()))
            } else {
                let b = unhex(t);
                if b.is_empty() { None } else { Some(Ev::Data(b)) }
            }
        })
        .collect()
}

pub fn kind_of(code: u32) -> io::ErrorKind {
    match code {
        1 => io::ErrorKind::InvalidData,
        2 => io::ErrorKind::InvalidInput,
        3 => io::ErrorKind::UnexpectedEof,
        8 => io::ErrorKind::Interrupted,
        _ => io::ErrorKind::Other,
    }
}

/// Inner reader following a script (see Filter/BcjStream.v inner_read).
pub struct ScriptReader {
    pub evs: std::collections::VecDeque<Ev>,
}

impl Read for ScriptReader {
    fn read(&mut self, buf: &mut [u8]) -> io::Result<usize> {
        if buf.is_empty() {
            return Ok(0);
        }
        match self.evs.pop_front() {
            None => Ok(0),
            Some(Ev::Fail(c)) => Err(io::Error::new(kind_of(c), "scripted")),
            Some(Ev::Data(p)) => {
                let n = p.len().min(buf.len());
                buf[..n].copy_from_slice(&p[..n]);
                if n < p.len() {
                    self.evs.push_front(Ev::Data(p[n..].to_vec()));
                }
                Ok(n)
            }
        }
    }
}

/// The caller's loop (Filter/BcjStream.v bcj_drive): sizes cycled (4096 if none), a call failing
/// with Interrupted is repeated, any other error ends the loop, Ok(0) for a non-empty destination
/// ends it normally.  Returns the bytes obtained and the error that ended the loop, if any.
pub fn drive<R: Read>(r: &mut R, sizes: &[usize], cap: usize) -> (Vec<u8>, Option<u32>) {
    let mut out = Vec::new();
    let mut i = 0usize;
    let mut buf = vec![0u8; sizes.iter().copied().max().unwrap_or(4096).max(1)];
    loop {
        let sz = if sizes.is_empty() { 4096 } else { sizes[i % sizes.len()] };
        i += 1;
        match r.read(&mut buf[..sz]) {
            Err(e) if e.kind() == io::ErrorKind::Interrupted => continue,
            Err(e) => return (out, Some(err_code(&e))),
            Ok(n) => {
                if sz == 0 {
                    if n != 0 {
                        return (out, Some(99));
                    }
                    if !sizes.is_empty() && sizes.iter().all(|&s| s == 0) {
                        return (out, None);
                    }
                    continue;
                }
                if n == 0 {
                    return (out, None);
                }
                out.extend_from_slice(&buf[..n]);
                if out.len() > cap || i > 50_000_000 {
                    return (out, Some(98));
                }
            }
        }
    }
}

fn impl_decode_script(arch: &str, start: usize, evs: &[Ev], sizes: &[usize]) -> Outcome<(Vec<u8>, Option<u32>)> {
    guarded(|| {
        let mut r = reader(arch, ScriptReader { evs: evs.iter().cloned().collect() }, start);
        Ok(drive(&mut r, sizes, 1 << 26))
    })
}

fn impl_decode(arch: &str, start: usize, parts: &[Vec<u8>], sizes: &[usize]) -> Outcome<Vec<u8>> {
    let evs: Vec<Ev> = parts.iter().filter(|p| !p.is_empty()).map(|p| Ev::Data(p.clone())).collect();
    match impl_decode_script(arch, start, &evs, sizes) {
        Outcome::Ok((v, None)) => Outcome::Ok(v),
        Outcome::Ok((_, Some(c))) => Outcome::Err(c),
        Outcome::Err(c) => Outcome::Err(c),
        Outcome::Panic(m) => Outcome::Panic(m),
    }
}

pub fn fmt_dec(o: &Outcome<(Vec<u8>, Option<u32>)>) -> String {
    match o {
        Outcome::Ok((v, None)) => format!("OK {}", hex(v)),
        Outcome::Ok((v, Some(c))) => format!("ERR {} {}", c, hex(v)),
        Outcome::Err(c) => format!("ERR {}", c),
        Outcome::Panic(_) => "PANIC".to_string(),
    }
}

fn ref_props(arch: &str, start: usize) -> Option<Vec<u8>> {
    // liblzma takes the start offset as a 4-byte little-endian property and wants it aligned
    if start > u32::MAX as usize || start % align(arch) != 0 {
        return None;
    }
    Some((start as u32).to_le_bytes().to_vec())
}

// ------------------------------------------------------------------------------------------------
// generators
// ------------------------------------------------------------------------------------------------

fn exe_slice(rng: &mut Rng, arch: &str, len: usize) -> Option<Vec<u8>> {
    let name = match arch {
        "armthumb" => "arm-thumb",
        a => a,
    };
    let bytes = std::fs::read(format!("/repo/tests/data/wget-{name}")).ok()?;
    if bytes.len() < len + 64 {
        return None;
    }
    // mostly from the code section (the first two thirds of these binaries), 16-aligned or not
    let mut off = rng.below((bytes.len() - len) as u64) as usize;
    if rng.chance(3, 4) {
        off &= !15;
    }
    Some(bytes[off..off + len].to_vec())
}

/// one instruction (or bundle) of the kind the filter converts, with random operand bits
fn put_branch(rng: &mut Rng, arch: &str, v: &mut Vec<u8>) {
    let r = rng.next();
    match arch {
        "x86" => {
            v.push(if r & 1 == 0 { 0xE8 } else { 0xE9 });
            let hi = *rng.pick(&[0x00u8, 0xFF, 0x00, 0xFF, 0x01, 0x7F, 0x80]);
            let mid = *rng.pick(&[0x00u8, 0xFF, (r >> 8) as u8, (r >> 16) as u8]);
            v.extend_from_slice(&[(r >> 24) as u8, (r >> 32) as u8, mid, hi]);
        }
        "arm" => v.extend_from_slice(&[(r >> 8) as u8, (r >> 16) as u8, (r >> 24) as u8, 0xEB]),
        "armthumb" => v.extend_from_slice(&[(r >> 8) as u8, 0xF0 | ((r >> 16) as u8 & 7), (r >> 24) as u8, 0xF8 | ((r >> 32) as u8 & 7)]),
        "arm64" => {
            if r & 1 == 0 {
                // BL
                v.extend_from_slice(&[(r >> 8) as u8, (r >> 16) as u8, (r >> 24) as u8, 0x94 | ((r >> 32) as u8 & 3)]);
            } else {
                // ADRP, immhi mostly in the convertible range (+-512 MiB)
                let small = rng.chance(3, 4);
                let b2 = if small { if r & 2 == 0 { 0x00 | ((r >> 40) as u8 & 0x1F) } else { 0xE0 | ((r >> 40) as u8 & 0x1F) } } else { (r >> 40) as u8 };
                v.extend_from_slice(&[(r >> 8) as u8, (r >> 16) as u8, b2, 0x90 | ((r >> 32) as u8 & 0x60)]);
            }
        }
        "ppc" => v.extend_from_slice(&[0x48 | ((r >> 8) as u8 & 3), (r >> 16) as u8, (r >> 24) as u8, ((r >> 32) as u8 & 0xFC) | 1]),
        "sparc" => {
            if r & 1 == 0 {
                v.extend_from_slice(&[0x40, (r >> 8) as u8 & 0x3F, (r >> 16) as u8, (r >> 24) as u8]);
            } else {
                v.extend_from_slice(&[0x7F, 0xC0 | ((r >> 8) as u8 & 0x3F), (r >> 16) as u8, (r >> 24) as u8]);
            }
        }
        "ia64" => {
            // a bundle whose template has branch slots; each slot gets opcode 5 / btype 0 often
            let tmpl = *rng.pick(&[0x10u8, 0x11, 0x12, 0x13, 0x16, 0x17, 0x18, 0x19, 0x1C, 0x1D, 0x08]);
            let mut w: u128 = ((rng.next() as u128) << 64 | rng.next() as u128) & !0x1F | tmpl as u128;
            for slot in 0..3 {
                if rng.chance(3, 4) {
                    let base = 5 + 41 * slot;
                    w &= !((0xFu128 << (base + 37)) | (0x7u128 << (base + 9)));
                    w |= 0x5u128 << (base + 37);
                }
            }
            v.extend_from_slice(&w.to_le_bytes());
        }
        "riscv" => match r & 3 {
            0 => {
                // JAL ra / t0
                let rd = if r & 4 == 0 { 0x0 } else { 0x2 };
                v.extend_from_slice(&[0xEF, rd | ((r >> 8) as u8 & 0xF0), (r >> 16) as u8, (r >> 24) as u8]);
            }
            1 => {
                // AUIPC rd + JALR/load using rd as base (the convertible pair)
                let rd = *rng.pick(&[1u32, 5, 6, 10, 31]);
                let inst = 0x17 | (rd << 7) | ((r >> 8) as u32 & 0xFFFFF000);
                let op2 = *rng.pick(&[0x67u32, 0x03, 0x13]);
                let inst2 = op2 | (((r >> 40) as u32 & 0x1F) << 7) | (rd << 15) | (((r >> 48) as u32 & 0xFFF) << 20) | (((r >> 45) as u32 & 7) << 12);
                v.extend_from_slice(&inst.to_le_bytes());
                v.extend_from_slice(&inst2.to_le_bytes());
            }
            2 => {
                // AUIPC with rd = x0 / x2: the decoder's escape form
                let rd = if r & 4 == 0 { 0u32 } else { 2 };
                let inst = 0x17 | (rd << 7) | ((r >> 8) as u32 & 0xFFFFF000);
                v.extend_from_slice(&inst.to_le_bytes());
                v.extend_from_slice(&(rng.next() as u32).to_le_bytes());
            }
            _ => {
                let inst = 0x17 | ((r >> 8) as u32 & 0xFFFFFF80);
                v.extend_from_slice(&inst.to_le_bytes());
                v.extend_from_slice(&(rng.next() as u32).to_le_bytes());
            }
        },
        _ => {}
    }
}

fn put_filler(rng: &mut Rng, arch: &str, v: &mut Vec<u8>) {
    let n = match arch {
        "x86" => rng.below(4) as usize,
        "armthumb" | "riscv" => 2 * rng.below(3) as usize,
        "ia64" => 16 * rng.below(2) as usize,
        _ => 4 * rng.below(2) as usize,
    };
    for _ in 0..n {
        let b = match rng.below(6) {
            0 => 0x00,
            1 => 0xFF,
            2 => 0xE8,
            _ => rng.next() as u8,
        };
        v.push(b);
    }
}

/// synthetic code dense in the architecture's branch instructions
fn dense(rng: &mut Rng, arch: &str, len: usize) -> Vec<u8> {
    let mut v = Vec::with_capacity(len + 32);
    // a misaligned prefix now and then
    if rng.chance(1, 6) {
        for _ in 0..rng.below(align(arch).max(2) as u64) {
            v.push(rng.next() as u8);
        }
    }
    while v.len() < len {
        put_branch(rng, arch, &mut v);
        put_filler(rng, arch, &mut v);
    }
    v.truncate(len);
    v
}

/// data with branch instructions placed so that they straddle offset `border`
fn straddle(rng: &mut Rng, arch: &str, border: usize, extra: usize) -> Vec<u8> {
    let mut v = if rng.chance(1, 2) { dense(rng, arch, border.saturating_sub(24)) } else { gen_data_len(rng, "random", border.saturating_sub(24)) };
    // bring the write position to border - k for a k inside the instruction
    let k = 1 + rng.below(min_len(arch).max(8) as u64 - 1) as usize;
    let a = align(arch);
    let target = (border.saturating_sub(k) / a) * a;
    while v.len() < target {
        v.push(if rng.chance(1, 3) { 0 } else { rng.next() as u8 });
    }
    v.truncate(target);
    for _ in 0..3 {
        put_branch(rng, arch, &mut v);
    }
    let tail = dense(rng, arch, extra);
    v.extend_from_slice(&tail);
    v
}

pub const BCJ_DATA: &[&str] = &["tiny", "random", "exe", "dense", "straddle4096", "runs00ff", "exe_big"];

fn gen_bcj_data(rng: &mut Rng, arch: &str, class: &str, tier: &str) -> Vec<u8> {
    let big = if tier == "thorough" { 81920 } else { 40000 }; // the extracted model recurses once per step: stay below the 8 MiB stack
    match class {
        "tiny" => {
            let n = rng.below((align(arch) + min_len(arch) + 6) as u64) as usize;
            if rng.chance(1, 2) { dense(rng, arch, n) } else { gen_data_len(rng, "random", n) }
        }
        "random" => { let n = rng.below(3000) as usize; gen_data_len(rng, "random", n) }
        "exe" => { let n = 64 + rng.below(3000) as usize; exe_slice(rng, arch, n).unwrap_or_else(|| gen_data_len(rng, "random", n)) }
        "exe_big" => { let n = 4096 + rng.below(big as u64) as usize; exe_slice(rng, arch, n).unwrap_or_else(|| dense(rng, arch, n)) }
        "dense" => { let n = rng.below(2500) as usize; dense(rng, arch, n) }
        "straddle4096" => {
            let border = 4096 * (1 + rng.below(2) as usize);
            let extra = rng.below(600) as usize;
            straddle(rng, arch, border, extra)
        }
        "runs00ff" => {
            // long runs of 00 / FF with opcodes inside: the x86 prev_mask automaton's food
            let n = rng.below(1500) as usize;
            (0..n).map(|_| match rng.below(8) { 0 => 0xE8, 1 => 0xE9, 2 | 3 => 0xFF, 4 => rng.next() as u8, _ => 0x00 }).collect()
        }
        _ => panic!("unknown bcj data class"),
    }
}

fn gen_start(rng: &mut Rng, arch: &str, dist: &mut Dist) -> usize {
    let a = align(arch) as u64;
    let al = |x: u64| x / a * a;
    let (class, v) = match rng.below(12) {
        0..=3 => ("zero", 0),
        4 | 5 => ("small_aligned", al(rng.range(1, 70000))),
        6 => ("u32_aligned", al(rng.next() & 0xFFFF_FFFF)),
        7 => ("near_2^31", al(0x8000_0000 - 64 + rng.below(128))),
        8 => ("near_2^32", al(0x1_0000_0000 - 64 + rng.below(64))),
        9 => ("above_2^32", al(*rng.pick(&[0x1_0000_0000u64, 0x1_0000_0010, 0x7FFF_FFFF_FFFF_FFF0, 0x8000_0000_0000_0000, u64::MAX - 63, u64::MAX - 15, u64::MAX]))),
        10 => ("unaligned", rng.range(1, 5000) | 1),
        _ => ("u64_random", al(rng.next())),
    };
    let class = if class == "unaligned" && a == 1 { "small_aligned" } else { class };
    dist.bump(&format!("start.{class}"));
    v as usize
}

/// partition with cuts inside instructions that straddle a call border
fn gen_parts(rng: &mut Rng, arch: &str, data: &[u8], dist: &mut Dist) -> Vec<Vec<u8>> {
    let classes = ["one", "one", "one", "aligned", "small", "pow2", "random", "with_empty", "bytes"];
    let pclass = *rng.pick(&classes);
    dist.bump(&format!("partition.{pclass}"));
    let lens = if pclass == "aligned" {
        // every call but the last a multiple of 16: no tail is left in mid-stream by the word filters
        let mut out = Vec::new();
        let mut left = data.len();
        while left > 0 {
            let n = (16 * (1 + rng.below(64) as usize)).min(left);
            out.push(n);
            left -= n;
        }
        if out.is_empty() {
            out.push(0);
        }
        out
    } else if pclass == "bytes" && data.len() > 300 {
        gen_partition(rng, "small", data.len())
    } else {
        gen_partition(rng, pclass, data.len())
    };
    let _ = arch;
    split_by(data, &lens)
}

pub fn gen(rng: &mut Rng, tier: &str, dist: &mut Dist) -> Vec<String> {
    let n = if tier == "thorough" { 6000 } else { 640 };
    let mut cmds = Vec::new();
    for i in 0..n {
        let arch = ARCHS[i % ARCHS.len()];
        let class = if i / ARCHS.len() < BCJ_DATA.len() { BCJ_DATA[i / ARCHS.len()] } else {
            *rng.pick(&["tiny", "tiny", "random", "exe", "exe", "dense", "dense", "dense", "straddle4096", "straddle4096", "runs00ff", "exe_big"])
        };
        let class = if class == "exe_big" && i / ARCHS.len() >= BCJ_DATA.len() && !rng.chance(1, 3) { "exe" } else { class };
        let data = gen_bcj_data(rng, arch, class, tier);
        let start = gen_start(rng, arch, dist);
        dist.bump(&format!("arch.{arch}"));
        dist.bump(&format!("data.{class}"));
        dist.bump(&format!("len.{}", crate::areas::a_delta::len_class(data.len())));

        // --- writer under a partition
        let parts = gen_parts(rng, arch, &data, dist);
        if rng.chance(1, 10) {
            cmds.push(format!("bcj_enc_short {} {} {} {}", arch, start, hex_parts(&parts), 1 + rng.below(9)));
        } else {
            cmds.push(format!("bcj_enc {} {} {}", arch, start, hex_parts(&parts)));
        }

        // --- reader: valid filtered input (three times in four) or raw bytes
        let encoded = if rng.chance(3, 4) {
            match impl_encode(arch, start, &[data.clone()], usize::MAX) {
                Outcome::Ok((v, _)) => v,
                _ => data.clone(),
            }
        } else {
            data.clone()
        };
        let ipc = *rng.pick(&["one", "one", "small", "pow2", "random", "bytes", "4096pm"]);
        dist.bump(&format!("inner.{ipc}"));
        let ilens = match ipc {
            "4096pm" => {
                // chunks of 4096 +- a few bytes: the filter buffer fills at shifting offsets
                let mut out = Vec::new();
                let mut left = encoded.len();
                while left > 0 {
                    let k = (4096 + rng.below(9) as usize - 4).min(left);
                    out.push(k);
                    left -= k;
                }
                out
            }
            "bytes" if encoded.len() > 2000 => gen_partition(rng, "small", encoded.len()),
            _ => gen_partition(rng, ipc, encoded.len()),
        };
        let iparts = split_by(&encoded, &ilens);
        let sizes: Vec<usize> = match rng.below(8) {
            0 | 1 => vec![],
            2 => vec![1],
            3 => vec![0, 7, 1, 0, 64],
            4 => vec![4095, 1, 4097],
            5 => vec![100000],
            6 => vec![3, 0, 5, 2],
            _ => vec![1 + rng.below(5000) as usize, 1 + rng.below(17) as usize],
        };
        let sizes = if sizes == [1] && encoded.len() > 6000 { vec![1, 2, 3, 509] } else { sizes };
        dist.bump(&format!("readsizes.{}", if sizes.is_empty() { "4096" } else if sizes.contains(&0) { "with_zero" } else if sizes.iter().all(|&s| s < 8) { "tiny" } else { "mixed" }));
        // the inner reader's script: now and then with transient failures, rarely with a hard one
        let fault = match rng.below(10) {
            0 | 1 | 2 => "soft",
            3 => "hard",
            _ => "none",
        };
        dist.bump(&format!("innerfaults.{fault}"));
        let mut toks: Vec<String> = Vec::new();
        let hard_at = if fault == "hard" { rng.below(iparts.len() as u64 + 1) as usize } else { usize::MAX };
        for (k, p) in iparts.iter().enumerate() {
            if k == hard_at {
                toks.push(format!("!{}", *rng.pick(&[6u32, 1, 3])));
            }
            if fault != "none" && rng.chance(1, 3) {
                for _ in 0..1 + rng.below(2) {
                    toks.push("!8".into());
                }
            }
            toks.push(hex(p));
        }
        if hard_at == iparts.len() {
            toks.push(format!("!{}", *rng.pick(&[6u32, 1, 3])));
        }
        if fault != "none" && rng.chance(1, 2) {
            toks.push("!8".into());
        }
        let script = if toks.is_empty() { ".".to_string() } else { toks.join(",") };
        cmds.push(format!("bcj_dec {} {} {} {}", arch, start, script, ints(&sizes)));
    }
    cmds
}

// ------------------------------------------------------------------------------------------------
// executors + oracles
// ------------------------------------------------------------------------------------------------

fn kind(arch: &str) -> &str {
    arch
}

pub fn exec(a: &[&str]) -> (String, String) {
    match a[0] {
        "bcj_enc" | "bcj_enc_short" => {
            let arch = a[1];
            let start: usize = a[2].parse().unwrap();
            let parts = unhex_parts(a[3]);
            let max = if a[0] == "bcj_enc_short" { a[4].parse().unwrap() } else { usize::MAX };
            let data: Vec<u8> = parts.concat();
            let enc = impl_encode(arch, start, &parts, max);
            // which calls leave an unconverted tail is observed on a sink that takes everything
            let tails: Vec<bool> = match impl_encode(arch, start, &parts, usize::MAX) {
                Outcome::Ok((_, t)) => t,
                _ => vec![false; parts.len()],
            };
            let aligned = start % align(arch) == 0;
            let mut fails: Vec<String> = Vec::new();
            let obs = match &enc {
                Outcome::Ok((encoded, _)) => {
                    if encoded.len() != data.len() {
                        fails.push(format!("sink received {} bytes of {}", encoded.len(), data.len()));
                    }
                    // the property's own oracle on the implementation: inverse + reference equality
                    if aligned {
                        match impl_decode(arch, start, &[encoded.clone()], &[]) {
                            Outcome::Ok(d) if d == data => {}
                            _ => fails.push("decode(encode(x)) != x".into()),
                        }
                    }
                    if let Some(props) = ref_props(arch, start) {
                        match reflib::ref_filter_encode(kind(arch), &props, &data) {
                            Ok(r) if r == *encoded => {}
                            Ok(_) => fails.push("filtered bytes differ from liblzma".into()),
                            Err(e) => fails.push(format!("liblzma error {e}")),
                        }
                    }
                    // The known class (bcj-writer-midstream-tail): the data arrive in several non-empty write calls
                    // and the SAME data written in one call are filtered correctly (inverse and reference hold) -
                    // i.e. the failure is the dependence on the write partition and nothing else.  (Decided on
                    // the outputs alone: how many calls the writer makes on its inner writer is its own business.)
                    let _ = &tails;
                    let several = parts.iter().filter(|p| !p.is_empty()).count() >= 2;
                    if !fails.is_empty() && several {
                        let one_call_ok = match impl_encode(arch, start, &[data.clone()], usize::MAX) {
                            Outcome::Ok((e1, _)) => {
                                let inv = !aligned || matches!(impl_decode(arch, start, &[e1.clone()], &[]), Outcome::Ok(d) if d == data);
                                let refeq = match ref_props(arch, start) {
                                    Some(props) => matches!(reflib::ref_filter_encode(kind(arch), &props, &data), Ok(r) if r == e1),
                                    None => true,
                                };
                                inv && refeq
                            }
                            _ => false,
                        };
                        if one_call_ok {
                            fails.insert(0, "midstream-tail".into());
                        }
                    }
                    format!("OK {}", hex(encoded))
                }
                Outcome::Err(c) => {
                    fails.push("encoder returned an error".into());
                    format!("ERR {c}")
                }
                Outcome::Panic(m) => {
                    fails.push(format!("encoder panicked: {m}"));
                    "PANIC".to_string()
                }
            };
            (obs, if fails.is_empty() { "ok".into() } else { format!("FAIL {}", fails.join("; ")) })
        }
        "bcj_dec" => {
            let arch = a[1];
            let start: usize = a[2].parse().unwrap();
            let evs = parse_script(a[3]);
            let sizes: Vec<usize> = if a[4] == "." { vec![] } else { a[4].split(',').map(|x| x.parse().unwrap()).collect() };
            let dec = impl_decode_script(arch, start, &evs, &sizes);
            // oracle: neither the read history nor transient failures of the inner reader matter
            // (one-shot read of the same bytes from a fault-free one-chunk inner reader); a hard
            // failure is reported as such after a prefix of that output; the reference agrees
            let whole: Vec<u8> = evs.iter().flat_map(|e| match e { Ev::Data(p) => p.clone(), _ => vec![] }).collect();
            let hard: Option<u32> = evs.iter().find_map(|e| match e { Ev::Fail(c) if *c != 8 => Some(*c), _ => None });
            let one = impl_decode(arch, start, &[whole.clone()], &[1 << 20]);
            let all_zero = !sizes.is_empty() && sizes.iter().all(|&s| s == 0);
            let mut oracle = match (&dec, &one) {
                (Outcome::Panic(m), _) => format!("FAIL reader panicked: {m}"),
                (Outcome::Ok((x, None)), Outcome::Ok(y)) if all_zero && x.is_empty() => { let _ = y; "ok".to_string() }
                (Outcome::Ok((x, None)), Outcome::Ok(y)) if x == y && hard.is_none() => "ok".to_string(),
                (Outcome::Ok((x, Some(c))), Outcome::Ok(y)) if Some(*c) == hard && y.starts_with(x) => "ok".to_string(),
                (Outcome::Ok((_, Some(c))), _) if Some(*c) != hard => format!("FAIL reader returned error {c} the inner reader never produced"),
                _ => "FAIL reader output depends on the read history / inner reader's transient errors".to_string(),
            };
            if oracle == "ok" && hard.is_none() && !all_zero {
                if let (Outcome::Ok((x, None)), Some(props)) = (&dec, ref_props(arch, start)) {
                    match reflib::ref_filter_decode(kind(arch), &props, &whole) {
                        Ok(r) if r == *x => {}
                        Ok(_) => oracle = "FAIL decoded bytes differ from liblzma".into(),
                        Err(e) => oracle = format!("FAIL liblzma error {e}"),
                    }
                }
            }
            (fmt_dec(&dec), oracle)
        }
        _ => ("NOCMD".into(), "FAIL unknown command".into()),
    }
}

pub const AREA: Area = Area { name: "bcj", gen, exec };
