//! Area "lzipdict": the dictionary-size byte of the LZIP header (observed through LZIPWriter's
//! output, byte 5) vs. Format/LzipDict.v, and the reader's acceptance of the stream.
//!   lzip_header_dict <requested dict_size>
use crate::util::*;
use lzma_rust2::{LZIPOptions, LZIPReader, LZIPWriter};
use std::io::{Read, Write};

pub fn header_byte(dict: u32, data: &[u8]) -> Outcome<(u8, Vec<u8>)> {
    guarded(|| {
        let mut o = LZIPOptions::with_preset(0);
        o.lzma_options.dict_size = dict;
        let mut w = LZIPWriter::new(Vec::new(), o);
        w.write_all(data)?;
        let v = w.finish()?;
        Ok((v[5], v))
    })
}

pub fn gen(rng: &mut Rng, tier: &str, dist: &mut Dist) -> Vec<String> {
    let n = if tier == "thorough" { 6000 } else { 600 };
    let mut dicts: Vec<u32> = vec![0, 1, 4095, 4096, 4097, 5000, 65535, 65536, 65537, (1 << 29) - 1, 1 << 29, (1 << 29) + 1, u32::MAX];
    for k in 12..=29u32 {
        let b = 1u32 << k;
        let u = b >> 4;
        for f in 0..=8u32 {
            for d in [-1i64, 0, 1] {
                let v = (b as i64 - (f * u) as i64 + d).clamp(0, u32::MAX as i64) as u32;
                dicts.push(v);
            }
        }
    }
    while dicts.len() < n {
        let k = rng.range(12, 29);
        dicts.push(rng.range(1 << k, (1u64 << (k + 1)).min(1 << 29)) as u32);
    }
    for &d in &dicts {
        let clamped = d.clamp(4096, 1 << 29);
        dist.bump(if d < 4096 { "dict.below_min" } else if d > (1 << 29) { "dict.above_max" } else if clamped.is_power_of_two() { "dict.pow2" } else { "dict.fractional" });
    }
    dicts.iter().map(|d| format!("lzip_header_dict {d}")).collect()
}

pub fn exec(a: &[&str]) -> (String, String) {
    let d: u32 = a[1].parse().unwrap();
    // tiny payload: the byte under test does not depend on the data
    let data = b"abcabcabc".to_vec();
    let r = header_byte(d, &data);
    let clamped = d.clamp(4096, 1 << 29);
    match &r {
        Outcome::Ok((b, stream)) => {
            // oracle: the crate's reader accepts the stream and the announced dictionary is at
            // least the clamped request
            let mut got = Vec::new();
            let ok = guarded(|| LZIPReader::new(&stream[..])?.read_to_end(&mut got));
            let base = 1u64 << (b & 31);
            let announced = base - (base >> 4) * ((b >> 5) as u64);
            let o = if !matches!(ok, Outcome::Ok(_)) || got != data {
                "FAIL own reader rejects or alters the stream".to_string()
            } else if announced < clamped as u64 {
                format!("FAIL header announces {announced} < dictionary in use {clamped}")
            } else {
                "ok".to_string()
            };
            (format!("OK {}", announced), o)
        }
        Outcome::Err(c) => (format!("ERR {c}"), "FAIL writer error for a clampable dictionary size".to_string()),
        Outcome::Panic(_) => ("PANIC".to_string(), "FAIL panic".to_string()),
    }
}

pub const AREA: Area = Area { name: "lzipdict", gen, exec };
