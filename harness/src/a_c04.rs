//! Area "c04": corrupted XZ / LZIP files are rejected or decode to exactly the original bytes.
//! Valid files (written by the crate) x {every single-bit flip (exhaustive on tiny files), byte
//! substitution, truncation, region delete / duplicate / transpose, field edits with and without
//! CRC fix-up, random non-format strings}.  Commands and executors: see a_c02.rs.
// requires-verif-hooks (hook H3: FilterConfig / FilterType re-exports); left out of guard-off builds by build.rs
use super::a_c02::*;
use crate::encutil::*;
use crate::util::*;

pub fn crc32(data: &[u8]) -> u32 {
    let mut c = 0xFFFF_FFFFu32;
    for &b in data {
        c ^= b as u32;
        for _ in 0..8 {
            c = if c & 1 != 0 { (c >> 1) ^ 0xEDB8_8320 } else { c >> 1 };
        }
    }
    !c
}

/// Layout of a single-stream .xz file written by the crate: offsets of the fields.
pub struct XzLayout {
    pub blocks: Vec<(usize, usize, usize, usize)>, // (header start, header size, payload end, block end incl. padding+check)
    pub index_start: usize,
    pub index_end: usize, // incl. CRC
}

pub fn xz_layout(f: &[u8], check: u8) -> Option<XzLayout> {
    let csize = match check { 0 => 0, 1 => 4, 4 => 8, _ => 32 };
    let (pls, _) = xz_slice(f, check)?;
    let mut p = 12usize;
    let mut blocks = Vec::new();
    for pl in &pls {
        let hs = (f[p] as usize + 1) * 4;
        let pe = p + hs + pl.len();
        let be = (pe + 3) / 4 * 4 + csize;
        blocks.push((p, hs, pe, be));
        p = be;
    }
    Some(XzLayout { blocks, index_start: p, index_end: f.len() - 12 })
}

/// Structured edits of an .xz file; `fix` recomputes the CRC32 that covers the edited field.
pub fn xz_field_edit(rng: &mut Rng, f: &[u8], check: u8, has_pre_filter: bool, fix: bool, dist: &mut Dist) -> Vec<u8> {
    let mut v = f.to_vec();
    let lay = match xz_layout(f, check) {
        Some(l) => l,
        None => return v,
    };
    let n = v.len();
    let which = rng.below(7);
    match which {
        0 => {
            dist.bump("edit.stream_flags");
            // check type (never a BCJ-free file becomes model-unsupported: only the flags change)
            v[7] = *rng.pick(&[0u8, 1, 4, 10, 2, 3, 5, 15, 0x11, 0x80]);
            if rng.chance(1, 4) {
                v[6] = 1;
            }
            if fix {
                let c = crc32(&v[6..8]);
                v[8..12].copy_from_slice(&c.to_le_bytes());
            }
        }
        1 if !lay.blocks.is_empty() => {
            dist.bump("edit.block_header");
            let (hs, hl, _, _) = *rng.pick(&lay.blocks);
            match rng.below(6) {
                0 => v[hs + 1] ^= *rng.pick(&[0x04u8, 0x08, 0x10, 0x20, 0x40, 0x80, 0x01, 0x03]), // flags: reserved bits, size flags, filter count
                1 => {
                    // filter id -> another id; never a BCJ id and never a second LZMA2 (both would
                    // leave the executable model: SKIP)
                    let id = if has_pre_filter { *rng.pick(&[0x03u8, 0x02, 0x22, 0x00, 0x7F]) } else { *rng.pick(&[0x03u8, 0x21, 0x02, 0x22, 0x00, 0x7F]) };
                    v[hs + 2] = id;
                }
                2 => {
                    // last property byte of the chain (LZMA2 dictionary size / delta distance)
                    let mut p = hs + hl - 5;
                    while p > hs + 2 && v[p] == 0 {
                        p -= 1;
                    }
                    v[p] = *rng.pick(&[0u8, 1, 39, 40, 41, 63, 0xFF]);
                }
                3 => v[hs] = v[hs].wrapping_add(*rng.pick(&[1u8, 0xFF])), // header size byte
                4 => {
                    // header padding byte
                    v[hs + hl - 5] = if v[hs + hl - 5] == 0 { 1 } else { 0 };
                }
                _ => {
                    let i = hs + 1 + rng.below((hl - 5) as u64) as usize;
                    v[i] = rng.next() as u8;
                    if (4..=11).contains(&v[i]) {
                        v[i] = 0x21;
                    }
                }
            }
            if fix {
                let c = crc32(&v[hs..hs + hl - 4]);
                v[hs + hl - 4..hs + hl].copy_from_slice(&c.to_le_bytes());
            }
        }
        2 => {
            dist.bump("edit.index");
            let (a, e) = (lay.index_start, lay.index_end);
            if e >= a + 8 {
                let i = a + 1 + rng.below((e - 4 - a - 1) as u64) as usize;
                match rng.below(3) {
                    0 => v[i] = v[i].wrapping_add(1),
                    1 => v[i] ^= 0x80,
                    _ => v[i] = rng.next() as u8,
                }
                if rng.chance(1, 5) {
                    v[a] = 1; // index indicator
                }
                if fix {
                    let c = crc32(&v[a..e - 4]);
                    v[e - 4..e].copy_from_slice(&c.to_le_bytes());
                }
            }
        }
        3 => {
            dist.bump("edit.footer");
            match rng.below(3) {
                0 => v[n - 8] = v[n - 8].wrapping_add(*rng.pick(&[1u8, 0xFF])), // backward size
                1 => v[n - 3] = *rng.pick(&[0u8, 1, 4, 10]),                    // footer flags
                _ => v[n - 4] = 1,
            }
            if fix {
                let c = crc32(&v[n - 8..n - 2]);
                v[n - 12..n - 8].copy_from_slice(&c.to_le_bytes());
            }
        }
        4 if !lay.blocks.is_empty() => {
            dist.bump("edit.check_field");
            let (_, _, pe, be) = *rng.pick(&lay.blocks);
            if be > pe {
                let i = pe + rng.below((be - pe) as u64) as usize;
                v[i] ^= 1 << rng.below(8);
            }
        }
        5 if !lay.blocks.is_empty() => {
            dist.bump("edit.payload");
            let (hs, hl, pe, _) = *rng.pick(&lay.blocks);
            let i = hs + hl + rng.below((pe - hs - hl) as u64) as usize;
            match rng.below(3) {
                0 => v[i] ^= 1 << rng.below(8),
                1 => v[i] = rng.next() as u8,
                _ => v[i] = 0,
            }
        }
        _ => {
            dist.bump("edit.magic");
            match rng.below(3) {
                0 => v[rng.below(6) as usize] ^= 1 << rng.below(8),
                1 => {
                    let i = n - 1 - rng.below(2) as usize;
                    v[i] ^= 1 << rng.below(8);
                }
                _ => v[0] = 0,
            }
        }
    }
    v
}

pub fn lzip_field_edit(rng: &mut Rng, f: &[u8], dist: &mut Dist) -> Vec<u8> {
    let mut v = f.to_vec();
    let n = v.len();
    if n < 26 {
        return v;
    }
    match rng.below(8) {
        0 => {
            dist.bump("edit.lzip_magic");
            v[rng.below(4) as usize] ^= 1 << rng.below(8);
        }
        1 => {
            dist.bump("edit.lzip_version");
            v[4] = *rng.pick(&[0u8, 2, 0xFF]);
        }
        2 => {
            dist.bump("edit.lzip_dict");
            v[5] = *rng.pick(&[0u8, 11, 12, 0x2C, 30, 31, 0xEC, 0xFF, 0x1D]);
        }
        3 => {
            dist.bump("edit.lzip_crc");
            v[n - 20 + rng.below(4) as usize] ^= 1 << rng.below(8);
        }
        4 => {
            dist.bump("edit.lzip_data_size");
            let i = n - 16 + rng.below(8) as usize;
            v[i] = v[i].wrapping_add(*rng.pick(&[1u8, 0xFF, 0x80]));
        }
        5 => {
            dist.bump("edit.lzip_member_size");
            let i = n - 8 + rng.below(8) as usize;
            v[i] = v[i].wrapping_add(*rng.pick(&[1u8, 0xFF, 0x80]));
        }
        6 => {
            dist.bump("edit.lzip_payload");
            let i = 6 + rng.below((n - 26).max(1) as u64) as usize;
            v[i] ^= 1 << rng.below(8);
        }
        _ => {
            dist.bump("edit.lzip_first_payload_byte");
            v[6] = 1;
        }
    }
    v
}

/// Unstructured damage.
pub fn damage(rng: &mut Rng, f: &[u8], dist: &mut Dist) -> Vec<u8> {
    let mut v = f.to_vec();
    if v.is_empty() {
        return v;
    }
    let n = v.len();
    match rng.below(7) {
        0 => {
            dist.bump("damage.byte");
            let i = rng.below(n as u64) as usize;
            v[i] = v[i].wrapping_add(1 + rng.below(255) as u8);
        }
        1 => {
            dist.bump("damage.truncate");
            v.truncate(rng.below(n as u64) as usize);
        }
        2 => {
            dist.bump("damage.delete");
            let i = rng.below(n as u64) as usize;
            let k = (1 + rng.below(12) as usize).min(n - i);
            v.drain(i..i + k);
        }
        3 => {
            dist.bump("damage.duplicate");
            let i = rng.below(n as u64) as usize;
            let k = (1 + rng.below(12) as usize).min(n - i);
            let seg = v[i..i + k].to_vec();
            let at = rng.below(n as u64 + 1) as usize;
            for (j, b) in seg.into_iter().enumerate() {
                v.insert(at + j, b);
            }
        }
        4 => {
            dist.bump("damage.transpose");
            if n >= 8 {
                let k = 1 + rng.below(4) as usize;
                let i = rng.below((n - 2 * k) as u64 + 1) as usize;
                let j = i + k + rng.below((n - i - 2 * k) as u64 + 1) as usize;
                for t in 0..k {
                    v.swap(i + t, j + t);
                }
            }
        }
        5 => {
            dist.bump("damage.insert");
            let at = rng.below(n as u64 + 1) as usize;
            let k = 1 + rng.below(6) as usize;
            for _ in 0..k {
                v.insert(at, rng.next() as u8);
            }
        }
        _ => {
            dist.bump("damage.zero_run");
            let i = rng.below(n as u64) as usize;
            let k = (1 + rng.below(8) as usize).min(n - i);
            for b in &mut v[i..i + k] {
                *b = 0;
            }
        }
    }
    v
}

/// A tiny XZ file for exhaustive treatment (no BCJ, content < 64 bytes).
fn tiny_xz(rng: &mut Rng, check: u8, filters: Vec<(u8, u32)>, data: Vec<u8>, split: bool) -> Option<(Vec<u8>, Vec<u8>)> {
    let mut opts = gen_opts(rng, true, 1 << 16);
    opts.dict = 4096;
    let parts = if split && data.len() > 1 { vec![data[..1].to_vec(), data[1..].to_vec()] } else { vec![data.clone()] };
    let g = XzGen { check, bs: None, filters, opts, parts, flushes: vec![] };
    match g.write() {
        Outcome::Ok(f) => Some((f, data)),
        _ => None,
    }
}

/// cumulative end offsets of the members of a valid LZIP file (backward walk over the member_size fields)
pub fn lzip_member_ends(f: &[u8]) -> Vec<usize> {
    let mut ends = Vec::new();
    let mut end = f.len();
    while end >= 26 {
        let ms = u64::from_le_bytes(f[end - 8..end].try_into().unwrap()) as usize;
        if ms < 26 || ms > end {
            break;
        }
        ends.push(end);
        end -= ms;
    }
    ends.reverse();
    ends
}

/// What a reader may return for the damaged file `v` of the valid file `f` (content `d`, members
/// with uncompressed sizes `members`, ending at `ends`): the original content, or - the loss the
/// format itself defines - the content of the first j members when these are intact in `v` and
/// what follows them is trailing data, i.e. does NOT begin with the member magic or, at the end of
/// the input, with a proper prefix of it.
fn lzip_kind(f: &[u8], v: &[u8], d: &[u8], members: &[u64], ends: &[usize]) -> String {
    if members.len() <= 1 || ends.len() != members.len() {
        return format!("corrupt:{}", hex(d));
    }
    let mut allowed = vec![hex(d)];
    let mut acc = 0usize;
    for j in 0..members.len() - 1 {
        acc += members[j] as usize;
        let k = ends[j];
        if v.len() >= k && v[..k] == f[..k] {
            let rest = &v[k..];
            let n = rest.len().min(4);
            let looks_like_member = n > 0 && rest[..n] == b"LZIP"[..n];
            if !looks_like_member {
                allowed.push(hex(&d[..acc]));
            }
        }
    }
    format!("oneof:{}", allowed.join(","))
}

fn xz_kind(check: u8, content: &[u8]) -> String {
    // the property excludes CheckType::None (nothing protects the payload there)
    if check == 0 { "any".to_string() } else { format!("corrupt:{}", hex(content)) }
}

pub fn gen(rng: &mut Rng, tier: &str, dist: &mut Dist) -> Vec<String> {
    let thorough = tier == "thorough";
    let mut cmds = Vec::new();
    // ---- every single-bit flip of tiny files ----
    let mut tiny: Vec<(Vec<u8>, Vec<u8>, u8)> = Vec::new();
    let texts: [&[u8]; 3] = [b"hello hello hello", b"", b"abcabcabcabcabc0123456789"];
    let plan: Vec<(u8, Vec<(u8, u32)>, usize)> = if thorough {
        vec![(1, vec![], 0), (4, vec![], 0), (10, vec![], 0), (1, vec![(3, 1)], 2), (4, vec![(3, 4), (3, 1)], 2), (1, vec![], 1), (10, vec![], 1), (0, vec![], 0)]
    } else {
        vec![(1, vec![], 0), (4, vec![(3, 2)], 2), (10, vec![], 1), (1, vec![(3, 1)], 2)]
    };
    for (check, filters, t) in plan {
        if let Some((f, d)) = tiny_xz(rng, check, filters, texts[t].to_vec(), false) {
            tiny.push((f, d, check));
        }
    }
    for (f, d, check) in &tiny {
        for i in 0..f.len() {
            for bit in 0..8 {
                let mut v = f.clone();
                v[i] ^= 1 << bit;
                dist.bump("xz.bitflip_exhaustive");
                cmds.push(format!("xz_read {} 0 {} . {} {}", (i + bit) % 2, hex(&v), cap_for(d.len()), xz_kind(*check, d)));
            }
        }
    }
    let lz_tiny: Vec<(Vec<u8>, Vec<u8>)> = texts.iter().take(if thorough { 3 } else { 2 }).filter_map(|t| {
        let g = LzGen { dict: 4096, ms: None, opts: gen_opts(rng, false, 1 << 16), parts: vec![t.to_vec()] };
        match g.write() { Outcome::Ok(f) => Some((f, t.to_vec())), _ => None }
    }).collect();
    for (f, d) in &lz_tiny {
        for i in 0..f.len() {
            for bit in 0..8 {
                let mut v = f.clone();
                v[i] ^= 1 << bit;
                dist.bump("lzip.bitflip_exhaustive");
                cmds.push(format!("lzip_read {} . {} corrupt:{}", hex(&v), cap_for(d.len()), hex(d)));
            }
        }
    }
    // ---- random damage of small files over the option space ----
    let n = if thorough { 30000 } else { 8000 };
    for i in 0..n {
        let sizes = gen_sizes(rng);
        if i % 3 != 2 {
            let g = gen_xz(rng, i, 300, false, dist);
            let f = match g.write() { Outcome::Ok(f) => f, _ => continue };
            let d = g.data();
            let v = match rng.below(10) {
                0..=2 => {
                    dist.bump("xz.bitflip");
                    let mut v = f.clone();
                    let k = rng.below(v.len() as u64) as usize;
                    v[k] ^= 1 << rng.below(8);
                    v
                }
                3..=5 => damage(rng, &f, dist),
                6 | 7 => xz_field_edit(rng, &f, g.check, !g.filters.is_empty(), true, dist),
                _ => xz_field_edit(rng, &f, g.check, !g.filters.is_empty(), false, dist),
            };
            if v == f {
                continue;
            }
            cmds.push(format!("xz_read {} 0 {} {} {} {}", rng.below(2), hex(&v), ints(&sizes), cap_for(d.len()), xz_kind(g.check, &d)));
            // structured damage of multi-block files: whole trailing blocks removed, or a whole block
            // repeated, with index and footer untouched (only the comparison of the index with the
            // blocks actually decoded can notice)
            if let Some(l) = xz_layout(&f, g.check) {
                if l.blocks.len() >= 2 && g.check != 0 {
                    let nb = l.blocks.len();
                    let k = 1 + rng.below(nb as u64 - 1) as usize; // blocks kept
                    let mut v = f[..l.blocks[k - 1].3].to_vec();
                    v.extend_from_slice(&f[l.index_start..]);
                    dist.bump("xz.trailing_blocks_removed");
                    cmds.push(format!("xz_read {} 0 {} {} {} {}", rng.below(2), hex(&v), ints(&sizes), cap_for(d.len()), xz_kind(g.check, &d)));
                    let j = rng.below(nb as u64) as usize;
                    let mut v = f[..l.index_start].to_vec();
                    v.extend_from_slice(&f[l.blocks[j].0..l.blocks[j].3]);
                    v.extend_from_slice(&f[l.index_start..]);
                    dist.bump("xz.block_repeated");
                    cmds.push(format!("xz_read {} 0 {} {} {} {}", rng.below(2), hex(&v), ints(&sizes), cap_for(2 * d.len()), xz_kind(g.check, &d)));
                }
            }
        } else {
            let g = gen_lzip(rng, i, 300, dist);
            let f = match g.write() { Outcome::Ok(f) => f, _ => continue };
            let d = g.data();
            let members = lzip_slice(&f).map(|x| x.1).unwrap_or_default();
            let v = match rng.below(10) {
                0..=2 => {
                    dist.bump("lzip.bitflip");
                    let mut v = f.clone();
                    let k = rng.below(v.len() as u64) as usize;
                    v[k] ^= 1 << rng.below(8);
                    v
                }
                3..=5 => damage(rng, &f, dist),
                _ => lzip_field_edit(rng, &f, dist),
            };
            if v == f {
                continue;
            }
            // The format tolerates trailing data after a complete member: when the damage leaves a
            // prefix of complete members intact and destroys the magic of the next one, the result is
            // the content of that prefix (the loss the format itself defines).
            let ends = lzip_member_ends(&f);
            let kind = lzip_kind(&f, &v, &d, &members, &ends);
            cmds.push(format!("lzip_read {} {} {} {}", hex(&v), ints(&sizes), cap_for(d.len()), kind));
            // structured damage of multi-member files: the file cut 1..7 bytes into the header of a
            // later member (a proper prefix of the magic, or the magic without version / dictionary
            // byte, at the end of the input is a truncated member, not trailing data)
            if ends.len() >= 2 {
                let j = rng.below(ends.len() as u64 - 1) as usize;
                for extra in [1usize, 2, 3, 4, 5] {
                    let cut = ends[j] + extra;
                    if cut < f.len() {
                        let v = f[..cut].to_vec();
                        dist.bump("lzip.cut_in_later_header");
                        cmds.push(format!("lzip_read {} {} {} {}", hex(&v), ints(&sizes), cap_for(d.len()), lzip_kind(&f, &v, &d, &members, &ends)));
                    }
                }
            }
        }
    }
    // ---- strings that are not the format at all ----
    let m = if thorough { 16000 } else { 2000 };
    for _ in 0..m {
        let len = rng.below(80) as usize;
        let mut v: Vec<u8> = (0..len).map(|_| if rng.chance(1, 4) { 0 } else { rng.next() as u8 }).collect();
        let sizes = gen_sizes(rng);
        match rng.below(6) {
            0 => {
                // starts like XZ
                let h = [0xFDu8, b'7', b'z', b'X', b'Z', 0, 0, 1, 0x69, 0x22, 0xDE, 0x36];
                let k = rng.range(1, 12) as usize;
                v.splice(0..0, h[..k].iter().copied());
                dist.bump("junk.xz_prefix");
                cmds.push(format!("xz_read {} 0 {} {} 1024 corrupt:-", rng.below(2), hex(&v), ints(&sizes)));
            }
            1 => {
                let h = [b'L', b'Z', b'I', b'P', 1, 0x0C];
                let k = rng.range(1, 6) as usize;
                v.splice(0..0, h[..k].iter().copied());
                dist.bump("junk.lzip_prefix");
                cmds.push(format!("lzip_read {} {} 1024 corrupt:-", hex(&v), ints(&sizes)));
            }
            2 | 3 => {
                dist.bump("junk.xz");
                cmds.push(format!("xz_read {} 0 {} {} 1024 {}", rng.below(2), hex(&v), ints(&sizes), if v.is_empty() { "any" } else { "reject" }));
            }
            _ => {
                dist.bump("junk.lzip");
                // non-empty input that does not begin with the magic and a valid header: an error
                cmds.push(format!("lzip_read {} {} 1024 {}", hex(&v), ints(&sizes), if v.is_empty() { "any" } else { "reject" }));
            }
        }
    }
    cmds
}

pub const AREA: Area = Area { name: "c04", gen, exec };
