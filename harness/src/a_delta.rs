//! Area "delta": DeltaWriter / DeltaReader vs. Filter/Delta.v, plus the reference filter.
//!   delta_enc <dist> <parts>            DeltaWriter under a call partition
//!   delta_dec <dist> <parts> <sizes>    DeltaReader over an inner reader delivering <parts>,
//!                                       read with destination sizes <sizes> (impl-only argument)
use crate::reflib;
use crate::util::*;
use lzma_rust2::filter::delta::{DeltaReader, DeltaWriter};
use std::io::Write;

fn impl_encode(dist: usize, parts: &[Vec<u8>]) -> Outcome<Vec<u8>> {
    guarded(|| {
        let mut w = DeltaWriter::new(Vec::new(), dist);
        for p in parts {
            let n = w.write(p)?;
            if n != p.len() {
                return Err(std::io::Error::new(std::io::ErrorKind::Other, "short count from Vec sink"));
            }
            if p.is_empty() {
                w.flush()?;
            }
        }
        Ok(w.into_inner())
    })
}

fn impl_decode(dist: usize, parts: &[Vec<u8>], sizes: &[usize]) -> Outcome<Vec<u8>> {
    guarded(|| {
        let mut r = DeltaReader::new(ChunkReader::new(parts.to_vec()), dist);
        read_with_sizes(&mut r, sizes, 1 << 24)
    })
}

pub fn gen(rng: &mut Rng, tier: &str, dist_out: &mut Dist) -> Vec<String> {
    let n = if tier == "thorough" { 12000 } else { 1500 };
    let max_len = if tier == "thorough" { 4096 } else { 1200 };
    let mut cmds = Vec::new();
    for i in 0..n {
        let dist = match rng.below(8) {
            0 => 1,
            1 => 256,
            2 => 255,
            3 => *rng.pick(&[2usize, 3, 4, 8, 16, 128]),
            _ => rng.range(1, 256) as usize,
        };
        let class = if i < DATA_CLASSES.len() { DATA_CLASSES[i] } else { *rng.pick(DATA_CLASSES) };
        let data = gen_data(rng, class, max_len);
        let pclass = *rng.pick(PART_CLASSES);
        let lens = gen_partition(rng, pclass, data.len());
        let parts = split_by(&data, &lens);
        dist_out.bump(&format!("data.{class}"));
        dist_out.bump(&format!("partition.{pclass}"));
        dist_out.bump(&format!("dist.{}", if dist == 1 { "1" } else if dist == 256 { "256" } else if dist < 16 { "2-15" } else { "16-255" }));
        dist_out.bump(&format!("len.{}", len_class(data.len())));
        cmds.push(format!("delta_enc {} {}", dist, hex_parts(&parts)));

        // decoder: valid filtered input (from the implementation) or, one time in four, raw bytes
        let encoded = if rng.chance(3, 4) {
            match impl_encode(dist, &[data.clone()]) {
                Outcome::Ok(v) => v,
                _ => data.clone(),
            }
        } else {
            data.clone()
        };
        let ipc = *rng.pick(&["one", "small", "pow2", "random"]);
        let ilens = gen_partition(rng, ipc, encoded.len());
        let iparts = split_by(&encoded, &ilens);
        let sizes: Vec<usize> = match rng.below(4) {
            0 => vec![],
            1 => vec![1],
            2 => vec![0, 7, 1, 0, 64],
            _ => vec![1 + rng.below(300) as usize, 1 + rng.below(5) as usize],
        };
        dist_out.bump(&format!("readsizes.{}", if sizes.is_empty() { "big" } else if sizes.contains(&0) { "with_zero" } else { "small" }));
        cmds.push(format!("delta_dec {} {} {}", dist, hex_parts(&iparts), ints(&sizes)));
    }
    cmds
}

pub fn exec(a: &[&str]) -> (String, String) {
    match a[0] {
        "delta_enc" => {
            let dist: usize = a[1].parse().unwrap();
            let parts = unhex_parts(a[2]);
            let data: Vec<u8> = parts.concat();
            let enc = impl_encode(dist, &parts);
            let mut oracle = String::from("ok");
            match &enc {
                Outcome::Ok(encoded) => {
                    // the property's own oracle on the implementation: inverse + reference equality
                    match impl_decode(dist, &[encoded.clone()], &[]) {
                        Outcome::Ok(d) if d == data => {}
                        _ => oracle = "FAIL decode(encode(x)) != x".into(),
                    }
                    if (1..=256).contains(&dist) {
                        match reflib::ref_filter_encode("delta", &[(dist - 1) as u8], &data) {
                            Ok(r) if r == *encoded => {}
                            Ok(_) => oracle = "FAIL filtered bytes differ from liblzma".into(),
                            Err(e) => oracle = format!("FAIL liblzma error {e}"),
                        }
                    }
                }
                _ => oracle = "FAIL encoder did not return bytes".into(),
            }
            (fmt_bytes_outcome(&enc), oracle)
        }
        "delta_dec" => {
            let dist: usize = a[1].parse().unwrap();
            let parts = unhex_parts(a[2]);
            let sizes: Vec<usize> = if a[3] == "." { vec![] } else { a[3].split(',').map(|x| x.parse().unwrap()).collect() };
            let dec = impl_decode(dist, &parts, &sizes);
            // oracle: the read history must not matter (one-shot read of the same bytes), and the
            // reference decoder agrees
            let whole: Vec<u8> = parts.concat();
            let one = impl_decode(dist, &[whole.clone()], &[]);
            let mut oracle = match (&dec, &one) {
                (Outcome::Ok(x), Outcome::Ok(y)) if x == y => "ok".to_string(),
                _ => "FAIL reader output depends on the read history".to_string(),
            };
            if oracle == "ok" && (1..=256).contains(&dist) {
                if let Outcome::Ok(x) = &dec {
                    match reflib::ref_filter_decode("delta", &[(dist - 1) as u8], &whole) {
                        Ok(r) if r == *x => {}
                        Ok(_) => oracle = "FAIL decoded bytes differ from liblzma".into(),
                        Err(e) => oracle = format!("FAIL liblzma error {e}"),
                    }
                }
            }
            (fmt_bytes_outcome(&dec), oracle)
        }
        _ => ("NOCMD".into(), "FAIL unknown command".into()),
    }
}

pub const AREA: Area = Area { name: "delta", gen, exec };

pub fn len_class(n: usize) -> &'static str {
    match n {
        0 => "0",
        1..=7 => "1-7",
        8..=255 => "8-255",
        256..=4095 => "256-4095",
        4096..=65535 => "4K-64K",
        _ => ">=64K",
    }
}
