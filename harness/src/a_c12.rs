//! Area "c12": concatenated XZ streams (stream padding of every small length, valid and invalid,
//! multi-stream decoding on and off) and concatenated LZIP members/files (with trailing data).
//! Commands and executors: see a_c02.rs.
// requires-verif-hooks (hook H3: FilterConfig / FilterType re-exports); left out of guard-off builds by build.rs
use super::a_c02::*;
use crate::util::*;

/// One complete stream with small content (empty ones included), any check type / options.
fn small_stream(rng: &mut Rng, i: usize, dist: &mut Dist) -> Option<(Vec<u8>, Vec<u8>, bool)> {
    let bcj = rng.chance(1, 10);
    let mut g = gen_xz(rng, i, 400, bcj, dist);
    if rng.chance(1, 6) {
        g.parts = vec![];
        g.flushes = vec![];
    }
    match g.write() {
        Outcome::Ok(f) => Some((f, g.data(), has_bcj(&g.filters))),
        _ => None,
    }
}

pub fn gen(rng: &mut Rng, tier: &str, dist: &mut Dist) -> Vec<String> {
    let n = if tier == "thorough" { 10000 } else { 1200 };
    let mut cmds = Vec::new();
    for i in 0..n {
        if i % 4 != 3 {
            // ---- XZ ----
            let k = 1 + rng.below(4) as usize;
            let mut file = Vec::new();
            let mut content = Vec::new();
            let mut first: Option<(Vec<u8>, usize)> = None; // (content of stream 1, its length in the file)
            let mut skip = false;
            let mut valid = true;
            let mut ok = true;
            for j in 0..k {
                let (f, d, bcj) = match small_stream(rng, i + j, dist) {
                    Some(x) => x,
                    None => {
                        ok = false;
                        break;
                    }
                };
                skip |= bcj;
                file.extend_from_slice(&f);
                content.extend_from_slice(&d);
                if first.is_none() {
                    first = Some((d.clone(), f.len()));
                }
                // padding after this stream: {0,4,8,12} valid, {1,2,3,5,6,7} invalid
                let pad = match rng.below(10) {
                    0..=3 => 0,
                    4 | 5 => 4,
                    6 => *rng.pick(&[8usize, 12, 16]),
                    _ => *rng.pick(&[1usize, 2, 3, 5, 6, 7]),
                };
                if pad % 4 != 0 {
                    valid = false;
                }
                dist.bump(&format!("xz.padding.{}", if pad % 4 == 0 { format!("{}", pad.min(8)) } else { "not_mult_4".into() }));
                file.extend(std::iter::repeat(0u8).take(pad));
            }
            if !ok {
                continue;
            }
            // sometimes non-zero garbage instead of a further stream
            let garbage = rng.chance(1, 12);
            if garbage {
                let g: Vec<u8> = match rng.below(3) {
                    0 => vec![1 + rng.below(255) as u8],
                    1 => vec![0xFD, b'7', b'z'],
                    _ => (0..1 + rng.below(20)).map(|_| rng.next() as u8 | 1).collect(),
                };
                file.extend_from_slice(&g);
                valid = false;
                dist.bump("xz.garbage_after_stream");
            }
            dist.bump(&format!("xz.streams.{k}"));
            let sizes = gen_sizes(rng);
            dist.bump(&format!("readsizes.{}", sizes_class(&sizes)));
            let kind = if valid { format!("valid:{}", hex(&content)) } else { "reject".to_string() };
            cmds.push(format!("xz_read 1 {} {} {} {} {}", skip as u8, hex(&file), ints(&sizes), cap_for(content.len()), kind));
            // multi-stream decoding off: stop right after the first stream
            let (d1, l1) = first.unwrap();
            let sizes = gen_sizes(rng);
            cmds.push(format!("xz_read 0 {} {} {} {} first:{}:{}", skip as u8, hex(&file), ints(&sizes), cap_for(content.len()), hex(&d1), file.len() - l1));
        } else {
            // ---- LZIP: files (each possibly multi-member already) concatenated ----
            let k = 1 + rng.below(4) as usize;
            let mut file = Vec::new();
            let mut content = Vec::new();
            let mut ok = true;
            for j in 0..k {
                let mut g = gen_lzip(rng, i + j, 400, dist);
                if rng.chance(1, 6) {
                    g.parts = vec![];
                }
                match g.write() {
                    Outcome::Ok(f) => {
                        file.extend_from_slice(&f);
                        content.extend_from_slice(&g.data());
                    }
                    _ => ok = false,
                }
            }
            if !ok {
                continue;
            }
            dist.bump(&format!("lzip.files.{k}"));
            let sizes = gen_sizes(rng);
            dist.bump(&format!("readsizes.{}", sizes_class(&sizes)));
            match rng.below(6) {
                0 => {
                    // trailing data that does not look like a member
                    let t: Vec<u8> = match rng.below(3) {
                        0 => vec![0; 1 + rng.below(9) as usize],
                        1 => b"trailing data".to_vec(),
                        _ => (0..1 + rng.below(30)).map(|_| rng.next() as u8 & 0x3F).collect(), // never 'L' 'Z' 'I' 'P'
                    };
                    file.extend_from_slice(&t);
                    dist.bump("lzip.trailing_data");
                    cmds.push(format!("lzip_read {} {} {} trailing:{}", hex(&file), ints(&sizes), cap_for(content.len()), hex(&content)));
                }
                1 => {
                    // something that claims to be a member but is damaged / truncated: an error
                    let t: Vec<u8> = match rng.below(4) {
                        0 => b"LZIP".to_vec(),
                        1 => b"LZ".to_vec(),
                        2 => b"LZIP\x02\x0c".to_vec(),
                        _ => b"LZIP\x01\xff".to_vec(),
                    };
                    file.extend_from_slice(&t);
                    dist.bump("lzip.damaged_next_header");
                    cmds.push(format!("lzip_read {} {} {} reject", hex(&file), ints(&sizes), cap_for(content.len())));
                }
                _ => cmds.push(format!("lzip_read {} {} {} valid:{}", hex(&file), ints(&sizes), cap_for(content.len()), hex(&content))),
            }
        }
    }
    cmds
}

pub const AREA: Area = Area { name: "c12", gen, exec };
