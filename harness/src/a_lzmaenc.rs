//! Area "lzmaenc" (C01): LZMAWriter / LZMA2Writer with the symbol-trace hook on.
//!   lzma1enc <opts> <variant> <preset|none> <parts>            (+ trace appended for the model)
//!   lzma2enc <opts> <chunk|0> <preset|none> <parts> <flushes>  (+ trace appended for the model)
//! Observation: OK <stream bytes> | ERR<kind> | PANIC.  The model re-encodes the trace (validator)
//! and must reproduce the bytes.  Oracle: the crate's own reader returns exactly the input.
use crate::encutil::*;
use crate::util::*;
use lzma_rust2::{LZMA2Reader, LZMAReader};
use std::io::Read;

#[cfg(hasenbanck_lzma_rust2_verif)]
fn trace_start() {
    lzma_rust2::verif_hooks::verif_trace_start();
}
#[cfg(hasenbanck_lzma_rust2_verif)]
fn trace_take() -> String {
    let ev = lzma_rust2::verif_hooks::verif_trace_take();
    if ev.is_empty() {
        return ".".into();
    }
    let mut s = String::with_capacity(ev.len() * 6);
    for (i, (k, a, b, c)) in ev.iter().enumerate() {
        if i > 0 {
            s.push(',');
        }
        match *k {
            b'S' => {
                if *a == -1 {
                    s += &format!("L{:02x}", c);
                } else if *a < 4 {
                    s += &format!("R{}.{}", a, b);
                } else {
                    s += &format!("M{}.{}", a - 4, b);
                }
            }
            b'E' => s.push('E'),
            b'W' => s += &format!("W{}.{}", a, b),
            b'U' => s += &format!("U{}", a),
            b'N' => s.push('N'),
            _ => s.push('?'),
        }
    }
    s
}
#[cfg(not(hasenbanck_lzma_rust2_verif))]
fn trace_start() {}
#[cfg(not(hasenbanck_lzma_rust2_verif))]
fn trace_take() -> String {
    "NOHOOK".into()
}

fn read_all<R: Read>(mut r: R) -> Outcome<Vec<u8>> {
    guarded(|| {
        let mut v = Vec::new();
        r.read_to_end(&mut v)?;
        Ok(v)
    })
}

pub fn exec(a: &[&str]) -> (String, String) {
    match a[0] {
        "lzma1enc" => {
            let o = Opts::parse(a[1]);
            let variant: u32 = a[2].parse().unwrap();
            let preset = if a[3] == "none" { None } else { Some(unhex(a[3])) };
            let parts = unhex_parts(a[4]);
            let data: Vec<u8> = parts.concat();
            let (header, marker, expected) = match variant {
                0 => (true, true, None),
                1 => (true, false, Some(data.len() as u64)),
                2 => (false, true, None),
                _ => (false, false, None),
            };
            trace_start();
            let enc = lzma1_encode(&o, preset.clone(), header, marker, expected, &parts);
            let trace = trace_take();
            match enc {
                Outcome::Ok(stream) => {
                    let dec = match variant {
                        0 | 1 => match guarded(|| LZMAReader::new_mem_limit(&stream[..], u32::MAX, None)) {
                            Outcome::Ok(r) => read_all(r),
                            Outcome::Err(c) => Outcome::Err(c),
                            Outcome::Panic(p) => Outcome::Panic(p),
                        },
                        _ => {
                            let u = if marker { u64::MAX } else { data.len() as u64 };
                            match guarded(|| LZMAReader::new(&stream[..], u, o.lc, o.lp, o.pb, o.dict, preset.as_deref())) {
                                Outcome::Ok(r) => read_all(r),
                                Outcome::Err(c) => Outcome::Err(c),
                                Outcome::Panic(p) => Outcome::Panic(p),
                            }
                        }
                    };
                    let mut oracle = match dec {
                        Outcome::Ok(d) if d == data => "ok".to_string(),
                        Outcome::Ok(_) => "FAIL decoded bytes differ from the input".into(),
                        Outcome::Err(c) => format!("FAIL own reader rejects the stream (kind {c})"),
                        Outcome::Panic(_) => "FAIL own reader panics on the stream".into(),
                    };
                    // C03: the reference implementation reads a .lzma file the crate wrote (lc + lp <= 4 is liblzma's own limit)
                    if oracle == "ok" && variant <= 1 && preset.is_none() && o.lc + o.lp <= 4 {
                        match crate::reflib::lzma_alone_decode(&stream) {
                            Ok(d) if d == data => {}
                            Ok(_) => oracle = "FAIL liblzma decodes the .lzma file the crate wrote to different bytes".into(),
                            Err(e) => oracle = format!("FAIL liblzma rejects the .lzma file the crate wrote ({})", &e[..e.len().min(60)]),
                        }
                    }
                    (format!("OK {} ||| {}", hex(&stream), trace), oracle)
                }
                Outcome::Err(c) => (format!("ERR{c} ||| {trace}"), format!("FAIL writer error kind {c} for in-range options")),
                Outcome::Panic(m) => (format!("PANIC ||| {trace}"), format!("FAIL writer panics: {}", &m[..m.len().min(80)])),
            }
        }
        "lzma2enc" => {
            let o = Opts::parse(a[1]);
            let chunk: u64 = a[2].parse().unwrap();
            let preset = if a[3] == "none" { None } else { Some(unhex(a[3])) };
            let parts = unhex_parts(a[4]);
            let flushes: Vec<usize> = if a[5] == "." { vec![] } else { a[5].split(',').map(|x| x.parse().unwrap()).collect() };
            let data: Vec<u8> = parts.concat();
            trace_start();
            let enc = lzma2_encode(&o, preset.clone(), if chunk == 0 { None } else { Some(chunk) }, &parts, &flushes);
            let trace = trace_take();
            match enc {
                Outcome::Ok(stream) => {
                    let dec = read_all(LZMA2Reader::new(&stream[..], o.dict, preset.as_deref()));
                    let mut oracle = match dec {
                        Outcome::Ok(d) if d == data => "ok".to_string(),
                        Outcome::Ok(_) => "FAIL decoded bytes differ from the input".into(),
                        Outcome::Err(c) => format!("FAIL own reader rejects the stream (kind {c})"),
                        Outcome::Panic(_) => "FAIL own reader panics on the stream".into(),
                    };
                    // C03: the reference implementation reads the raw LZMA2 stream the crate wrote
                    if preset.is_none() {
                        match crate::reflib::lzma2_raw_decode(&stream, o.dict) {
                            Ok(d) if d == data => {}
                            Ok(_) => oracle = "FAIL liblzma decodes the LZMA2 stream the crate wrote to different bytes".into(),
                            Err(e) => oracle = format!("FAIL liblzma rejects the LZMA2 stream the crate wrote ({})", &e[..e.len().min(60)]),
                        }
                    }
                    (format!("OK {} ||| {}", hex(&stream), trace), oracle)
                }
                Outcome::Err(c) => (format!("ERR{c} ||| {trace}"), format!("FAIL writer error kind {c} for in-range options")),
                Outcome::Panic(m) => (format!("PANIC ||| {trace}"), format!("FAIL writer panics: {}", &m[..m.len().min(80)])),
            }
        }
        _ => ("NOCMD".into(), "FAIL unknown command".into()),
    }
}

pub fn gen(rng: &mut Rng, tier: &str, dist: &mut Dist) -> Vec<String> {
    let n = if tier == "thorough" { 5000 } else { 500 };
    let max_len = if tier == "thorough" { 30000 } else { 4000 };
    let mut cmds = Vec::new();
    // dictionary sizes that are not a multiple of 16 with inputs of 2.5 dictionaries: the reader's window
    // is larger than the dictionary (rounded up), and after the first wrap-around the position bits
    // (pos_state, literal position) must still be those of the stream position, not of the buffer
    for (i, dict) in [4097u32, 4100, 4111, 5004, 6007].iter().enumerate() {
        let len = (*dict as usize) * 5 / 2 + 37;
        let data = gen_data_len(rng, if i % 2 == 0 { "text" } else { "mixed" }, len);
        let o = Opts { lc: if i % 2 == 0 { 3 } else { 0 }, lp: if i % 2 == 0 { 0 } else { 4 }, pb: [2u32, 4, 1, 4, 3][i], dict: *dict, nice: 32, mode: (i % 2) as u32, mf: ((i / 2) % 2) as u32, depth: 0 };
        dist.bump("dict_not_multiple_of_16");
        cmds.push(format!("lzma2enc {} 0 none {} .", o.to_string(), hex(&data)));
        let o1 = Opts { lc: 3, lp: 1, ..o.clone() };
        cmds.push(format!("lzma1enc {} {} none {}", o1.to_string(), i % 4, hex(&data)));
    }
    // staircase for small nice_len: a word of nice_len bytes preceded by its prefixes of every length
    // nice_len-1 .. 2 (each followed by a unique byte), so that at the word's position the match finder
    // reports a match of EVERY length 2..nice_len - the match table must hold them all
    for (i, nice) in [8u32, 9, 12, 16, 33].iter().enumerate() {
        let n = *nice as usize;
        let word: Vec<u8> = (0..n).map(|j| b'A' + ((j * 7 + i) % 23) as u8).collect();
        let mut data = Vec::new();
        for l in (2..=n).rev() {
            data.extend_from_slice(&word[..l]);
            data.push(0x80 + (l as u8));
        }
        for _ in 0..3 {
            data.extend_from_slice(&word);
            data.push(0xF0 + i as u8);
        }
        for (mode, mf) in [(0u32, 0u32), (1, 0), (0, 1), (1, 1)] {
            let o = Opts { lc: 3, lp: 0, pb: 2, dict: 4096, nice: *nice, mode, mf, depth: 0 };
            dist.bump("staircase_small_nice_len");
            cmds.push(format!("lzma2enc {} 0 none {} .", o.to_string(), hex(&data)));
            cmds.push(format!("lzma1enc {} 0 none {}", Opts { depth: 64, ..o.clone() }.to_string(), hex(&data)));
        }
    }
    // inputs longer than the 2 MiB uncompressed limit of one LZMA2 chunk: p incompressible bytes, then
    // zeros, so that the symbols are 273-byte matches and the size of the first chunk before its last
    // symbol is 2 MiB - 273 - r for a chosen residue r: p sweeps the residues around the limit
    // (thorough: every 7th residue and 234..244), both encoder modes
    // (each case is a 6 MB command line: the thorough tier takes every 7th residue plus the neighbourhood
    // of the limit, not all 273)
    let ps: Vec<usize> = if tier == "thorough" { (0..273).step_by(7).chain(234..=244).collect() } else { vec![236, 238, 239, 240, 242] };
    for (i, p) in ps.iter().enumerate() {
        let mut data: Vec<u8> = (0..*p).map(|_| 1 + rng.below(255) as u8).collect();
        data.resize(*p + (2 << 20) + 70_000, 0);
        let o = Opts { lc: 3, lp: 0, pb: 2, dict: 1 << 20, nice: 64, mode: (i % 2) as u32, mf: 0, depth: 0 };
        dist.bump("lzma2.chunk_limit_2mib");
        cmds.push(format!("lzma2enc {} 0 none {} .", o.to_string(), hex(&data)));
    }
    for i in 0..n {
        let class = if i < DATA_CLASSES.len() { DATA_CLASSES[i] } else { *rng.pick(DATA_CLASSES) };
        let data = gen_data(rng, class, max_len);
        let pclass = *rng.pick(PART_CLASSES);
        let lens = gen_partition(rng, pclass, data.len());
        let parts = split_by(&data, &lens);
        dist.bump(&format!("data.{class}"));
        dist.bump(&format!("partition.{pclass}"));
        let use_preset = rng.chance(1, 5);
        let plen = match rng.below(3) { 0 => 1 + rng.below(40) as usize, 1 => 300 + rng.below(3000) as usize, _ => 4000 + rng.below(6000) as usize };
        if rng.chance(1, 2) {
            let o = gen_opts(rng, false, 1 << 16);
            let variant = rng.below(4);
            // a preset dictionary is not supported together with a header
            let preset = if use_preset && variant >= 2 { Some(gen_data_len(rng, "text", plen)) } else { None };
            dist.bump(&format!("lzma1.variant{variant}{}", if preset.is_some() { ".preset" } else { "" }));
            cmds.push(format!("lzma1enc {} {} {} {}", o.to_string(), variant, preset.as_ref().map(|p| hex(p)).unwrap_or("none".into()), hex_parts(&parts)));
        } else {
            let o = gen_opts(rng, true, 1 << 16);
            let preset = if use_preset { Some(gen_data_len(rng, "text", plen)) } else { None };
            let chunk = match rng.below(4) { 0 => 1u64, 1 => o.dict as u64, 2 => 1 + rng.below(3 * o.dict as u64), _ => 0 };
            let flushes: Vec<usize> = if rng.chance(1, 3) { (0..parts.len()).filter(|_| rng.chance(1, 4)).collect() } else { vec![] };
            dist.bump(&format!("lzma2{}{}{}", if preset.is_some() { ".preset" } else { "" }, if chunk > 0 { ".chunked" } else { "" }, if flushes.is_empty() { "" } else { ".flush" }));
            cmds.push(format!("lzma2enc {} {} {} {} {}", o.to_string(), chunk, preset.as_ref().map(|p| hex(p)).unwrap_or("none".into()), hex_parts(&parts), ints(&flushes)));
        }
    }
    // large structured cases: cross the LZMA2 chunk limits and the window move
    let big: &[(&str, usize)] = if tier == "thorough" { &[("constant", 5 << 20), ("random", 300_000), ("mixed", 600_000), ("periodic", 1 << 20)] } else { &[("constant", 2_200_000), ("random", 90_000), ("mixed", 150_000)] };
    for (class, len) in big {
        let data = gen_data_len(rng, class, *len);
        let lens = gen_partition(rng, "pow2", data.len());
        let parts = split_by(&data, &lens);
        let mut o = gen_opts(rng, true, 1 << 16);
        o.dict = 65536;
        dist.bump(&format!("big.{class}"));
        cmds.push(format!("lzma2enc {} 0 none {} .", o.to_string(), hex_parts(&parts)));
        let o1 = gen_opts(rng, false, 1 << 16);
        cmds.push(format!("lzma1enc {} 0 none {}", o1.to_string(), hex_parts(&parts)));
    }
    // structured cases at option borders (kept small: dictionaries of a few KiB)
    // (a) data periodic with a period right at the dictionary size: the nearest earlier occurrence
    //     is dict-1 / dict / dict+1 / dict+2 bytes back, for both match finders and both modes
    for &dict in &[4096u32, 5000, 8192] {
        for delta in [-1i64, 0, 1, 2] {
            let period = (dict as i64 + delta) as usize;
            let base = gen_data_len(rng, "random", period);
            let mut data = Vec::with_capacity(2 * period + 400);
            while data.len() < 2 * period + 400 {
                let take = (2 * period + 400 - data.len()).min(period);
                data.extend_from_slice(&base[..take]);
            }
            for (mode, mf) in [(0u32, 0u32), (0, 1), (1, 0), (1, 1)] {
                let mut o = gen_opts(rng, true, 1 << 16);
                o.dict = dict;
                o.mode = mode;
                o.mf = mf;
                let lens = gen_partition(rng, "pow2", data.len());
                let parts = split_by(&data, &lens);
                dist.bump("border.period_at_dict");
                if rng.chance(1, 2) {
                    cmds.push(format!("lzma2enc {} 0 none {} .", o.to_string(), hex_parts(&parts)));
                } else {
                    cmds.push(format!("lzma1enc {} {} none {}", o.to_string(), rng.below(4), hex_parts(&parts)));
                }
            }
        }
    }
    // (b) LZMA2 with several independent units: compressible data longer than a few chunk sizes,
    //     written in small pieces (units restart only at the top of write()), all lc values
    for k in 0..(if tier == "thorough" { 60 } else { 18 }) {
        let mut o = gen_opts(rng, true, 1 << 16);
        o.dict = *rng.pick(&[4096u32, 4096, 5000, 8192]);
        o.lc = [0u32, 3, 4, 1][k % 4];
        o.lp = if o.lc + o.lp > 4 { 0 } else { o.lp };
        let chunk = *rng.pick(&[1u64, o.dict as u64, o.dict as u64 + 1000]);
        let class = *rng.pick(&["text", "mixed", "runs", "lowentropy", "copyfar"]);
        let len = (3 + rng.below(3) as usize) * (chunk.max(o.dict as u64) as usize) + rng.below(3000) as usize;
        let data = gen_data_len(rng, class, len);
        let piece = *rng.pick(&[1000usize, 4096, 8192, 333]);
        let parts: Vec<Vec<u8>> = data.chunks(piece).map(|c| c.to_vec()).collect();
        let flushes: Vec<usize> = if rng.chance(1, 3) { (0..parts.len()).filter(|_| rng.chance(1, 5)).collect() } else { vec![] };
        dist.bump("border.multi_unit_lzma2");
        cmds.push(format!("lzma2enc {} {} none {} {}", o.to_string(), chunk, hex_parts(&parts), ints(&flushes)));
    }
    // (c) preset dictionary longer than / equal to / shorter than the dictionary, dictionary sizes
    //     that are not multiples of 16, data that copies the far start of the preset
    for &dict in &[4097u32, 5000, 8192] {
        for &plen in &[300usize, 4096, 5000, 9000] {
            let preset = gen_data_len(rng, "random", plen);
            let mut data = preset[..200.min(plen)].to_vec();
            data.extend_from_slice(&gen_data_len(rng, "text", 300));
            data.extend_from_slice(&preset[plen / 2..(plen / 2 + 150).min(plen)]);
            let mut o = gen_opts(rng, true, 1 << 16);
            o.dict = dict;
            o.lp = *rng.pick(&[0u32, 2]);
            o.lc = if o.lp > 0 { 2 } else { 3 };
            o.pb = *rng.pick(&[0u32, 2, 4]);
            let lens = gen_partition(rng, "pow2", data.len());
            let parts = split_by(&data, &lens);
            dist.bump("border.preset_vs_dict");
            cmds.push(format!("lzma1enc {} {} {} {}", o.to_string(), 2 + rng.below(2), hex(&preset), hex_parts(&parts)));
            cmds.push(format!("lzma2enc {} 0 {} {} .", o.to_string(), hex(&preset), hex_parts(&parts)));
        }
    }
    // regression classes of two repaired defects (see known-findings.txt, fixed: C01):
    // (1) dictionary < 64 KiB, incompressible data long enough for the window to move, then an
    //     uncompressed fallback chunk; (2) independent unit that starts with an uncompressed chunk
    //     followed by an LZMA chunk whose matches reach into the uncompressed data
    {
        let data = gen_data_len(rng, "random", if tier == "thorough" { 900_000 } else { 420_000 });
        let lens = gen_partition(rng, "pow2", data.len());
        let mut o = gen_opts(rng, true, 1 << 16);
        o.dict = *rng.pick(&[4096u32, 16384, 40000, 61440]);
        dist.bump("regress.small_dict_uncompressed_fallback");
        cmds.push(format!("lzma2enc {} 0 none {} .", o.to_string(), hex_parts(&split_by(&data, &lens))));
        let a = gen_data_len(rng, "random", 135_168);
        let r = gen_data_len(rng, "random", 64_700);
        let mut data = a;
        data.extend_from_slice(&r);
        data.extend_from_slice(&r[r.len() - 30_000..]);
        data.extend_from_slice(&r[r.len() - 30_000..]);
        let parts: Vec<Vec<u8>> = data.chunks(4096).map(|c| c.to_vec()).collect();
        let mut o = gen_opts(rng, true, 1 << 16);
        o.dict = 65536;
        dist.bump("regress.independent_unit_starts_uncompressed");
        cmds.push(format!("lzma2enc {} 65536 none {} .", o.to_string(), hex_parts(&parts)));
    }
    cmds
}

pub const AREA: Area = Area { name: "lzmaenc", gen, exec };
