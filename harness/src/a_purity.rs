//! Area "purity" (C13, writer half of C07, .lzma clause of C18): the real writers run on the same
//! data under two call histories (write partitions, empty writes, flushes), twice each with the
//! heap churned in between, with the symbol-trace hook (H1) and the position-accounting hook (H7)
//! on.
//!   pure1 <opts> <variant> <preset|none> <data> <opsA> <opsB>
//!         variant 0..3 as in lzma1enc (header/end marker/declared size), 4 = LZIPWriter (one member)
//!   pure2 <opts> <wrapper> <chunk|0> <preset|none> <data> <opsA> <opsB>
//!         wrapper 0 = LZMA2Writer, 1 = XZWriter (no pre-filter, no block size)
//!   purem <opts> <member_size> <data> <opsA> <opsB>      LZIPWriter with a member size (implementation only)
//!   lzexp <opts> <expected|none> <seed> <ops>            LZMAWriter with header: declared size vs written size
//!   huge1 <opts> <n>                                     one write() of n zero bytes (n >= 2^31) into a refusing sink
//! ops: comma separated; a number = write() of that many bytes of the data, `f` = flush(); finish()
//! follows (lzexp: `F` = finish, explicit).
//! Observation: OK <SAME|DIFF> <summary A> <summary B>: SAME = output bytes and symbol traces of
//! the two histories are identical; a summary holds the counts of the position events, the bytes
//! accepted, the sum of the symbol lengths, the sum of the values write() returned and a digest of
//! the complete event sequence (read_pos/avail/read_ahead at every parser consultation, every
//! move_pos, fill_window, move_window, write_chunk, copy_uncompressed).  The model predicts all of
//! it from the call history and the parser's decisions (moves and length per consultation,
//! compressed size per chunk), which are appended for the model after "|||".
//! Oracle: the property itself — every write() accepted its whole slice, both outputs decode to
//! the data (C07), the outputs are byte-identical whenever the histories differ only in how the
//! data is cut into write() calls (C13), and a repeated run in the same process after heap churn
//! is byte-identical.
use crate::encutil::*;
use crate::util::*;
use lzma_rust2::{LZIPOptions, LZIPReader, LZIPWriter, LZMA2Options, LZMA2Reader, LZMA2Writer, LZMAReader, LZMAWriter, XZOptions, XZReader, XZWriter};
use std::io::{Read, Write};
use std::num::NonZeroU64;

type Ev = (u8, i64, i64, i64);

#[cfg(hasenbanck_lzma_rust2_verif)]
fn hooks_start() {
    lzma_rust2::verif_hooks::verif_trace_start();
    lzma_rust2::verif_hooks::verif_pos_start();
}
#[cfg(hasenbanck_lzma_rust2_verif)]
fn hooks_take() -> (Vec<Ev>, Vec<Ev>) {
    (lzma_rust2::verif_hooks::verif_trace_take(), lzma_rust2::verif_hooks::verif_pos_take())
}
#[cfg(not(hasenbanck_lzma_rust2_verif))]
fn hooks_start() {}
#[cfg(not(hasenbanck_lzma_rust2_verif))]
fn hooks_take() -> (Vec<Ev>, Vec<Ev>) {
    (Vec::new(), Vec::new())
}

#[derive(Clone, Debug, PartialEq)]
enum Op {
    Write(usize),
    Flush,
    Finish,
}

fn parse_ops(s: &str) -> Vec<Op> {
    if s == "." {
        return vec![];
    }
    s.split(',')
        .map(|t| match t {
            "f" => Op::Flush,
            "F" => Op::Finish,
            n => Op::Write(n.parse().unwrap()),
        })
        .collect()
}

fn ops_to_string(ops: &[Op]) -> String {
    if ops.is_empty() {
        return ".".into();
    }
    ops.iter()
        .map(|o| match o {
            Op::Write(n) => n.to_string(),
            Op::Flush => "f".into(),
            Op::Finish => "F".into(),
        })
        .collect::<Vec<_>>()
        .join(",")
}

/// write() in a loop (what write_all does), recording what every call returned
fn write_counting<W: Write>(w: &mut W, mut buf: &[u8], ret: &mut u64, short: &mut bool) -> std::io::Result<()> {
    if buf.is_empty() {
        let n = w.write(buf)?;
        *ret += n as u64;
        return Ok(());
    }
    let mut first = true;
    while !buf.is_empty() {
        let n = w.write(buf)?;
        if n == 0 {
            return Err(std::io::Error::new(std::io::ErrorKind::WriteZero, "write returned 0"));
        }
        if !first || n != buf.len() {
            *short = true;
        }
        first = false;
        *ret += n as u64;
        buf = &buf[n..];
    }
    Ok(())
}

struct Run {
    out: Outcome<Vec<u8>>,
    sym: Vec<Ev>,
    pos: Vec<Ev>,
    ret: u64,
    short: bool,
}

#[derive(Clone)]
enum Kind {
    Lzma1 { header: bool, marker: bool, expected: Option<u64>, preset: Option<Vec<u8>> },
    Lzip { member: Option<u64> },
    Lzma2 { chunk: Option<u64>, preset: Option<Vec<u8>> },
    Xz,
}

fn run_ops<W: Write>(w: &mut W, data: &[u8], ops: &[Op], ret: &mut u64, short: &mut bool) -> std::io::Result<()> {
    let mut p = 0usize;
    for o in ops {
        match o {
            Op::Write(n) => {
                let n = (*n).min(data.len() - p);
                write_counting(w, &data[p..p + n], ret, short)?;
                p += n;
            }
            Op::Flush => w.flush()?,
            Op::Finish => {}
        }
    }
    Ok(())
}

fn run_once(o: &Opts, kind: &Kind, data: &[u8], ops: &[Op]) -> Run {
    let mut ret = 0u64;
    let mut short = false;
    hooks_start();
    let out = guarded(|| match kind {
        Kind::Lzma1 { header, marker, expected, preset } => {
            let mut w = LZMAWriter::new(Vec::new(), &o.lzma(preset.clone()), *header, *marker, *expected)?;
            run_ops(&mut w, data, ops, &mut ret, &mut short)?;
            w.finish()
        }
        Kind::Lzip { member } => {
            let mut opt = LZIPOptions::with_preset(6);
            opt.lzma_options = o.lzma(None);
            opt.member_size = member.and_then(NonZeroU64::new);
            let mut w = LZIPWriter::new(Vec::new(), opt);
            run_ops(&mut w, data, ops, &mut ret, &mut short)?;
            w.finish()
        }
        Kind::Lzma2 { chunk, preset } => {
            let mut opt = LZMA2Options::default();
            opt.lzma_options = o.lzma(preset.clone());
            opt.chunk_size = chunk.and_then(NonZeroU64::new);
            let mut w = LZMA2Writer::new(Vec::new(), opt);
            run_ops(&mut w, data, ops, &mut ret, &mut short)?;
            w.finish()
        }
        Kind::Xz => {
            let mut opt = XZOptions::default();
            opt.lzma_options = o.lzma(None);
            let mut w = XZWriter::new(Vec::new(), opt)?;
            run_ops(&mut w, data, ops, &mut ret, &mut short)?;
            w.finish()
        }
    });
    let (sym, pos) = hooks_take();
    Run { out, sym, pos, ret, short }
}

/// Dirty the heap: allocate, fill with a non-zero pattern and free blocks of the sizes the
/// encoder uses, so that a second run gets recycled, non-zero memory wherever it does not
/// initialise what it reads.
fn churn(seed: u64) {
    let mut rng = Rng::new(seed);
    let mut keep: Vec<Vec<u8>> = Vec::new();
    for i in 0..48 {
        let n = match i % 6 {
            0 => 1 << 20,
            1 => 300_000 + rng.below(200_000) as usize,
            2 => 65_536 + rng.below(70_000) as usize,
            3 => 4096 * (1 + rng.below(64) as usize),
            4 => 1 + rng.below(4000) as usize,
            _ => 4 * (65_537 + rng.below(300_000) as usize),
        };
        let mut v = vec![0u8; n];
        let b = 0xA5u8 ^ (i as u8);
        for x in v.iter_mut() {
            *x = b;
        }
        std::hint::black_box(&v);
        if rng.chance(1, 3) {
            keep.push(v);
        }
    }
    drop(keep);
}

fn digest(ev: &[Ev]) -> u64 {
    let mut h: u64 = 0xcbf29ce484222325;
    for (k, a, b, c) in ev {
        for v in [*k as u64, *a as u64, *b as u64, *c as u64] {
            h ^= v;
            h = h.wrapping_mul(0x100000001b3);
        }
    }
    h
}

fn summary(r: &Run) -> String {
    let cnt = |k: u8| r.pos.iter().filter(|e| e.0 == k).count();
    let acc: i64 = r.pos.iter().filter(|e| e.0 == b'F').map(|e| e.2).sum();
    let sym: i64 = r.pos.iter().filter(|e| e.0 == b'A').map(|e| e.1).sum();
    let cs = |k: u8| r.sym.iter().filter(|e| e.0 == k).count();
    let st = match &r.out {
        Outcome::Ok(_) => "ok".to_string(),
        Outcome::Err(c) => format!("ERR{c}"),
        Outcome::Panic(_) => "PANIC".to_string(),
    };
    format!(
        "{st};P={};M={};F={};C={};A={};K={};X={};W={};U={};N={};acc={acc};sym={sym};ret={};dg={:016x}",
        cnt(b'P'), cnt(b'M'), cnt(b'F'), cnt(b'C'), cnt(b'A'), cnt(b'K'), cnt(b'X'), cs(b'W'), cs(b'U'), cs(b'N'), r.ret, digest(&r.pos)
    )
}

/// The parser's / range coder's decisions for the model: per consultation `moves.len` (`!` appended
/// when the chunk is full afterwards), per chunk `K<compressed size>`.
fn decisions(pos: &[Ev]) -> String {
    let mut items: Vec<String> = Vec::new();
    let mut ra_before: Option<i64> = None;
    let mut last_sym: Option<usize> = None;
    for (k, a, b, c) in pos {
        match *k {
            b'C' => ra_before = Some(*c),
            b'A' => {
                if let Some(ra0) = ra_before.take() {
                    items.push(format!("{}.{}", b - ra0, a));
                    last_sym = Some(items.len() - 1);
                }
                // an 'A' without a consultation is encode_init's literal: not a decision
            }
            b'K' => {
                if *b > 65536 - 26 {
                    if let Some(i) = last_sym {
                        items[i].push('!');
                    }
                }
                items.push(format!("K{}", b));
                last_sym = None;
            }
            _ => {}
        }
    }
    if items.is_empty() {
        ".".into()
    } else {
        items.join(",")
    }
}

fn read_all<R: Read>(mut r: R) -> Outcome<Vec<u8>> {
    guarded(|| {
        let mut v = Vec::new();
        r.read_to_end(&mut v)?;
        Ok(v)
    })
}

fn decode(o: &Opts, kind: &Kind, stream: &[u8], len: usize) -> Outcome<Vec<u8>> {
    match kind {
        Kind::Lzma1 { header, marker, preset, .. } => {
            if *header {
                match guarded(|| LZMAReader::new_mem_limit(stream, u32::MAX, None)) {
                    Outcome::Ok(r) => read_all(r),
                    Outcome::Err(c) => Outcome::Err(c),
                    Outcome::Panic(p) => Outcome::Panic(p),
                }
            } else {
                let u = if *marker { u64::MAX } else { len as u64 };
                match guarded(|| LZMAReader::new(stream, u, o.lc, o.lp, o.pb, o.dict, preset.as_deref())) {
                    Outcome::Ok(r) => read_all(r),
                    Outcome::Err(c) => Outcome::Err(c),
                    Outcome::Panic(p) => Outcome::Panic(p),
                }
            }
        }
        Kind::Lzip { .. } => match guarded(|| LZIPReader::new(stream)) {
            Outcome::Ok(r) => read_all(r),
            Outcome::Err(c) => Outcome::Err(c),
            Outcome::Panic(p) => Outcome::Panic(p),
        },
        Kind::Lzma2 { preset, .. } => read_all(LZMA2Reader::new(stream, o.dict, preset.as_deref())),
        Kind::Xz => read_all(XZReader::new(stream, false)),
    }
}

/// (observation incl. decisions for the model, oracle verdict)
fn compare(o: &Opts, kind: &Kind, data: &[u8], ops_a: &[Op], ops_b: &[Op], must_be_same: bool, with_model: bool) -> (String, String) {
    let a = run_once(o, kind, data, ops_a);
    churn(data.len() as u64 ^ 0x5EED);
    let a2 = run_once(o, kind, data, ops_a);
    let b = run_once(o, kind, data, ops_b);
    let mut fails: Vec<String> = Vec::new();
    let same = match (&a.out, &b.out) {
        (Outcome::Ok(x), Outcome::Ok(y)) => x == y && a.sym == b.sym,
        _ => false,
    };
    for (name, r) in [("A", &a), ("B", &b)] {
        match &r.out {
            Outcome::Ok(stream) => {
                if r.short {
                    fails.push(format!("history {name}: a write() call accepted only part of its slice"));
                }
                if r.ret != data.len() as u64 {
                    fails.push(format!("history {name}: write() calls returned {} bytes in total, {} were offered", r.ret, data.len()));
                }
                match decode(o, kind, stream, data.len()) {
                    Outcome::Ok(d) if d == data => {}
                    Outcome::Ok(_) => fails.push(format!("history {name}: the stream does not decode to the concatenation of the slices")),
                    Outcome::Err(c) => fails.push(format!("history {name}: own reader rejects the stream (kind {c})")),
                    Outcome::Panic(_) => fails.push(format!("history {name}: own reader panics on the stream")),
                }
            }
            Outcome::Err(c) => fails.push(format!("history {name}: writer error kind {c}")),
            Outcome::Panic(m) => fails.push(format!("history {name}: writer panics: {}", &m[..m.len().min(80)])),
        }
    }
    if must_be_same && !same {
        fails.push("outputs (or symbol traces) of the two write partitions differ".into());
    }
    match (&a.out, &a2.out) {
        (Outcome::Ok(x), Outcome::Ok(y)) => {
            if x != y || a.sym != a2.sym || a.pos != a2.pos {
                fails.push("a repeated run in the same process (after heap churn) differs".into());
            }
        }
        (Outcome::Ok(_), _) => fails.push("a repeated run in the same process fails".into()),
        _ => {}
    }
    let obs = if with_model {
        format!("OK {} {} {} ||| {} {}", if same { "SAME" } else { "DIFF" }, summary(&a), summary(&b), decisions(&a.pos), decisions(&b.pos))
    } else {
        format!("OK {}", if same { "SAME" } else { "DIFF" })
    };
    (obs, if fails.is_empty() { "ok".into() } else { format!("FAIL {}", fails.join("; ")) })
}

fn has_flush(ops: &[Op]) -> bool {
    ops.iter().any(|o| *o == Op::Flush)
}

pub fn exec(a: &[&str]) -> (String, String) {
    match a[0] {
        "pure1" => {
            let mut o = Opts::parse(a[1]);
            let variant: u32 = a[2].parse().unwrap();
            let preset = if a[3] == "none" { None } else { Some(unhex(a[3])) };
            let data = unhex(a[4]);
            let (ops_a, ops_b) = (parse_ops(a[5]), parse_ops(a[6]));
            let kind = match variant {
                0 => Kind::Lzma1 { header: true, marker: true, expected: None, preset },
                1 => Kind::Lzma1 { header: true, marker: false, expected: Some(data.len() as u64), preset },
                2 => Kind::Lzma1 { header: false, marker: true, expected: None, preset },
                3 => Kind::Lzma1 { header: false, marker: false, expected: None, preset },
                _ => {
                    // LZIPWriter overrides lc/lp/pb and clamps the dictionary
                    o.lc = 3;
                    o.lp = 0;
                    o.pb = 2;
                    o.dict = o.dict.clamp(4096, 512 << 20);
                    Kind::Lzip { member: None }
                }
            };
            // LZMAWriter::flush does nothing: every pair of histories must agree
            compare(&o, &kind, &data, &ops_a, &ops_b, true, true)
        }
        "pure2" => {
            let o = Opts::parse(a[1]);
            let wrapper: u32 = a[2].parse().unwrap();
            let chunk: u64 = a[3].parse().unwrap();
            let preset = if a[4] == "none" { None } else { Some(unhex(a[4])) };
            let data = unhex(a[5]);
            let (ops_a, ops_b) = (parse_ops(a[6]), parse_ops(a[7]));
            let kind = if wrapper == 1 { Kind::Xz } else { Kind::Lzma2 { chunk: if chunk == 0 { None } else { Some(chunk) }, preset } };
            let c13 = chunk == 0 && !has_flush(&ops_a) && !has_flush(&ops_b);
            compare(&o, &kind, &data, &ops_a, &ops_b, c13, true)
        }
        "purem" => {
            let mut o = Opts::parse(a[1]);
            o.lc = 3;
            o.lp = 0;
            o.pb = 2;
            o.dict = o.dict.clamp(4096, 512 << 20);
            let member: u64 = a[2].parse().unwrap();
            let data = unhex(a[3]);
            let (ops_a, ops_b) = (parse_ops(a[4]), parse_ops(a[5]));
            compare(&o, &Kind::Lzip { member: Some(member) }, &data, &ops_a, &ops_b, true, false)
        }
        "huge1" => {
            // one write() of a 2 GiB slice (zero pages: never committed) into a sink that refuses
            // every byte: fill_window must clamp the slice length in usize (repaired defect:
            // `input.len() as i32` was negative and the slice copy panicked); the write ends with the
            // sink's error as soon as the range coder emits its first byte
            let o = Opts::parse(a[1]);
            let n: usize = a[2].parse().unwrap();
            let v = vec![0u8; n];
            struct Refuse;
            impl Write for Refuse {
                fn write(&mut self, _b: &[u8]) -> std::io::Result<usize> {
                    Err(std::io::Error::new(std::io::ErrorKind::Other, "refused"))
                }
                fn flush(&mut self) -> std::io::Result<()> {
                    Ok(())
                }
            }
            let r = guarded(|| {
                let mut w = LZMAWriter::new(Refuse, &o.lzma(None), false, true, None)?;
                let k = w.write(&v)?;
                Ok(k)
            });
            match r {
                Outcome::Ok(k) => (format!("OK {k}"), "FAIL the sink's error was swallowed".into()),
                Outcome::Err(c) => (format!("ERR {c}"), if c == 6 { "ok".into() } else { format!("FAIL error kind {c} instead of the sink's") }),
                Outcome::Panic(m) => ("PANIC".into(), format!("FAIL writer panics: {}", &m[..m.len().min(100)])),
            }
        }
        "lzexp" | "lzexpn" | "lzexpm" => {
            // lzexpn: the same without the .lzma header (LZMAWriter::new(.., use_header = false, .., Some(n))):
            // the declared size is enforced all the same
            // lzexpm: header, declared size AND end marker (LZMAWriter::new(.., true, true, Some(n)))
            let use_header = a[0] != "lzexpn";
            let force_marker = a[0] == "lzexpm";
            let o = Opts::parse(a[1]);
            let expected: Option<u64> = if a[2] == "none" { None } else { Some(a[2].parse().unwrap()) };
            let seed: u64 = a[3].parse().unwrap();
            let ops = parse_ops(a[4]);
            let mut rng = Rng::new(seed);
            let total: usize = ops.iter().map(|x| if let Op::Write(n) = x { *n } else { 0 }).sum();
            let data = gen_data_len(&mut rng, "mixed", total);
            hooks_start();
            let mut results: Vec<String> = Vec::new();
            let mut accepted: Vec<u8> = Vec::new();
            let mut fails: Vec<String> = Vec::new();
            let r = guarded(|| {
                let mut w = LZMAWriter::new(Vec::new(), &o.lzma(None), use_header, expected.is_none() || force_marker, expected)?;
                let mut p = 0usize;
                let mut finished: Option<std::io::Result<Vec<u8>>> = None;
                for op in &ops {
                    match op {
                        Op::Write(n) => {
                            let before = w.get_uncompressed_size();
                            match w.write(&data[p..p + n]) {
                                Ok(k) => {
                                    results.push(format!("W{k}"));
                                    accepted.extend_from_slice(&data[p..p + k]);
                                    if let Some(ex) = expected {
                                        if before + *n as u64 > ex {
                                            fails.push(format!("write of {n} bytes beyond the declared size {ex} was accepted"));
                                        }
                                    }
                                }
                                Err(e) => {
                                    results.push(format!("E{}", err_code(&e)));
                                    if expected.map_or(true, |ex| before + *n as u64 <= ex) {
                                        fails.push(format!("write of {n} bytes within the declared size was rejected"));
                                    }
                                }
                            }
                            p += n;
                        }
                        Op::Flush => {
                            w.flush()?;
                            results.push("D".into());
                        }
                        Op::Finish => {
                            finished = Some(w.finish());
                            break;
                        }
                    }
                }
                Ok(finished)
            });
            let (_sym, pos) = hooks_take();
            let ds = decisions(&pos);
            match r {
                Outcome::Ok(fin) => {
                    let mut hdr = "-".to_string();
                    match fin {
                        Some(Ok(stream)) => {
                            results.push("D".into());
                            if use_header {
                                hdr = hex(&stream[5..13]);
                            }
                            if let Some(ex) = expected {
                                if ex != accepted.len() as u64 {
                                    fails.push(format!("finish succeeded with {} bytes written but {ex} declared", accepted.len()));
                                }
                                if use_header && stream[5..13] != (accepted.len() as u64).to_le_bytes() {
                                    fails.push("the header does not carry the number of bytes written".into());
                                }
                            }
                            let rd = if use_header {
                                guarded(|| LZMAReader::new_mem_limit(&stream[..], u32::MAX, None))
                            } else {
                                let u = expected.unwrap_or(u64::MAX);
                                guarded(|| LZMAReader::new(&stream[..], u, o.lc, o.lp, o.pb, o.dict, None))
                            };
                            match rd {
                                Outcome::Ok(rd) => match read_all(rd) {
                                    Outcome::Ok(d) if d == accepted => {}
                                    _ => fails.push("the stream does not decode to the accepted bytes".into()),
                                },
                                _ => fails.push("own reader rejects the header".into()),
                            }
                        }
                        Some(Err(e)) => {
                            results.push(format!("E{}", err_code(&e)));
                            if expected.map_or(true, |ex| ex == accepted.len() as u64) {
                                fails.push("finish was rejected although the declared size was met".into());
                            }
                        }
                        None => {}
                    }
                    let acc: i64 = pos.iter().filter(|e| e.0 == b'F').map(|e| e.2).sum();
                    let sym: i64 = pos.iter().filter(|e| e.0 == b'A').map(|e| e.1).sum();
                    (
                        format!("OK {} hdr={} acc={} sym={} dg={:016x} ||| {}", if results.is_empty() { ".".to_string() } else { results.join(",") }, hdr, acc, sym, digest(&pos), ds),
                        if fails.is_empty() { "ok".into() } else { format!("FAIL {}", fails.join("; ")) },
                    )
                }
                Outcome::Err(c) => (format!("ERR {c} ||| {ds}"), format!("FAIL writer error kind {c}")),
                Outcome::Panic(m) => (format!("PANIC ||| {ds}"), format!("FAIL writer panics: {}", &m[..m.len().min(80)])),
            }
        }
        _ => ("NOCMD".into(), "FAIL unknown command".into()),
    }
}

/// a history over `len` bytes: a write partition of one of the classes, optionally with flushes
fn gen_history(rng: &mut Rng, len: usize, flushes: bool, dist: &mut Dist) -> Vec<Op> {
    let class = *rng.pick(PART_CLASSES);
    dist.bump(&format!("partition.{class}"));
    let lens = gen_partition(rng, class, len);
    let mut ops = Vec::new();
    for n in lens {
        ops.push(Op::Write(n));
        if flushes && rng.chance(1, 4) {
            ops.push(Op::Flush);
        }
    }
    if flushes && rng.chance(1, 3) {
        ops.insert(0, Op::Flush);
    }
    ops
}

/// a history with few, large writes (for the multi-100-KiB cases)
fn coarse_history(rng: &mut Rng, len: usize, flushes: bool) -> Vec<Op> {
    let mut ops = Vec::new();
    let mut left = len;
    while left > 0 {
        let k = 10 + rng.below(9);
        let n = (1 + rng.below(1 << k)) as usize;
        let n = n.min(left);
        ops.push(Op::Write(n));
        left -= n;
        if flushes && rng.chance(1, 6) {
            ops.push(Op::Flush);
        }
    }
    ops
}

fn small_dict_opts(rng: &mut Rng, lzma2: bool) -> Opts {
    let mut o = gen_opts(rng, lzma2, 1 << 16);
    o.dict = *rng.pick(&[4096u32, 4096, 8192, 16384, 40000, 61440, 65536]);
    o
}

/// megabytes of long runs are pathological for BT4 / the optimal parser: keep those cases fast
fn tame(mut o: Opts, class: &str) -> Opts {
    if class == "runs" {
        o.mode = 0;
        o.mf = 0;
        o.depth = 4;
    }
    o
}

pub fn gen(rng: &mut Rng, tier: &str, dist: &mut Dist) -> Vec<String> {
    let thorough = tier == "thorough";
    let n = if thorough { 12000 } else { 360 };
    let max_len = if thorough { 40000 } else { 6000 };
    let mut cmds = Vec::new();
    // look-ahead border: the optimal parser (Normal mode, nice_len < 273) runs several thousand positions
    // without a nice match, then meets a long match; one history is a single write, the other ends a
    // write 10..272 bytes into that match - the parser must not see a shorter match because the data of
    // the next write has not arrived (look-ahead = extra_size_after + MATCH_LEN_MAX, not nice_len)
    for (i, nice) in [32u32, 64, 128, 272].iter().enumerate() {
        if !thorough && i >= 2 {
            break;
        }
        let mut data: Vec<u8> = (0..30000).map(|_| if rng.chance(1, 2) { b'a' } else { b'b' }).collect();
        let at = 12000 + rng.below(400) as usize;
        let src = 2000 + rng.below(3000) as usize;
        let copy: Vec<u8> = data[src..src + 400].to_vec();
        data[at..at + 400].copy_from_slice(&copy);
        let o = Opts { lc: 3, lp: 0, pb: 2, dict: 1 << 16, nice: *nice, mode: 1, mf: (i % 2) as u32, depth: 0 };
        for cut in [10usize, 100, 160, 200, 250, 272] {
            let a = vec![Op::Write(data.len())];
            let b = vec![Op::Write(at + cut), Op::Write(data.len() - at - cut)];
            dist.bump("pure.lookahead_border");
            cmds.push(format!("pure1 {} 0 none {} {} {}", o.to_string(), hex(&data), ops_to_string(&a), ops_to_string(&b)));
            cmds.push(format!("pure2 {} 0 0 none {} {} {}", o.to_string(), hex(&data), ops_to_string(&a), ops_to_string(&b)));
        }
    }
    for i in 0..n {
        let class = if i < DATA_CLASSES.len() { DATA_CLASSES[i] } else { *rng.pick(DATA_CLASSES) };
        let data = gen_data(rng, class, max_len);
        dist.bump(&format!("data.{class}"));
        let use_preset = rng.chance(1, 6);
        let plen = match rng.below(3) { 0 => 1 + rng.below(40) as usize, 1 => 300 + rng.below(3000) as usize, _ => 4000 + rng.below(6000) as usize };
        match rng.below(8) {
            0..=2 => {
                let o = gen_opts(rng, false, 1 << 16);
                let variant = rng.below(5);
                let preset = if use_preset && (variant == 2 || variant == 3) { Some(gen_data_len(rng, "text", plen)) } else { None };
                let flushes = rng.chance(1, 4);
                let (a, b) = (gen_history(rng, data.len(), flushes, dist), gen_history(rng, data.len(), flushes, dist));
                dist.bump(&format!("pure1.variant{variant}{}{}", if preset.is_some() { ".preset" } else { "" }, if flushes { ".flush" } else { "" }));
                cmds.push(format!("pure1 {} {} {} {} {} {}", o.to_string(), variant, preset.as_ref().map(|p| hex(p)).unwrap_or("none".into()), hex(&data), ops_to_string(&a), ops_to_string(&b)));
            }
            3..=5 => {
                let o = gen_opts(rng, true, 1 << 16);
                // XZWriter on empty input is the business of C02 (finish with no block open)
                let wrapper = if rng.chance(1, 4) && !data.is_empty() { 1 } else { 0 };
                let preset = if use_preset && wrapper == 0 { Some(gen_data_len(rng, "text", plen)) } else { None };
                let rc = 1 + rng.below(3 * o.dict as u64);
                let chunk = if wrapper == 0 && rng.chance(1, 5) { *rng.pick(&[1u64, o.dict as u64, rc]) } else { 0 };
                let flushes = rng.chance(1, 3);
                let (a, b) = (gen_history(rng, data.len(), flushes, dist), gen_history(rng, data.len(), flushes, dist));
                dist.bump(&format!("pure2.{}{}{}{}", if wrapper == 1 { "xz" } else { "lzma2" }, if preset.is_some() { ".preset" } else { "" }, if chunk > 0 { ".chunked" } else { "" }, if flushes { ".flush" } else { "" }));
                cmds.push(format!("pure2 {} {} {} {} {} {} {}", o.to_string(), wrapper, chunk, preset.as_ref().map(|p| hex(p)).unwrap_or("none".into()), hex(&data), ops_to_string(&a), ops_to_string(&b)));
            }
            6 => {
                let o = gen_opts(rng, false, 1 << 16);
                let rm = 1 + rng.below(20000);
                let member = *rng.pick(&[1u64, 4096, 5000, rm]);
                let (a, b) = (gen_history(rng, data.len(), false, dist), gen_history(rng, data.len(), false, dist));
                dist.bump("purem.lzip_member_size");
                cmds.push(format!("purem {} {} {} {} {}", o.to_string(), member, hex(&data), ops_to_string(&a), ops_to_string(&b)));
            }
            _ => {
                // declared size: equal, smaller, larger, none; writes beyond it in the middle of the history
                let o = gen_opts(rng, false, 1 << 16);
                let pc = *rng.pick(&["small", "random", "with_empty", "one"]);
                let lens = gen_partition(rng, pc, data.len().min(3000));
                let total: usize = lens.iter().sum();
                let (expected, tag) = match rng.below(5) {
                    0 => (None, "none"),
                    1 => (Some(total as u64), "equal"),
                    2 => (Some(rng.below(total as u64 + 1)), "smaller"),
                    3 => (Some(total as u64 + 1 + rng.below(50)), "larger"),
                    _ => (Some(lens.iter().take(lens.len() / 2 + 1).sum::<usize>() as u64), "prefix"),
                };
                let mut ops: Vec<Op> = lens.iter().map(|n| Op::Write(*n)).collect();
                if rng.chance(1, 3) && !ops.is_empty() {
                    let at = rng.below(ops.len() as u64) as usize;
                    ops.insert(at, Op::Flush);
                }
                ops.push(Op::Finish);
                dist.bump(&format!("lzexp.{tag}"));
                let cmd = *rng.pick(&["lzexp", "lzexpn", "lzexpm"]);
                dist.bump(cmd);
                cmds.push(format!("{} {} {} {} {}", cmd, o.to_string(), expected.map(|e| e.to_string()).unwrap_or("none".into()), rng.next() % 1_000_000, ops_to_string(&ops)));
            }
        }
    }
    // large cases: the window fills up and moves (buf_size = keep_before + keep_after + dict/2 + 256 KiB),
    // LZMA2 chunk limits, uncompressed fallback with a small dictionary after a move
    let big: &[(&str, usize)] = if thorough {
        &[("random", 600_000), ("mixed", 800_000), ("text", 900_000), ("runs", 2_600_000), ("copyfar", 600_000)]
    } else {
        &[("random", 420_000), ("mixed", 500_000), ("runs", 2_300_000)]
    };
    for (class, len) in big {
        let data = gen_data_len(rng, class, *len);
        let hexd = hex(&data);
        let one = vec![Op::Write(data.len())];
        let o2 = tame(small_dict_opts(rng, true), class);
        let b = if rng.chance(1, 3) { gen_history(rng, data.len(), false, dist) } else { coarse_history(rng, data.len(), false) };
        dist.bump(&format!("big.{class}.lzma2"));
        cmds.push(format!("pure2 {} 0 0 none {} {} {}", o2.to_string(), hexd, ops_to_string(&one), ops_to_string(&b)));
        if *class == "runs" && !thorough {
            let o1 = tame(small_dict_opts(rng, false), class);
            let lens = gen_partition(rng, "pow2", data.len());
            let b: Vec<Op> = lens.iter().map(|n| Op::Write(*n)).collect();
            dist.bump(&format!("big.{class}.lzma1"));
            cmds.push(format!("pure1 {} {} none {} {} {}", o1.to_string(), rng.below(5), hexd, ops_to_string(&one), ops_to_string(&b)));
            continue;
        }
        // the same through XZWriter, and LZMA2 with flushes / with a chunk size (C07 only: outputs may differ)
        let ox = tame(small_dict_opts(rng, true), class);
        let bx = coarse_history(rng, data.len(), false);
        dist.bump(&format!("big.{class}.xz"));
        cmds.push(format!("pure2 {} 1 0 none {} {} {}", ox.to_string(), hexd, ops_to_string(&one), ops_to_string(&bx)));
        let of = tame(small_dict_opts(rng, true), class);
        let (fa, fb) = (coarse_history(rng, data.len(), true), coarse_history(rng, data.len(), true));
        let chunk = if rng.chance(1, 2) { 0 } else { 100_000 + rng.below(200_000) };
        dist.bump(&format!("big.{class}.lzma2.flush{}", if chunk > 0 { ".chunked" } else { "" }));
        cmds.push(format!("pure2 {} 0 {} none {} {} {}", of.to_string(), chunk, hexd, ops_to_string(&fa), ops_to_string(&fb)));
        let o1 = tame(small_dict_opts(rng, false), class);
        let lens = gen_partition(rng, "pow2", data.len());
        let b: Vec<Op> = lens.iter().map(|n| Op::Write(*n)).collect();
        dist.bump(&format!("big.{class}.lzma1"));
        cmds.push(format!("pure1 {} {} none {} {} {}", o1.to_string(), rng.below(5), hexd, ops_to_string(&one), ops_to_string(&b)));
    }
    dist.bump("regress.huge_slice");
    cmds.push("huge1 3,0,2,4096,32,0,0,4 2147483648".to_string());
    // regression class of the repaired defect (repo fix "LZMA2 uncompressed fallback reaches before
    // the window when the parser has read ahead"): small dictionary, normal mode, a nearly full
    // incompressible chunk that ends inside matchable data right after the window has moved
    {
        let keep_before = 65536 + 4096;
        let buf_size = keep_before + 4096 + 273 + 4096 / 2 + (256 << 10);
        let move_at = buf_size - (4096 + 273);
        let start = move_at - 65536 - 4096 + 64;
        let mut data = gen_data_len(rng, "random", start + 64_590);
        let base: Vec<u8> = data[data.len() - 150..].to_vec();
        let mut blk = base.clone();
        let mut tail = Vec::new();
        while tail.len() < 12_000 {
            let i = rng.below(150) as usize;
            blk[i] = rng.next() as u8;
            tail.extend_from_slice(&blk);
        }
        data.extend_from_slice(&tail);
        let mut a = vec![Op::Write(start), Op::Flush];
        let mut left = data.len() - start;
        while left > 0 {
            let n = left.min(64);
            a.push(Op::Write(n));
            left -= n;
        }
        let b = vec![Op::Write(start), Op::Flush, Op::Write(data.len() - start)];
        dist.bump("regress.fallback_after_read_ahead");
        cmds.push(format!("pure2 3,0,2,4096,273,1,1,0 0 0 none {} {} {}", hex(&data), ops_to_string(&a), ops_to_string(&b)));
        // regression class of the repaired reader defect (LZMA2Reader mis-read a stored chunk of
        // exactly 64 KiB): the same shape of data right at the start, any dictionary size; the
        // fallback then covers more than 64 KiB and is cut into a 65536-byte and a short chunk
        let mut d2 = gen_data_len(rng, "random", 1000 + 64_590);
        d2.extend_from_slice(&tail);
        let a2 = vec![Op::Write(1000), Op::Flush, Op::Write(d2.len() - 1000)];
        let mut b2 = vec![Op::Write(1000), Op::Flush];
        let mut left = d2.len() - 1000;
        while left > 0 {
            let n = left.min(4099);
            b2.push(Op::Write(n));
            left -= n;
        }
        dist.bump("regress.stored_chunk_64k");
        cmds.push(format!("pure2 3,0,2,1048576,273,1,1,0 0 0 none {} {} {}", hex(&d2), ops_to_string(&a2), ops_to_string(&b2)));
    }
    cmds
}

pub const AREA: Area = Area { name: "purity", gen, exec };
