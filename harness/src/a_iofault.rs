//! Area "iofault" (C05): truncation and I/O faults.
//!   rx <source script> <n>                 std read_exact over a scripted source   (model: Io/Script.v)
//!   wa <sink script> <buf>                 std write_all over a scripted sink      (model: Io/Script.v)
//!   fault_r <fmt> <stream> <mode>          a reader over a faulty source           (model: SKIP, oracle only)
//!   fault_w <fmt> <data> <mode>            a writer over a faulty sink             (model: SKIP, oracle only)
//! fmt: lzma1 | lzma2 | xz | lzip | delta:<d> | x86 | arm ...
//! reader modes: soft:<seed> | err:<call>:<kind> | eof:<k>;  writer modes: soft:<seed> | err:<call>:<kind> | zero:<call>
use crate::encutil::*;
use crate::util::*;
use lzma_rust2::filter::bcj::{BCJReader, BCJWriter};
use lzma_rust2::filter::delta::{DeltaReader, DeltaWriter};
use lzma_rust2::*;
use std::io::{self, ErrorKind, Read, Write};

fn kind_of(code: u32) -> ErrorKind {
    match code {
        1 => ErrorKind::InvalidData,
        2 => ErrorKind::InvalidInput,
        3 => ErrorKind::UnexpectedEof,
        4 => ErrorKind::OutOfMemory,
        5 => ErrorKind::Unsupported,
        7 => ErrorKind::WriteZero,
        8 => ErrorKind::Interrupted,
        9 => ErrorKind::BrokenPipe,
        10 => ErrorKind::PermissionDenied,
        11 => ErrorKind::TimedOut,
        _ => ErrorKind::Other,
    }
}
fn code_of(e: &io::Error) -> u32 {
    match e.kind() {
        ErrorKind::BrokenPipe => 9,
        ErrorKind::PermissionDenied => 10,
        ErrorKind::TimedOut => 11,
        _ => err_code(e),
    }
}

// ---- scripted source / sink for rx / wa -----------------------------------------------------
enum RItem { Data(Vec<u8>), Intr, Fail(u32), Eof }
struct ScriptSrc { items: std::collections::VecDeque<RItem> }
impl Read for ScriptSrc {
    fn read(&mut self, buf: &mut [u8]) -> io::Result<usize> {
        match self.items.pop_front() {
            None => Ok(0),
            Some(RItem::Eof) => { self.items.push_front(RItem::Eof); Ok(0) }
            Some(RItem::Intr) => Err(io::Error::new(ErrorKind::Interrupted, "i")),
            Some(RItem::Fail(k)) => Err(io::Error::new(kind_of(k), "f")),
            Some(RItem::Data(d)) => {
                let n = d.len().min(buf.len());
                buf[..n].copy_from_slice(&d[..n]);
                if n < d.len() { self.items.push_front(RItem::Data(d[n..].to_vec())); }
                Ok(n)
            }
        }
    }
}
enum WItem { Accept(usize), Intr, Fail(u32), Zero }
struct ScriptSink { items: std::collections::VecDeque<WItem>, taken: Vec<u8> }
impl Write for ScriptSink {
    fn write(&mut self, buf: &[u8]) -> io::Result<usize> {
        match self.items.pop_front() {
            None => { self.taken.extend_from_slice(buf); Ok(buf.len()) }
            Some(WItem::Accept(n)) => { let k = n.max(1).min(buf.len()); self.taken.extend_from_slice(&buf[..k]); Ok(k) }
            Some(WItem::Intr) => Err(io::Error::new(ErrorKind::Interrupted, "i")),
            Some(WItem::Fail(k)) => Err(io::Error::new(kind_of(k), "f")),
            Some(WItem::Zero) => Ok(0),
        }
    }
    fn flush(&mut self) -> io::Result<()> { Ok(()) }
}

// ---- call-indexed fault injection around an in-memory stream / sink ---------------------------
#[derive(Clone)]
enum RMode { Soft(u64), Err(usize, u32), Once(usize, u32), ErrAt(usize, u32), Eof(usize) }
struct FaultSrc { data: Vec<u8>, pos: usize, calls: usize, mode: RMode, rng: Rng, fired: std::rc::Rc<std::cell::Cell<bool>> }
impl Read for FaultSrc {
    fn read(&mut self, buf: &mut [u8]) -> io::Result<usize> {
        let call = self.calls;
        self.calls += 1;
        let mut end = self.data.len();
        match self.mode {
            RMode::Err(j, k) if call >= j => { self.fired.set(true); return Err(io::Error::new(kind_of(k), "injected")) }
            // one-shot fault: exactly call j fails, the source works again afterwards
            RMode::Once(j, k) if call == j => { self.fired.set(true); return Err(io::Error::new(kind_of(k), "injected")) }
            // fault by position: every call made when `off` bytes have been delivered fails
            RMode::ErrAt(off, k) if self.pos >= off => { self.fired.set(true); return Err(io::Error::new(kind_of(k), "injected")) }
            RMode::ErrAt(off, _) => end = off.min(end),
            RMode::Eof(k) => end = k.min(end),
            _ => {}
        }
        if buf.is_empty() || self.pos >= end { return Ok(0); }
        let mut n = buf.len().min(end - self.pos);
        if let RMode::Soft(_) = self.mode {
            if self.rng.chance(1, 4) { return Err(io::Error::new(ErrorKind::Interrupted, "i")); }
            n = (1 + self.rng.below(n as u64) as usize).min(n);
            if self.rng.chance(1, 2) { n = 1; }
        }
        buf[..n].copy_from_slice(&self.data[self.pos..self.pos + n]);
        self.pos += n;
        Ok(n)
    }
}
#[derive(Clone)]
enum WMode { Soft(u64), Err(usize, u32), Zero(usize) }
struct FaultSink { out: Vec<u8>, calls: usize, mode: WMode, rng: Rng }
impl Write for FaultSink {
    fn write(&mut self, buf: &[u8]) -> io::Result<usize> {
        let call = self.calls;
        self.calls += 1;
        match self.mode {
            WMode::Err(j, k) if call >= j => return Err(io::Error::new(kind_of(k), "injected")),
            WMode::Zero(j) if call >= j => return Ok(0),
            _ => {}
        }
        let mut n = buf.len();
        if let WMode::Soft(_) = self.mode {
            if self.rng.chance(1, 4) { return Err(io::Error::new(ErrorKind::Interrupted, "i")); }
            if n > 1 { n = 1 + self.rng.below(n as u64) as usize; if self.rng.chance(1, 2) { n = 1; } }
        }
        self.out.extend_from_slice(&buf[..n]);
        Ok(n)
    }
    fn flush(&mut self) -> io::Result<()> { Ok(()) }
}

/// read to the end like std::io::Read::read_to_end: Interrupted is retried by the caller
fn slurp<R: Read>(r: &mut R) -> (Vec<u8>, Option<u32>) {
    let mut out = Vec::new();
    let mut buf = [0u8; 777];
    let mut guard = 0u64;
    loop {
        guard += 1;
        if guard > 20_000_000 || out.len() > (1 << 26) { return (out, Some(99)); }
        match r.read(&mut buf) {
            Ok(0) => return (out, None),
            Ok(n) => out.extend_from_slice(&buf[..n]),
            Err(e) if e.kind() == ErrorKind::Interrupted => continue,
            Err(e) => return (out, Some(code_of(&e))),
        }
    }
}

fn bcj_reader<R: Read>(arch: &str, r: R) -> BCJReader<R> {
    match arch { "x86" => BCJReader::new_x86(r, 0), "arm" => BCJReader::new_arm(r, 0), "armthumb" => BCJReader::new_arm_thumb(r, 0),
        "arm64" => BCJReader::new_arm64(r, 0), "ppc" => BCJReader::new_ppc(r, 0), "sparc" => BCJReader::new_sparc(r, 0),
        "ia64" => BCJReader::new_ia64(r, 0), _ => BCJReader::new_riscv(r, 0) }
}
fn bcj_writer<W: Write>(arch: &str, w: W) -> BCJWriter<W> {
    match arch { "x86" => BCJWriter::new_x86(w, 0), "arm" => BCJWriter::new_arm(w, 0), "armthumb" => BCJWriter::new_arm_thumb(w, 0),
        "arm64" => BCJWriter::new_arm64(w, 0), "ppc" => BCJWriter::new_ppc(w, 0), "sparc" => BCJWriter::new_sparc(w, 0),
        "ia64" => BCJWriter::new_ia64(w, 0), _ => BCJWriter::new_riscv(w, 0) }
}

fn read_fmt<R: Read>(fmt: &str, src: R) -> (Vec<u8>, Option<u32>, bool) {
    // (bytes, error kind, panicked)
    let r = std::panic::catch_unwind(std::panic::AssertUnwindSafe(|| -> (Vec<u8>, Option<u32>) {
        if fmt == "lzma1" {
            match LZMAReader::new_mem_limit(src, u32::MAX, None) { Ok(mut r) => slurp(&mut r), Err(e) => (vec![], Some(code_of(&e))) }
        } else if fmt == "lzma2" || fmt == "lzma2f" {
            slurp(&mut LZMA2Reader::new(src, 1 << 16, None))
        } else if fmt == "xz" || fmt == "xzcat" {
            slurp(&mut XZReader::new(src, true))
        } else if fmt == "lzip" {
            match LZIPReader::new(src) { Ok(mut r) => slurp(&mut r), Err(e) => (vec![], Some(code_of(&e))) }
        } else if let Some(d) = fmt.strip_prefix("delta:") {
            slurp(&mut DeltaReader::new(src, d.parse().unwrap()))
        } else {
            slurp(&mut bcj_reader(fmt, src))
        }
    }));
    match r { Ok((b, e)) => (b, e, false), Err(_) => (vec![], None, true) }
}

fn write_fmt<W: Write>(fmt: &str, data: &[u8], sink: W) -> (Option<W>, Option<u32>, bool) {
    let r = std::panic::catch_unwind(std::panic::AssertUnwindSafe(|| -> io::Result<W> {
        let o = Opts { lc: 3, lp: 0, pb: 2, dict: 1 << 16, nice: 32, mode: 0, mf: 0, depth: 4 };
        if fmt == "lzma1" {
            let mut w = LZMAWriter::new_use_header(sink, &o.lzma(None), None)?;
            w.write_all(data)?;
            w.finish()
        } else if fmt == "lzma2" {
            let mut opt = LZMA2Options::default();
            opt.lzma_options = o.lzma(None);
            let mut w = LZMA2Writer::new(sink, opt);
            w.write_all(data)?;
            w.finish()
        } else if fmt == "lzma2f" {
            // several chunks: a flush every 200 bytes
            let mut opt = LZMA2Options::default();
            opt.lzma_options = o.lzma(None);
            let mut w = LZMA2Writer::new(sink, opt);
            for c in data.chunks(200) {
                w.write_all(c)?;
                w.flush()?;
            }
            w.finish()
        } else if fmt == "xz" {
            let mut opt = XZOptions::with_preset(0);
            opt.lzma_options = o.lzma(None);
            let mut w = XZWriter::new(sink, opt)?;
            w.write_all(data)?;
            w.finish()
        } else if fmt == "xzcat" {
            // three concatenated streams (one of them empty) separated by stream padding of 4 and 8 bytes
            let cut = data.len() / 2;
            let mut all = Vec::new();
            for (piece, pad) in [(&data[..cut], 4usize), (&data[..0], 8), (&data[cut..], 0)] {
                let mut opt = XZOptions::with_preset(0);
                opt.lzma_options = o.lzma(None);
                let mut w = XZWriter::new(Vec::new(), opt)?;
                w.write_all(piece)?;
                all.extend_from_slice(&w.finish()?);
                all.extend(std::iter::repeat(0u8).take(pad));
            }
            let mut sink = sink;
            sink.write_all(&all)?;
            Ok(sink)
        } else if fmt == "lzip" {
            let mut opt = LZIPOptions::with_preset(0);
            opt.lzma_options = o.lzma(None);
            let mut w = LZIPWriter::new(sink, opt);
            w.write_all(data)?;
            w.finish()
        } else if let Some(d) = fmt.strip_prefix("delta:") {
            let mut w = DeltaWriter::new(sink, d.parse().unwrap());
            w.write_all(data)?;
            w.flush()?;
            Ok(w.into_inner())
        } else {
            let mut w = bcj_writer(fmt, sink);
            w.write_all(data)?;
            w.flush()?;
            Ok(w.into_inner())
        }
    }));
    match r { Ok(Ok(w)) => (Some(w), None, false), Ok(Err(e)) => (None, Some(code_of(&e)), false), Err(_) => (None, None, true) }
}

fn parse_rmode(s: &str) -> RMode {
    let v: Vec<&str> = s.split(':').collect();
    match v[0] { "soft" => RMode::Soft(v[1].parse().unwrap()), "err" => RMode::Err(v[1].parse().unwrap(), v[2].parse().unwrap()), "once" => RMode::Once(v[1].parse().unwrap(), v[2].parse().unwrap()), "errat" => RMode::ErrAt(v[1].parse().unwrap(), v[2].parse().unwrap()), _ => RMode::Eof(v[1].parse().unwrap()) }
}
fn parse_wmode(s: &str) -> WMode {
    let v: Vec<&str> = s.split(':').collect();
    match v[0] { "soft" => WMode::Soft(v[1].parse().unwrap()), "err" => WMode::Err(v[1].parse().unwrap(), v[2].parse().unwrap()), _ => WMode::Zero(v[1].parse().unwrap()) }
}

pub fn exec(a: &[&str]) -> (String, String) {
    match a[0] {
        "rx" => {
            let items = if a[1] == "." { vec![] } else { a[1].split(',').map(|it| match &it[..1] { "D" => RItem::Data(unhex(&it[1..])), "I" => RItem::Intr, "F" => RItem::Fail(it[1..].parse().unwrap()), _ => RItem::Eof }).collect() };
            let n: usize = a[2].parse().unwrap();
            let mut src = ScriptSrc { items: items.into() };
            let mut buf = vec![0u8; n];
            let obs = match src.read_exact(&mut buf) {
                Ok(()) => {
                    // what is left in the source up to its first fault
                    let mut rest = Vec::new();
                    for it in src.items.iter() { match it { RItem::Data(d) => rest.extend_from_slice(d), RItem::Intr => {}, _ => break } }
                    format!("OK {} {}", hex(&buf), hex(&rest))
                }
                Err(e) => format!("ERR{}", err_code(&e)),
            };
            (obs, "ok".into())
        }
        "wa" => {
            let items = if a[1] == "." { vec![] } else { a[1].split(',').map(|it| match &it[..1] { "A" => WItem::Accept(it[1..].parse().unwrap()), "I" => WItem::Intr, "F" => WItem::Fail(it[1..].parse().unwrap()), _ => WItem::Zero }).collect() };
            let buf = unhex(a[2]);
            let mut sink = ScriptSink { items: items.into(), taken: vec![] };
            let obs = match sink.write_all(&buf) {
                Ok(()) => format!("OK {}", hex(&sink.taken)),
                Err(e) => format!("ERR{} {}", err_code(&e), hex(&sink.taken)),
            };
            (obs, "ok".into())
        }
        "fault_r" => {
            let fmt = a[1];
            let stream = unhex(a[2]);
            let mode = parse_rmode(a[3]);
            let (base, berr, bpanic) = read_fmt(fmt, &stream[..]);
            if berr.is_some() || bpanic { return ("SKIP".into(), "ok".into()); }
            let seed = if let RMode::Soft(s) = mode { s } else { 0 };
            let fired = std::rc::Rc::new(std::cell::Cell::new(false));
            let (got, err, panic) = read_fmt(fmt, FaultSrc { data: stream.clone(), pos: 0, calls: 0, mode: mode.clone(), rng: Rng::new(seed), fired: fired.clone() });
            let verdict = if panic { "FAIL reader panics under an I/O fault".to_string() } else {
                match (&mode, err) {
                    (_, Some(99)) => "FAIL endless output / no termination".into(),
                    (RMode::Soft(_), None) if got == base => "ok".into(),
                    (RMode::Soft(_), None) => "FAIL short reads / Interrupted change the decoded bytes".into(),
                    (RMode::Soft(_), Some(k)) => format!("FAIL short reads / Interrupted make the reader fail (kind {k})"),
                    // the source failed a call the reader actually made: the read has to fail
                    (RMode::Err(_, _) | RMode::Once(_, _) | RMode::ErrAt(_, _), None) if got == base && !fired.get() => "ok".into(),
                    (RMode::Err(_, _) | RMode::Once(_, _) | RMode::ErrAt(_, _), None) if got == base => "FAIL source error swallowed: the reader made the failing call and reports success".into(),
                    (RMode::Err(_, _) | RMode::Once(_, _) | RMode::ErrAt(_, _), None) => "FAIL source error swallowed: success with wrong or missing bytes".into(),
                    (RMode::Err(_, k) | RMode::Once(_, k) | RMode::ErrAt(_, k), Some(e)) => if e == *k && base.starts_with(&got) { "ok".into() } else if e != *k { format!("FAIL source error kind {k} reported as kind {e}") } else { "FAIL bytes before the error are not a prefix of the original".into() },
                    (RMode::Eof(_), None) if got == base => "ok".into(),
                    (RMode::Eof(_), None) => "FAIL truncated stream reported as success with wrong or missing bytes".into(),
                    (RMode::Eof(_), Some(_)) => if base.starts_with(&got) { "ok".into() } else { "FAIL bytes before the error are not a prefix of the original".into() },
                }
            };
            ("SKIP".into(), verdict)
        }
        "fault_w" => {
            let fmt = a[1];
            let data = unhex(a[2]);
            let mode = parse_wmode(a[3]);
            let (bw, berr, bpanic) = write_fmt(fmt, &data, Vec::new());
            if berr.is_some() || bpanic { return ("SKIP".into(), "FAIL writer fails on a perfect sink".into()); }
            let base = bw.unwrap();
            let seed = if let WMode::Soft(s) = mode { s } else { 0 };
            let (w, err, panic) = write_fmt(fmt, &data, FaultSink { out: vec![], calls: 0, mode: mode.clone(), rng: Rng::new(seed) });
            let verdict = if panic { "FAIL writer panics under an I/O fault".to_string() } else {
                match (&mode, err, w) {
                    (WMode::Soft(_), None, Some(s)) if s.out == base => "ok".into(),
                    (WMode::Soft(_), None, Some(_)) => "FAIL short writes / Interrupted change the compressed bytes".into(),
                    (WMode::Soft(_), Some(k), _) => format!("FAIL short writes / Interrupted make the writer fail (kind {k})"),
                    (WMode::Err(_, _), None, Some(s)) if s.out == base => "ok".into(),
                    (WMode::Err(_, _), None, _) => "FAIL sink error swallowed: writer reports success".into(),
                    (WMode::Err(_, k), Some(e), _) => if e == *k { "ok".into() } else { format!("FAIL sink error kind {k} reported as kind {e}") },
                    (WMode::Zero(_), None, Some(s)) if s.out == base => "ok".into(),
                    (WMode::Zero(_), None, _) => "FAIL sink that stops accepting bytes: writer reports success".into(),
                    (WMode::Zero(_), Some(_), _) => "ok".into(),
                    _ => "FAIL inconsistent writer result".into(),
                }
            };
            ("SKIP".into(), verdict)
        }
        _ => ("NOCMD".into(), "FAIL unknown command".into()),
    }
}

pub fn gen(rng: &mut Rng, tier: &str, dist: &mut Dist) -> Vec<String> {
    let mut cmds = Vec::new();
    let n = if tier == "thorough" { 4000 } else { 400 };
    // (1) the retry layer itself
    for _ in 0..n {
        let mut items = Vec::new();
        let mut total = 0usize;
        for _ in 0..rng.below(8) {
            match rng.below(10) {
                0..=5 => { let d: Vec<u8> = (0..1 + rng.below(9)).map(|_| rng.next() as u8).collect(); total += d.len(); items.push(format!("D{}", hex(&d))); }
                6 | 7 => items.push("I".into()),
                8 => { items.push(format!("F{}", *rng.pick(&[1u32, 3, 6]))); break; }
                _ => { items.push("Z".into()); break; }
            }
        }
        let want = rng.below(total as u64 + 4) as usize;
        dist.bump("rx");
        cmds.push(format!("rx {} {}", if items.is_empty() { ".".into() } else { items.join(",") }, want));
        let mut sitems = Vec::new();
        for _ in 0..rng.below(7) {
            match rng.below(10) { 0..=5 => sitems.push(format!("A{}", 1 + rng.below(6))), 6 | 7 => sitems.push("I".into()), 8 => sitems.push(format!("F{}", *rng.pick(&[1u32, 6, 7]))), _ => sitems.push("Z".into()) }
        }
        let buf: Vec<u8> = (0..rng.below(20)).map(|_| rng.next() as u8).collect();
        dist.bump("wa");
        cmds.push(format!("wa {} {}", if sitems.is_empty() { ".".into() } else { sitems.join(",") }, hex(&buf)));
    }
    // (2) readers and writers of every format under faults
    let fmts = ["lzma1", "lzma2", "lzma2f", "xz", "xzcat", "lzip", "delta:1", "delta:7", "x86", "arm", "armthumb", "arm64", "ppc", "sparc", "ia64", "riscv"];
    let m = if tier == "thorough" { 120 } else { 14 };
    for round in 0..m {
        for fmt in fmts {
            let class = *rng.pick(&["text", "mixed", "random", "runs", "copyfar"]);
            let len = if round == 0 { 0 } else { 1 + rng.below(if tier == "thorough" { 6000 } else { 1500 }) as usize };
            let data = gen_data_len(rng, class, len);
            let (w, e, p) = write_fmt(fmt, &data, Vec::new());
            if e.is_some() || p || w.is_none() { dist.bump("writer_failed"); continue; }
            let stream = w.unwrap();
            dist.bump(&format!("fmt.{}", fmt.split(':').next().unwrap()));
            // readers
            cmds.push(format!("fault_r {} {} soft:{}", fmt, hex(&stream), rng.below(1 << 30)));
            let kinds = [6u32, 9, 10, 11, 1];
            for _ in 0..3 {
                cmds.push(format!("fault_r {} {} err:{}:{}", fmt, hex(&stream), rng.below(stream.len() as u64 / 2 + 8), *rng.pick(&kinds)));
            }
            // one-shot faults (the source works again after the failing call); for the multi-chunk
            // LZMA2 stream at every call index, so that chunk headers and the end marker are hit
            let calls: Vec<u64> = if fmt == "lzma2f" && stream.len() < 4000 { (0..stream.len() as u64 / 2 + 4).collect() } else { (0..3).map(|_| rng.below(stream.len() as u64 / 2 + 8)).collect() };
            for j in calls {
                cmds.push(format!("fault_r {} {} once:{}:{}", fmt, hex(&stream), j, *rng.pick(&kinds)));
            }
            // raw filters have no framing: a truncated filter stream is a shorter valid stream
            let framed = matches!(fmt, "lzma1" | "lzma2" | "lzma2f" | "xz" | "lzip");
            // (xzcat: the reader-side cases only; a cut between two streams is a complete file, and the writer is the harness's own concatenation)
            if framed && !stream.is_empty() {
                // truncation points: a few random ones, plus every point for short streams
                let pts: Vec<usize> = if stream.len() <= 48 { (0..stream.len()).collect() } else { (0..4).map(|_| rng.below(stream.len() as u64) as usize).chain([stream.len() - 1, stream.len() - 2, 1]).collect() };
                for k in pts { cmds.push(format!("fault_r {} {} eof:{}", fmt, hex(&stream), k)); }
            }
            // writers
            cmds.push(format!("fault_w {} {} soft:{}", fmt, hex(&data), rng.below(1 << 30)));
            for _ in 0..2 {
                cmds.push(format!("fault_w {} {} err:{}:{}", fmt, hex(&data), rng.below(stream.len() as u64 / 2 + 4), *rng.pick(&kinds)));
            }
            cmds.push(format!("fault_w {} {} zero:{}", fmt, hex(&data), rng.below(stream.len() as u64 / 2 + 4)));
        }
    }
    // (3) the last bytes of streams that end with an end marker (.lzma without declared size, LZIP members):
    // whether the range decoder still fetches a byte behind the marker depends on the stream (about
    // one in ten), so many short streams, each cut / failing at its last three bytes
    let k = if tier == "thorough" { 600 } else { 80 };
    for i in 0..k {
        let fmt = if i % 2 == 0 { "lzma1" } else { "lzip" };
        let len = 1 + rng.below(400) as usize;
        let class = *rng.pick(&["text", "mixed", "random", "runs"]);
        let data = gen_data_len(rng, class, len);
        let (w, e, p) = write_fmt(fmt, &data, Vec::new());
        if e.is_some() || p || w.is_none() { continue; }
        let stream = w.unwrap();
        dist.bump("stream_end_faults");
        for back in 1..=3usize {
            if stream.len() > back {
                cmds.push(format!("fault_r {} {} eof:{}", fmt, hex(&stream), stream.len() - back));
                let kind = *rng.pick(&[6u32, 9, 11]);
                cmds.push(format!("fault_r {} {} errat:{}:{}", fmt, hex(&stream), stream.len() - back, kind));
            }
        }
    }
    cmds
}

pub const AREA: Area = Area { name: "iofault", gen, exec };
