//! Reference implementation (liblzma, statically linked) helpers.
#![allow(dead_code)]
use liblzma::stream::{Action, Filters, LzmaOptions, Status, Stream};

fn run(mut s: Stream, input: &[u8]) -> Result<Vec<u8>, String> {
    let mut out = Vec::with_capacity(input.len() + 4096);
    let mut pos = 0usize;
    loop {
        if out.capacity() - out.len() < 4096 {
            out.reserve(65536);
        }
        let before_in = s.total_in();
        let action = if pos >= input.len() { Action::Finish } else { Action::Run };
        let st = s.process_vec(&input[pos..], &mut out, action).map_err(|e| format!("{e:?}"))?;
        pos += (s.total_in() - before_in) as usize;
        match st {
            Status::StreamEnd => return Ok(out),
            Status::MemNeeded => return Err("memneeded".into()),
            _ => {}
        }
        if pos >= input.len() && matches!(action, Action::Finish) && matches!(st, Status::MemNeeded) {
            return Err("stuck".into());
        }
    }
}

pub fn lzma2_opts() -> LzmaOptions {
    let mut o = LzmaOptions::new_preset(0).unwrap();
    o.dict_size(1 << 20);
    o
}

/// Filter ids as in the xz format; `props` = the filter's property bytes.
pub fn add_filter(f: &mut Filters, kind: &str, props: &[u8]) -> Result<(), String> {
    let r = match kind {
        "delta" => f.delta_properties(props).map(|_| ()),
        "x86" => f.x86_properties(props).map(|_| ()),
        "ppc" => f.powerpc_properties(props).map(|_| ()),
        "ia64" => f.ia64_properties(props).map(|_| ()),
        "arm" => f.arm_properties(props).map(|_| ()),
        "armthumb" => f.arm_thumb_properties(props).map(|_| ()),
        "sparc" => f.sparc_properties(props).map(|_| ()),
        "arm64" => f.arm64_properties(props).map(|_| ()),
        "riscv" => f.riscv_properties(props).map(|_| ()),
        _ => return Err(format!("unknown filter {kind}")),
    };
    r.map_err(|e| format!("{e:?}"))
}

/// The reference's filtered bytes for `data`: encode with the raw chain [filter, LZMA2], then take
/// the LZMA2 layer off again with the reference's own raw LZMA2 decoder.
pub fn ref_filter_encode(kind: &str, props: &[u8], data: &[u8]) -> Result<Vec<u8>, String> {
    let opts = lzma2_opts();
    let mut chain = Filters::new();
    add_filter(&mut chain, kind, props)?;
    chain.lzma2(&opts);
    let enc = Stream::new_raw_encoder(&chain).map_err(|e| format!("{e:?}"))?;
    let packed = run(enc, data)?;
    let mut only = Filters::new();
    only.lzma2(&opts);
    let dec = Stream::new_raw_decoder(&only).map_err(|e| format!("{e:?}"))?;
    run(dec, &packed)
}

/// The reference's decoding of filtered bytes: wrap them in LZMA2, decode with [filter, LZMA2].
pub fn ref_filter_decode(kind: &str, props: &[u8], filtered: &[u8]) -> Result<Vec<u8>, String> {
    let opts = lzma2_opts();
    let mut only = Filters::new();
    only.lzma2(&opts);
    let enc = Stream::new_raw_encoder(&only).map_err(|e| format!("{e:?}"))?;
    let packed = run(enc, filtered)?;
    let mut chain = Filters::new();
    add_filter(&mut chain, kind, props)?;
    chain.lzma2(&opts);
    let dec = Stream::new_raw_decoder(&chain).map_err(|e| format!("{e:?}"))?;
    run(dec, &packed)
}

pub fn xz_decode(data: &[u8]) -> Result<Vec<u8>, String> {
    let dec = Stream::new_stream_decoder(u64::MAX, 0).map_err(|e| format!("{e:?}"))?;
    run(dec, data)
}

pub fn lzma_alone_decode(data: &[u8]) -> Result<Vec<u8>, String> {
    let dec = Stream::new_lzma_decoder(u64::MAX).map_err(|e| format!("{e:?}"))?;
    run(dec, data)
}

pub fn lzip_decode(data: &[u8]) -> Result<Vec<u8>, String> {
    let dec = Stream::new_lzip_decoder(u64::MAX, 0).map_err(|e| format!("{e:?}"))?;
    run(dec, data)
}

pub fn lzma2_raw_decode(data: &[u8], dict: u32) -> Result<Vec<u8>, String> {
    let mut o = LzmaOptions::new_preset(0).unwrap();
    o.dict_size(dict.max(4096));
    let mut f = Filters::new();
    f.lzma2(&o);
    let dec = Stream::new_raw_decoder(&f).map_err(|e| format!("{e:?}"))?;
    run_prefix(dec, data)
}

/// Like `run` but input may be followed by trailing bytes (stops at StreamEnd).
fn run_prefix(s: Stream, input: &[u8]) -> Result<Vec<u8>, String> {
    run(s, input)
}

// ------------------------------------------------------------------------------------------------
// Container helpers (XZ / LZIP areas c02, c03, c04, c12, c18).
// liblzma cannot ENCODE the lzip format (it only has a decoder): reference-made .lz files are
// built by wrapping liblzma's LZMA_Alone stream (lc=3, lp=0, pb=2, end marker) in a member frame.

use liblzma::stream::{Check, MatchFinder, Mode, MtStreamBuilder, CONCATENATED};

/// Decodes a whole .xz file (any number of concatenated streams with stream padding); all input
/// must belong to the file.
pub fn xz_decode_concat(data: &[u8]) -> Result<Vec<u8>, String> {
    let dec = Stream::new_stream_decoder(u64::MAX, CONCATENATED).map_err(|e| format!("{e:?}"))?;
    run(dec, data)
}

/// Decodes a whole .lz file (all members; trailing data after the last member is ignored).
pub fn lzip_decode_concat(data: &[u8]) -> Result<Vec<u8>, String> {
    let dec = Stream::new_lzip_decoder(u64::MAX, CONCATENATED).map_err(|e| format!("{e:?}"))?;
    run(dec, data)
}

pub fn check_of(b: u8) -> Check {
    match b {
        0 => Check::None,
        1 => Check::Crc32,
        4 => Check::Crc64,
        _ => Check::Sha256,
    }
}

/// LZMA options of the reference encoder: a preset (bit 31 = extreme) with optional overrides.
#[derive(Clone, Debug)]
pub struct RefLzma {
    pub preset: u32,
    pub dict: Option<u32>,
    pub lclppb: Option<(u32, u32, u32)>,
    pub nice: Option<u32>,
    pub mf: Option<u32>,   // 0 hc3, 1 hc4, 2 bt2, 3 bt3, 4 bt4
    pub mode: Option<u32>, // 0 fast, 1 normal
    pub depth: Option<u32>,
}

impl RefLzma {
    pub fn options(&self) -> Result<LzmaOptions, String> {
        let mut o = LzmaOptions::new_preset(self.preset).map_err(|e| format!("{e:?}"))?;
        if let Some(d) = self.dict {
            o.dict_size(d);
        }
        if let Some((lc, lp, pb)) = self.lclppb {
            o.literal_context_bits(lc);
            o.literal_position_bits(lp);
            o.position_bits(pb);
        }
        if let Some(n) = self.nice {
            o.nice_len(n);
        }
        if let Some(m) = self.mf {
            o.match_finder(match m { 0 => MatchFinder::HashChain3, 1 => MatchFinder::HashChain4, 2 => MatchFinder::BinaryTree2, 3 => MatchFinder::BinaryTree3, _ => MatchFinder::BinaryTree4 });
        }
        if let Some(m) = self.mode {
            o.mode(if m == 0 { Mode::Fast } else { Mode::Normal });
        }
        if let Some(d) = self.depth {
            o.depth(d);
        }
        Ok(o)
    }
}

fn filter_kind_name(id: u8) -> &'static str {
    match id { 3 => "delta", 4 => "x86", 5 => "ppc", 6 => "ia64", 7 => "arm", 8 => "armthumb", 9 => "sparc", 10 => "arm64", _ => "riscv" }
}

/// Filter chain [pre-filters (file-format id, property as the crate's FilterConfig has it), LZMA2].
pub fn ref_chain(pre: &[(u8, u32)], lzma: &LzmaOptions) -> Result<Filters, String> {
    let mut chain = Filters::new();
    for &(id, prop) in pre {
        if id == 3 {
            add_filter(&mut chain, "delta", &[(prop - 1) as u8])?;
        } else if prop == 0 {
            add_filter(&mut chain, filter_kind_name(id), &[])?;
        } else {
            add_filter(&mut chain, filter_kind_name(id), &prop.to_le_bytes())?;
        }
    }
    chain.lzma2(lzma);
    Ok(chain)
}

/// Feeds `input` and ends with `last` (Finish / FullFlush); collects output into `out`.
fn feed(s: &mut Stream, input: &[u8], out: &mut Vec<u8>, last: Action) -> Result<(), String> {
    let mut pos = 0usize;
    loop {
        if out.capacity() - out.len() < 4096 {
            out.reserve(65536);
        }
        let before = s.total_in();
        let action = if pos >= input.len() { last } else { Action::Run };
        let st = s.process_vec(&input[pos..], out, action).map_err(|e| format!("{e:?}"))?;
        pos += (s.total_in() - before) as usize;
        match st {
            Status::StreamEnd => return Ok(()),
            Status::MemNeeded => return Err("memneeded".into()),
            _ => {}
        }
    }
}

/// Single-threaded stream encoder with an explicit chain; a FullFlush after each but the last
/// segment ends the current Block, so several segments give a multi-block file.
pub fn xz_encode_ref(pre: &[(u8, u32)], lzma: &RefLzma, check: u8, segments: &[Vec<u8>]) -> Result<Vec<u8>, String> {
    let o = lzma.options()?;
    let chain = ref_chain(pre, &o)?;
    let mut enc = Stream::new_stream_encoder(&chain, check_of(check)).map_err(|e| format!("{e:?}"))?;
    let mut out = Vec::new();
    if segments.is_empty() {
        feed(&mut enc, &[], &mut out, Action::Finish)?;
    }
    for (i, seg) in segments.iter().enumerate() {
        let last = i + 1 == segments.len();
        if !last && seg.is_empty() {
            continue;
        }
        feed(&mut enc, seg, &mut out, if last { Action::Finish } else { Action::FullFlush })?;
    }
    Ok(out)
}

pub fn xz_encode_easy(preset: u32, check: u8, data: &[u8]) -> Result<Vec<u8>, String> {
    let enc = Stream::new_easy_encoder(preset, check_of(check)).map_err(|e| format!("{e:?}"))?;
    run(enc, data)
}

/// Multi-threaded encoder: Block Headers carry Compressed Size and Uncompressed Size.
pub fn xz_encode_mt(pre: &[(u8, u32)], lzma: &RefLzma, check: u8, block_size: u64, threads: u32, data: &[u8]) -> Result<Vec<u8>, String> {
    let o = lzma.options()?;
    let chain = ref_chain(pre, &o)?;
    let mut b = MtStreamBuilder::new();
    b.threads(threads).block_size(block_size).filters(chain).check(check_of(check));
    let enc = b.encoder().map_err(|e| format!("{e:?}"))?;
    run(enc, data)
}

/// LZMA_Alone stream (13-byte header, unknown size, end marker) of the reference encoder.
pub fn lzma_alone_encode_ref(lzma: &RefLzma, data: &[u8]) -> Result<Vec<u8>, String> {
    let o = lzma.options()?;
    let enc = Stream::new_lzma_encoder(&o).map_err(|e| format!("{e:?}"))?;
    run(enc, data)
}

/// Number of bytes liblzma produces for a file before it accepts or rejects it (the generators
/// keep damaged files whose decoding inflates beyond the model's output budget out of the
/// specification-vs-liblzma comparison).
pub fn decoded_len(lzip: bool, data: &[u8]) -> usize {
    let dec = if lzip { Stream::new_lzip_decoder(u64::MAX, CONCATENATED) } else { Stream::new_stream_decoder(u64::MAX, CONCATENATED) };
    let mut s = match dec {
        Ok(s) => s,
        Err(_) => return 0,
    };
    let mut out = Vec::with_capacity(data.len() + 4096);
    let mut pos = 0usize;
    loop {
        if out.capacity() - out.len() < 4096 {
            out.reserve(65536);
        }
        let before = s.total_in();
        let action = if pos >= data.len() { Action::Finish } else { Action::Run };
        let st = match s.process_vec(&data[pos..], &mut out, action) {
            Ok(st) => st,
            Err(_) => return out.len(),
        };
        pos += (s.total_in() - before) as usize;
        match st {
            Status::StreamEnd | Status::MemNeeded => return out.len(),
            _ => {}
        }
        if out.len() > (1 << 24) {
            return out.len();
        }
    }
}
