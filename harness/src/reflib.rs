//! Reference implementation (liblzma, statically linked) helpers.
#![allow(dead_code)]
use liblzma::stream::{Action, Filters, LzmaOptions, Status, Stream};

fn run(mut s: Stream, input: &[u8]) -> Result<Vec<u8>, String> {
    let mut out = Vec::with_capacity(input.len() + 4096);
    let mut pos = 0usize;
    loop {
        if out.capacity() - out.len() < 4096 {
            out.reserve(65536);
        }
        let before_in = s.total_in();
        let action = if pos >= input.len() { Action::Finish } else { Action::Run };
        let st = s.process_vec(&input[pos..], &mut out, action).map_err(|e| format!("{e:?}"))?;
        pos += (s.total_in() - before_in) as usize;
        match st {
            Status::StreamEnd => return Ok(out),
            Status::MemNeeded => return Err("memneeded".into()),
            _ => {}
        }
        if pos >= input.len() && matches!(action, Action::Finish) && matches!(st, Status::MemNeeded) {
            return Err("stuck".into());
        }
    }
}

pub fn lzma2_opts() -> LzmaOptions {
    let mut o = LzmaOptions::new_preset(0).unwrap();
    o.dict_size(1 << 20);
    o
}

/// Filter ids as in the xz format; `props` = the filter's property bytes.
pub fn add_filter(f: &mut Filters, kind: &str, props: &[u8]) -> Result<(), String> {
    let r = match kind {
        "delta" => f.delta_properties(props).map(|_| ()),
        "x86" => f.x86_properties(props).map(|_| ()),
        "ppc" => f.powerpc_properties(props).map(|_| ()),
        "ia64" => f.ia64_properties(props).map(|_| ()),
        "arm" => f.arm_properties(props).map(|_| ()),
        "armthumb" => f.arm_thumb_properties(props).map(|_| ()),
        "sparc" => f.sparc_properties(props).map(|_| ()),
        "arm64" => f.arm64_properties(props).map(|_| ()),
        "riscv" => f.riscv_properties(props).map(|_| ()),
        _ => return Err(format!("unknown filter {kind}")),
    };
    r.map_err(|e| format!("{e:?}"))
}

/// The reference's filtered bytes for `data`: encode with the raw chain [filter, LZMA2], then take
/// the LZMA2 layer off again with the reference's own raw LZMA2 decoder.
pub fn ref_filter_encode(kind: &str, props: &[u8], data: &[u8]) -> Result<Vec<u8>, String> {
    let opts = lzma2_opts();
    let mut chain = Filters::new();
    add_filter(&mut chain, kind, props)?;
    chain.lzma2(&opts);
    let enc = Stream::new_raw_encoder(&chain).map_err(|e| format!("{e:?}"))?;
    let packed = run(enc, data)?;
    let mut only = Filters::new();
    only.lzma2(&opts);
    let dec = Stream::new_raw_decoder(&only).map_err(|e| format!("{e:?}"))?;
    run(dec, &packed)
}

/// The reference's decoding of filtered bytes: wrap them in LZMA2, decode with [filter, LZMA2].
pub fn ref_filter_decode(kind: &str, props: &[u8], filtered: &[u8]) -> Result<Vec<u8>, String> {
    let opts = lzma2_opts();
    let mut only = Filters::new();
    only.lzma2(&opts);
    let enc = Stream::new_raw_encoder(&only).map_err(|e| format!("{e:?}"))?;
    let packed = run(enc, filtered)?;
    let mut chain = Filters::new();
    add_filter(&mut chain, kind, props)?;
    chain.lzma2(&opts);
    let dec = Stream::new_raw_decoder(&chain).map_err(|e| format!("{e:?}"))?;
    run(dec, &packed)
}

pub fn xz_decode(data: &[u8]) -> Result<Vec<u8>, String> {
    let dec = Stream::new_stream_decoder(u64::MAX, 0).map_err(|e| format!("{e:?}"))?;
    run(dec, data)
}

pub fn lzma_alone_decode(data: &[u8]) -> Result<Vec<u8>, String> {
    let dec = Stream::new_lzma_decoder(u64::MAX).map_err(|e| format!("{e:?}"))?;
    run(dec, data)
}

pub fn lzip_decode(data: &[u8]) -> Result<Vec<u8>, String> {
    let dec = Stream::new_lzip_decoder(u64::MAX, 0).map_err(|e| format!("{e:?}"))?;
    run(dec, data)
}

pub fn lzma2_raw_decode(data: &[u8], dict: u32) -> Result<Vec<u8>, String> {
    let mut o = LzmaOptions::new_preset(0).unwrap();
    o.dict_size(dict.max(4096));
    let mut f = Filters::new();
    f.lzma2(&o);
    let dec = Stream::new_raw_decoder(&f).map_err(|e| format!("{e:?}"))?;
    run_prefix(dec, data)
}

/// Like `run` but input may be followed by trailing bytes (stops at StreamEnd).
fn run_prefix(s: Stream, input: &[u8]) -> Result<Vec<u8>, String> {
    run(s, input)
}
