//! Shared helpers: PRNG, hex, data/partition generators, outcome formatting, scripted I/O.
#![allow(dead_code)]

use std::collections::BTreeMap;
use std::fmt::Write as FmtWrite;
use std::io::{self, Read, Write};
use std::panic::{catch_unwind, AssertUnwindSafe};

/// SplitMix64: every random choice of a run derives from VERIF_SEED through this stream.
#[derive(Clone)]
pub struct Rng(pub u64);

impl Rng {
    pub fn new(seed: u64) -> Self {
        Rng(seed.wrapping_mul(0x9E3779B97F4A7C15).wrapping_add(0x1234_5678_9ABC_DEF1))
    }
    pub fn next(&mut self) -> u64 {
        self.0 = self.0.wrapping_add(0x9E3779B97F4A7C15);
        let mut z = self.0;
        z = (z ^ (z >> 30)).wrapping_mul(0xBF58476D1CE4E5B9);
        z = (z ^ (z >> 27)).wrapping_mul(0x94D049BB133111EB);
        z ^ (z >> 31)
    }
    pub fn below(&mut self, n: u64) -> u64 {
        if n == 0 {
            0
        } else {
            self.next() % n
        }
    }
    pub fn range(&mut self, lo: u64, hi: u64) -> u64 {
        lo + self.below(hi - lo + 1)
    }
    pub fn pick<'a, T>(&mut self, xs: &'a [T]) -> &'a T {
        &xs[self.below(xs.len() as u64) as usize]
    }
    pub fn chance(&mut self, num: u64, den: u64) -> bool {
        self.below(den) < num
    }
    pub fn fork(&mut self) -> Rng {
        Rng(self.next())
    }
}

pub fn hex(b: &[u8]) -> String {
    if b.is_empty() {
        return "-".to_string();
    }
    let mut s = String::with_capacity(b.len() * 2);
    for x in b {
        let _ = write!(s, "{:02x}", x);
    }
    s
}

pub fn unhex(s: &str) -> Vec<u8> {
    if s == "-" {
        return Vec::new();
    }
    let b = s.as_bytes();
    (0..b.len() / 2)
        .map(|i| {
            let h = (b[2 * i] as char).to_digit(16).unwrap() as u8;
            let l = (b[2 * i + 1] as char).to_digit(16).unwrap() as u8;
            h << 4 | l
        })
        .collect()
}

/// list of byte strings: "." for the empty list, otherwise comma separated hex ("-" = empty slice)
pub fn hex_parts(p: &[Vec<u8>]) -> String {
    if p.is_empty() {
        return ".".to_string();
    }
    p.iter().map(|x| hex(x)).collect::<Vec<_>>().join(",")
}

pub fn unhex_parts(s: &str) -> Vec<Vec<u8>> {
    if s == "." {
        return Vec::new();
    }
    s.split(',').map(unhex).collect()
}

pub fn ints(v: &[usize]) -> String {
    if v.is_empty() {
        return ".".to_string();
    }
    v.iter().map(|x| x.to_string()).collect::<Vec<_>>().join(",")
}

/// Classes of input data. The class name goes into the evidence distribution.
pub const DATA_CLASSES: &[&str] = &[
    "empty", "one", "constant", "periodic", "random", "text", "mixed", "copyfar", "lowentropy", "runs",
];

pub fn gen_data(rng: &mut Rng, class: &str, max_len: usize) -> Vec<u8> {
    let len = match rng.below(10) {
        0 => rng.below(8) as usize,
        1..=3 => rng.below(64.min(max_len as u64 + 1)) as usize,
        4..=7 => rng.below(1024.min(max_len as u64 + 1)) as usize,
        _ => rng.below(max_len as u64 + 1) as usize,
    };
    gen_data_len(rng, class, len)
}

pub fn gen_data_len(rng: &mut Rng, class: &str, len: usize) -> Vec<u8> {
    match class {
        "empty" => Vec::new(),
        "one" => vec![rng.next() as u8],
        "constant" => vec![rng.next() as u8; len],
        "periodic" => {
            let p = 1 + rng.below(300) as usize;
            let pat: Vec<u8> = (0..p).map(|_| rng.next() as u8).collect();
            (0..len).map(|i| pat[i % p]).collect()
        }
        "random" => (0..len).map(|_| rng.next() as u8).collect(),
        "text" => {
            let words: &[&[u8]] = &[
                b"the ", b"quick ", b"brown ", b"fox ", b"jumps ", b"over ", b"lazy ", b"dog ", b"\n", b"lzma ",
                b"0123456789", b"and ", b"of ", b"compression ",
            ];
            let mut v = Vec::with_capacity(len + 16);
            while v.len() < len {
                let w: &[u8] = *rng.pick(words);
                v.extend_from_slice(w);
            }
            v.truncate(len);
            v
        }
        "mixed" => {
            let mut v = Vec::with_capacity(len);
            while v.len() < len {
                let n = 1 + rng.below(200) as usize;
                let sub = *rng.pick(&["constant", "periodic", "random", "text", "copyfar"]);
                if sub == "copyfar" && !v.is_empty() {
                    let d = 1 + rng.below(v.len() as u64) as usize;
                    for _ in 0..n {
                        let b = v[v.len() - d];
                        v.push(b);
                    }
                } else {
                    let chunk = gen_data_len(rng, if sub == "copyfar" { "random" } else { sub }, n);
                    v.extend_from_slice(&chunk);
                }
            }
            v.truncate(len);
            v
        }
        "copyfar" => {
            // random head, then copies of earlier regions at chosen distances
            let mut v: Vec<u8> = Vec::with_capacity(len);
            let head = (len / 4).max(1).min(len);
            for _ in 0..head {
                v.push(rng.next() as u8);
            }
            while v.len() < len {
                let d = 1 + rng.below(v.len() as u64) as usize;
                let n = 2 + rng.below(300) as usize;
                for _ in 0..n {
                    let b = v[v.len() - d];
                    v.push(b);
                }
                if rng.chance(1, 3) {
                    v.push(rng.next() as u8);
                }
            }
            v.truncate(len);
            v
        }
        "lowentropy" => (0..len).map(|_| (rng.below(3) as u8) * 0x55).collect(),
        "runs" => {
            let mut v = Vec::with_capacity(len);
            while v.len() < len {
                let n = 1 + rng.below(600) as usize;
                let b = rng.next() as u8;
                for _ in 0..n {
                    v.push(b);
                }
            }
            v.truncate(len);
            v
        }
        _ => panic!("unknown data class {class}"),
    }
}

/// Partition classes for write()/read() call histories.
pub const PART_CLASSES: &[&str] = &["one", "bytes", "small", "pow2", "random", "with_empty"];

/// Cut [0, len) into consecutive part lengths (zeros allowed for "with_empty").
pub fn gen_partition(rng: &mut Rng, class: &str, len: usize) -> Vec<usize> {
    let mut out = Vec::new();
    let mut left = len;
    match class {
        "one" => out.push(len),
        "bytes" => {
            if len > 512 {
                return gen_partition(rng, "small", len);
            }
            for _ in 0..len {
                out.push(1)
            }
        }
        "small" => {
            let primes = [1usize, 2, 3, 5, 7, 11, 13, 17, 31, 61];
            while left > 0 {
                let n = (*rng.pick(&primes)).min(left);
                out.push(n);
                left -= n;
            }
        }
        "pow2" => {
            while left > 0 {
                let k = rng.below(13);
                let base = 1usize << k;
                let n = match rng.below(3) {
                    0 => base.saturating_sub(1).max(1),
                    1 => base,
                    _ => base + 1,
                }
                .min(left);
                out.push(n);
                left -= n;
            }
        }
        "random" => {
            while left > 0 {
                let n = (1 + rng.below(left as u64) as usize).min(left);
                out.push(n);
                left -= n;
            }
        }
        "with_empty" => {
            if rng.chance(1, 2) {
                out.push(0);
            }
            while left > 0 {
                let n = (1 + rng.below((left as u64).min(97)) as usize).min(left);
                out.push(n);
                left -= n;
                if rng.chance(1, 3) {
                    out.push(0);
                }
            }
            if out.is_empty() {
                out.push(0);
            }
        }
        _ => panic!("unknown partition class"),
    }
    out
}

pub fn split_by(data: &[u8], lens: &[usize]) -> Vec<Vec<u8>> {
    let mut out = Vec::new();
    let mut p = 0;
    for &n in lens {
        out.push(data[p..p + n].to_vec());
        p += n;
    }
    assert_eq!(p, data.len());
    out
}

/// Error kind -> the small enum shared with the model (Base/Bytes.v E_*).
pub fn err_code(e: &io::Error) -> u32 {
    use io::ErrorKind::*;
    match e.kind() {
        InvalidData => 1,
        InvalidInput => 2,
        UnexpectedEof => 3,
        OutOfMemory => 4,
        Unsupported => 5,
        WriteZero => 7,
        Interrupted => 8,
        _ => 6,
    }
}

/// Result of running a piece of the implementation under catch_unwind.
pub enum Outcome<T> {
    Ok(T),
    Err(u32),
    Panic(String),
}

pub fn guarded<T>(f: impl FnOnce() -> io::Result<T>) -> Outcome<T> {
    match catch_unwind(AssertUnwindSafe(f)) {
        Ok(Ok(v)) => Outcome::Ok(v),
        Ok(Err(e)) => Outcome::Err(err_code(&e)),
        Err(p) => {
            let msg = if let Some(s) = p.downcast_ref::<&str>() {
                s.to_string()
            } else if let Some(s) = p.downcast_ref::<String>() {
                s.clone()
            } else {
                "panic".to_string()
            };
            Outcome::Panic(msg.replace(['\n', ' '], "_"))
        }
    }
}

pub fn fmt_bytes_outcome(o: &Outcome<Vec<u8>>) -> String {
    match o {
        Outcome::Ok(v) => format!("OK {}", hex(v)),
        Outcome::Err(c) => format!("ERR {}", c),
        Outcome::Panic(_) => "PANIC".to_string(),
    }
}

/// A reader that hands out pre-cut slices, one per read() call (short reads), then EOF.
/// If the destination is smaller than the slice, the rest of the slice stays for the next call.
pub struct ChunkReader {
    pub parts: Vec<Vec<u8>>,
    pub idx: usize,
    pub off: usize,
    pub calls: usize,
}

impl ChunkReader {
    pub fn new(parts: Vec<Vec<u8>>) -> Self {
        // empty parts would read as EOF: drop them (an inner reader cannot return Ok(0) before EOF)
        let parts = parts.into_iter().filter(|p| !p.is_empty()).collect();
        ChunkReader { parts, idx: 0, off: 0, calls: 0 }
    }
}

impl Read for ChunkReader {
    fn read(&mut self, buf: &mut [u8]) -> io::Result<usize> {
        self.calls += 1;
        if self.idx >= self.parts.len() || buf.is_empty() {
            return Ok(0);
        }
        let p = &self.parts[self.idx];
        let n = (p.len() - self.off).min(buf.len());
        buf[..n].copy_from_slice(&p[self.off..self.off + n]);
        self.off += n;
        if self.off == p.len() {
            self.idx += 1;
            self.off = 0;
        }
        Ok(n)
    }
}

/// Reads `r` to the end using the given sequence of destination buffer sizes (cycled; a size of 0
/// is a zero-length read and must not end the loop), returning everything read.
pub fn read_with_sizes<R: Read>(r: &mut R, sizes: &[usize], cap: usize) -> io::Result<Vec<u8>> {
    let mut out = Vec::new();
    let mut i = 0;
    let mut buf = vec![0u8; sizes.iter().copied().max().unwrap_or(4096).max(1)];
    loop {
        let sz = if sizes.is_empty() { buf.len() } else { sizes[i % sizes.len()] };
        i += 1;
        let n = r.read(&mut buf[..sz])?;
        if sz == 0 {
            if n != 0 {
                return Err(io::Error::new(io::ErrorKind::Other, "zero-length read returned data"));
            }
            if sizes.iter().all(|&s| s == 0) {
                return Ok(out);
            }
            continue;
        }
        if n == 0 {
            return Ok(out);
        }
        out.extend_from_slice(&buf[..n]);
        if out.len() > cap {
            return Err(io::Error::new(io::ErrorKind::Other, "output exceeds cap (endless data)"));
        }
    }
}

/// Counters for the evidence's distribution section.
#[derive(Default)]
pub struct Dist(pub BTreeMap<String, u64>);

impl Dist {
    pub fn bump(&mut self, k: &str) {
        *self.0.entry(k.to_string()).or_insert(0) += 1;
    }
    pub fn add(&mut self, k: &str, n: u64) {
        *self.0.entry(k.to_string()).or_insert(0) += n;
    }
    pub fn to_json(&self) -> String {
        let mut s = String::from("{");
        for (i, (k, v)) in self.0.iter().enumerate() {
            if i > 0 {
                s.push(',');
            }
            let _ = write!(s, "\"{}\":{}", k, v);
        }
        s.push('}');
        s
    }
}

/// An area = a generator of command lines and an executor that runs one command on the
/// implementation, returning (observation, oracle verdict).  The command line determines the run
/// completely, so corpus entries and replay files are just command lines.
pub struct Area {
    pub name: &'static str,
    pub gen: fn(&mut Rng, &str, &mut Dist) -> Vec<String>,
    pub exec: fn(&[&str]) -> (String, String),
}

/// USER-mode CPU seconds (of the worker thread, not wall clock and not system time: the verdict must
/// not depend on how loaded or how short of memory the machine is) after which a single case counts
/// as a hang of the implementation; ten times as much user + system time, and a wall-clock backstop
/// for a case that blocks without using the CPU, end a case as well.
pub const CASE_TIMEOUT_S: u64 = 180;
pub const CASE_WALL_TIMEOUT_S: u64 = 1800;

#[repr(C)]
struct Timespec {
    tv_sec: i64,
    tv_nsec: i64,
}
extern "C" {
    fn pthread_self() -> usize;
    fn pthread_getcpuclockid(thread: usize, clock_id: *mut i32) -> i32;
    fn clock_gettime(clock_id: i32, tp: *mut Timespec) -> i32;
}

pub fn current_tid() -> usize {
    unsafe { pthread_self() }
}

/// CPU time (user + system, milliseconds) consumed so far by the thread `tid` (a pthread_t of a
/// thread that is still alive: the workers of run_cases never exit).
fn thread_cpu_ms(tid: usize) -> Option<u64> {
    let mut cid = 0i32;
    let mut ts = Timespec { tv_sec: 0, tv_nsec: 0 };
    unsafe {
        if pthread_getcpuclockid(tid, &mut cid) != 0 || clock_gettime(cid, &mut ts) != 0 {
            return None;
        }
    }
    Some(ts.tv_sec as u64 * 1000 + ts.tv_nsec as u64 / 1_000_000)
}

extern "C" {
    fn syscall(num: i64, ...) -> i64;
}

/// kernel thread id of the calling thread (x86-64 / aarch64 Linux)
pub fn kernel_tid() -> u64 {
    #[cfg(target_arch = "x86_64")]
    const SYS_GETTID: i64 = 186;
    #[cfg(target_arch = "aarch64")]
    const SYS_GETTID: i64 = 178;
    unsafe { syscall(SYS_GETTID) as u64 }
}

/// USER-mode CPU time (milliseconds) of the thread with kernel id `ktid`, from /proc.  A hang of the
/// implementation is a loop in user code; page-fault and memory-reclaim work that the kernel charges
/// to a thread when the machine is short of memory is system time and must not count as a hang.
fn thread_user_ms(ktid: u64) -> Option<u64> {
    let stat = std::fs::read_to_string(format!("/proc/self/task/{ktid}/stat")).ok()?;
    let rest = &stat[stat.rfind(')')? + 1..];
    let f: Vec<&str> = rest.split_whitespace().collect();
    let utime: u64 = f.get(11)?.parse().ok()?;
    Some(utime * 10) // clock ticks of 10 ms (USER_HZ = 100 on Linux)
}

static POOL_READY: std::sync::atomic::AtomicBool = std::sync::atomic::AtomicBool::new(false);

pub fn run_cases(area: &Area, cmds: &[String], dir: &str, dist: &Dist) {
    use std::sync::atomic::{AtomicU64, AtomicUsize, Ordering};
    use std::sync::{Arc, Mutex};
    std::fs::create_dir_all(dir).unwrap();
    let f = |n: &str| io::BufWriter::new(std::fs::File::create(format!("{dir}/{n}")).unwrap());
    let (mut cases, mut imp, mut oracle) = (f("cases.txt"), f("impl.txt"), f("oracle.txt"));
    // 16 worker threads; a watchdog replaces a worker that sits on one case for too long (the
    // stuck thread cannot be killed: it is abandoned and the process exits at the end).
    let n = cmds.len();
    let cmds: Arc<Vec<String>> = Arc::new(cmds.to_vec());
    let results: Arc<Vec<Mutex<Option<(String, String)>>>> = Arc::new((0..n).map(|_| Mutex::new(None)).collect());
    let next = Arc::new(AtomicUsize::new(0));
    let done = Arc::new(AtomicUsize::new(0));
    let exec = area.exec;
    let now = || std::time::SystemTime::now().duration_since(std::time::UNIX_EPOCH).unwrap().as_secs();
    // per worker: (case index + 1, start time, pthread id, thread CPU ms at the start of the case); 0 = idle/finished
    let slots: Arc<Mutex<Vec<Arc<(AtomicUsize, AtomicU64, AtomicUsize, AtomicU64, AtomicU64, AtomicU64)>>>> = Arc::new(Mutex::new(Vec::new()));
    let spawn_worker = {
        let (cmds, results, next, done, slots) = (cmds.clone(), results.clone(), next.clone(), done.clone(), slots.clone());
        move || {
            let slot = Arc::new((AtomicUsize::new(0), AtomicU64::new(0), AtomicUsize::new(0), AtomicU64::new(0), AtomicU64::new(0), AtomicU64::new(0)));
            slots.lock().unwrap().push(slot.clone());
            let (cmds, results, next, done) = (cmds.clone(), results.clone(), next.clone(), done.clone());
            std::thread::Builder::new().name("lzv-pool".into()).stack_size(64 << 20).spawn(move || loop {
                while !POOL_READY.load(Ordering::SeqCst) {
                    std::thread::sleep(std::time::Duration::from_millis(1));
                }
                let i = next.fetch_add(1, Ordering::SeqCst);
                if i >= cmds.len() {
                    slot.0.store(0, Ordering::SeqCst);
                    // never exit: the watchdog may still hold this thread's id
                    loop {
                        std::thread::park();
                    }
                }
                let tid = unsafe { pthread_self() };
                slot.2.store(tid, Ordering::SeqCst);
                slot.3.store(thread_cpu_ms(tid).unwrap_or(0), Ordering::SeqCst);
                let ktid = kernel_tid();
                slot.4.store(ktid, Ordering::SeqCst);
                slot.5.store(thread_user_ms(ktid).unwrap_or(0), Ordering::SeqCst);
                slot.1.store(now(), Ordering::SeqCst);
                slot.0.store(i + 1, Ordering::SeqCst);
                let parts: Vec<&str> = cmds[i].split(' ').collect();
                if i == 0 && std::env::var("LZVERIF_SELFTEST_HANG").is_ok() {
                    // self-test of the watchdog: the first case spins forever
                    loop {
                        std::hint::black_box(0);
                    }
                }
                if i == 1 && std::env::var("LZVERIF_SELFTEST_RUNAWAY").is_ok() {
                    // self-test of the allocation guard: the second case allocates forever
                    let mut v: Vec<Vec<u8>> = Vec::new();
                    loop {
                        v.push(Vec::with_capacity(256 << 20));
                    }
                }
                let r = match catch_unwind(AssertUnwindSafe(|| exec(&parts))) {
                    Ok(r) => r,
                    Err(_) => ("HARNESS-PANIC".to_string(), "FAIL harness panic".to_string()),
                };
                let mut g = results[i].lock().unwrap();
                if g.is_none() {
                    *g = Some(r);
                    done.fetch_add(1, Ordering::SeqCst);
                }
                slot.0.store(0, Ordering::SeqCst);
            }).unwrap();
        }
    };
    for _ in 0..16 {
        spawn_worker();
    }
    // every pool thread exists before the first case runs (areas that take a census of the process's
    // threads rely on it)
    POOL_READY.store(true, Ordering::SeqCst);
    while done.load(Ordering::SeqCst) < n {
        std::thread::sleep(std::time::Duration::from_millis(50));
        let t = now();
        let stuck: Vec<(usize, bool)> = slots.lock().unwrap().iter().filter_map(|s| {
            let c = s.0.load(Ordering::SeqCst);
            if c == 0 {
                return None;
            }
            // user-mode time decides (CASE_TIMEOUT_S); user + system time only as a backstop ten times as large
            let total = thread_cpu_ms(s.2.load(Ordering::SeqCst)).unwrap_or(0).saturating_sub(s.3.load(Ordering::SeqCst));
            let user = thread_user_ms(s.4.load(Ordering::SeqCst)).unwrap_or(total).saturating_sub(s.5.load(Ordering::SeqCst));
            let cpu = user.max(total / 10);
            // the slot may have moved on to another case in between: then it is re-examined next round
            let frozen = crate::areas::a_memusage::is_frozen(s.2.load(Ordering::SeqCst));
            if s.0.load(Ordering::SeqCst) == c && (frozen || cpu > CASE_TIMEOUT_S * 1000 || t.saturating_sub(s.1.load(Ordering::SeqCst)) > CASE_WALL_TIMEOUT_S) {
                s.0.store(0, Ordering::SeqCst);
                Some((c - 1, frozen))
            } else {
                None
            }
        }).collect();
        for (i, frozen) in stuck {
            let mut g = results[i].lock().unwrap();
            if g.is_none() {
                *g = Some(if frozen {
                    ("RUNAWAY".to_string(), "FAIL the call allocates without bound (more than 24 GiB live; the thread was frozen)".to_string())
                } else {
                    ("TIMEOUT".to_string(), format!("FAIL the call did not return within {CASE_TIMEOUT_S} s of user CPU time (hang)"))
                });
                done.fetch_add(1, Ordering::SeqCst);
                drop(g);
                spawn_worker();
            }
        }
    }
    for (i, c) in cmds.iter().enumerate() {
        let (o, v) = results[i].lock().unwrap().take().unwrap();
        // an observation "OBS ||| EXTRA" hands EXTRA (data only the implementation can supply,
        // e.g. the encoder's symbol trace) to the model as one more argument of the case line
        let (o, extra) = match o.split_once(" ||| ") {
            Some((a, b)) => (a.to_string(), format!(" {b}")),
            None => (o, String::new()),
        };
        writeln!(cases, "{} {}{}", i, c, extra).unwrap();
        writeln!(imp, "{} {}", i, o).unwrap();
        writeln!(oracle, "{} {}", i, v).unwrap();
    }
    cases.flush().unwrap();
    imp.flush().unwrap();
    oracle.flush().unwrap();
    std::fs::write(format!("{dir}/dist.json"), dist.to_json()).unwrap();
    // abandoned (stuck) threads must not keep the process alive
    std::process::exit(0);
}
