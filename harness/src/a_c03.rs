//! Area "c03": interoperation with the reference implementation (liblzma) in both directions, and
//! the tie of the format specification (coq/Format/XzSpec.v) to liblzma:
//!  (1) files written by the crate: liblzma must accept them and return the input (oracle of
//!      xz_write / lzip_write), and the specification must accept them (xz_spec / lzip_spec);
//!  (2) files written by liblzma (easy presets 0-9 and extreme, custom lc/lp/pb/dict/nice/mf/mode/
//!      depth, pre-filter chains, all four checks, multi-block through FullFlush, the multi-
//!      threaded encoder whose Block Headers carry both sizes): the crate must decode them;
//!  (3) the same files damaged: specification and liblzma must agree on accept/reject and content.
//! liblzma cannot ENCODE lzip: reference-made .lz files are liblzma LZMA_Alone streams (lc=3 lp=0
//! pb=2, end marker) wrapped in a member frame by this harness.
//! Commands and executors: see a_c02.rs.
// requires-verif-hooks (hook H3: FilterConfig / FilterType re-exports); left out of guard-off builds by build.rs
use super::a_c02::*;
use super::a_c04::{crc32, damage, lzip_field_edit, xz_field_edit};
use crate::reflib::{self, RefLzma};
use crate::util::*;

fn gen_ref_lzma(rng: &mut Rng, dist: &mut Dist) -> RefLzma {
    let preset = rng.below(10) as u32 | if rng.chance(1, 4) { 1 << 31 } else { 0 };
    let custom = rng.chance(1, 2);
    dist.bump(&format!("ref.preset.{}{}", preset & 15, if preset >> 31 != 0 { "e" } else { "" }));
    if !custom {
        return RefLzma { preset, dict: None, lclppb: None, nice: None, mf: None, mode: None, depth: None };
    }
    dist.bump("ref.custom_options");
    let (lc, lp) = loop {
        let lc = rng.below(5) as u32;
        let lp = rng.below(5) as u32;
        if lc + lp <= 4 {
            break (lc, lp);
        }
    };
    let mode = rng.below(2) as u32;
    // liblzma: bt2/hc3 need nice_len >= 2/3, mode fast only with hash chains is not required
    RefLzma {
        preset,
        dict: Some(match rng.below(5) { 0 => 4096, 1 => 1 << rng.range(12, 24), 2 => 3 << rng.range(11, 22), _ => rng.range(4096, 1 << 22) as u32 }),
        lclppb: Some((lc, lp, rng.below(5) as u32)),
        nice: Some(rng.range(8, 273) as u32),
        mf: Some(rng.below(5) as u32),
        mode: Some(mode),
        depth: Some(*rng.pick(&[0u32, 1, 16, 200])),
    }
}

pub fn lzip_wrap(alone: &[u8], dict_byte: u8, data: &[u8]) -> Vec<u8> {
    let mut v = b"LZIP\x01".to_vec();
    v.push(dict_byte);
    v.extend_from_slice(&alone[13..]);
    v.extend_from_slice(&crc32(data).to_le_bytes());
    v.extend_from_slice(&(data.len() as u64).to_le_bytes());
    let msize = (v.len() + 8) as u64;
    v.extend_from_slice(&msize.to_le_bytes());
    v
}

pub fn gen(rng: &mut Rng, tier: &str, dist: &mut Dist) -> Vec<String> {
    let n = if tier == "thorough" { 10000 } else { 1200 };
    let max_len = if tier == "thorough" { 8000 } else { 1500 };
    let mut cmds = Vec::new();
    // blocks beyond 2^24 bytes: the sizes in the index need a 4- and 5-byte multibyte integer
    for n in [(1usize << 24) + 5, (1 << 24) - 1] {
        cmds.push(format!("xz_big {} ref2crate", n));
        cmds.push(format!("xz_big {} crate2ref", n));
        dist.bump("xz_big");
    }
    for i in 0..n {
        let sizes = gen_sizes(rng);
        match i % 5 {
            0 | 1 => {
                // (2) liblzma -> crate
                let data = gen_small_data(rng, i, max_len, dist);
                let check = *rng.pick(&[0u8, 1, 4, 10]);
                let lz = gen_ref_lzma(rng, dist);
                let pre = gen_filters(rng, true);
                let variant = rng.below(4);
                let file = match variant {
                    0 => {
                        dist.bump("ref.easy");
                        reflib::xz_encode_easy(lz.preset, check, &data).map(|f| (f, vec![]))
                    }
                    1 => {
                        dist.bump("ref.stream_multiblock");
                        let pc = *rng.pick(&["random", "pow2", "with_empty"]);
                        let lens = gen_partition(rng, pc, data.len());
                        let lens: Vec<usize> = lens.into_iter().take(6).collect();
                        let mut segs = Vec::new();
                        let mut p = 0;
                        for l in &lens {
                            segs.push(data[p..p + l].to_vec());
                            p += l;
                        }
                        segs.push(data[p..].to_vec());
                        reflib::xz_encode_ref(&pre, &lz, check, &segs).map(|f| (f, pre.clone()))
                    }
                    2 => {
                        dist.bump("ref.stream");
                        reflib::xz_encode_ref(&pre, &lz, check, &[data.clone()]).map(|f| (f, pre.clone()))
                    }
                    _ => {
                        dist.bump("ref.mt");
                        let bsz = *rng.pick(&[4096u64, 5000, 65536, 1 << 20]);
                        reflib::xz_encode_mt(&pre, &lz, check, bsz, 1 + rng.below(2) as u32, &data).map(|f| (f, pre.clone()))
                    }
                };
                let (f, pre_used) = match file {
                    Ok(x) => x,
                    Err(_) => {
                        dist.bump("ref.encoder_refused_options");
                        continue;
                    }
                };
                let skip = has_bcj(&pre_used) as u8;
                cmds.push(format!("xz_read {} {} {} {} {} valid:{}", rng.below(2), skip, hex(&f), ints(&sizes), cap_for(data.len()), hex(&data)));
                push_spec(&mut cmds, false, skip, &f, data.len(), dist);
                // (3) damaged
                if skip == 0 && rng.chance(1, 2) {
                    let v = if rng.chance(1, 2) { damage(rng, &f, dist) } else {
                        let mut v = f.clone();
                        let k = rng.below(v.len() as u64) as usize;
                        v[k] ^= 1 << rng.below(8);
                        v
                    };
                    push_spec(&mut cmds, false, 0, &v, data.len(), dist);
                }
            }
            2 | 3 => {
                // (1) crate -> liblzma / specification
                let g = gen_xz(rng, i, max_len, true, dist);
                let f = match g.write() { Outcome::Ok(f) => f, _ => { cmds.push(g.write_cmd(None)); continue } };
                let skip = has_bcj(&g.filters) as u8;
                cmds.push(g.write_cmd(Some(&f)));
                let dlen = g.data().len();
                push_spec(&mut cmds, false, skip, &f, dlen, dist);
                if skip == 0 {
                    // (3) damaged, structured with CRC fix-up so that the damage reaches deep checks
                    let v = match rng.below(3) {
                        0 => damage(rng, &f, dist),
                        1 => xz_field_edit(rng, &f, g.check, !g.filters.is_empty(), true, dist),
                        _ => xz_field_edit(rng, &f, g.check, !g.filters.is_empty(), false, dist),
                    };
                    push_spec(&mut cmds, false, 0, &v, dlen, dist);
                    // concatenation with padding
                    if rng.chance(1, 4) {
                        let mut two = f.clone();
                        two.extend(std::iter::repeat(0u8).take(*rng.pick(&[0usize, 4, 8, 1, 2, 3, 5])));
                        two.extend_from_slice(&f);
                        two.extend(std::iter::repeat(0u8).take(*rng.pick(&[0usize, 0, 4, 3])));
                        push_spec(&mut cmds, false, 0, &two, 2 * dlen, dist);
                    }
                }
            }
            _ => {
                // LZIP
                if rng.chance(1, 2) {
                    let g = gen_lzip(rng, i, max_len, dist);
                    let f = match g.write() { Outcome::Ok(f) => f, _ => { cmds.push(g.write_cmd(None)); continue } };
                    cmds.push(g.write_cmd(Some(&f)));
                    let dlen = g.data().len();
                    push_spec(&mut cmds, true, 0, &f, dlen, dist);
                    let v = if rng.chance(1, 2) { damage(rng, &f, dist) } else { lzip_field_edit(rng, &f, dist) };
                    if !ends_with_magic_prefix(&v) {
                        push_spec(&mut cmds, true, 0, &v, dlen, dist);
                    }
                } else {
                    // reference-made payload in a member frame (1..3 members)
                    let k = 1 + rng.below(3) as usize;
                    let mut file = Vec::new();
                    let mut all = Vec::new();
                    let mut ok = true;
                    for j in 0..k {
                        let data = gen_small_data(rng, i + j, max_len / 2, dist);
                        let mut lz = gen_ref_lzma(rng, dist);
                        let log = rng.range(12, 22) as u32;
                        lz.dict = Some(1 << log);
                        lz.lclppb = Some((3, 0, 2));
                        match reflib::lzma_alone_encode_ref(&lz, &data) {
                            Ok(a) => {
                                file.extend_from_slice(&lzip_wrap(&a, log as u8, &data));
                                all.extend_from_slice(&data);
                            }
                            Err(_) => ok = false,
                        }
                    }
                    if !ok {
                        dist.bump("ref.encoder_refused_options");
                        continue;
                    }
                    dist.bump(&format!("ref.lzip_members.{k}"));
                    cmds.push(format!("lzip_read {} {} {} valid:{}", hex(&file), ints(&sizes), cap_for(all.len()), hex(&all)));
                    push_spec(&mut cmds, true, 0, &file, all.len(), dist);
                    let v = if rng.chance(1, 2) { damage(rng, &file, dist) } else { lzip_field_edit(rng, &file, dist) };
                    if !ends_with_magic_prefix(&v) {
                        push_spec(&mut cmds, true, 0, &v, all.len(), dist);
                    }
                }
            }
        }
    }
    cmds
}

/// The specification-vs-liblzma comparison of one file.  Damaged size fields can make a file
/// decode to megabytes, which the extracted model cannot afford: files for which liblzma produces
/// more than the output budget (before accepting or rejecting) are left out.
fn push_spec(cmds: &mut Vec<String>, lzip: bool, skip: u8, file: &[u8], content_len: usize, dist: &mut Dist) {
    let cap = cap_for(content_len);
    if reflib::decoded_len(lzip, file) > cap {
        dist.bump("spec.skipped_inflating_file");
        return;
    }
    if lzip {
        // liblzma also decodes version-0 members (no member size in the trailer); the crate and the
        // specification support version 1 only
        if file.windows(5).any(|w| w == b"LZIP\x00") {
            dist.bump("spec.skipped_lzip_version0");
            return;
        }
        cmds.push(format!("lzip_spec {} {}", hex(file), cap));
    } else {
        cmds.push(format!("xz_spec 1 {} {} {}", skip, hex(file), cap));
    }
}

/// liblzma silently drops up to three trailing bytes that are a proper prefix of "LZIP"; lzip(1)
/// and the crate report a truncated member header.  Such files are not compared.
fn ends_with_magic_prefix(v: &[u8]) -> bool {
    v.ends_with(b"L") || v.ends_with(b"LZ") || v.ends_with(b"LZI")
}

pub const AREA: Area = Area { name: "c03", gen, exec };
