//! Area "c02": XZ and LZIP containers round-trip (own reader), and the shared executors of all
//! container areas (c02, c03, c04, c12, c18).
//!
//! Commands (model-relevant arguments first, implementation-only arguments last):
//!   xz_write  <check> <bs|-> <filters> <dict> <parts> <payloads> <lzma opts> <flush idx list>
//!   xz_sizes  <bs|-> <dict> <part lengths> <lzma opts>
//!   xz_read   <multi 0|1> <skip 0|1> <file> <sizes> <cap> <kind>
//!   xz_spec   <lenient> <skip 0|1> <file> <cap>
//!   lzip_write <dict> <ms|-> <parts> <payloads> <lzma opts>
//!   lzip_sizes <dict> <ms|-> <part lengths> <lzma opts>
//!   lzip_read <file> <sizes> <cap> <kind>
//!   lzip_spec <file> <cap>
//! <filters> = "." or comma list id:property (file-format filter ids); <payloads> = the LZMA2/LZMA
//! payload of each block/member, sliced from the implementation's own output at generation time
//! (the encoder is C01's business; the container model must reproduce every other byte).
//! <kind> = what the property's oracle expects of the implementation:
//!   valid:<hex>            decodes to exactly these bytes (and liblzma agrees)
//!   first:<hex>:<n>        multi-stream off: the first stream's content, <n> bytes left unread
//!   corrupt:<hex>          an error, or exactly these bytes (never anything else)
//!   trailing:<hex>         LZIP: members followed by trailing data: exactly these bytes
//!   oneof:<hex>,<hex>..    an error, or one of these byte strings
//!   reject                 must be an error
//!   any                    no panic / hang; agreement with liblzma when liblzma accepts
//! <cap> = output budget of the run (damaged size fields can promise megabytes, which the extracted
//! model cannot afford): no call asks for more than cap + 1 - (bytes so far) bytes and the run stops
//! with CAP once more than <cap> bytes were returned; valid files never reach it.
//! Reader observation: END <out> <unconsumed> | ERR<kind> <out of earlier calls> | CAP <out> | PANIC | SKIP.
//! xz_spec / lzip_spec: the "implementation" observed is liblzma (the reference the format
//! specification of XzSpec.v stands for): OK <content> | REJECT.
// requires-verif-hooks (hook H3: FilterConfig / FilterType re-exports); left out of guard-off builds by build.rs
use crate::encutil::*;
use crate::reflib;
use crate::util::*;
use lzma_rust2::{CheckType, FilterConfig, FilterType, LZIPOptions, LZIPReader, LZIPWriter, XZOptions, XZReader, XZWriter};
use std::io::{Cursor, Read, Write};
use std::num::NonZeroU64;

// ------------------------------------------------------------------------------------------------
// small helpers

pub fn sizes_of(s: &str) -> Vec<usize> {
    if s == "." { vec![] } else { s.split(',').map(|x| x.parse().unwrap()).collect() }
}

pub fn optu(s: &str) -> Option<u64> {
    if s == "-" { None } else { Some(s.parse().unwrap()) }
}

pub fn fmt_optu(v: Option<u64>) -> String {
    v.map(|x| x.to_string()).unwrap_or("-".into())
}

pub fn parse_filters(s: &str) -> Vec<(u8, u32)> {
    if s == "." {
        return vec![];
    }
    s.split(',').map(|x| {
        let (a, b) = x.split_once(':').unwrap();
        (a.parse().unwrap(), b.parse().unwrap())
    }).collect()
}

pub fn fmt_filters(f: &[(u8, u32)]) -> String {
    if f.is_empty() { ".".into() } else { f.iter().map(|(a, b)| format!("{a}:{b}")).collect::<Vec<_>>().join(",") }
}

pub fn has_bcj(f: &[(u8, u32)]) -> bool {
    f.iter().any(|(id, _)| (4..=11).contains(id))
}

fn check_of(b: u8) -> CheckType {
    match b {
        0 => CheckType::None,
        1 => CheckType::Crc32,
        4 => CheckType::Crc64,
        _ => CheckType::Sha256,
    }
}

fn filter_type(id: u8) -> FilterType {
    match id {
        3 => FilterType::Delta,
        4 => FilterType::BcjX86,
        5 => FilterType::BcjPPC,
        6 => FilterType::BcjIA64,
        7 => FilterType::BcjARM,
        8 => FilterType::BcjARMThumb,
        9 => FilterType::BcjSPARC,
        10 => FilterType::BcjARM64,
        _ => FilterType::BcjRISCV,
    }
}

pub fn filter_name(id: u8) -> &'static str {
    match id {
        3 => "delta",
        4 => "x86",
        5 => "ppc",
        6 => "ia64",
        7 => "arm",
        8 => "armthumb",
        9 => "sparc",
        10 => "arm64",
        _ => "riscv",
    }
}

/// Result of driving a reader: bytes returned, and how the run ended.
pub enum DriveEnd {
    End,
    Err(u32),
    Cap,
}

/// Drives a reader with the size history (cycled; a zero size never ends the loop) under the
/// output budget `cap`; on error keeps the bytes of earlier calls.
pub fn drive<R: Read>(r: &mut R, sizes: &[usize], cap: usize) -> (Vec<u8>, DriveEnd) {
    let mut out = Vec::new();
    let mut i = 0usize;
    let mut buf = vec![0u8; sizes.iter().copied().max().unwrap_or(4096).max(4096)];
    let mut calls = 0u64;
    loop {
        let sz = if sizes.is_empty() { 4096 } else { sizes[i % sizes.len()] };
        let want = sz.min(cap + 1 - out.len());
        i += 1;
        calls += 1;
        if calls > 50_000_000 {
            return (out, DriveEnd::Err(99));
        }
        match r.read(&mut buf[..want]) {
            Ok(n) => {
                if want > 0 && n == 0 {
                    return (out, DriveEnd::End);
                }
                out.extend_from_slice(&buf[..n]);
                if out.len() > cap {
                    return (out, DriveEnd::Cap);
                }
            }
            Err(e) => return (out, DriveEnd::Err(err_code(&e))),
        }
    }
}

fn cursor_left(c: &Cursor<Vec<u8>>) -> usize {
    c.get_ref().len() - (c.position() as usize).min(c.get_ref().len())
}

/// After end of stream further read() calls must keep returning Ok(0) and must not touch the
/// source (C16: a caller that polls again, or a wrapper that reads until two zero results, must
/// find the source where the stream ended).  Returns "" when that holds, else a marker that makes
/// the observation differ from the model's and the oracle fail.
pub fn again_after_end<R: Read>(r: &mut R) -> String {
    let mut buf = [0u8; 16];
    for i in 0..2 {
        match r.read(&mut buf) {
            Ok(0) => {}
            Ok(n) => return format!(" AGAIN=read {} after the end returned {} bytes", i + 1, n),
            Err(e) => return format!(" AGAIN=read {} after the end failed with kind {}", i + 1, err_code(&e)),
        }
    }
    String::new()
}

fn catch(f: impl FnOnce() -> String) -> String {
    std::panic::catch_unwind(std::panic::AssertUnwindSafe(f)).unwrap_or_else(|_| "PANIC".to_string())
}

// ------------------------------------------------------------------------------------------------
// XZ: implementation side

pub fn xz_impl_write(check: u8, bs: Option<u64>, filters: &[(u8, u32)], o: &Opts, parts: &[Vec<u8>], flush_after: &[usize]) -> Outcome<Vec<u8>> {
    guarded(|| {
        let opt = XZOptions {
            lzma_options: o.lzma(None),
            check_type: check_of(check),
            block_size: bs.and_then(NonZeroU64::new),
            filters: filters.iter().map(|&(id, p)| FilterConfig { filter_type: filter_type(id), property: p }).collect(),
        };
        let mut w = XZWriter::new(Vec::new(), opt)?;
        for (i, p) in parts.iter().enumerate() {
            if p.is_empty() {
                let n = w.write(p)?;
                if n != 0 {
                    return Err(std::io::Error::new(std::io::ErrorKind::Other, "empty write returned a count"));
                }
            } else {
                w.write_all(p)?;
            }
            if flush_after.contains(&i) {
                w.flush()?;
            }
        }
        w.finish()
    })
}

pub const NO_CAP: usize = 1 << 26;

pub fn xz_impl_read(file: &[u8], multi: bool, sizes: &[usize], cap: usize) -> String {
    catch(|| {
        let mut r = XZReader::new(Cursor::new(file.to_vec()), multi);
        let (out, end) = drive(&mut r, sizes, cap);
        match end {
            DriveEnd::End => {
                let again = again_after_end(&mut r);
                format!("END {} {}{}", hex(&out), cursor_left(&r.into_inner()), again)
            }
            DriveEnd::Err(c) => format!("ERR{} {}", c, hex(&out)),
            DriveEnd::Cap => format!("CAP {}", hex(&out)),
        }
    })
}

fn vli(b: &[u8], pos: &mut usize) -> Option<u64> {
    let mut v = 0u64;
    for i in 0..9 {
        let x = *b.get(*pos)?;
        *pos += 1;
        v |= ((x & 0x7f) as u64) << (7 * i);
        if x & 0x80 == 0 {
            return Some(v);
        }
    }
    None
}

/// End (exclusive) of the LZMA2 stream starting at `p` (walks the chunk headers).
fn lzma2_end(b: &[u8], mut p: usize) -> Option<usize> {
    loop {
        let c = *b.get(p)?;
        if c == 0 {
            return Some(p + 1);
        }
        if c >= 0x80 {
            let csize = ((*b.get(p + 3)? as usize) << 8 | *b.get(p + 4)? as usize) + 1;
            p += 5 + if c >= 0xC0 { 1 } else { 0 } + csize;
        } else if c <= 2 {
            let usize_ = ((*b.get(p + 1)? as usize) << 8 | *b.get(p + 2)? as usize) + 1;
            p += 3 + usize_;
        } else {
            return None;
        }
    }
}

/// (payloads, index records) of a single-stream file written by XZWriter.
pub fn xz_slice(file: &[u8], check: u8) -> Option<(Vec<Vec<u8>>, Vec<(u64, u64)>)> {
    let csize = match check { 0 => 0, 1 => 4, 4 => 8, _ => 32 };
    let mut p = 12usize;
    let mut payloads = Vec::new();
    loop {
        let b = *file.get(p)?;
        if b == 0 {
            break;
        }
        p += (b as usize + 1) * 4;
        let e = lzma2_end(file, p)?;
        payloads.push(file[p..e].to_vec());
        p = (e + 3) / 4 * 4 + csize;
    }
    p += 1;
    let n = vli(file, &mut p)?;
    let mut recs = Vec::new();
    for _ in 0..n {
        let a = vli(file, &mut p)?;
        let b = vli(file, &mut p)?;
        recs.push((a, b));
    }
    Some((payloads, recs))
}

/// liblzma's verdict on a file: OK <hex> | REJECT
pub fn ref_obs(r: &Result<Vec<u8>, String>) -> String {
    match r {
        Ok(v) => format!("OK {}", hex(v)),
        Err(_) => "REJECT".to_string(),
    }
}

/// The oracle of a reader command evaluated on the implementation's observation.
pub fn read_oracle(obs: &str, kind: &str, reference: Option<Result<Vec<u8>, String>>) -> String {
    if obs.starts_with("PANIC") {
        return "FAIL reader panicked".into();
    }
    if let Some(i) = obs.find(" AGAIN=") {
        return format!("FAIL after end of stream: {}", &obs[i + 7..]);
    }
    if obs.starts_with("ERR99") {
        return "FAIL reader does not terminate".into();
    }
    if obs.starts_with("ERR98") {
        return "FAIL endless output".into();
    }
    if obs.starts_with("CAP") {
        // the run was cut off by the output budget before the reader reported success or failure
        return if kind.starts_with("valid") || kind.starts_with("first") || kind.starts_with("trailing") { "FAIL valid file produced more bytes than its content".into() } else { "ok".into() };
    }
    let end: Option<(&str, &str)> = obs.strip_prefix("END ").map(|r| r.split_once(' ').unwrap_or((r, "")));
    let (k, arg) = kind.split_once(':').unwrap_or((kind, ""));
    match k {
        "valid" | "trailing" => match end {
            Some((c, _)) if c == arg => {}
            Some(_) => return "FAIL valid file decoded to different bytes".into(),
            None => return "FAIL valid file rejected".into(),
        },
        "first" => {
            let (c0, n0) = arg.split_once(':').unwrap();
            match end {
                Some((c, n)) if c == c0 && n == n0 => {}
                Some((c, _)) if c != c0 => return "FAIL first stream decoded to different bytes".into(),
                Some(_) => return "FAIL reader did not stop right after the first stream".into(),
                None => return "FAIL valid first stream rejected".into(),
            }
        }
        "corrupt" => {
            if let Some((c, _)) = end {
                if c != arg {
                    return "FAIL corrupted file accepted with different content".into();
                }
            }
        }
        "reject" => {
            if end.is_some() {
                return "FAIL malformed file accepted".into();
            }
        }
        "oneof" => {
            if let Some((c, _)) = end {
                if !arg.split(',').any(|x| x == c) {
                    return "FAIL corrupted file accepted with content that is neither the original nor a format-defined prefix".into();
                }
            }
        }
        _ => {}
    }
    // reference decoder: whatever liblzma accepts (within the supported feature set) the crate
    // must decode to the same bytes; if both accept they must agree
    if k != "first" {
        if let Some(Ok(refout)) = reference {
            match end {
                Some((c, _)) if c == hex(&refout) => {}
                Some(_) => return "FAIL decoded content differs from liblzma".into(),
                None => {
                    if k != "corrupt" && k != "reject" && k != "oneof" {
                        return "FAIL liblzma decodes the file, the crate rejects it".into();
                    }
                }
            }
        }
    }
    "ok".into()
}

// ------------------------------------------------------------------------------------------------
// LZIP: implementation side

pub fn lzip_impl_write(dict: u32, ms: Option<u64>, o: &Opts, parts: &[Vec<u8>]) -> Outcome<Vec<u8>> {
    guarded(|| {
        let mut oo = o.clone();
        oo.dict = dict;
        let opt = LZIPOptions { lzma_options: oo.lzma(None), member_size: ms.and_then(NonZeroU64::new) };
        let mut w = LZIPWriter::new(Vec::new(), opt);
        for p in parts {
            if p.is_empty() {
                let n = w.write(p)?;
                if n != 0 {
                    return Err(std::io::Error::new(std::io::ErrorKind::Other, "empty write returned a count"));
                }
                w.flush()?;
            } else {
                w.write_all(p)?;
            }
        }
        w.finish()
    })
}

pub fn lzip_impl_read(file: &[u8], sizes: &[usize], cap: usize) -> String {
    catch(|| match LZIPReader::new(Cursor::new(file.to_vec())) {
        Err(e) => format!("CERR{}", err_code(&e)),
        Ok(mut r) => {
            let (out, end) = drive(&mut r, sizes, cap);
            match end {
                DriveEnd::End => {
                    let again = again_after_end(&mut r);
                    format!("END {} {}{}", hex(&out), cursor_left(&r.into_inner()), again)
                }
                DriveEnd::Err(c) => format!("ERR{} {}", c, hex(&out)),
                DriveEnd::Cap => format!("CAP {}", hex(&out)),
            }
        }
    })
}

/// (payloads, data sizes) of the members of a file written by LZIPWriter (backward walk over the
/// member_size fields).
pub fn lzip_slice(file: &[u8]) -> Option<(Vec<Vec<u8>>, Vec<u64>)> {
    let mut end = file.len();
    let mut pls = Vec::new();
    let mut sizes = Vec::new();
    while end > 0 {
        if end < 26 {
            return None;
        }
        let ms = u64::from_le_bytes(file[end - 8..end].try_into().ok()?) as usize;
        let ds = u64::from_le_bytes(file[end - 16..end - 8].try_into().ok()?);
        if ms < 26 || ms > end {
            return None;
        }
        let start = end - ms;
        pls.push(file[start + 6..end - 20].to_vec());
        sizes.push(ds);
        end = start;
    }
    pls.reverse();
    sizes.reverse();
    Some((pls, sizes))
}

// ------------------------------------------------------------------------------------------------
// executors

pub fn exec(a: &[&str]) -> (String, String) {
    match a[0] {
        "xz_write" => {
            let check: u8 = a[1].parse().unwrap();
            let bs = optu(a[2]);
            let filters = parse_filters(a[3]);
            let parts = unhex_parts(a[5]);
            let o = Opts::parse(a[7]);
            let flushes = sizes_of(a[8]);
            let data: Vec<u8> = parts.concat();
            let out = xz_impl_write(check, bs, &filters, &o, &parts, &flushes);
            let oracle = match &out {
                Outcome::Ok(f) => xz_write_oracle(f, check, bs, o.dict, &data),
                Outcome::Err(c) => format!("FAIL writer returned error kind {c} for in-range options"),
                Outcome::Panic(m) => format!("FAIL writer panicked: {}", &m[..m.len().min(80)]),
            };
            (fmt_bytes_outcome(&out), oracle)
        }
        "xz_sizes" => {
            let bs = optu(a[1]);
            let dict: u32 = a[2].parse().unwrap();
            let lens = sizes_of(a[3]);
            let mut o = Opts::parse(a[4]);
            o.dict = dict;
            let parts: Vec<Vec<u8>> = lens.iter().enumerate().map(|(i, &n)| vec![(i % 7) as u8; n]).collect();
            let data: Vec<u8> = parts.concat();
            let out = xz_impl_write(1, bs, &[], &o, &parts, &[]);
            match &out {
                Outcome::Ok(f) => match xz_slice(f, 1) {
                    Some((_, recs)) => {
                        let sizes: Vec<usize> = recs.iter().map(|r| r.1 as usize).collect();
                        (format!("OK {}", ints(&sizes)), xz_write_oracle(f, 1, bs, dict, &data))
                    }
                    None => ("UNPARSABLE".into(), "FAIL the writer's output cannot be walked".into()),
                },
                Outcome::Err(c) => (format!("ERR {c}"), "FAIL writer error".into()),
                Outcome::Panic(_) => ("PANIC".into(), "FAIL writer panicked".into()),
            }
        }
        "xz_read" => {
            let multi = a[1] == "1";
            let skip = a[2] == "1";
            let file = unhex(a[3]);
            let sizes = sizes_of(a[4]);
            let cap: usize = a[5].parse().unwrap();
            let kind = a.get(6).copied().unwrap_or("any");
            let obs = xz_impl_read(&file, multi, &sizes, cap);
            let reference = if multi { Some(reflib::xz_decode_concat(&file)) } else { None };
            let oracle = read_oracle(&obs, kind, reference);
            (if skip { "SKIP".into() } else { obs }, oracle)
        }
        "xz_big" => {
            // one block of n zero bytes (n beyond 2^24, where the index integers need 4 and 5 bytes), in
            // both directions against the reference implementation; too large for the extracted model
            // (it answers SKIP), decided by the oracle alone
            let n: usize = a[1].parse().unwrap();
            let dir = a[2];
            let data = vec![0u8; n];
            let verdict = if dir == "ref2crate" {
                match reflib::xz_encode_easy(0, 1, &data) {
                    Err(e) => format!("FAIL reference encoder failed ({e})"),
                    Ok(f) => match guarded(|| { let mut out = Vec::new(); XZReader::new(Cursor::new(f), true).read_to_end(&mut out)?; Ok(out) }) {
                        Outcome::Ok(d) if d == data => "ok".into(),
                        Outcome::Ok(d) => format!("FAIL the crate decodes the reference's file to {} bytes instead of {}", d.len(), n),
                        Outcome::Err(c) => format!("FAIL liblzma decodes the file, the crate rejects it (kind {c})"),
                        Outcome::Panic(_) => "FAIL reader panicked".into(),
                    },
                }
            } else {
                let o = Opts { lc: 3, lp: 0, pb: 2, dict: 1 << 16, nice: 273, mode: 0, mf: 0, depth: 4 };
                match xz_impl_write(1, None, &[], &o, &[data.clone()], &[]) {
                    Outcome::Ok(f) => match reflib::xz_decode(&f) {
                        Ok(d) if d == data => "ok".into(),
                        Ok(_) => "FAIL liblzma decodes the output to different bytes".into(),
                        Err(e) => format!("FAIL liblzma rejects the output ({e})"),
                    },
                    Outcome::Err(c) => format!("FAIL writer returned error kind {c} for in-range options"),
                    Outcome::Panic(_) => "FAIL writer panicked".into(),
                }
            };
            ("SKIP".into(), verdict)
        }
        "xz_spec" => {
            let skip = a[2] == "1";
            let file = unhex(a[3]);
            let r = reflib::xz_decode_concat(&file);
            // C03 (reference -> crate): whatever the reference accepts the crate decodes identically
            let obs = xz_impl_read(&file, true, &[], NO_CAP);
            let oracle = read_oracle(&obs, "any", Some(r.clone()));
            (if skip { "SKIP".into() } else { ref_obs(&r) }, oracle)
        }
        "lzip_write" => {
            let dict: u32 = a[1].parse().unwrap();
            let ms = optu(a[2]);
            let parts = unhex_parts(a[3]);
            let o = Opts::parse(a[5]);
            let data: Vec<u8> = parts.concat();
            let out = lzip_impl_write(dict, ms, &o, &parts);
            let oracle = match &out {
                Outcome::Ok(f) => lzip_write_oracle(f, dict, ms, &data),
                Outcome::Err(c) => format!("FAIL writer returned error kind {c} for in-range options"),
                Outcome::Panic(m) => format!("FAIL writer panicked: {}", &m[..m.len().min(80)]),
            };
            (fmt_bytes_outcome(&out), oracle)
        }
        "lzip_sizes" => {
            let dict: u32 = a[1].parse().unwrap();
            let ms = optu(a[2]);
            let lens = sizes_of(a[3]);
            let o = Opts::parse(a[4]);
            let parts: Vec<Vec<u8>> = lens.iter().enumerate().map(|(i, &n)| vec![(i % 7) as u8; n]).collect();
            let data: Vec<u8> = parts.concat();
            let out = lzip_impl_write(dict, ms, &o, &parts);
            match &out {
                Outcome::Ok(f) => match lzip_slice(f) {
                    Some((_, ds)) => {
                        let sizes: Vec<usize> = ds.iter().map(|&x| x as usize).collect();
                        (format!("OK {}", ints(&sizes)), lzip_write_oracle(f, dict, ms, &data))
                    }
                    None => ("UNPARSABLE".into(), "FAIL the writer's output cannot be walked".into()),
                },
                Outcome::Err(c) => (format!("ERR {c}"), "FAIL writer error".into()),
                Outcome::Panic(_) => ("PANIC".into(), "FAIL writer panicked".into()),
            }
        }
        "lzip_read" => {
            let file = unhex(a[1]);
            let sizes = sizes_of(a[2]);
            let cap: usize = a[3].parse().unwrap();
            let kind = a.get(4).copied().unwrap_or("any");
            let obs = lzip_impl_read(&file, &sizes, cap);
            let oracle = read_oracle(&obs, kind, Some(reflib::lzip_decode_concat(&file)));
            (obs, oracle)
        }
        "lzip_spec" => {
            let file = unhex(a[1]);
            let r = reflib::lzip_decode_concat(&file);
            let obs = lzip_impl_read(&file, &[], NO_CAP);
            let oracle = read_oracle(&obs, "any", Some(r.clone()));
            (ref_obs(&r), oracle)
        }
        _ => ("NOCMD".into(), "FAIL unknown command".into()),
    }
}

/// C02 + C03 + C18 on the implementation: own reader round trip, liblzma accepts and agrees, every
/// block holds at most max(block_size, dict) bytes (all but the last exactly that many).
pub fn xz_write_oracle(f: &[u8], check: u8, bs: Option<u64>, dict: u32, data: &[u8]) -> String {
    let obs = xz_impl_read(f, false, &[], NO_CAP);
    if obs != format!("END {} 0", hex(data)) {
        return format!("FAIL own reader does not return the bytes written ({})", &obs[..obs.len().min(40)]);
    }
    match reflib::xz_decode_concat(f) {
        Ok(r) if r == data => {}
        Ok(_) => return "FAIL liblzma decodes the output to different bytes".into(),
        Err(e) => return format!("FAIL liblzma rejects the output ({e})"),
    }
    match xz_slice(f, check) {
        None => return "FAIL the output cannot be walked block by block".into(),
        Some((_, recs)) => {
            let total: u64 = recs.iter().map(|r| r.1).sum();
            if total != data.len() as u64 {
                return "FAIL index uncompressed sizes do not add up to the input".into();
            }
            if let Some(b) = bs {
                let lim = b.max(dict as u64);
                for (i, r) in recs.iter().enumerate() {
                    if r.1 > lim {
                        return format!("FAIL block {} holds {} bytes > max(block_size, dict) = {}", i, r.1, lim);
                    }
                    if i + 1 < recs.len() && r.1 != lim {
                        return format!("FAIL block {} holds {} bytes, not the block size {}", i, r.1, lim);
                    }
                }
            } else if recs.len() > 1 {
                return "FAIL more than one block without a block size".into();
            }
            if recs.iter().any(|r| r.1 == 0) {
                return "FAIL empty block".into();
            }
        }
    }
    "ok".into()
}

pub fn lzip_write_oracle(f: &[u8], dict: u32, ms: Option<u64>, data: &[u8]) -> String {
    let obs = lzip_impl_read(f, &[], NO_CAP);
    if obs != format!("END {} 0", hex(data)) {
        return format!("FAIL own reader does not return the bytes written ({})", &obs[..obs.len().min(40)]);
    }
    match reflib::lzip_decode_concat(f) {
        Ok(r) if r == data => {}
        Ok(_) => return "FAIL liblzma decodes the output to different bytes".into(),
        Err(e) => return format!("FAIL liblzma rejects the output ({e})"),
    }
    match lzip_slice(f) {
        None => return "FAIL the output cannot be walked member by member".into(),
        Some((_, ds)) => {
            let total: u64 = ds.iter().sum();
            if total != data.len() as u64 {
                return "FAIL member data sizes do not add up to the input".into();
            }
            let d = dict.clamp(4096, 1 << 29) as u64;
            if let Some(m) = ms {
                let lim = m.max(d);
                for (i, &s) in ds.iter().enumerate() {
                    if s > lim {
                        return format!("FAIL member {} holds {} bytes > max(member_size, dict) = {}", i, s, lim);
                    }
                    if i + 1 < ds.len() && s != lim {
                        return format!("FAIL member {} holds {} bytes, not the member size {}", i, s, lim);
                    }
                }
            } else if ds.len() > 1 {
                return "FAIL more than one member without a member size".into();
            }
        }
    }
    "ok".into()
}

// ------------------------------------------------------------------------------------------------
// generators shared by the container areas

/// Output budget of a reader run for a file whose (original) content has `len` bytes.
pub fn cap_for(len: usize) -> usize {
    2 * len + 1024
}

pub fn gen_sizes(rng: &mut Rng) -> Vec<usize> {
    match rng.below(7) {
        0 => vec![],
        1 => vec![1],
        2 => vec![0, 7, 1, 0, 64],
        3 => vec![1 + rng.below(300) as usize, 1 + rng.below(5) as usize],
        4 => vec![65536],
        5 => vec![0, 1 + rng.below(50) as usize],
        _ => vec![*rng.pick(&[2usize, 3, 13, 273, 274, 4095, 4096, 4097])],
    }
}

pub fn sizes_class(s: &[usize]) -> &'static str {
    if s.is_empty() { "default" } else if s.contains(&0) { "with_zero" } else if s == [1] { "one" } else if s[0] >= 4096 { "big" } else { "small" }
}

pub const BCJ_IDS: &[u8] = &[4, 5, 6, 7, 8, 9, 10, 11];

fn bcj_align(id: u8) -> u32 {
    match id { 4 => 1, 5 => 4, 6 => 16, 7 => 4, 8 => 2, 9 => 4, 10 => 4, _ => 2 }
}

/// A pre-filter chain: none, delta, BCJ kinds, combinations (at most three).
pub fn gen_filters(rng: &mut Rng, allow_bcj: bool) -> Vec<(u8, u32)> {
    let delta = |rng: &mut Rng| (3u8, match rng.below(4) { 0 => 1, 1 => 256, _ => rng.range(1, 256) as u32 });
    let bcj = |rng: &mut Rng| {
        let id = *rng.pick(BCJ_IDS);
        let start = if rng.chance(1, 3) { bcj_align(id) * rng.below(1000) as u32 } else { 0 };
        (id, start)
    };
    match rng.below(if allow_bcj { 10 } else { 7 }) {
        0..=3 => vec![],
        4 | 5 => vec![delta(rng)],
        6 => {
            let n = rng.range(2, 3);
            (0..n).map(|_| delta(rng)).collect()
        }
        7 | 8 => vec![bcj(rng)],
        _ => {
            let mut v = vec![bcj(rng)];
            if rng.chance(1, 2) {
                v.push(delta(rng));
            }
            if rng.chance(1, 3) {
                v.insert(0, bcj(rng));
            }
            v
        }
    }
}

/// Data sized for the extracted model: mostly small, a few larger but compressible.
pub fn gen_small_data(rng: &mut Rng, i: usize, max_len: usize, dist: &mut Dist) -> Vec<u8> {
    let class = if i < DATA_CLASSES.len() { DATA_CLASSES[i] } else { *rng.pick(DATA_CLASSES) };
    dist.bump(&format!("data.{class}"));
    gen_data(rng, class, max_len)
}

/// Compressible data long enough to fill several 4 KiB blocks/members (cheap for the model).
pub fn gen_multiblock_data(rng: &mut Rng, len: usize) -> Vec<u8> {
    let class = *rng.pick(&["constant", "runs", "periodic", "text", "lowentropy"]);
    gen_data_len(rng, class, len)
}

pub struct XzGen {
    pub check: u8,
    pub bs: Option<u64>,
    pub filters: Vec<(u8, u32)>,
    pub opts: Opts,
    pub parts: Vec<Vec<u8>>,
    pub flushes: Vec<usize>,
}

impl XzGen {
    pub fn data(&self) -> Vec<u8> {
        self.parts.concat()
    }
    pub fn write(&self) -> Outcome<Vec<u8>> {
        xz_impl_write(self.check, self.bs, &self.filters, &self.opts, &self.parts, &self.flushes)
    }
    /// the xz_write command (payloads sliced from `file`, the implementation's output)
    pub fn write_cmd(&self, file: Option<&[u8]>) -> String {
        let pls = file.and_then(|f| xz_slice(f, self.check)).map(|x| x.0).unwrap_or_default();
        format!("xz_write {} {} {} {} {} {} {} {}", self.check, fmt_optu(self.bs), fmt_filters(&self.filters), self.opts.dict,
            hex_parts(&self.parts), hex_parts(&pls), self.opts.to_string(), ints(&self.flushes))
    }
}

/// One XZ writer configuration over all option dimensions of C02.
pub fn gen_xz(rng: &mut Rng, i: usize, max_len: usize, allow_bcj: bool, dist: &mut Dist) -> XzGen {
    let check = *rng.pick(&[0u8, 1, 4, 10]);
    let mut opts = gen_opts(rng, true, 1 << 20);
    let filters = gen_filters(rng, allow_bcj);
    let bcj = has_bcj(&filters);
    // block size classes: unset, = dict, < input, > input
    let bclass = *rng.pick(&["unset", "unset", "dict", "lt_input", "gt_input"]);
    let (data, bs) = match bclass {
        "lt_input" => {
            opts.dict = 4096;
            let len = 4097 + rng.below(9000) as usize;
            (gen_multiblock_data(rng, len), Some(*rng.pick(&[1u64, 4096, 4096, 5000])))
        }
        "dict" => {
            if rng.chance(1, 2) {
                opts.dict = 4096;
                let len = 3000 + rng.below(6000) as usize;
                (gen_multiblock_data(rng, len), Some(4096))
            } else {
                (gen_small_data(rng, i, max_len, dist), Some(opts.dict as u64))
            }
        }
        "gt_input" => (gen_small_data(rng, i, max_len, dist), Some(opts.dict as u64 + 1 + rng.below(1 << 20))),
        _ => (gen_small_data(rng, i, max_len, dist), None),
    };
    dist.bump(&format!("xz.block_size.{bclass}"));
    dist.bump(&format!("xz.check.{check}"));
    dist.bump(&format!("xz.filters.{}", if filters.is_empty() { "none".to_string() } else { filters.iter().map(|f| filter_name(f.0)).collect::<Vec<_>>().join("+") }));
    // BCJWriter is only exact for one write per block (its multi-write defect is C07's business)
    let pclass = if bcj { "one" } else { *rng.pick(PART_CLASSES) };
    dist.bump(&format!("partition.{pclass}"));
    let lens = gen_partition(rng, pclass, data.len());
    let parts = split_by(&data, &lens);
    let flushes: Vec<usize> = if bcj { vec![] } else { (0..parts.len()).filter(|_| rng.chance(1, 6)).collect() };
    if !flushes.is_empty() {
        dist.bump("xz.with_flush");
    }
    XzGen { check, bs, filters, opts, parts, flushes }
}

pub struct LzGen {
    pub dict: u32,
    pub ms: Option<u64>,
    pub opts: Opts,
    pub parts: Vec<Vec<u8>>,
}

impl LzGen {
    pub fn data(&self) -> Vec<u8> {
        self.parts.concat()
    }
    pub fn write(&self) -> Outcome<Vec<u8>> {
        lzip_impl_write(self.dict, self.ms, &self.opts, &self.parts)
    }
    pub fn write_cmd(&self, file: Option<&[u8]>) -> String {
        let pls = file.and_then(lzip_slice).map(|x| x.0).unwrap_or_default();
        format!("lzip_write {} {} {} {} {}", self.dict, fmt_optu(self.ms), hex_parts(&self.parts), hex_parts(&pls), self.opts.to_string())
    }
}

pub fn gen_lzip(rng: &mut Rng, i: usize, max_len: usize, dist: &mut Dist) -> LzGen {
    let opts = gen_opts(rng, false, 1 << 20);
    // dictionary sizes that are and are not representable in the header byte, and out-of-range ones
    let mut dict = match rng.below(8) {
        0 => 4096,
        1 => *rng.pick(&[0u32, 1, 4095]), // (values above 512 MiB also clamp, but a 512 MiB encoder is too slow here; the clamp is area lzipdict)
        2 => *rng.pick(&[5000u32, 4097, 65535, 65537, 100_000, 3 << 16, 7 << 13]),
        3 => 1 << rng.range(12, 22),
        _ => opts.dict,
    };
    let mclass = *rng.pick(&["unset", "unset", "dict", "lt_input", "gt_input"]);
    let (data, ms) = match mclass {
        "lt_input" => {
            dict = *rng.pick(&[4096u32, 0, 4097, 5000]);
            let len = 5001 + rng.below(9000) as usize;
            (gen_multiblock_data(rng, len), Some(*rng.pick(&[1u64, 4096, 4100])))
        }
        "dict" => {
            if rng.chance(1, 2) {
                dict = 4096;
                let len = 3000 + rng.below(6000) as usize;
                (gen_multiblock_data(rng, len), Some(4096))
            } else {
                (gen_small_data(rng, i, max_len, dist), Some(dict.clamp(4096, 1 << 29) as u64))
            }
        }
        "gt_input" => (gen_small_data(rng, i, max_len, dist), Some(dict.clamp(4096, 1 << 29) as u64 + 1 + rng.below(1 << 20))),
        _ => (gen_small_data(rng, i, max_len, dist), None),
    };
    dist.bump(&format!("lzip.member_size.{mclass}"));
    dist.bump(&format!("lzip.dict.{}", if dict < 4096 { "below_min" } else if dict > (1 << 29) { "above_max" } else if dict.is_power_of_two() { "pow2" } else { "fractional" }));
    let pclass = *rng.pick(PART_CLASSES);
    dist.bump(&format!("partition.{pclass}"));
    let lens = gen_partition(rng, pclass, data.len());
    let parts = split_by(&data, &lens);
    LzGen { dict, ms, opts, parts }
}

// ------------------------------------------------------------------------------------------------
// area c02

pub fn gen(rng: &mut Rng, tier: &str, dist: &mut Dist) -> Vec<String> {
    let n = if tier == "thorough" { 12000 } else { 1500 };
    let max_len = if tier == "thorough" { 12000 } else { 2500 };
    let mut cmds = Vec::new();
    // the empty input under every check type, with and without (empty) writes and flushes
    for check in [0u8, 1, 4, 10] {
        for parts in [vec![], vec![vec![]], vec![vec![], vec![]]] {
            let g = XzGen { check, bs: if check == 4 { Some(4096) } else { None }, filters: vec![], opts: gen_opts(rng, true, 1 << 16), parts: parts.clone(), flushes: if parts.len() == 2 { vec![0] } else { vec![] } };
            push_xz(&mut cmds, &g, rng, dist);
        }
    }
    for parts in [vec![], vec![vec![]]] {
        let g = LzGen { dict: 65536, ms: None, opts: gen_opts(rng, false, 1 << 16), parts };
        push_lzip(&mut cmds, &g, rng, dist);
    }
    // dictionary sizes at the borders of the formats' size encodings (XZ: 2^n and 3*2^(n-1), the
    // property byte rounds UP to the next of them; LZIP: 2^n minus k/16 of it): a*2^k and its
    // neighbours.  Small ones with a match near the far end of the dictionary (a reader that
    // allocates less than the writer used fails on it), larger ones for the header byte alone.
    for k in 10..=(if tier == "thorough" { 24 } else { 20 }) {
        for a in [4u64, 5, 6, 7] {
            for e in [-1i64, 0, 1] {
                let dv = (a << k) as i64 + e;
                if !(4096..=(1i64 << 27)).contains(&dv) {
                    continue;
                }
                let dv = dv as u32;
                let far = dv <= 20_000;
                let data = if far {
                    let noise: Vec<u8> = (0..dv as usize - 64).map(|_| rng.next() as u8).collect();
                    let mut x = noise.clone();
                    x.extend_from_slice(&noise[..512]);
                    x
                } else {
                    gen_small_data(rng, k as usize, 200, dist)
                };
                let mut opts = gen_opts(rng, true, 1 << 16);
                opts.dict = dv;
                opts.depth = 0;
                opts.nice = 64;
                dist.bump(if far { "dict_border.far_match" } else { "dict_border.header_only" });
                let g = XzGen { check: 1, bs: None, filters: vec![], opts: opts.clone(), parts: vec![data.clone()], flushes: vec![] };
                push_xz(&mut cmds, &g, rng, dist);
                let mut lo = opts.clone();
                lo.lc = 3;
                lo.lp = 0;
                lo.pb = 2;
                let g = LzGen { dict: dv, ms: None, opts: lo, parts: vec![data] };
                push_lzip(&mut cmds, &g, rng, dist);
            }
        }
    }
    // chains with TWO BCJ filters over several blocks (one write): the outer filter hands its output to the
    // inner one; whatever tail the outer filter leaves at the end of a block must not split the inner
    // filter's stream (defect repaired by /repo 8554bda, found by the thorough tier)
    for (i, chain) in [vec![(8u8, 994u32), (10, 0), (3, 78)], vec![(7, 0), (4, 0)], vec![(4, 16), (9, 0)], vec![(11, 2), (8, 0)], vec![(5, 4), (10, 4096)], vec![(8, 0), (7, 0)], vec![(6, 0), (10, 0)], vec![(8, 2), (5, 0)], vec![(11, 0), (4, 0)]].iter().enumerate() {
        // constant fills that the INNER filters convert everywhere (ARM64 BL 0x97979797, ARM BL ..EB, PowerPC
        // 0x49494949, x86 E8) and the outer ones leave alone, next to the generic classes
        for class in ["runs", "random", "fill97", "fillEB", "fill49", "fillE8"] {
            let data = match class {
                "fill97" => vec![0x97u8; 12119 + i * 7],
                "fillEB" => vec![0xEBu8; 12119 + i * 7],
                "fill49" => vec![0x49u8; 12119 + i * 7],
                "fillE8" => (0..12119 + i * 7).map(|j| if j % 5 == 0 { 0xE8u8 } else { 0 }).collect(),
                _ => gen_data_len(rng, class, 12119 + i * 7),
            };
            let mut opts = gen_opts(rng, true, 1 << 16);
            opts.dict = 4096;
            opts.depth = 0;
            dist.bump("xz.two_bcj_filters_multi_block");
            let g = XzGen { check: 4, bs: Some(4096), filters: chain.clone(), opts, parts: vec![data], flushes: vec![] };
            push_xz(&mut cmds, &g, rng, dist);
        }
    }
    // LZIP dictionary sizes BETWEEN representable ones (2^n - k*2^(n-4)): the header byte must round UP;
    // a 96-byte block repeated exactly dict_size bytes later needs the whole dictionary
    for nlog in 13..=(if tier == "thorough" { 16 } else { 14 }) {
        for k in 0..8u32 {
            let unit = 1u32 << (nlog - 4);
            let mid = (1u32 << nlog) - k * unit - unit / 2;
            for dv in [mid - 1, mid, mid + 1, mid - unit / 4, mid + unit / 4] {
                let mut data: Vec<u8> = (0..dv as usize + 96).map(|_| rng.next() as u8).collect();
                let blk: Vec<u8> = data[..96].to_vec();
                data[dv as usize..dv as usize + 96].copy_from_slice(&blk);
                let o = Opts { lc: 3, lp: 0, pb: 2, dict: dv, nice: 64, mode: 0, mf: 0, depth: 0 };
                dist.bump("lzip.dict_between_representable");
                let g = LzGen { dict: dv, ms: None, opts: o, parts: vec![data] };
                push_lzip(&mut cmds, &g, rng, dist);
            }
        }
    }
    for i in 0..n {
        if i % 3 != 2 {
            let g = gen_xz(rng, i, max_len, true, dist);
            push_xz(&mut cmds, &g, rng, dist);
        } else {
            let g = gen_lzip(rng, i, max_len, dist);
            push_lzip(&mut cmds, &g, rng, dist);
        }
    }
    cmds
}

pub fn push_xz(cmds: &mut Vec<String>, g: &XzGen, rng: &mut Rng, dist: &mut Dist) {
    let out = g.write();
    let file = match &out { Outcome::Ok(f) => Some(f.clone()), _ => None };
    cmds.push(g.write_cmd(file.as_deref()));
    if let Some(f) = file {
        let sizes = gen_sizes(rng);
        dist.bump(&format!("readsizes.{}", sizes_class(&sizes)));
        let multi = rng.chance(1, 2);
        cmds.push(format!("xz_read {} {} {} {} {} valid:{}", multi as u8, has_bcj(&g.filters) as u8, hex(&f), ints(&sizes), cap_for(g.data().len()), hex(&g.data())));
    } else {
        dist.bump("xz.writer_failed");
    }
}

pub fn push_lzip(cmds: &mut Vec<String>, g: &LzGen, rng: &mut Rng, dist: &mut Dist) {
    let out = g.write();
    let file = match &out { Outcome::Ok(f) => Some(f.clone()), _ => None };
    cmds.push(g.write_cmd(file.as_deref()));
    if let Some(f) = file {
        let sizes = gen_sizes(rng);
        dist.bump(&format!("readsizes.{}", sizes_class(&sizes)));
        cmds.push(format!("lzip_read {} {} {} valid:{}", hex(&f), ints(&sizes), cap_for(g.data().len()), hex(&g.data())));
    } else {
        dist.bump("lzip.writer_failed");
    }
}

pub const AREA: Area = Area { name: "c02", gen, exec };
