//! lzverif harness: runs the implementation (/repo's current working tree) on command lines.
//!   lzverif gen  <area> <tier> <seed> <outdir>   generate cases for an area and execute them
//!   lzverif exec <area> <cmdfile> <outdir>       execute the given command lines (corpus, replay)
//! Output: cases.txt (commands for the model driver), impl.txt (implementation observations),
//! oracle.txt (verdict of the property's own oracle on the implementation), dist.json.
mod encutil;
mod minienc;
mod reflib;
mod util;
mod areas {
    include!(concat!(env!("OUT_DIR"), "/areas_gen.rs"));
}

use areas::AREAS;
use util::*;

fn main() {
    std::panic::set_hook(Box::new(|_| {}));
    let args: Vec<String> = std::env::args().collect();
    if args.len() < 5 {
        eprintln!("usage: lzverif gen <area> <tier> <seed> <outdir> | exec <area> <cmdfile> <outdir>");
        std::process::exit(2);
    }
    let area = match AREAS.iter().find(|a| a.name == args[2]) {
        Some(a) => a,
        None => {
            eprintln!("unknown area {}", args[2]);
            std::process::exit(2);
        }
    };
    match args[1].as_str() {
        "gen" => {
            let tier = args[3].as_str();
            let seed: u64 = args[4].parse().unwrap_or(0);
            let mut rng = Rng::new(seed ^ fnv(area.name));
            let mut dist = Dist::default();
            let cmds = (area.gen)(&mut rng, tier, &mut dist);
            run_cases(area, &cmds, &args[5], &dist);
        }
        "list" => {
            let tier = args[3].as_str();
            let seed: u64 = args[4].parse().unwrap_or(0);
            let mut rng = Rng::new(seed ^ fnv(area.name));
            let mut dist = Dist::default();
            for c in (area.gen)(&mut rng, tier, &mut dist) {
                println!("{c}");
            }
        }
        "exec" => {
            let text = std::fs::read_to_string(&args[3]).unwrap();
            let cmds: Vec<String> = text.lines().map(|l| l.trim().to_string()).filter(|l| !l.is_empty() && !l.starts_with('#')).collect();
            run_cases(area, &cmds, &args[4], &Dist::default());
        }
        _ => std::process::exit(2),
    }
}

fn fnv(s: &str) -> u64 {
    let mut h = 0xcbf29ce484222325u64;
    for b in s.bytes() {
        h ^= b as u64;
        h = h.wrapping_mul(0x100000001b3);
    }
    h
}
