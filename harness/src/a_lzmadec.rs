//! Area "lzmadec": LZMAReader / LZMA2Reader vs. Codec/Lzma1.v, Codec/Lzma2Dec.v on valid streams
//! (produced by the crate's writers and by liblzma), streams followed by trailing bytes, corrupted
//! and truncated streams and random bytes; every read history is a list of destination sizes.
//!   lzma1_hdr <memlimit_kb> <stream> <sizes>
//!   lzma1_raw <uncomp|-1> <lc> <lp> <pb> <dict> <preset|none> <stream> <sizes>
//!   lzma1_props <uncomp|-1> <props> <dict> <preset|none> <stream> <sizes>
//!   lzma2 <dict> <preset|none> <stream> <sizes>
//! Observation: END <out> <unconsumed> | ERR<kind> <out before the failing call> | CERR<kind> | PANIC
use crate::encutil::*;
use crate::minienc::{lzma2_stored_then_lzma, Sym};
use crate::reflib;
use crate::util::*;
use lzma_rust2::{LZMA2Reader, LZMAReader};
use std::io::{Cursor, Read};

fn sizes_of(s: &str) -> Vec<usize> {
    if s == "." { vec![] } else { s.split(',').map(|x| x.parse().unwrap()).collect() }
}

fn preset_of(s: &str) -> Option<Vec<u8>> {
    if s == "none" { None } else { Some(unhex(s)) }
}

/// Drives a reader with the size history; on error keeps the bytes of earlier calls.
fn drive<R: Read>(r: &mut R, sizes: &[usize]) -> (Vec<u8>, Option<u32>) {
    let mut out = Vec::new();
    let mut i = 0usize;
    let mut buf = vec![0u8; sizes.iter().copied().max().unwrap_or(4096).max(1)];
    let mut calls = 0u64;
    loop {
        let sz = if sizes.is_empty() { 4096 } else { sizes[i % sizes.len()] };
        i += 1;
        calls += 1;
        if calls > 50_000_000 {
            return (out, Some(99));
        }
        match r.read(&mut buf[..sz]) {
            Ok(n) => {
                if sz > 0 && n == 0 {
                    return (out, None);
                }
                out.extend_from_slice(&buf[..n]);
                if out.len() > (1 << 26) {
                    return (out, Some(98));
                }
            }
            Err(e) => return (out, Some(err_code(&e))),
        }
    }
}

fn observe<R: Read>(ctor: impl FnOnce() -> std::io::Result<R>, sizes: &[usize], unconsumed: impl Fn(R) -> usize) -> String {
    let r = std::panic::catch_unwind(std::panic::AssertUnwindSafe(|| match ctor() {
        Err(e) => format!("CERR{}", err_code(&e)),
        Ok(mut rd) => {
            let (out, err) = drive(&mut rd, sizes);
            match err {
                None => {
                    // after end of stream further reads return Ok(0) and leave the source alone (C16)
                    let mut again = String::new();
                    let mut buf = [0u8; 16];
                    for i in 0..2 {
                        match rd.read(&mut buf) {
                            Ok(0) => {}
                            Ok(n) => { again = format!(" AGAIN=read {} after the end returned {} bytes", i + 1, n); break }
                            Err(e) => { again = format!(" AGAIN=read {} after the end failed with kind {}", i + 1, err_code(&e)); break }
                        }
                    }
                    format!("END {} {}{}", hex(&out), unconsumed(rd), again)
                }
                Some(c) => {
                    // reading on after an error must stay total as well (checked by the oracle)
                    let mut buf = [0u8; 64];
                    let again = std::panic::catch_unwind(std::panic::AssertUnwindSafe(|| {
                        for _ in 0..4 {
                            let _ = rd.read(&mut buf);
                        }
                    }));
                    if again.is_err() {
                        READ_AFTER_ERROR_PANIC.with(|f| f.set(true));
                    }
                    format!("ERR{} {}", c, hex(&out))
                }
            }
        }
    }));
    r.unwrap_or_else(|_| "PANIC".to_string())
}

thread_local! {
    static READ_AFTER_ERROR_PANIC: std::cell::Cell<bool> = const { std::cell::Cell::new(false) };
}

fn cursor_left(c: &Cursor<Vec<u8>>) -> usize {
    c.get_ref().len() - (c.position() as usize).min(c.get_ref().len())
}

pub fn exec(a: &[&str]) -> (String, String) {
    match a[0] {
        "lzma1_hdr" => {
            let ml: u32 = a[1].parse().unwrap();
            let stream = unhex(a[2]);
            let sizes = sizes_of(a[3]);
            let obs = observe(|| LZMAReader::new_mem_limit(Cursor::new(stream.clone()), ml, None), &sizes, |r| cursor_left(&r.into_inner()));
            let oracle = oracle_vs_ref(&obs, reflib::lzma_alone_decode(&stream));
            let oracle = oracle_tail(a, &obs, oracle);
            (obs, oracle)
        }
        "lzma1_raw" => {
            let u: u64 = if a[1] == "-1" { u64::MAX } else { a[1].parse().unwrap() };
            let (lc, lp, pb, d): (u32, u32, u32, u32) = (a[2].parse().unwrap(), a[3].parse().unwrap(), a[4].parse().unwrap(), a[5].parse().unwrap());
            let pre = preset_of(a[6]);
            let stream = unhex(a[7]);
            let sizes = sizes_of(a[8]);
            let obs = observe(|| LZMAReader::new(Cursor::new(stream.clone()), u, lc, lp, pb, d, pre.as_deref()), &sizes, |r| cursor_left(&r.into_inner()));
            let oracle = oracle_tail(a, &obs, oracle_no_panic(&obs));
            (obs, oracle)
        }
        "lzma1_props" => {
            let u: u64 = if a[1] == "-1" { u64::MAX } else { a[1].parse().unwrap() };
            let (props, d): (u8, u32) = (a[2].parse().unwrap(), a[3].parse().unwrap());
            let pre = preset_of(a[4]);
            let stream = unhex(a[5]);
            let sizes = sizes_of(a[6]);
            let obs = observe(|| LZMAReader::new_with_props(Cursor::new(stream.clone()), u, props, d, pre.as_deref()), &sizes, |r| cursor_left(&r.into_inner()));
            let oracle = oracle_tail(a, &obs, oracle_no_panic(&obs));
            (obs, oracle)
        }
        "lzma2" => {
            let d: u32 = a[1].parse().unwrap();
            let pre = preset_of(a[2]);
            let stream = unhex(a[3]);
            let sizes = sizes_of(a[4]);
            let obs = observe(|| Ok(LZMA2Reader::new(Cursor::new(stream.clone()), d, pre.as_deref())), &sizes, |r| cursor_left(&r.into_inner()));
            let oracle = if pre.is_none() && d >= 4096 { oracle_vs_ref(&obs, reflib::lzma2_raw_decode(&stream, d)) } else { oracle_no_panic(&obs) };
            let oracle = oracle_tail(a, &obs, oracle);
            (obs, oracle)
        }
        _ => ("NOCMD".into(), "FAIL unknown command".into()),
    }
}

/// C16: for a stream the crate's own writer produced (not corrupted) followed by `tail` extra bytes,
/// end of stream must leave exactly those bytes unread.  The expectation travels as a last,
/// implementation-only argument "t<n>".
fn oracle_tail(a: &[&str], obs: &str, prev: String) -> String {
    if prev != "ok" {
        return prev;
    }
    if let Some(t) = a.last().and_then(|x| x.strip_prefix('t')).and_then(|x| x.parse::<usize>().ok()) {
        if let Some(rest) = obs.strip_prefix("END ") {
            let left: usize = rest.split(' ').nth(1).and_then(|x| x.parse().ok()).unwrap_or(usize::MAX);
            if left != t {
                return format!("FAIL end of stream leaves {left} source bytes unread, the stream is followed by {t}");
            }
        } else {
            return "FAIL a stream written by the crate's own writer is not read to its end".into();
        }
    }
    "ok".into()
}

fn oracle_no_panic(obs: &str) -> String {
    if let Some(i) = obs.find(" AGAIN=") {
        return format!("FAIL after end of stream: {}", &obs[i + 7..]);
    }
    if READ_AFTER_ERROR_PANIC.with(|f| f.replace(false)) {
        return "FAIL read() after an error panics".into();
    }
    if obs.starts_with("PANIC") { "FAIL decoder panicked".into() } else if obs.starts_with("ERR99") { "FAIL decoder does not terminate".into() } else if obs.starts_with("ERR98") { "FAIL endless output".into() } else { "ok".into() }
}

/// The decoder must not panic/hang, and when both it and the reference decoder accept the stream
/// they must agree on the content.
fn oracle_vs_ref(obs: &str, r: Result<Vec<u8>, String>) -> String {
    let np = oracle_no_panic(obs);
    if np != "ok" {
        return np;
    }
    if let (Some(rest), Ok(refout)) = (obs.strip_prefix("END "), r) {
        let got = rest.split(' ').next().unwrap_or("");
        if got != hex(&refout) {
            return "FAIL decoded content differs from liblzma".into();
        }
    }
    "ok".into()
}

fn gen_sizes(rng: &mut Rng) -> Vec<usize> {
    match rng.below(6) {
        0 => vec![],
        1 => vec![1],
        2 => vec![0, 7, 1, 0, 64],
        3 => vec![1 + rng.below(300) as usize, 1 + rng.below(5) as usize],
        4 => vec![65536],
        _ => vec![*rng.pick(&[2usize, 3, 13, 273, 274, 4095, 4096, 4097])],
    }
}

/// Corruptions applied to a valid stream.
fn corrupt(rng: &mut Rng, s: &[u8], dist: &mut Dist) -> Vec<u8> {
    let mut v = s.to_vec();
    if v.is_empty() {
        return v;
    }
    match rng.below(5) {
        0 => {
            dist.bump("corrupt.bitflip");
            let i = rng.below(v.len() as u64) as usize;
            v[i] ^= 1 << rng.below(8);
        }
        1 => {
            dist.bump("corrupt.truncate");
            let k = rng.below(v.len() as u64) as usize;
            v.truncate(k);
        }
        2 => {
            dist.bump("corrupt.byte");
            let i = rng.below(v.len() as u64) as usize;
            v[i] = rng.next() as u8;
        }
        3 => {
            dist.bump("corrupt.delete");
            let i = rng.below(v.len() as u64) as usize;
            let n = (1 + rng.below(8) as usize).min(v.len() - i);
            v.drain(i..i + n);
        }
        _ => {
            dist.bump("corrupt.headflip");
            let i = rng.below(v.len().min(16) as u64) as usize;
            v[i] ^= 1 << rng.below(8);
        }
    }
    v
}

pub fn gen(rng: &mut Rng, tier: &str, dist: &mut Dist) -> Vec<String> {
    let n = if tier == "thorough" { 6000 } else { 700 };
    let max_len = if tier == "thorough" { 20000 } else { 3000 };
    let mut cmds = Vec::new();
    for i in 0..n {
        let class = if i < DATA_CLASSES.len() { DATA_CLASSES[i] } else { *rng.pick(DATA_CLASSES) };
        let data = gen_data(rng, class, max_len);
        dist.bump(&format!("data.{class}"));
        let tail: Vec<u8> = match rng.below(4) {
            0 => vec![],
            1 => vec![0; 1 + rng.below(8) as usize],
            _ => (0..1 + rng.below(12)).map(|_| rng.next() as u8).collect(),
        };
        let sizes = gen_sizes(rng);
        let kind = rng.below(10);
        if kind < 5 {
            // LZMA1
            let o = gen_opts(rng, false, 1 << 17);
            let variant = rng.below(4);
            let use_preset = variant >= 2 && rng.chance(1, 3);
            let plen = 1 + rng.below(300) as usize;
            let preset = if use_preset { Some(gen_data_len(rng, "text", plen)) } else { None };
            let pre_s = preset.as_ref().map(|p| hex(p)).unwrap_or("none".into());
            let (header, marker, expected) = match variant {
                0 => (true, true, None),
                1 => (true, false, Some(data.len() as u64)),
                2 => (false, true, None),
                _ => (false, false, None),
            };
            let enc = lzma1_encode(&o, preset.clone(), header, marker, expected, &[data.clone()]);
            let mut stream = match enc {
                Outcome::Ok(v) => v,
                _ => {
                    dist.bump("encoder_failed");
                    continue;
                }
            };
            let corrupted = rng.chance(1, 4);
            if corrupted {
                stream = corrupt(rng, &stream, dist);
            }
            stream.extend_from_slice(&tail);
            dist.bump(&format!("lzma1.variant{variant}{}", if corrupted { ".corrupt" } else { "" }));
            let tl = if corrupted { String::new() } else { format!(" t{}", tail.len()) };
            match variant {
                0 | 1 => {
                    let limit = if rng.chance(1, 8) { rng.below(5000) } else { u32::MAX as u64 };
                    let tl = if limit == u32::MAX as u64 { tl.clone() } else { String::new() };
                    cmds.push(format!("lzma1_hdr {} {} {}{}", limit, hex(&stream), ints(&sizes), tl))
                }
                2 => {
                    if rng.chance(1, 2) {
                        cmds.push(format!("lzma1_raw -1 {} {} {} {} {} {} {}{}", o.lc, o.lp, o.pb, o.dict, pre_s, hex(&stream), ints(&sizes), tl))
                    } else {
                        cmds.push(format!("lzma1_props -1 {} {} {} {} {}{}", o.props(), o.dict, pre_s, hex(&stream), ints(&sizes), tl))
                    }
                }
                _ => {
                    // no end marker: the caller supplies the size (exact, or wrong one time in six)
                    let exact = !rng.chance(1, 6);
                    let u = if exact { data.len() as u64 } else { (data.len() as u64 + rng.below(5)).saturating_sub(2) };
                    let tl = if exact { tl.clone() } else { String::new() };
                    cmds.push(format!("lzma1_raw {} {} {} {} {} {} {} {}{}", u, o.lc, o.lp, o.pb, o.dict, pre_s, hex(&stream), ints(&sizes), tl))
                }
            }
        } else if kind < 9 {
            // LZMA2
            let o = gen_opts(rng, true, 1 << 17);
            // the writer has a known defect for dict < 64 KiB on incompressible data: keep this
            // area about the reader by staying at >= 64 KiB here (the writer is C01's business)
            let mut o = o;
            if o.dict < 65536 {
                o.dict = 65536;
            }
            let use_preset = rng.chance(1, 5);
            let plen = 1 + rng.below(300) as usize;
            let preset = if use_preset { Some(gen_data_len(rng, "text", plen)) } else { None };
            let pre_s = preset.as_ref().map(|p| hex(p)).unwrap_or("none".into());
            let enc = lzma2_encode(&o, preset.clone(), None, &[data.clone()], &[]);
            let mut stream = match enc {
                Outcome::Ok(v) => v,
                _ => {
                    dist.bump("encoder_failed");
                    continue;
                }
            };
            let corrupted = rng.chance(1, 4);
            if corrupted {
                stream = corrupt(rng, &stream, dist);
            }
            stream.extend_from_slice(&tail);
            dist.bump(&format!("lzma2{}{}", if use_preset { ".preset" } else { "" }, if corrupted { ".corrupt" } else { "" }));
            // the reader's dictionary: the writer's, or occasionally smaller/odd values
            let rd = match rng.below(8) { 0 => 4096, 1 => 0, 2 => 1, 3 => 17, _ => o.dict };
            let tl = if corrupted || rd != o.dict { String::new() } else { format!(" t{}", tail.len()) };
            cmds.push(format!("lzma2 {} {} {} {}{}", rd, pre_s, hex(&stream), ints(&sizes), tl));
        } else {
            // random bytes into every constructor
            let junk: Vec<u8> = (0..rng.below(200)).map(|_| if rng.chance(1, 3) { 0 } else { rng.next() as u8 }).collect();
            dist.bump("junk");
            match rng.below(3) {
                0 => cmds.push(format!("lzma1_hdr {} {} {}", u32::MAX, hex(&junk), ints(&sizes))),
                1 => cmds.push(format!("lzma1_props {} {} {} none {} {}", if rng.chance(1, 2) { -1i64 } else { rng.below(1000) as i64 }, rng.below(256), *rng.pick(&[0u64, 1, 4096, 65536, 4294967280, 4294967295]), hex(&junk), ints(&sizes))),
                _ => cmds.push(format!("lzma2 {} none {} {}", *rng.pick(&[0u64, 16, 4096, 65536, 4294967280]), hex(&junk), ints(&sizes))),
            }
        }
    }
    // hand-built hostile LZMA2 streams (independent mini encoder): a stored chunk fills the
    // dictionary up to a chosen point, then an LZMA chunk holds a match whose distance sits at the
    // border of what the dictionary holds - one below (legal), exactly at, one above - with the write
    // position just wrapped, in the middle, or at the end of the cyclic buffer; and matches whose
    // length runs over the announced chunk size
    for &dict in &[4096u32, 8192] {
        for &fill in &[dict as usize, dict as usize - 1, dict as usize + 1, 100, 2 * dict as usize] {
            let stored = gen_data_len(rng, "text", fill);
            let avail = fill.min(dict as usize) as u32; // bytes the window holds
            for delta in [-1i64, 0, 1, 17] {
                let d = (avail as i64 - 1 + delta).max(0) as u32; // zero-based distance
                let legal = delta < 0;
                for &len in &[2u32, 273] {
                    let syms = vec![(Sym::Match(d, len), legal), (Sym::Lit(0x41), legal)];
                    let claim = if legal { len as usize + 1 } else { len as usize };
                    let mut stream = lzma2_stored_then_lzma(&stored, &syms, claim, 3, 0, 2);
                    stream.extend_from_slice(&[9, 9]);
                    dist.bump(if legal { "hostile.dist_border.legal" } else { "hostile.dist_border.illegal" });
                    cmds.push(format!("lzma2 {} none {} {}", dict, hex(&stream), ints(&gen_sizes(rng))));
                }
            }
        }
        // rep0 before any match (distance 0 with an empty / tiny history), short rep on empty history
        for syms in [vec![(Sym::Rep(0, 1), false)], vec![(Sym::Rep(0, 5), false)], vec![(Sym::Lit(1), true), (Sym::Rep(0, 1), true), (Sym::Rep(3, 9), true)],
                     vec![(Sym::Lit(1), true), (Sym::Match(0, 273), true), (Sym::Match(1, 2), true)]] {
            let stream = lzma2_stored_then_lzma(&[], &syms, 300, 3, 0, 2);
            dist.bump("hostile.rep_on_empty");
            cmds.push(format!("lzma2 {} none {} {}", dict, hex(&stream), ints(&gen_sizes(rng))));
        }
    }
    // hand-made LZMA2 streams of stored chunks at the size-field borders (1, 2, 65535, 65536 bytes),
    // first chunk with and without dictionary reset, followed by trailing bytes
    for (k, sizes_list) in [vec![65536usize], vec![1, 65536, 2], vec![65535, 65536], vec![65536, 65536, 1]].iter().enumerate() {
        let mut stream = Vec::new();
        for (i, &sz) in sizes_list.iter().enumerate() {
            stream.push(if i == 0 && k != 2 { 1u8 } else if i == 0 { 2u8 } else { *rng.pick(&[1u8, 2]) });
            stream.push(((sz - 1) >> 8) as u8);
            stream.push((sz - 1) as u8);
            let d = gen_data_len(rng, "text", sz);
            stream.extend_from_slice(&d);
        }
        stream.push(0);
        stream.extend_from_slice(&[7, 7]);
        dist.bump("lzma2.handmade_stored");
        cmds.push(format!("lzma2 {} none {} {}", *rng.pick(&[65536u32, 4096, 1 << 20]), hex(&stream), ints(&gen_sizes(rng))));
    }
    cmds
}

pub const AREA: Area = Area { name: "lzmadec", gen, exec };
