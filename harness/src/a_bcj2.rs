//! Area "bcj2": BCJ2Reader (four input streams) vs. Filter/Bcj2.v, fed by an independent reference
//! BCJ2 encoder written here (the crate has no BCJ2 encoder, liblzma has no BCJ2): a transcription of
//! the semantics of 7-Zip's C/Bcj2Enc.c (finish mode END_STREAM) with the conversion decisions taken
//! from the command line instead of 7-Zip's file-size / relative-limit heuristics.
//!   bcj2_enc <data> <decisions>
//!        the four streams of the reference encoder; the model side is the Gallina specification
//!        encoder (Filter/Bcj2Enc.v): both must print the same bytes.  Oracle: BCJ2Reader gives the
//!        data back.
//!   bcj2_dec <size> <main> <call> <jump> <rc> <sizes> <class> [<data> <decisions>]
//!        BCJ2Reader::new(four scripted inner readers, size) read by a loop with the destination sizes
//!        <sizes> (cycled) that retries on Interrupted.  A script is a comma separated list of hex
//!        chunks and `!<code>` (one failing call; !8 = Interrupted).  <class> = valid: the scripts
//!        carry exactly the reference encoding of <data> under <decisions> (re-checked) and the oracle
//!        demands the data; malformed: the oracle demands no panic (the watchdog: no hang).
//!   bcj2_dec_old ...   the same run; the name tells the model driver to use the reader as it was before
//!        repo-patches/16 (errors of an inner reader).  The generator probes the crate once (a one-byte
//!        stream whose MAIN reader fails transiently after the byte) and uses this name for the cases
//!        with failing inner calls when the crate under test does not have the repair; their oracle
//!        failures are the known finding bcj2-reader-inner-error.  Fault-free cases never use it.
//! decisions: a string of 0/1, one per candidate in stream order (missing = 0), "." = none.
use crate::areas::a_bcj::{drive, fmt_dec, parse_script, Ev, ScriptReader};
use crate::util::*;
use lzma_rust2::filter::bcj2::BCJ2Reader;

// ------------------------------------------------------------------------------------------------
// reference encoder
// ------------------------------------------------------------------------------------------------

const K_TOP: u32 = 1 << 24;
const K_NUM_MODEL_BITS: u32 = 11;
const K_BIT_MODEL_TOTAL: u32 = 1 << K_NUM_MODEL_BITS;
const K_NUM_MOVE_BITS: u32 = 5;

/// CBcj2Enc: range encoder registers + probabilities + the four output streams
struct Bcj2Enc {
    low: u64,
    range: u32,
    cache: u8,
    cache_size: u64,
    probs: [u16; 2 + 256],
    ip: u32,
    prev_byte: u8,
    streams: [Vec<u8>; 4],
}

impl Bcj2Enc {
    fn new() -> Self {
        Bcj2Enc {
            low: 0,
            range: 0xFFFF_FFFF,
            cache: 0,
            cache_size: 1,
            probs: [(K_BIT_MODEL_TOTAL >> 1) as u16; 2 + 256],
            ip: 0,
            prev_byte: 0,
            streams: [Vec::new(), Vec::new(), Vec::new(), Vec::new()],
        }
    }

    /// RangeEnc_ShiftLow
    fn shift_low(&mut self) {
        if (self.low as u32) < 0xFF00_0000 || (self.low >> 32) as u32 != 0 {
            let carry = (self.low >> 32) as u8;
            let mut c = self.cache;
            loop {
                self.streams[3].push(c.wrapping_add(carry));
                c = 0xFF;
                self.cache_size -= 1;
                if self.cache_size == 0 {
                    break;
                }
            }
            self.cache = ((self.low as u32) >> 24) as u8;
        }
        self.cache_size += 1;
        self.low = ((self.low as u32) << 8) as u64;
    }

    /// Bcj2Enc_Encode_2 over the whole input, then the flush
    fn encode(&mut self, src: &[u8], decisions: &[bool]) {
        let mut pos = 0usize; // p->src
        let mut next_decision = 0usize;
        loop {
            if self.range < K_TOP {
                self.shift_low();
                self.range <<= 8;
            }
            if pos == src.len() {
                break;
            }
            // copy bytes to MAIN up to and including the next candidate
            let start = pos;
            let mut found = false;
            if self.prev_byte == 0x0F && (src[pos] & 0xF0) == 0x80 {
                found = true;
            } else {
                loop {
                    let b = src[pos];
                    if b != 0x0F {
                        if (b & 0xFE) == 0xE8 {
                            found = true;
                            break;
                        }
                        self.streams[0].push(b);
                        pos += 1;
                        if pos != src.len() {
                            continue;
                        }
                        break;
                    }
                    self.streams[0].push(b);
                    pos += 1;
                    if pos == src.len() {
                        break;
                    }
                    if (src[pos] & 0xF0) != 0x80 {
                        continue;
                    }
                    found = true;
                    break;
                }
            }
            let num = pos - start;
            if !found {
                self.prev_byte = src[pos - 1];
                self.ip = self.ip.wrapping_add(num as u32);
                continue;
            }
            let context = if num == 0 { self.prev_byte } else { src[pos - 1] };
            let b = src[pos];
            self.streams[0].push(b);
            self.ip = self.ip.wrapping_add(num as u32 + 1);
            pos += 1;
            let wanted = decisions.get(next_decision).copied().unwrap_or(false);
            next_decision += 1;
            let need_convert = wanted && src.len() - pos >= 4;
            let idx = if b == 0xE8 { 2 + context as usize } else if b == 0xE9 { 1 } else { 0 };
            let ttt = self.probs[idx] as u32;
            let bound = (self.range >> K_NUM_MODEL_BITS) * ttt;
            if !need_convert {
                self.range = bound;
                self.probs[idx] = (ttt + ((K_BIT_MODEL_TOTAL - ttt) >> K_NUM_MOVE_BITS)) as u16;
                self.prev_byte = b;
                continue;
            }
            self.low += bound as u64;
            self.range -= bound;
            self.probs[idx] = (ttt - (ttt >> K_NUM_MOVE_BITS)) as u16;
            let relat = u32::from_le_bytes([src[pos], src[pos + 1], src[pos + 2], src[pos + 3]]);
            self.ip = self.ip.wrapping_add(4);
            let abs = self.ip.wrapping_add(relat);
            self.prev_byte = src[pos + 3];
            pos += 4;
            let cj = if b == 0xE8 { 1 } else { 2 };
            self.streams[cj].extend_from_slice(&abs.to_be_bytes());
        }
        for _ in 0..5 {
            self.shift_low();
        }
    }
}

pub fn ref_encode(data: &[u8], decisions: &[bool]) -> [Vec<u8>; 4] {
    let mut e = Bcj2Enc::new();
    e.encode(data, decisions);
    e.streams
}

/// number of candidates of the data under the decisions (= decisions consumed)
fn count_candidates(data: &[u8], decisions: &[bool]) -> usize {
    let mut prev = 0u8;
    let mut i = 0;
    let mut n = 0;
    while i < data.len() {
        let b = data[i];
        let cand = (b & 0xFE) == 0xE8 || (prev == 0x0F && (b & 0xF0) == 0x80);
        if cand {
            let d = decisions.get(n).copied().unwrap_or(false);
            n += 1;
            if d && data.len() - i - 1 >= 4 {
                prev = data[i + 4];
                i += 5;
                continue;
            }
        }
        prev = b;
        i += 1;
    }
    n
}

fn parse_decisions(s: &str) -> Vec<bool> {
    if s == "." {
        return Vec::new();
    }
    s.bytes().map(|c| c == b'1').collect()
}

fn fmt_decisions(d: &[bool]) -> String {
    if d.is_empty() {
        return ".".into();
    }
    d.iter().map(|&b| if b { '1' } else { '0' }).collect()
}

// ------------------------------------------------------------------------------------------------
// running the implementation
// ------------------------------------------------------------------------------------------------

fn impl_decode(size: u64, scripts: &[Vec<Ev>; 4], sizes: &[usize]) -> Outcome<(Vec<u8>, Option<u32>)> {
    guarded(|| {
        let inputs: Vec<ScriptReader> = scripts.iter().map(|s| ScriptReader { evs: s.iter().cloned().collect() }).collect();
        let mut r = BCJ2Reader::new(inputs, size);
        Ok(drive(&mut r, sizes, 1 << 26))
    })
}

/// Does the crate under test have repo-patches/16 (bytes decoded before a transient failure of an
/// inner reader are kept)?
fn impl_keeps_bytes_on_inner_error() -> bool {
    let scripts = [vec![Ev::Data(vec![0x5A]), Ev::Fail(8)], vec![], vec![], vec![Ev::Data(vec![0, 0, 0, 0, 0])]];
    matches!(impl_decode(1, &scripts, &[16]), Outcome::Ok((d, None)) if d == [0x5A])
}

fn one_chunk(streams: &[Vec<u8>; 4]) -> [Vec<Ev>; 4] {
    let f = |s: &Vec<u8>| if s.is_empty() { Vec::new() } else { vec![Ev::Data(s.clone())] };
    [f(&streams[0]), f(&streams[1]), f(&streams[2]), f(&streams[3])]
}

fn script_bytes(evs: &[Ev]) -> Vec<u8> {
    evs.iter().flat_map(|e| match e { Ev::Data(p) => p.clone(), _ => vec![] }).collect()
}

// ------------------------------------------------------------------------------------------------
// generators
// ------------------------------------------------------------------------------------------------

/// x86-like data dense in E8 / E9 / 0F 8x with operands whose targets sit near 0 and 2^32
fn dense_x86(rng: &mut Rng, len: usize) -> Vec<u8> {
    let mut v = Vec::with_capacity(len + 8);
    while v.len() < len {
        match rng.below(10) {
            0..=3 => {
                v.push(if rng.chance(1, 2) { 0xE8 } else { 0xE9 });
            }
            4 | 5 => {
                v.push(0x0F);
                v.push(0x80 | (rng.next() as u8 & 0x0F));
            }
            6 => {
                // runs of opcodes: operands that are candidates themselves
                for _ in 0..1 + rng.below(6) {
                    v.push(*rng.pick(&[0xE8u8, 0xE9, 0x0F, 0x80, 0x8F]));
                }
                continue;
            }
            _ => {
                for _ in 0..rng.below(4) {
                    v.push(rng.next() as u8);
                }
                continue;
            }
        }
        // operand: relative displacement such that ip + rel is near 0 / 2^32 / anything
        let here = v.len() as u32 + 4;
        let rel: u32 = match rng.below(6) {
            0 => 0u32.wrapping_sub(here).wrapping_add(rng.below(9) as u32).wrapping_sub(4),
            1 => 0xFFFF_FFFFu32.wrapping_sub(here).wrapping_sub(rng.below(4) as u32),
            2 => rng.below(256) as u32,
            3 => 0xFFFF_FF00 | rng.below(256) as u32,
            4 => u32::from_le_bytes([0xE8, 0x0F, 0x85, 0xE9]),
            _ => rng.next() as u32,
        };
        // now and then a truncated operand (an opcode inside the operand of another)
        let n = if rng.chance(1, 8) { rng.below(4) as usize } else { 4 };
        v.extend_from_slice(&rel.to_le_bytes()[..n]);
    }
    v.truncate(len);
    v
}

fn exe_slice(rng: &mut Rng, len: usize) -> Option<Vec<u8>> {
    let bytes = std::fs::read("/repo/tests/data/wget-x86").ok()?;
    if bytes.len() < len + 64 {
        return None;
    }
    let off = rng.below((bytes.len() - len) as u64) as usize;
    Some(bytes[off..off + len].to_vec())
}

pub const B2_DATA: &[&str] = &["tiny", "random", "dense", "exe", "runs", "big"];

fn gen_b2_data(rng: &mut Rng, class: &str, tier: &str) -> Vec<u8> {
    // the extracted model recurses per item / per byte: quick <= ~4 KB, thorough <= ~60 KB
    let (mid, big): (u64, u64) = if tier == "thorough" { (6000, 60000) } else { (1500, 4000) };
    match class {
        "tiny" => {
            let n = rng.below(12) as usize;
            if rng.chance(2, 3) { dense_x86(rng, n) } else { gen_data_len(rng, "random", n) }
        }
        "random" => { let n = rng.below(mid) as usize; gen_data_len(rng, "random", n) }
        "dense" => { let n = rng.below(mid) as usize; dense_x86(rng, n) }
        "exe" => { let n = 64 + rng.below(mid) as usize; exe_slice(rng, n).unwrap_or_else(|| dense_x86(rng, n)) }
        "runs" => {
            let n = rng.below(mid) as usize;
            (0..n).map(|_| match rng.below(8) { 0 => 0xE8, 1 => 0xE9, 2 => 0x0F, 3 => 0x80 | (rng.next() as u8 & 15), 4 => 0xFF, 5 => rng.next() as u8, _ => 0x00 }).collect()
        }
        "big" => {
            let n = (big / 2 + rng.below(big / 2)) as usize;
            if rng.chance(1, 2) { exe_slice(rng, n).unwrap_or_else(|| dense_x86(rng, n)) } else { dense_x86(rng, n) }
        }
        _ => panic!("unknown bcj2 data class"),
    }
}

pub const B2_DECISIONS: &[&str] = &["all", "none", "alternating", "random", "mostly", "short"];

fn gen_decisions(rng: &mut Rng, class: &str, data: &[u8]) -> Vec<bool> {
    // an upper bound of the number of candidates
    let n = data.iter().filter(|&&b| (b & 0xFE) == 0xE8 || (b & 0xF0) == 0x80).count();
    match class {
        "all" => vec![true; n],
        "none" => Vec::new(),
        "alternating" => (0..n).map(|i| i % 2 == 0).collect(),
        "random" => (0..n).map(|_| rng.chance(1, 2)).collect(),
        "mostly" => (0..n).map(|_| rng.chance(9, 10)).collect(),
        // a list that ends early: the rest is not converted
        "short" => (0..n / 2).map(|_| rng.chance(2, 3)).collect(),
        _ => panic!("unknown decision class"),
    }
}

/// chunk lengths for one inner stream; odd piece sizes matter for CALL/JUMP (words of 4 bytes)
fn gen_chunks(rng: &mut Rng, class: &str, len: usize) -> Vec<usize> {
    let mut out = Vec::new();
    let mut left = len;
    match class {
        "one" => out.push(len),
        "odd" => {
            while left > 0 {
                let n = (*rng.pick(&[1usize, 2, 3, 5, 6, 7])).min(left);
                out.push(n);
                left -= n;
            }
        }
        "bytes" => {
            while left > 0 {
                let n = if left > 600 { (*rng.pick(&[1usize, 2, 3, 61, 127])).min(left) } else { 1 };
                out.push(n);
                left -= n;
            }
        }
        "words" => {
            while left > 0 {
                let n = (4 * (1 + rng.below(8) as usize)).min(left);
                out.push(n);
                left -= n;
            }
        }
        c => return gen_partition(rng, c, len),
    }
    out
}

fn gen_script(rng: &mut Rng, stream: &[u8], chunk_class: &str, fault: &str) -> String {
    let lens = gen_chunks(rng, chunk_class, stream.len());
    let parts = split_by(stream, &lens);
    let mut toks: Vec<String> = Vec::new();
    let parts: Vec<&Vec<u8>> = parts.iter().filter(|p| !p.is_empty()).collect();
    let hard_at = if fault == "hard" { rng.below(parts.len() as u64 + 1) as usize } else { usize::MAX };
    for (k, p) in parts.iter().enumerate() {
        if k == hard_at {
            toks.push(format!("!{}", *rng.pick(&[6u32, 1, 3])));
        }
        if fault != "none" && rng.chance(1, 3) {
            for _ in 0..1 + rng.below(2) {
                toks.push("!8".into());
            }
        }
        toks.push(hex(p));
    }
    if hard_at == parts.len() {
        toks.push(format!("!{}", *rng.pick(&[6u32, 1, 3])));
    }
    if fault != "none" && rng.chance(1, 2) {
        toks.push("!8".into());
    }
    if toks.is_empty() { ".".to_string() } else { toks.join(",") }
}

fn gen_sizes(rng: &mut Rng, total: usize) -> Vec<usize> {
    let s = match rng.below(9) {
        0 | 1 => vec![],
        2 => vec![1],
        3 => vec![0, 7, 1, 0, 64],
        4 => vec![3, 0, 5, 2],
        5 => vec![100000],
        6 => vec![4, 1, 2, 3],
        7 => vec![1 + rng.below(300) as usize],
        _ => vec![1 + rng.below(5000) as usize, 1 + rng.below(17) as usize],
    };
    // destination sizes of a few bytes on long outputs cost the model one call per byte
    if total > 6000 && s.iter().all(|&x| x < 8) { vec![1, 2, 3, 509, 0, 4] } else { s }
}

pub const B2_MALFORMED: &[&str] = &[
    "truncate", "flip", "size_small", "size_big", "size_zero", "swap_cj", "garbage", "rc_first_byte", "rc_ffff", "trailing", "drop_stream", "odd_cj",
];

fn corrupt(rng: &mut Rng, kind: &str, streams: &mut [Vec<u8>; 4], size: &mut u64) {
    match kind {
        "truncate" => {
            let s = rng.below(4) as usize;
            let n = streams[s].len();
            if n > 0 {
                let keep = rng.below(n as u64) as usize;
                streams[s].truncate(keep);
            }
        }
        "flip" => {
            for _ in 0..1 + rng.below(3) {
                let s = *rng.pick(&[0usize, 0, 1, 2, 3, 3]);
                let n = streams[s].len();
                if n > 0 {
                    let i = rng.below(n as u64) as usize;
                    streams[s][i] ^= 1 << rng.below(8);
                }
            }
        }
        "size_small" => *size = rng.below(*size + 1),
        "size_big" => *size += 1 + rng.below(10),
        "size_zero" => *size = 0,
        "swap_cj" => streams.swap(1, 2),
        "garbage" => {
            for s in streams.iter_mut() {
                let n = rng.below(40) as usize;
                *s = (0..n).map(|_| rng.next() as u8).collect();
            }
            if rng.chance(2, 3) && !streams[3].is_empty() {
                streams[3][0] = 0;
            }
            *size = rng.below(200);
        }
        "rc_first_byte" => {
            if !streams[3].is_empty() {
                streams[3][0] = 1 + rng.below(255) as u8;
            }
        }
        "rc_ffff" => streams[3] = vec![0, 0xFF, 0xFF, 0xFF, 0xFF, 0, 0],
        "trailing" => {
            let s = rng.below(4) as usize;
            for _ in 0..1 + rng.below(9) {
                streams[s].push(rng.next() as u8);
            }
        }
        "drop_stream" => streams[rng.below(4) as usize].clear(),
        "odd_cj" => {
            // a CALL/JUMP stream whose length is not a multiple of four
            let s = 1 + rng.below(2) as usize;
            match rng.below(2) {
                0 => { let n = streams[s].len(); streams[s].truncate(n.saturating_sub(1 + rng.below(3) as usize)); }
                _ => for _ in 0..1 + rng.below(3) { streams[s].push(rng.next() as u8); },
            }
        }
        _ => panic!("unknown malformed class"),
    }
}

pub fn gen(rng: &mut Rng, tier: &str, dist: &mut Dist) -> Vec<String> {
    let n = if tier == "thorough" { 4000 } else { 420 };
    let mut cmds = Vec::new();
    let exe_ok = std::fs::read("/repo/tests/data/wget-x86").map(|b| b.len() > 100000).unwrap_or(false);
    dist.bump(if exe_ok { "fixture.wget-x86.present" } else { "fixture.wget-x86.MISSING" });
    let repaired = impl_keeps_bytes_on_inner_error();
    dist.bump(if repaired { "crate.reader-error-repair.present" } else { "crate.reader-error-repair.ABSENT" });
    let dec_name = |scripts: &[String]| if repaired || !scripts.iter().any(|s| s.contains('!')) { "bcj2_dec" } else { "bcj2_dec_old" };
    // the witnesses of Filter/Bcj2DefectsProofs.v (C11_bcj2_reader_interrupted_refuted, _partial_word_refuted) first
    for (size, m, c, r, sizes, data, ds) in [
        (5, "3488a08eab,!8", ".", "0000000000", "4188,1", "3488a08eab", "."),
        (6, "e807", "0403,!8,0206", "007ffffc00", ".", "e80102030407", "1"),
        (5, "3488a08eab,!6", ".", "0000000000", "4188", "3488a08eab", "."),
    ] {
        let scripts = [m.to_string(), c.to_string(), ".".to_string(), r.to_string()];
        cmds.push(format!("{} {} {} {} . {} {} valid {} {}", dec_name(&scripts), size, m, c, r, sizes, data, ds));
    }
    for i in 0..n {
        let dclass = if i < B2_DATA.len() { B2_DATA[i] } else {
            *rng.pick(&["tiny", "tiny", "random", "dense", "dense", "dense", "exe", "exe", "runs", "big"])
        };
        let dclass = if dclass == "big" && i >= B2_DATA.len() && !rng.chance(1, 3) { "dense" } else { dclass };
        let data = gen_b2_data(rng, dclass, tier);
        let kclass = if i < 2 * B2_DECISIONS.len() { B2_DECISIONS[i % B2_DECISIONS.len()] } else { *rng.pick(B2_DECISIONS) };
        let decisions = gen_decisions(rng, kclass, &data);
        let ncand = count_candidates(&data, &decisions);
        let decisions: Vec<bool> = decisions.into_iter().take(ncand).collect();
        dist.bump(&format!("data.{dclass}"));
        dist.bump(&format!("decisions.{kclass}"));
        dist.bump(&format!("len.{}", crate::areas::a_delta::len_class(data.len())));
        dist.add("candidates", ncand as u64);
        dist.add("converted", decisions.iter().filter(|&&d| d).count() as u64);

        // --- the two encoders
        if i % 3 == 0 || data.len() < 64 {
            cmds.push(format!("bcj2_enc {} {}", hex(&data), fmt_decisions(&decisions)));
        }

        // --- the reader
        let mut streams = ref_encode(&data, &decisions);
        let mut size = data.len() as u64;
        let malformed = rng.chance(1, 4);
        let mut mkind = "";
        if malformed {
            mkind = *rng.pick(B2_MALFORMED);
            corrupt(rng, mkind, &mut streams, &mut size);
            dist.bump(&format!("malformed.{mkind}"));
        }
        let fault = match rng.below(10) {
            0 | 1 | 2 => "soft",
            3 => "hard",
            _ => "none",
        };
        dist.bump(&format!("innerfaults.{fault}"));
        let mut scripts = Vec::new();
        for (s, st) in streams.iter().enumerate() {
            let classes: &[&str] = if s == 1 || s == 2 {
                &["one", "odd", "odd", "odd", "bytes", "words", "small", "random"]
            } else {
                &["one", "one", "odd", "bytes", "small", "pow2", "random"]
            };
            let c = *rng.pick(classes);
            dist.bump(&format!("chunks.{}.{c}", ["main", "call", "jump", "rc"][s]));
            // a fault in one or two of the four streams
            let f = if fault != "none" && rng.chance(1, 2) { fault } else { "none" };
            let f = if fault == "hard" && s == 3 && !scripts.iter().any(|x: &String| x.contains("!6") || x.contains("!1") || x.contains("!3")) { "hard" } else { f };
            scripts.push(gen_script(rng, st, c, f));
        }
        let sizes = gen_sizes(rng, data.len());
        dist.bump(&format!("readsizes.{}", if sizes.is_empty() { "4096" } else if sizes.contains(&0) { "with_zero" } else if sizes.iter().all(|&s| s < 8) { "tiny" } else { "mixed" }));
        let name = dec_name(&scripts);
        if malformed {
            cmds.push(format!("{} {} {} {} {} {} {} malformed {}", name, size, scripts[0], scripts[1], scripts[2], scripts[3], ints(&sizes), mkind));
        } else {
            dist.bump("valid");
            cmds.push(format!("{} {} {} {} {} {} {} valid {} {}", name, size, scripts[0], scripts[1], scripts[2], scripts[3], ints(&sizes), hex(&data), fmt_decisions(&decisions)));
        }
    }
    cmds
}

// ------------------------------------------------------------------------------------------------
// executors + oracles
// ------------------------------------------------------------------------------------------------

pub fn exec(a: &[&str]) -> (String, String) {
    match a[0] {
        "bcj2_enc" => {
            let data = unhex(a[1]);
            let decisions = parse_decisions(a[2]);
            let streams = ref_encode(&data, &decisions);
            let obs = format!("OK {},{},{},{}", hex(&streams[0]), hex(&streams[1]), hex(&streams[2]), hex(&streams[3]));
            // oracle: the implementation reconstructs the data from the reference encoder's streams
            let oracle = match impl_decode(data.len() as u64, &one_chunk(&streams), &[1 << 20]) {
                Outcome::Ok((d, None)) if d == data => "ok".to_string(),
                Outcome::Ok((d, e)) => format!("FAIL BCJ2Reader returned {} bytes (error {:?}) for a reference encoding of {} bytes", d.len(), e, data.len()),
                Outcome::Err(c) => format!("FAIL BCJ2Reader error {c}"),
                Outcome::Panic(m) => format!("FAIL BCJ2Reader panicked: {m}"),
            };
            (obs, oracle)
        }
        "bcj2_dec" | "bcj2_dec_old" => {
            let size: u64 = a[1].parse().unwrap();
            let scripts = [parse_script(a[2]), parse_script(a[3]), parse_script(a[4]), parse_script(a[5])];
            let sizes: Vec<usize> = if a[6] == "." { vec![] } else { a[6].split(',').map(|x| x.parse().unwrap()).collect() };
            let class = a[7];
            let dec = impl_decode(size, &scripts, &sizes);
            let obs = fmt_dec(&dec);
            let all_zero = !sizes.is_empty() && sizes.iter().all(|&s| s == 0);
            let hard: Vec<u32> = scripts.iter().flat_map(|s| s.iter().filter_map(|e| match e { Ev::Fail(c) if *c != 8 => Some(*c), _ => None })).collect();
            let oracle = if let Outcome::Panic(m) = &dec {
                format!("FAIL reader panicked: {m}")
            } else if class == "valid" {
                let data = unhex(a[8]);
                let decisions = parse_decisions(a[9]);
                let streams = ref_encode(&data, &decisions);
                let carried: Vec<Vec<u8>> = scripts.iter().map(|s| script_bytes(s)).collect();
                if (0..4).any(|k| carried[k] != streams[k]) || size != data.len() as u64 {
                    "FAIL case is not a reference encoding of its data (generator)".to_string()
                } else {
                    // independence of chunking / read sizes: the one-shot run (one chunk per stream,
                    // one big destination) of the implementation must give the data too
                    let one = impl_decode(size, &one_chunk(&streams), &[1 << 20]);
                    match (&dec, &one) {
                        (_, o) if !matches!(o, Outcome::Ok((d, None)) if *d == data) => "FAIL one-shot decode of the reference encoding does not return the data".to_string(),
                        (Outcome::Ok((x, None)), _) if all_zero && x.is_empty() => "ok".to_string(),
                        (Outcome::Ok((x, None)), _) if *x == data && hard.is_empty() => "ok".to_string(),
                        (Outcome::Ok((x, None)), _) if *x == data => "ok".to_string(), // a hard failure that was never reached (stream not needed any more)
                        (Outcome::Ok((x, Some(c))), _) if hard.contains(c) && data.starts_with(x) => "ok".to_string(),
                        (Outcome::Ok((_, Some(c))), _) if !hard.contains(c) => format!("FAIL reader returned error {c} for a correctly encoded input"),
                        (Outcome::Ok((x, _)), _) => format!("FAIL output ({} bytes) is not the data ({} bytes) / a prefix of it: depends on chunking, read sizes or transient errors", x.len(), data.len()),
                        _ => "FAIL unexpected outcome".to_string(),
                    }
                }
            } else {
                // malformed input: no panic (checked above), no hang (watchdog of the harness)
                "ok".to_string()
            };
            (obs, oracle)
        }
        _ => ("NOCMD".into(), "FAIL unknown command".into()),
    }
}

pub const AREA: Area = Area { name: "bcj2", gen, exec };
