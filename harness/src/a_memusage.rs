//! Area "memusage" (C17): the memory-usage estimators and the real heap allocation.
//!
//! Every command carries the profile bit <ck> (1 = the binary was built with overflow checks, the
//! harness' "checked" profile; 0 = release) as its first argument: the model needs it to say
//! Panic vs. wrapped value, and a line replayed on the wrong binary is reported as such.
//! Pure estimator commands (observation = the returned number / error code, or PANIC):
//!   mu_enc   <ck> <dict> <lc> <lp> <mode 0=fast|1=normal> <mf 0=hc4|1=bt4>   LZMAOptions::get_memory_usage
//!   mu_dec   <ck> <dict> <lc> <lp>                                           lzma_get_memory_usage
//!   mu_decp  <ck> <dict> <props>                                             lzma_get_memory_usage_by_props
//!   mu_dec2  <ck> <dict>                                                     lzma2_get_memory_usage
//! Measured allocation (counting global allocator, per-thread counters; observation = "OK <peak> <estimate>":
//! the exact number of bytes requested from the allocator that are live at the peak, which the
//! model's alloc(params) must reproduce exactly, and the estimator's figure):
//!   al_enc   <ck> <kind 1=LZMAWriter|2=LZMA2Writer> <dict> <lc> <lp> <pb> <mode> <mf> <nice_len> <depth> <input_len>
//!   al_encr  <ck> <dict> <lc> <lp> <pb> <mode> <mf> <nice_len> <depth>       LZMA2Writer with chunk_size = dict, input
//!                                                                            crossing one chunk boundary (restart)
//!   al_dec   <ck> <dict> <lc> <lp> <pb> <uncomp_size|-> <input_len>          LZMAReader::new_mem_limit(u32::MAX) + read
//!   al_dec2  <ck> <dict> <lc+lp> <nprops> <lc> <lp> <input_len> <pieces>     LZMA2Reader::new + read (stream written in
//!                                                                            <pieces> flushed parts with chunk_size 4096)
//!   memlimit <ck> <dict> <props> <limit_kib> <uncomp_size|-> <rest hex>      LZMAReader::new_mem_limit(limit); observation
//!                                                                            "OK <bytes allocated>" / "ERR <code> <bytes allocated>"
//!                                                                            (the io::Error object itself, <= 256 bytes, counts as 0)
use crate::util::*;
use lzma_rust2::{
    lzma2_get_memory_usage, lzma_get_memory_usage, lzma_get_memory_usage_by_props, EncodeMode, LZMA2Options, LZMA2Reader,
    LZMA2Writer, LZMAOptions, LZMAReader, LZMAWriter, MFType,
};
use std::alloc::{GlobalAlloc, Layout, System};
use std::cell::Cell;
use std::io::{Read, Write};

// ---------------------------------------------------------------------------------------------
// Counting allocator: per-thread live bytes and peak (requested sizes, not allocator overhead).
// ---------------------------------------------------------------------------------------------
pub struct Counting;

thread_local! {
    static CUR: Cell<isize> = const { Cell::new(0) };
    static PEAK: Cell<isize> = const { Cell::new(0) };
    static NALLOC: Cell<usize> = const { Cell::new(0) };
}

/// A thread whose live allocation passes this figure is a runaway (no case of any area needs more
/// than the largest legal encoder: a BT4 encoder for a 768 MiB dictionary allocates about 9 GiB of
/// tables; decoders at most a 4 GiB dictionary): it is frozen inside the allocator, so that an endless
/// allocation loop in the implementation cannot exhaust the machine, and the watchdog of
/// util::run_cases reports the case as a failure.
pub const RUNAWAY_CAP: isize = 24 << 30;
static FROZEN: [std::sync::atomic::AtomicUsize; 64] = [const { std::sync::atomic::AtomicUsize::new(0) }; 64];

pub fn is_frozen(tid: usize) -> bool {
    tid != 0 && FROZEN.iter().any(|s| s.load(std::sync::atomic::Ordering::SeqCst) == tid)
}

#[cold]
fn freeze() -> ! {
    let tid = crate::util::current_tid();
    for s in FROZEN.iter() {
        if s.compare_exchange(0, tid, std::sync::atomic::Ordering::SeqCst, std::sync::atomic::Ordering::SeqCst).is_ok() {
            break;
        }
    }
    loop {
        std::thread::sleep(std::time::Duration::from_secs(3600));
    }
}

#[inline]
fn bump(delta: isize) {
    let _ = CUR.try_with(|c| {
        let v = c.get() + delta;
        c.set(v);
        if v > RUNAWAY_CAP {
            freeze();
        }
        if delta > 0 {
            let _ = NALLOC.try_with(|n| n.set(n.get() + 1));
            let _ = PEAK.try_with(|p| {
                if v > p.get() {
                    p.set(v)
                }
            });
        }
    });
}

unsafe impl GlobalAlloc for Counting {
    unsafe fn alloc(&self, l: Layout) -> *mut u8 {
        let p = System.alloc(l);
        if !p.is_null() {
            bump(l.size() as isize);
        }
        p
    }
    unsafe fn alloc_zeroed(&self, l: Layout) -> *mut u8 {
        let p = System.alloc_zeroed(l);
        if !p.is_null() {
            bump(l.size() as isize);
        }
        p
    }
    unsafe fn dealloc(&self, p: *mut u8, l: Layout) {
        System.dealloc(p, l);
        bump(-(l.size() as isize));
    }
    unsafe fn realloc(&self, p: *mut u8, l: Layout, new_size: usize) -> *mut u8 {
        let q = System.realloc(p, l, new_size);
        if !q.is_null() {
            bump(new_size as isize - l.size() as isize);
        }
        q
    }
}

#[global_allocator]
static GLOBAL: Counting = Counting;

/// Runs `f` and returns (result, peak of live requested bytes above the level at entry, number of
/// allocation calls).  Everything `f` allocates and still holds counts; the caller must create
/// sinks/sources beforehand so that they are not part of the figure.
pub fn measure<T>(f: impl FnOnce() -> T) -> (T, u64, usize) {
    let base = CUR.with(|c| c.get());
    PEAK.with(|p| p.set(base));
    let n0 = NALLOC.with(|n| n.get());
    let r = f();
    let peak = PEAK.with(|p| p.get());
    let n1 = NALLOC.with(|n| n.get());
    (r, (peak - base).max(0) as u64, n1 - n0)
}

// ---------------------------------------------------------------------------------------------
// helpers
// ---------------------------------------------------------------------------------------------
/// true when this binary was compiled with overflow checks (profile "checked"); the harness and
/// lzma-rust2 are compiled with the same profile.
pub fn checked_profile() -> bool {
    std::panic::catch_unwind(|| {
        let a: u8 = std::hint::black_box(255);
        let _ = std::hint::black_box(a + std::hint::black_box(1));
    })
    .is_err()
}

pub fn ck_bit() -> u32 {
    checked_profile() as u32
}

pub fn mk_opts(dict: u32, lc: u32, lp: u32, pb: u32, mode: u32, mf: u32, nice: u32, depth: i32) -> LZMAOptions {
    LZMAOptions::new(
        dict,
        lc,
        lp,
        pb,
        if mode == 0 { EncodeMode::Fast } else { EncodeMode::Normal },
        nice,
        if mf == 0 { MFType::HC4 } else { MFType::BT4 },
        depth,
    )
}

fn fmt_u32(o: &Outcome<u32>) -> String {
    match o {
        Outcome::Ok(v) => format!("OK {v}"),
        Outcome::Err(c) => format!("ERR {c}"),
        Outcome::Panic(_) => "PANIC".into(),
    }
}

fn p<T: std::str::FromStr>(s: &str) -> T
where
    T::Err: std::fmt::Debug,
{
    s.parse().unwrap()
}

/// deterministic compressible-but-not-trivial data (text-like with far copies)
pub fn sample_data(len: usize) -> Vec<u8> {
    let mut rng = Rng::new(len as u64 ^ 0x5eed);
    gen_data_len(&mut rng, "mixed", len)
}

/// documented unit of every estimator: KiB
const KIB: u64 = 1024;

// Tightness constants, the ones of Arith/MemUsage.v (ENC_TIGHT_C, DEC_TIGHT_C, DEC2_TIGHT_C):
//   1024 * estimate <= alloc + C
pub const ENC_TIGHT_C: u64 = 327680;
pub const DEC_TIGHT_C: u64 = 10240;
pub const DEC2_TIGHT_C: u64 = 40965;
/// documented encoder range of dict_size (Arith/MemUsage.v ENC_DICT_SIZE_MAX)
pub const ENC_DICT_SIZE_MAX: u32 = 768 << 20;
/// upper bound for the heap size of one std::io::Error with a static message (48 + message length)
pub const ERROR_OBJECT_MAX: u64 = 256;

fn verdict_sound_tight(peak: u64, est_kib: u64, c: u64) -> String {
    if peak > est_kib * KIB {
        format!("FAIL measured peak {peak} B exceeds the estimate {est_kib} KiB")
    } else if est_kib * KIB > peak + c {
        format!("FAIL estimate {est_kib} KiB is not within measured peak {peak} B + {c}")
    } else {
        "ok".into()
    }
}

/// LZMA2 stream of `data` written in `pieces` flushed parts with chunk_size = dict_size = 4096
/// (every part after a flush that crossed 4096 bytes starts with a dictionary + properties reset).
fn lzma2_stream(data: &[u8], lc: u32, lp: u32, pieces: usize) -> Vec<u8> {
    let mut o = LZMA2Options::with_preset(0);
    o.lzma_options.dict_size = 4096;
    o.lzma_options.lc = lc;
    o.lzma_options.lp = lp;
    o.chunk_size = std::num::NonZeroU64::new(4096);
    let mut w = LZMA2Writer::new(Vec::new(), o);
    let n = pieces.max(1);
    let step = data.len().div_ceil(n).max(1);
    for c in data.chunks(step) {
        w.write_all(c).unwrap();
        w.flush().unwrap();
    }
    w.finish().unwrap()
}

/// `lzma2_stream` of the first half of `data`, followed (when `second` is given) by a stream of the
/// second half written with other lc/lp; the first stream's end marker is dropped, so that the
/// result is ONE valid LZMA2 stream whose properties change at a dictionary reset.
fn lzma2_stream2(data: &[u8], lc: u32, lp: u32, pieces: usize, second: Option<(u32, u32)>) -> Vec<u8> {
    match second {
        None => lzma2_stream(data, lc, lp, pieces),
        Some((lc2, lp2)) => {
            let h = data.len() / 2;
            let mut s = lzma2_stream(&data[..h], lc, lp, pieces);
            assert_eq!(s.pop(), Some(0));
            s.extend_from_slice(&lzma2_stream(&data[h..], lc2, lp2, 1));
            s
        }
    }
}

/// number of chunks of an LZMA2 stream that carry new properties (control >= 0xC0)
fn count_props_chunks(s: &[u8]) -> usize {
    let (mut i, mut n) = (0usize, 0usize);
    while i < s.len() {
        let c = s[i];
        if c == 0 {
            break;
        } else if c < 0x80 {
            let sz = ((s[i + 1] as usize) << 8 | s[i + 2] as usize) + 1;
            i += 3 + sz;
        } else {
            let cs = ((s[i + 3] as usize) << 8 | s[i + 4] as usize) + 1;
            if c >= 0xC0 {
                n += 1;
                i += 6 + cs;
            } else {
                i += 5 + cs;
            }
        }
    }
    n
}

/// a raw LZMA stream body for `data` produced with tiny settings and the given lc/lp/pb
fn lzma1_body(data: &[u8], lc: u32, lp: u32, pb: u32) -> Vec<u8> {
    let o = mk_opts(4096, lc, lp, pb, 0, 0, 32, 4);
    let mut w = LZMAWriter::new_no_header(Vec::new(), &o, true).unwrap();
    w.write_all(data).unwrap();
    w.finish().unwrap()
}

// ---------------------------------------------------------------------------------------------
// generation
// ---------------------------------------------------------------------------------------------
pub fn gen(rng: &mut Rng, tier: &str, dist: &mut Dist) -> Vec<String> {
    let thorough = tier == "thorough";
    let ck = ck_bit();
    let mut cmds = Vec::new();
    // ---- pure estimators: boundary grid + random -------------------------------------------------
    let mut dicts: Vec<u32> = vec![0, 1, 2, 15, 16, 4095, 4096, 4097, 65535, 65536, 65537, 1 << 20, (1 << 20) + 1, 8 << 20, 1 << 24, (1 << 24) + 1,
        1 << 25, (1 << 25) + 1, 1 << 26, 1 << 27, 1 << 28, 1 << 29, (768 << 20) - 1, 768 << 20, (768 << 20) + 1, 1 << 30, (1 << 30) + 1, 0x5555_5555,
        0x7FFF_FFFF, 0x8000_0000, 0x8000_0001, 0xAAAA_AAAA, 0xBFFF_FFFF, 0xC000_0000, 0xFFFE_FFFF, 0xFFFF_0000, 0xFFFF_FFEF, 0xFFFF_FFF0,
        0xFFFF_FFF1, 0xFFFF_FFFE, 0xFFFF_FFFF];
    for k in 12..32u32 {
        for d in [-1i64, 0, 1] {
            dicts.push(((1i64 << k) + d) as u32);
            dicts.push(((3i64 << (k - 1)) + d) as u32);
        }
    }
    dicts.sort();
    dicts.dedup();
    for &d in &dicts {
        for mode in 0..2 {
            for mf in 0..2 {
                for (lc, lp) in [(3u32, 0u32), (0, 0), (4, 0), (0, 4), (8, 4), (8, 0), (9, 5), (u32::MAX, 1), (40, 40)] {
                    cmds.push(format!("mu_enc {ck} {d} {lc} {lp} {mode} {mf}"));
                    dist.bump("mu_enc.grid");
                }
            }
        }
        for (lc, lp) in [(0u32, 0u32), (3, 0), (8, 4), (8, 0), (0, 4), (9, 0), (0, 5), (8, 5), (u32::MAX, 0), (4, u32::MAX)] {
            cmds.push(format!("mu_dec {ck} {d} {lc} {lp}"));
            dist.bump("mu_dec.grid");
        }
        for props in [0u32, 93, 44, 45, 224, 225, 255, 8, 36] {
            cmds.push(format!("mu_decp {ck} {d} {props}"));
            dist.bump("mu_decp.grid");
        }
        cmds.push(format!("mu_dec2 {ck} {d}"));
        dist.bump("mu_dec2.grid");
    }
    let nrand = if thorough { 20000 } else { 2500 };
    for _ in 0..nrand {
        let d = match rng.below(4) {
            0 => rng.next() as u32,
            1 => (1u64 << rng.range(0, 31)) as u32 + rng.below(3) as u32,
            2 => rng.range(4096, 1 << 30) as u32,
            _ => (rng.next() as u32) >> rng.below(32),
        };
        match rng.below(4) {
            0 => {
                cmds.push(format!("mu_enc {ck} {d} {} {} {} {}", rng.below(9), rng.below(5), rng.below(2), rng.below(2)));
                dist.bump("mu_enc.random");
            }
            1 => {
                cmds.push(format!("mu_dec {ck} {d} {} {}", rng.below(10), rng.below(6)));
                dist.bump("mu_dec.random");
            }
            2 => {
                cmds.push(format!("mu_decp {ck} {d} {}", rng.below(256)));
                dist.bump("mu_decp.random");
            }
            _ => {
                cmds.push(format!("mu_dec2 {ck} {d}"));
                dist.bump("mu_dec2.random");
            }
        }
    }
    // ---- measured allocation ----------------------------------------------------------------------
    // dictionary sizes kept <= 32 MiB (quick) / 128 MiB (thorough): untouched zeroed pages are not
    // resident, so the cost is address space only.
    let maxk = if thorough { 27 } else { 25 };
    let mut adicts: Vec<u32> = vec![4096, 4097, 5000, 65535, 65536, 65537, 100_000, 1 << 20, (1 << 20) + 1, 3 << 20, 8 << 20, (1 << 24) + 1, 1 << 24];
    for k in 12..=maxk {
        adicts.push(1 << k);
    }
    if thorough {
        adicts.push((1 << 26) + 12345);
    }
    // just above 64 MiB the 4-byte hash table stops doubling with the dictionary (only address space: the
    // tables are zeroed pages that are never touched)
    adicts.push((1 << 26) + 1);
    adicts.sort();
    adicts.dedup();
    let lclp = [(3u32, 0u32), (0, 0), (4, 0), (0, 4), (2, 2), (8, 4), (8, 0), (5, 3)];
    let reps = if thorough { 3 } else { 1 };
    for &d in &adicts {
        for _ in 0..reps {
            for kind in 1..=2u32 {
                for mode in 0..2u32 {
                    for mf in 0..2u32 {
                        let (lc, lp) = if kind == 2 { lclp[rng.below(5) as usize] } else { lclp[rng.below(8) as usize] };
                        let pb = rng.below(5);
                        let rn = rng.range(8, 273) as u32;
                        let nice = *rng.pick(&[8u32, 16, 32, 64, 128, 273, rn]);
                        let depth = *rng.pick(&[0i32, 4, 48]);
                        let len = *rng.pick(&[0usize, 1, 100, 5000, 70000]);
                        cmds.push(format!("al_enc {ck} {kind} {d} {lc} {lp} {pb} {mode} {mf} {nice} {depth} {len}"));
                        dist.bump(&format!("al_enc.kind{kind}.mode{mode}.mf{mf}"));
                    }
                }
            }
            for (lc, lp) in [(3u32, 0u32), (8, 4), (0, 0)] {
                let pb = rng.below(5);
                let len = *rng.pick(&[0usize, 1, 100, 5000, 70000]);
                let us = if rng.chance(1, 2) { "-".to_string() } else { len.to_string() };
                cmds.push(format!("al_dec {ck} {d} {lc} {lp} {pb} {us} {len}"));
                dist.bump(if us == "-" { "al_dec.size_unknown" } else { "al_dec.size_declared" });
            }
        }
        // writers with a preset dictionary (shorter than, equal to and longer than the dictionary)
        if d <= 1 << 24 {
            for kind in 1..=2u32 {
                let mode = rng.below(2);
                let mf = rng.below(2);
                let (lc, lp) = lclp[rng.below(5) as usize];
                let plen = *rng.pick(&[1usize, 4096, d as usize / 2, d as usize, d as usize + 4097, (d as usize).min(1 << 20)]);
                let len = *rng.pick(&[0usize, 100, 5000]);
                cmds.push(format!("al_enc {ck} {kind} {d} {lc} {lp} {} {mode} {mf} {} 0 {len} {plen}", rng.below(5), *rng.pick(&[8u32, 64, 273])));
                dist.bump(&format!("al_enc.preset.kind{kind}"));
            }
        }
        if d <= 1 << 20 {
            let (lc, lp) = lclp[rng.below(5) as usize];
            cmds.push(format!("al_encr {ck} {d} {lc} {lp} {} {} {} {} 0", rng.below(5), rng.below(2), rng.below(2), *rng.pick(&[8u32, 64, 273])));
            dist.bump("al_encr");
        }
    }
    let mut d2 = adicts.clone();
    d2.extend_from_slice(&[0u32, 1, 15, 16, 17, 4095]);
    for &d in &d2 {
        for (lc, lp) in [(3u32, 0u32), (4, 0), (0, 4), (0, 0)] {
            let (len, pieces) = *rng.pick(&[(0usize, 1usize), (1, 1), (100, 1), (5000, 1), (20000, 4), (70000, 3), (30000, 6)]);
            let np = count_props_chunks(&lzma2_stream(&sample_data(len), lc, lp, pieces));
            cmds.push(format!("al_dec2 {ck} {d} {} {np} {lc} {lp} {len} {pieces}", lc + lp));
            dist.bump(&format!("al_dec2.nprops{}", np.min(2)));
        }
        // the properties CHANGE in mid-stream (two streams joined, the first without its end marker):
        // the tables of the previous decoder must be gone before the next ones are allocated
        for ((lc, lp), (lc2, lp2)) in [((4u32, 0u32), (3u32, 1u32)), ((3, 1), (4, 0)), ((0, 0), (4, 0)), ((4, 0), (0, 0)), ((2, 2), (0, 4)), ((3, 0), (3, 0))] {
            let (len, pieces) = *rng.pick(&[(2usize, 1usize), (100, 1), (5000, 1), (20000, 4), (30000, 6)]);
            let np = count_props_chunks(&lzma2_stream2(&sample_data(len), lc, lp, pieces, Some((lc2, lp2))));
            cmds.push(format!("al_dec2 {ck} {d} {} {np} {lc} {lp} {len} {pieces} {lc2} {lp2}", (lc + lp).max(lc2 + lp2)));
            dist.bump("al_dec2.props_change");
        }
    }
    // small dictionaries announced in headers (below the 4 KiB minimum)
    for d in [0u32, 1, 15, 16, 17, 4095] {
        cmds.push(format!("al_dec {ck} {d} 3 0 2 - 100"));
        dist.bump("al_dec.tiny_dict");
    }
    // ---- memory limit -----------------------------------------------------------------------------
    let nlim = if thorough { 6000 } else { 800 };
    for i in 0..nlim {
        let d = match rng.below(5) {
            0 => *rng.pick(&dicts),
            1 => (1u64 << rng.range(12, 31)) as u32,
            2 => rng.range(0, 1 << 26) as u32,
            _ => *rng.pick(&adicts),
        };
        let props = match rng.below(6) {
            0 => rng.below(256) as u32,
            1 => 224,
            2 => 225,
            _ => (rng.below(5) * 5 + rng.below(5)) as u32 * 9 + rng.below(9) as u32,
        };
        let need = lzma_get_memory_usage_by_props(d, props as u8).unwrap_or(0);
        let limit = match if i < 12 { i % 6 } else { rng.below(6) } {
            0 => need,
            1 => need.wrapping_sub(1),
            2 => need.saturating_add(1),
            3 => 0,
            4 => u32::MAX,
            _ => rng.next() as u32 >> rng.below(32),
        };
        let us = match rng.below(3) {
            0 => "-".to_string(),
            1 => rng.below(100_000).to_string(),
            _ => rng.next().to_string(),
        };
        let rest = *rng.pick(&["0000000000", "0000000000", "0000000000ffff", "-", "00", "00000000", "0100000000", "ff"]);
        // a successful construction of a multi-GiB window is only address space, but keep it rare
        cmds.push(format!("memlimit {ck} {d} {props} {limit} {us} {rest}"));
        dist.bump(if limit < need { "memlimit.below_need" } else { "memlimit.sufficient" });
    }
    cmds
}

// ---------------------------------------------------------------------------------------------
// execution
// ---------------------------------------------------------------------------------------------
fn no_panic_verdict(r: &Outcome<u32>, in_range: bool) -> String {
    // inside the documented range the pure estimators must not panic (u32 overflow)
    if in_range && matches!(r, Outcome::Panic(_)) {
        "FAIL estimator panics inside the documented option range".to_string()
    } else {
        "ok".to_string()
    }
}

pub fn exec(a: &[&str]) -> (String, String) {
    if a.len() < 2 {
        return ("BADARGS".into(), "FAIL bad command".into());
    }
    if a[0] != "probe" && a[0] != "probe2" && a[1] != ck_bit().to_string() {
        return ("PROFILE-MISMATCH".into(), "FAIL the command line was generated for the other build profile".into());
    }
    match a[0] {
        "mu_enc" => {
            let (d, lc, lp): (u32, u32, u32) = (p(a[2]), p(a[3]), p(a[4]));
            let o = mk_opts(d, lc, lp, 2, p(a[5]), p(a[6]), 64, 0);
            let r = guarded(|| Ok(o.get_memory_usage()));
            let v = no_panic_verdict(&r, (4096..=ENC_DICT_SIZE_MAX).contains(&d) && lc <= 8 && lp <= 4);
            (fmt_u32(&r), v)
        }
        "mu_dec" => {
            let (d, lc, lp): (u32, u32, u32) = (p(a[2]), p(a[3]), p(a[4]));
            let r = guarded(|| lzma_get_memory_usage(d, lc, lp));
            (fmt_u32(&r), no_panic_verdict(&r, true))
        }
        "mu_decp" => {
            let props: u32 = p(a[3]);
            let r = guarded(|| lzma_get_memory_usage_by_props(p(a[2]), props as u8));
            (fmt_u32(&r), no_panic_verdict(&r, true))
        }
        "mu_dec2" => {
            let r = guarded(|| Ok(lzma2_get_memory_usage(p(a[2]))));
            (fmt_u32(&r), no_panic_verdict(&r, true))
        }
        "al_enc" | "al_encr" => {
            let restart = a[0] == "al_encr";
            let b = if restart { 1 } else { 2 };
            let kind: u32 = if restart { 2 } else { p(a[2]) };
            let o = mk_opts(p(a[b + 1]), p(a[b + 2]), p(a[b + 3]), p(a[b + 4]), p(a[b + 5]), p(a[b + 6]), p(a[b + 7]), p(a[b + 8]));
            let mut o = o;
            let len: usize = if restart { o.dict_size as usize + 100 } else { p(a[b + 9]) };
            // optional preset dictionary (owned by the caller's options, allocated before the measurement:
            // the estimate is for what the writer allocates on top of its arguments)
            let plen: usize = if !restart && a.len() > b + 10 { p(a[b + 10]) } else { 0 };
            if plen > 0 {
                o.preset_dict = Some(sample_data(plen));
            }
            let data = sample_data(len);
            let est = guarded(|| Ok(o.get_memory_usage()));
            let sink: Vec<u8> = Vec::with_capacity(len + len / 2 + 4096);
            let o2 = LZMA2Options { lzma_options: o.clone(), chunk_size: None };
            let (r, peak, _n) = measure(|| {
                guarded(|| {
                    if restart {
                        let chunk = std::num::NonZeroU64::new(o.dict_size as u64);
                        let mut w = LZMA2Writer::new(sink, LZMA2Options { lzma_options: o.clone(), chunk_size: chunk });
                        w.write_all(&data[..o.dict_size as usize])?;
                        w.flush()?;
                        w.write_all(&data[o.dict_size as usize..])?;
                        w.finish()
                    } else if kind == 1 {
                        let mut w = LZMAWriter::new_no_header(sink, &o, true)?;
                        w.write_all(&data)?;
                        w.finish()
                    } else {
                        let mut w = LZMA2Writer::new(sink, o2);
                        w.write_all(&data)?;
                        w.finish()
                    }
                })
            });
            match (&r, &est) {
                (Outcome::Ok(_), Outcome::Ok(e)) => (format!("OK {peak} {e}"), verdict_sound_tight(peak, *e as u64, ENC_TIGHT_C)),
                (Outcome::Ok(_), _) => (format!("OK {peak} {}", fmt_u32(&est)), "FAIL estimator failed".into()),
                (Outcome::Err(c), _) => (format!("ERR {c}"), "FAIL writer error on valid options".into()),
                (Outcome::Panic(m), _) => ("PANIC".into(), format!("FAIL writer panic {m}")),
            }
        }
        "al_dec" => {
            let (dict, lc, lp, pb): (u32, u32, u32, u32) = (p(a[2]), p(a[3]), p(a[4]), p(a[5]));
            let us: Option<u64> = if a[6] == "-" { None } else { Some(p(a[6])) };
            let len: usize = p(a[7]);
            let data = sample_data(len);
            let mut stream = vec![((pb * 5 + lp) * 9 + lc) as u8];
            stream.extend_from_slice(&dict.to_le_bytes());
            stream.extend_from_slice(&us.unwrap_or(u64::MAX).to_le_bytes());
            stream.extend_from_slice(&lzma1_body(&data, lc, lp, pb));
            let est = guarded(|| lzma_get_memory_usage(dict, lc, lp));
            let mut out = vec![0u8; len + 16];
            let (r, peak, _n) = measure(|| {
                guarded(|| {
                    let mut r = LZMAReader::new_mem_limit(&stream[..], u32::MAX, None)?;
                    let mut n = 0;
                    loop {
                        let k = r.read(&mut out[n..])?;
                        if k == 0 {
                            break;
                        }
                        n += k;
                    }
                    Ok(n)
                })
            });
            match (&r, &est) {
                (Outcome::Ok(n), Outcome::Ok(e)) => {
                    let mut v = if peak > *e as u64 * KIB { format!("FAIL measured peak {peak} B exceeds the estimate {e} KiB") } else { "ok".to_string() };
                    // tightness is claimed when the declared size does not shrink the window
                    let shrunk = us.map(|u| u < dict.max(4096) as u64 + 15).unwrap_or(false);
                    if v == "ok" && !shrunk {
                        v = verdict_sound_tight(peak, *e as u64, DEC_TIGHT_C);
                    }
                    if v == "ok" && (*n != len || out[..*n] != data[..]) {
                        v = "FAIL reader returned wrong data".into();
                    }
                    (format!("OK {peak} {e}"), v)
                }
                (Outcome::Ok(_), _) => (format!("OK {peak} {}", fmt_u32(&est)), "FAIL estimator failed".into()),
                (Outcome::Err(c), _) => (format!("ERR {c}"), "FAIL reader error on a valid stream".into()),
                (Outcome::Panic(m), _) => ("PANIC".into(), format!("FAIL reader panic {m}")),
            }
        }
        "al_dec2" => {
            let dict: u32 = p(a[2]);
            let np_claimed: usize = p(a[4]);
            let (lc, lp, len, pieces): (u32, u32, usize, usize) = (p(a[5]), p(a[6]), p(a[7]), p(a[8]));
            let data = sample_data(len);
            let second: Option<(u32, u32)> = if a.len() > 10 { Some((p(a[9]), p(a[10]))) } else { None };
            let stream = lzma2_stream2(&data, lc, lp, pieces, second);
            let lclp = second.map_or(lc + lp, |(c, l)| (lc + lp).max(c + l));
            if count_props_chunks(&stream) != np_claimed || a[3] != lclp.to_string() {
                return ("HARNESS-INCONSISTENT".into(), "FAIL the command line does not describe the stream the harness builds".into());
            }
            let est = guarded(|| Ok(lzma2_get_memory_usage(dict)));
            let mut out = vec![0u8; len + 16];
            let (r, peak, _n) = measure(|| {
                guarded(|| {
                    let mut r = LZMA2Reader::new(&stream[..], dict, None);
                    let mut n = 0;
                    loop {
                        let k = r.read(&mut out[n..])?;
                        if k == 0 {
                            break;
                        }
                        n += k;
                    }
                    Ok(n)
                })
            });
            match (&r, &est) {
                (Outcome::Ok(n), Outcome::Ok(e)) => {
                    let mut v = verdict_sound_tight(peak, *e as u64, DEC2_TIGHT_C);
                    if v == "ok" && (*n != len || out[..*n] != data[..]) {
                        v = "FAIL reader returned wrong data".into();
                    }
                    (format!("OK {peak} {e}"), v)
                }
                (Outcome::Ok(_), _) => (format!("OK {peak} {}", fmt_u32(&est)), "FAIL estimator failed".into()),
                (Outcome::Err(c), _) => (format!("ERR {c}"), "FAIL reader error on a valid stream".into()),
                (Outcome::Panic(m), _) => ("PANIC".into(), format!("FAIL reader panic {m}")),
            }
        }
        "memlimit" => {
            let (dict, props, limit): (u32, u32, u32) = (p(a[2]), p(a[3]), p(a[4]));
            let us: u64 = if a[5] == "-" { u64::MAX } else { p(a[5]) };
            let mut stream = vec![props as u8];
            stream.extend_from_slice(&dict.to_le_bytes());
            stream.extend_from_slice(&us.to_le_bytes());
            stream.extend_from_slice(&unhex(a[6]));
            let need = guarded(|| lzma_get_memory_usage_by_props(dict, props as u8));
            let (r, peak, _n) = measure(|| guarded(|| LZMAReader::new_mem_limit(&stream[..], limit, None).map(|_| ())));
            // a failing constructor returns a std::io::Error, itself a small heap object (two boxes
            // and the message, 48 + message length bytes): anything up to ERROR_OBJECT_MAX bytes
            // is reported as 0 bytes of decoder memory
            let peak = if matches!(r, Outcome::Err(_)) && peak <= ERROR_OBJECT_MAX { 0 } else { peak };
            let obs = match &r {
                Outcome::Ok(_) => format!("OK {peak}"),
                Outcome::Err(c) => format!("ERR {c} {peak}"),
                Outcome::Panic(_) => "PANIC".to_string(),
            };
            // the property itself: need > limit -> OutOfMemory before allocating; otherwise what
            // is allocated stays within the need (hence within the limit)
            let v = match (&need, &r) {
                (_, Outcome::Panic(m)) => format!("FAIL panic {m}"),
                (Outcome::Ok(n), Outcome::Err(4)) if *n > limit => {
                    if peak > 0 { format!("FAIL {peak} bytes allocated before the limit check failed") } else { "ok".into() }
                }
                (Outcome::Ok(n), _) if *n > limit => format!("FAIL need {n} KiB > limit {limit} KiB but no OutOfMemory error"),
                (Outcome::Ok(n), Outcome::Ok(_)) => {
                    if peak > *n as u64 * KIB { format!("FAIL allocated {peak} B with need {n} KiB") } else { "ok".into() }
                }
                (Outcome::Ok(_), Outcome::Err(4)) => "FAIL OutOfMemory although the limit suffices".into(),
                // broken range-decoder start or invalid header parameters: an error, and nothing allocated
                (_, Outcome::Err(_)) => {
                    if peak > 0 { format!("FAIL {peak} bytes allocated by a failing constructor") } else { "ok".into() }
                }
                (_, Outcome::Ok(_)) => "FAIL invalid header accepted".into(),
            };
            (obs, v)
        }
        "probe" => {
            // diagnostic (not generated): prints estimate, measured peak and allocation count
            let o = mk_opts(p(a[2]), p(a[3]), p(a[4]), p(a[5]), p(a[6]), p(a[7]), p(a[8]), p(a[9]));
            let kind: u32 = p(a[1]);
            let len: usize = p(a[10]);
            let data = sample_data(len);
            let sink: Vec<u8> = Vec::with_capacity(len + len / 2 + 4096);
            let (r, peak, n) = measure(|| {
                guarded(|| {
                    if kind == 1 {
                        let mut w = LZMAWriter::new_no_header(sink, &o, true)?;
                        w.write_all(&data)?;
                        w.finish()
                    } else {
                        let mut w = LZMA2Writer::new(sink, LZMA2Options { lzma_options: o.clone(), chunk_size: None });
                        w.write_all(&data)?;
                        w.finish()
                    }
                })
            });
            let est = guarded(|| Ok(o.get_memory_usage()));
            (format!("peak={peak} allocs={n} est={} ok={}", fmt_u32(&est), matches!(r, Outcome::Ok(_))), "ok".into())
        }
        _ => ("NOCMD".into(), "FAIL unknown command".into()),
    }
}

pub const AREA: Area = Area { name: "memusage", gen, exec };
