//! Area "mt": the four multi-threaded types of the crate vs. Mt/Protocol.v (C08, C09, C10, C13).
//!
//! With the verification hooks on (`--cfg hasenbanck_lzma_rust2_verif`) the crate's MT code runs on
//! the shuttle scheduler and reports one event per shared-state access (hook H4).  A case is
//!
//!   mt <type> <workers> <input> <drop> <trace>
//!
//!   type    lzma2r | lzipr | lzma2w | lzipw
//!   input   readers: the compressed bytes (hex), optionally `@<n>`: the inner reader fails with an
//!           I/O error after n bytes;  writers: `<class>:<seed>:<ops>` with ops = w<len> | f (flush),
//!           separated by `+` (finish is always called unless <drop> cuts the history)
//!   drop    `end` or the number of caller operations (read calls / write+flush calls) after which the
//!           object is dropped
//!   trace   the recorded event trace `task.kind.arg,...`
//!
//! `gen` explores schedules of the REAL code (shuttle random / PCT / DFS, seeded) and records the
//! trace of every execution; `exec` replays the recorded trace on the real code with a scripted
//! scheduler, checks that it reproduces, and reports the outcome; the model driver must accept the
//! trace step by step (every observed value is the one the model state predicts) and end in the same
//! outcome.  The oracle is the property itself: MT output == ST output / round trip, the call
//! returned, an error was reported for a bad input, no task is blocked after drop.
//!
//!   mt_sched <type> <workers> <input> <drop> <schedule>     a model-produced schedule (thread ids,
//!           0 = caller, i = worker i) imposed on the real code: the witnesses of Mt/Refuted.v
//!   mt_cut <hex>            LZMA2ReaderMT::chunk_count() vs. Units.cut_lzma2
//!   mt_scan <hex>           LZIPReaderMT::new(..).member_count() vs. Units.scan_members
//!
//! Without the hooks (guard off; real OS threads) only `mt_real ...` works: see the end of the file.
#![allow(dead_code)]
use crate::util::*;
use lzma_rust2::*;
use std::io::{Read, Write};
use std::num::NonZeroU64;

pub const DICT: u32 = 4096;
pub const UNIT: usize = 4096;

// ------------------------------------------------------------------------------------------------
// inputs
// ------------------------------------------------------------------------------------------------

/// one uncompressed LZMA2 chunk (control 0x01: dictionary reset, or 0x02)
pub fn raw_chunk(control: u8, data: &[u8]) -> Vec<u8> {
    assert!(!data.is_empty() && data.len() <= 65536);
    let n = data.len() - 1;
    let mut v = vec![control, (n >> 8) as u8, (n & 255) as u8];
    v.extend_from_slice(data);
    v
}

/// the chunks the single-threaded LZMA2Writer produces for `data` (no terminator)
pub fn lzma2_chunks(data: &[u8]) -> Vec<u8> {
    let mut opt = LZMA2Options::with_preset(1);
    opt.lzma_options.dict_size = DICT;
    let mut w = LZMA2Writer::new(Vec::new(), opt);
    w.write_all(data).unwrap();
    let mut v = w.finish().unwrap();
    assert_eq!(v.pop(), Some(0));
    v
}

/// a chunk whose properties byte is invalid: the worker that decodes it fails (InvalidInput)
pub fn bad_chunk() -> Vec<u8> {
    vec![0xE0, 0, 3, 0, 3, 0xFF, 1, 2, 3, 4]
}

pub fn lzip_member(data: &[u8]) -> Vec<u8> {
    let mut opt = LZIPOptions::with_preset(1);
    opt.lzma_options.dict_size = DICT;
    let mut w = LZIPWriter::new(Vec::new(), opt);
    w.write_all(data).unwrap();
    w.finish().unwrap()
}

/// reader that fails with ErrorKind::Other once `limit` bytes were delivered
pub struct FailAfter {
    data: std::io::Cursor<Vec<u8>>,
    limit: Option<usize>,
}
impl Read for FailAfter {
    fn read(&mut self, buf: &mut [u8]) -> std::io::Result<usize> {
        if let Some(l) = self.limit {
            let pos = self.data.position() as usize;
            if pos >= l {
                return Err(std::io::Error::new(std::io::ErrorKind::Other, "injected I/O fault"));
            }
            let n = buf.len().min(l - pos);
            return self.data.read(&mut buf[..n]);
        }
        self.data.read(buf)
    }
}
impl std::io::Seek for FailAfter {
    fn seek(&mut self, p: std::io::SeekFrom) -> std::io::Result<u64> {
        self.data.seek(p)
    }
}

pub fn parse_input(s: &str) -> (Vec<u8>, Option<usize>) {
    match s.split_once('@') {
        Some((h, n)) => (unhex(h), Some(n.parse().unwrap())),
        None => (unhex(s), None),
    }
}

pub struct WriterPlan {
    pub data: Vec<u8>,
    pub ops: Vec<Option<usize>>, // Some(len) = write, None = flush
    /// optional 4th field `p<len>`: the options carry a preset dictionary of that length and the
    /// data is made of slices of it (LZMA2WriterMT encodes every unit self-contained, i.e. ignores
    /// the preset dictionary: its output must still equal the per-unit encoding WITHOUT preset)
    pub preset: Option<Vec<u8>>,
}
pub fn parse_writer(s: &str) -> WriterPlan {
    let p: Vec<&str> = s.split(':').collect();
    let seed: u64 = p[1].parse().unwrap();
    let mut ops = Vec::new();
    let mut total = 0;
    if p[2] != "-" {
        for o in p[2].split('+') {
            if o == "f" {
                ops.push(None)
            } else {
                let n: usize = o[1..].parse().unwrap();
                total += n;
                ops.push(Some(n));
            }
        }
    }
    let mut rng = Rng::new(seed);
    if p.len() > 3 && p[3].starts_with('p') {
        let plen: usize = p[3][1..].parse().unwrap();
        let preset: Vec<u8> = (0..plen).map(|_| rng.next() as u8).collect();
        let mut data = Vec::with_capacity(total + 64);
        while data.len() < total {
            let l = 20 + rng.below(40) as usize;
            let at = rng.below((plen - l.min(plen - 1)) as u64) as usize;
            data.extend_from_slice(&preset[at..(at + l).min(plen)]);
        }
        data.truncate(total);
        return WriterPlan { data, ops, preset: Some(preset) };
    }
    let data = gen_data_len(&mut rng, p[0], total);
    let data = if data.len() < total { let mut d = data; d.resize(total, 0x41); d } else { data };
    WriterPlan { data, ops, preset: None }
}

/// single-threaded references
pub fn st_lzma2_decode(bytes: &[u8]) -> Outcome<Vec<u8>> {
    let b = bytes.to_vec();
    guarded(move || {
        let mut r = LZMA2Reader::new(&b[..], DICT, None);
        let mut out = Vec::new();
        r.read_to_end(&mut out)?;
        Ok(out)
    })
}
pub fn st_lzip_decode(bytes: &[u8]) -> Outcome<Vec<u8>> {
    let b = bytes.to_vec();
    guarded(move || {
        let mut r = LZIPReader::new(&b[..])?;
        let mut out = Vec::new();
        r.read_to_end(&mut out)?;
        Ok(out)
    })
}
/// what the MT writers must emit: every unit encoded on its own, then the terminator (LZMA2)
pub fn expected_writer_output(kind: &str, plan: &WriterPlan, n_ops: usize, finished: bool) -> Vec<u8> {
    // units: fixed-size cutting of the data between flushes
    let mut units: Vec<Vec<u8>> = Vec::new();
    let mut cur: Vec<u8> = Vec::new();
    let mut pos = 0;
    for o in plan.ops.iter().take(n_ops) {
        match o {
            Some(n) => {
                for &b in &plan.data[pos..pos + n] {
                    cur.push(b);
                    if cur.len() == UNIT {
                        units.push(std::mem::take(&mut cur));
                    }
                }
                pos += n;
            }
            None => {
                if !cur.is_empty() {
                    units.push(std::mem::take(&mut cur));
                }
            }
        }
    }
    if finished && !cur.is_empty() {
        units.push(std::mem::take(&mut cur));
    }
    let mut out = Vec::new();
    if kind == "lzma2w" {
        for u in &units {
            out.extend_from_slice(&lzma2_chunks(u));
        }
        if finished {
            out.push(0);
        }
    } else {
        for u in &units {
            out.extend_from_slice(&lzip_member(u));
        }
        if finished && units.is_empty() {
            out.extend_from_slice(&lzip_member(&[]));
        }
    }
    out
}

// ------------------------------------------------------------------------------------------------
// controlled-concurrency part (hooks on)
// ------------------------------------------------------------------------------------------------
#[cfg(hasenbanck_lzma_rust2_verif)]
mod sh {
    use super::*;
    use shuttle::scheduler::{PctScheduler, RandomScheduler, DfsScheduler, Schedule, Scheduler, Task, TaskId};
    use std::cell::{Cell, RefCell};
    use std::panic::{catch_unwind, AssertUnwindSafe};
    use std::sync::{Arc, Mutex as StdMutex};

    #[derive(Clone, Debug, Default)]
    pub struct Run {
        pub events: Vec<(usize, u32, u64)>,
        pub progress: u8,           // 0 started, 1 call history finished, 2 dropped, 3 all workers exited
        pub result: String,         // N | E<code> | P
        pub out: Vec<u8>,
        pub count: u64,             // chunk_count / member_count
        pub spawned: usize,
        pub panic: Option<String>,
    }

    thread_local! {
        static RUN: RefCell<Run> = RefCell::new(Run::default());
        static NEVENTS: Cell<usize> = Cell::new(0);
        static NSTEPS: Cell<usize> = Cell::new(0);
        static EXIT_TX: RefCell<Option<shuttle::sync::mpsc::Sender<()>>> = RefCell::new(None);
    }

    fn sink(kind: u32, arg: u64) {
        let me: usize = shuttle::current::get_current_task().map(usize::from).unwrap_or(usize::MAX);
        RUN.with(|r| r.borrow_mut().events.push((me, kind, arg)));
        // events that are not a step of the model (per-unit result, thread exit, loop left by break)
        // do not advance a step-indexed script
        // (the spawn of the first worker inside new(), before any call of the caller, is no model step either)
        let in_new = kind == 22 && NSTEPS.with(|n| n.get()) == 0 && me == 0;
        // (45 is emitted before condvar.wait(): the step it announces completes without an event)
        let meta = matches!(kind, 45 | 48 | 49 | 56) || (kind == 59 && arg == 1) || in_new;
        NSTEPS.with(|n| n.set(n.get() + if meta { 0 } else { 1 }));
        NEVENTS.with(|n| n.set(n.get() + 1));
        if kind == 56 {
            let tx = EXIT_TX.with(|t| t.borrow().clone());
            if let Some(tx) = tx {
                let _ = tx.send(());
            }
        }
    }

    /// a shuttle object must not be dropped outside its runtime (after a deadlock report the sender is
    /// still stored): leak it
    fn forget_exit_tx() {
        EXIT_TX.with(|t| {
            if let Some(tx) = t.borrow_mut().take() {
                std::mem::forget(tx)
            }
        });
    }

    pub fn install() {
        lzma_rust2::verif::set_sink(sink);
    }

    /// one execution of the scenario inside a shuttle runtime
    fn scenario(kind: &str, workers: u32, input: &str, drop_after: Option<usize>) {
        RUN.with(|r| *r.borrow_mut() = Run::default());
        NEVENTS.with(|n| n.set(0));
        NSTEPS.with(|n| n.set(0));
        let (tx, rx) = shuttle::sync::mpsc::channel::<()>();
        EXIT_TX.with(|t| *t.borrow_mut() = Some(tx));
        let initial = if kind == "lzipr" { 0 } else { 1 };
        let set = |f: &dyn Fn(&mut Run)| RUN.with(|r| f(&mut r.borrow_mut()));
        match kind {
            "lzma2r" | "lzipr" => {
                let (bytes, fail) = parse_input(input);
                let src = FailAfter { data: std::io::Cursor::new(bytes), limit: fail };
                enum Rd {
                    A(LZMA2ReaderMT<FailAfter>),
                    B(LZIPReaderMT<FailAfter>),
                }
                let mut r = if kind == "lzma2r" {
                    Rd::A(LZMA2ReaderMT::new(src, DICT, None, workers))
                } else {
                    match LZIPReaderMT::new(src, workers) {
                        Ok(r) => Rd::B(r),
                        Err(e) => {
                            let c = err_code(&e);
                            set(&|r| {
                                r.result = format!("E{}", c);
                                r.progress = 3;
                            });
                            EXIT_TX.with(|t| *t.borrow_mut() = None);
                            return;
                        }
                    }
                };
                let mut out = Vec::new();
                let mut result = String::from("P");
                let mut calls = 0usize;
                let mut buf = vec![0u8; 1 << 16];
                loop {
                    if let Some(d) = drop_after {
                        if calls >= d {
                            break;
                        }
                    }
                    let res = match &mut r {
                        Rd::A(x) => x.read(&mut buf),
                        Rd::B(x) => x.read(&mut buf),
                    };
                    calls += 1;
                    match res {
                        Ok(0) => {
                            result = "N".into();
                            break;
                        }
                        Ok(n) => out.extend_from_slice(&buf[..n]),
                        Err(e) => {
                            result = format!("E{}", err_code(&e));
                            break;
                        }
                    }
                }
                let count = match &r {
                    Rd::A(x) => x.chunk_count(),
                    Rd::B(x) => x.member_count() as u64,
                };
                set(&|r| {
                    r.result = result.clone();
                    r.out = out.clone();
                    r.count = count;
                    r.progress = 1;
                });
                drop(r);
            }
            _ => {
                let plan = parse_writer(input);
                let sink_buf: Vec<u8> = Vec::new();
                enum Wr {
                    A(LZMA2WriterMT<Vec<u8>>),
                    B(LZIPWriterMT<Vec<u8>>),
                }
                let mut w = if kind == "lzma2w" {
                    let mut opt = LZMA2Options::with_preset(1);
                    opt.lzma_options.dict_size = DICT;
                    opt.lzma_options.preset_dict = plan.preset.clone();
                    opt.set_chunk_size(NonZeroU64::new(UNIT as u64));
                    Wr::A(LZMA2WriterMT::new(sink_buf, opt, workers).unwrap())
                } else {
                    let mut opt = LZIPOptions::with_preset(1);
                    opt.lzma_options.dict_size = DICT;
                    opt.set_member_size(NonZeroU64::new(UNIT as u64));
                    Wr::B(LZIPWriterMT::new(sink_buf, opt, workers).unwrap())
                };
                let mut result = String::from("P");
                let mut pos = 0;
                let mut done = 0usize;
                let mut failed = false;
                for o in &plan.ops {
                    if let Some(d) = drop_after {
                        if done >= d {
                            break;
                        }
                    }
                    let res = match (o, &mut w) {
                        (Some(n), Wr::A(x)) => x.write_all(&plan.data[pos..pos + n]),
                        (Some(n), Wr::B(x)) => x.write_all(&plan.data[pos..pos + n]),
                        (None, Wr::A(x)) => x.flush(),
                        (None, Wr::B(x)) => x.flush(),
                    };
                    if let Some(n) = o {
                        pos += n;
                    }
                    done += 1;
                    if let Err(e) = res {
                        result = format!("E{}", err_code(&e));
                        failed = true;
                        break;
                    }
                }
                let finish = drop_after.map(|d| d > plan.ops.len()).unwrap_or(true) && !failed;
                if finish {
                    let res = match w {
                        Wr::A(x) => x.finish(),
                        Wr::B(x) => x.finish(),
                    };
                    match res {
                        Ok(v) => {
                            set(&|r| {
                                r.result = "N".into();
                                r.out = v.clone();
                                r.progress = 1;
                            });
                        }
                        Err(e) => {
                            let c = err_code(&e);
                            set(&|r| {
                                r.result = format!("E{}", c);
                                r.progress = 1;
                            });
                        }
                    }
                } else {
                    // dropped mid-stream: what reached the sink so far
                    let partial = match &mut w {
                        Wr::A(x) => x.inner().clone(),
                        Wr::B(x) => x.inner().clone(),
                    };
                    set(&|r| {
                        r.result = result.clone();
                        r.out = partial.clone();
                        r.progress = 1;
                    });
                    drop(w);
                }
            }
        }
        set(&|r| r.progress = 2);
        // every spawned worker must announce its exit (event 56): a worker that sleeps forever on the
        // condvar leaves this thread blocked, which shuttle reports as a deadlock
        let _ = initial;
        let spawned = RUN.with(|r| r.borrow().events.iter().filter(|e| e.1 == 22).count());
        set(&|r| r.spawned = spawned);
        for _ in 0..spawned {
            if rx.recv().is_err() {
                break;
            }
        }
        EXIT_TX.with(|t| *t.borrow_mut() = None);
        set(&|r| r.progress = 3);
    }

    fn config() -> shuttle::Config {
        let mut c = shuttle::Config::new();
        c.failure_persistence = shuttle::FailurePersistence::None;
        c.max_steps = shuttle::MaxSteps::FailAfter(400_000);
        c.silence_warnings = true;
        c
    }

    /// run one execution under `sched`; returns the record (panic = deadlock report etc.)
    pub fn run_once<S: Scheduler + 'static>(sched: S, kind: &str, workers: u32, input: &str, drop_after: Option<usize>) -> Run {
        install();
        let (k, i) = (kind.to_string(), input.to_string());
        let res = catch_unwind(AssertUnwindSafe(|| {
            shuttle::Runner::new(sched, config()).run(move || scenario(&k, workers, &i, drop_after));
        }));
        let mut run = RUN.with(|r| r.borrow().clone());
        forget_exit_tx();
        if let Err(p) = res {
            let msg = if let Some(s) = p.downcast_ref::<&str>() {
                s.to_string()
            } else if let Some(s) = p.downcast_ref::<String>() {
                s.clone()
            } else {
                "panic".to_string()
            };
            run.panic = Some(msg);
        }
        run
    }

    /// many executions under one exploring scheduler (DFS): the record of every execution
    pub fn run_many<S: Scheduler + 'static>(sched: S, kind: &str, workers: u32, input: &str, drop_after: Option<usize>) -> Vec<Run> {
        install();
        let all: Arc<StdMutex<Vec<Run>>> = Arc::new(StdMutex::new(Vec::new()));
        let all2 = all.clone();
        let (k, i) = (kind.to_string(), input.to_string());
        let res = catch_unwind(AssertUnwindSafe(|| {
            shuttle::Runner::new(sched, config()).run(move || {
                scenario(&k, workers, &i, drop_after);
                all2.lock().unwrap().push(RUN.with(|r| r.borrow().clone()));
            });
        }));
        let mut v = all.lock().unwrap().clone();
        if res.is_err() {
            let mut run = RUN.with(|r| r.borrow().clone());
            run.panic = Some("panic".into());
            v.push(run);
        }
        forget_exit_tx();
        v
    }

    /// follows a script of task ids: one entry per recorded event (the owner of that event)
    pub struct ScriptSched {
        pub script: Vec<usize>,
        /// event kinds of the script entries (trace replay only; empty for step-indexed scripts)
        pub kinds: Vec<u32>,
        pub started: bool,
        /// one entry per step of the model (events that are not model steps do not count)
        pub per_step: bool,
        pub pos: usize,
    }
    impl Scheduler for ScriptSched {
        fn new_execution(&mut self) -> Option<Schedule> {
            if self.started {
                None
            } else {
                self.started = true;
                Some(Schedule::new(0))
            }
        }
        fn next_task(&mut self, runnable: &[&Task], current: Option<TaskId>, _y: bool) -> Option<TaskId> {
            let pos = if self.per_step { NSTEPS.with(|n| n.get()) } else { NEVENTS.with(|n| n.get()) };
            // A worker that has just announced condvar.wait() (event 45) still holds the queue mutex at
            // the yield point of its release. If the trace shows that it is woken later by a
            // notification that comes next, it was registered as a waiter before that notification:
            // let it run into the wait now.
            if !self.per_step && pos > 0 && pos <= self.kinds.len() && self.kinds[pos - 1] == 45 {
                let t = self.script[pos - 1];
                if let Some(j) = (pos..self.script.len()).find(|&j| self.script[j] == t) {
                    if self.kinds[j] == 46 && (pos..j).any(|k| self.kinds[k] == 20 || self.kinds[k] == 27) {
                        if let Some(task) = runnable.iter().find(|x| usize::from(x.id()) == t) {
                            return Some(task.id());
                        }
                    }
                }
            }
            if let Some(&want) = self.script.get(pos) {
                if let Some(t) = runnable.iter().find(|t| usize::from(t.id()) == want) {
                    return Some(t.id());
                }
            }
            // The wanted task is blocked (typically on the queue mutex, whose holder sits at the yield
            // point of its release, in the middle of one of its steps): advance the runnable task
            // whose next event is furthest away in the script, it is the one that is mid-step.
            let _ = current;
            let rest = &self.script[pos.min(self.script.len())..];
            let dist = |id: usize| rest.iter().position(|&x| x == id).unwrap_or(usize::MAX);
            runnable.iter().max_by_key(|t| dist(usize::from(t.id()))).map(|t| t.id())
        }
        fn next_u64(&mut self) -> u64 {
            0
        }
    }

    pub fn trace_string(ev: &[(usize, u32, u64)]) -> String {
        if ev.is_empty() {
            return "-".into();
        }
        ev.iter().map(|(t, k, a)| format!("{}.{}.{}", t, k, a)).collect::<Vec<_>>().join(",")
    }
    pub fn parse_trace(s: &str) -> Vec<(usize, u32, u64)> {
        if s == "-" {
            return vec![];
        }
        s.split(',')
            .map(|e| {
                let p: Vec<&str> = e.split('.').collect();
                (p[0].parse().unwrap(), p[1].parse().unwrap(), p[2].parse().unwrap())
            })
            .collect()
    }

    pub fn outcome_string(kind: &str, run: &Run) -> String {
        let reader = kind.ends_with('r');
        match (&run.panic, run.progress) {
            (None, 3) => {
                if reader {
                    format!("OK {} nr={} sp={}", run.result, run.count, run.spawned)
                } else {
                    format!("OK {} sp={}", run.result, run.spawned)
                }
            }
            (Some(p), 0) if p.contains("deadlock") => "DEADLOCK".to_string(),
            (Some(p), _) if p.contains("deadlock") => "LEAK".to_string(),
            (Some(p), _) => format!("PANIC {}", p.replace([' ', '\n'], "_").chars().take(80).collect::<String>()),
            (None, p) => format!("INCOMPLETE {}", p),
        }
    }

    /// the property's own oracle on one execution
    pub fn oracle(kind: &str, workers: u32, input: &str, drop_after: Option<usize>, run: &Run) -> String {
        if let Some(p) = &run.panic {
            if p.contains("deadlock") {
                return if run.progress == 0 {
                    "FAIL a call never returned (deadlock reported by the scheduler)".into()
                } else {
                    "FAIL a worker is still blocked after drop".into()
                };
            }
            return format!("FAIL panic {}", p.chars().take(60).collect::<String>().replace('\n', " "));
        }
        if run.progress != 3 {
            return "FAIL execution incomplete".into();
        }
        // C10: never more worker threads than the caller allowed (the crate clamps the request into 1..=256)
        let workers_max = (workers as usize).clamp(1, 256);
        if run.spawned > workers_max {
            return format!("FAIL {} worker threads were spawned, the limit was {}", run.spawned, workers_max);
        }
        match kind {
            "lzma2r" | "lzipr" => {
                let (bytes, fail) = parse_input(input);
                let st = match fail {
                    Some(n) => {
                        // the single-threaded reader on the same failing source
                        let b = bytes.clone();
                        guarded(move || {
                            let src = FailAfter { data: std::io::Cursor::new(b), limit: Some(n) };
                            let mut out = Vec::new();
                            if kind == "lzma2r" {
                                LZMA2Reader::new(src, DICT, None).read_to_end(&mut out)?;
                            } else {
                                LZIPReader::new(src)?.read_to_end(&mut out)?;
                            }
                            Ok(out)
                        })
                    }
                    None => {
                        if kind == "lzma2r" {
                            st_lzma2_decode(&bytes)
                        } else {
                            st_lzip_decode(&bytes)
                        }
                    }
                };
                match (&st, run.result.as_str()) {
                    (Outcome::Ok(d), "N") => {
                        if *d == run.out {
                            "ok".into()
                        } else {
                            "FAIL MT output differs from the single-threaded reader".into()
                        }
                    }
                    (Outcome::Ok(d), "P") => {
                        if d.starts_with(&run.out) {
                            "ok".into()
                        } else {
                            "FAIL MT output is not a prefix of the single-threaded output".into()
                        }
                    }
                    (Outcome::Ok(_), _) => "FAIL MT reader failed on a stream the single-threaded reader accepts".into(),
                    (_, "N") => "FAIL MT reader reported success on a stream the single-threaded reader rejects".into(),
                    (_, "P") => {
                        let _ = drop_after;
                        "ok".into()
                    }
                    (_, _) => "ok".into(), // both fail: an error was reported
                }
            }
            _ => {
                let plan = parse_writer(input);
                let n_ops = drop_after.unwrap_or(usize::MAX).min(plan.ops.len());
                let finished = run.result == "N";
                if run.result.starts_with('E') {
                    return "FAIL writer returned an error on a perfect sink".into();
                }
                let expect = expected_writer_output(kind, &plan, n_ops, finished);
                if finished {
                    if run.out != expect {
                        return "FAIL MT output differs from the per-unit single-threaded encoding".into();
                    }
                    let total: usize = plan.ops.iter().take(n_ops).map(|o| o.unwrap_or(0)).sum();
                    let dec = if kind == "lzma2w" { st_lzma2_decode(&run.out) } else { st_lzip_decode(&run.out) };
                    match dec {
                        Outcome::Ok(d) if d == plan.data[..total] => "ok".into(),
                        _ => "FAIL MT output does not decode to the written data".into(),
                    }
                } else if expect.starts_with(&run.out) {
                    "ok".into()
                } else {
                    "FAIL partial MT output is not a prefix of the expected output".into()
                }
            }
        }
    }

    pub fn parse_drop(s: &str) -> Option<usize> {
        if s == "end" {
            None
        } else {
            Some(s.parse().unwrap())
        }
    }

    pub fn exec_mt(a: &[&str]) -> (String, String) {
        let (kind, workers, input, dropa, trace) = (a[1], a[2].parse::<u32>().unwrap(), a[3], parse_drop(a[4]), parse_trace(a[5]));
        let script: Vec<usize> = trace.iter().map(|e| e.0).collect();
        let kinds: Vec<u32> = trace.iter().map(|e| e.1).collect();
        let sched = ScriptSched { script, kinds, started: false, per_step: false, pos: 0 };
        let run = run_once(sched, kind, workers, input, dropa);
        let obs = if run.events != trace {
            let k = run.events.iter().zip(trace.iter()).take_while(|(x, y)| x == y).count();
            if std::env::var("MT_DEBUG").is_ok() {
                eprintln!("recorded: {}", trace_string(&trace[k.saturating_sub(6)..(k + 8).min(trace.len())]));
                eprintln!("replayed: {}", trace_string(&run.events[k.saturating_sub(6)..(k + 8).min(run.events.len())]));
            }
            format!("DIVERGED at event {} of {} (replay has {})", k, trace.len(), run.events.len())
        } else {
            outcome_string(kind, &run)
        };
        (obs, oracle(kind, workers, input, dropa, &run))
    }

    /// a model-produced schedule (one entry per scheduling decision) on the real code
    pub fn exec_sched(a: &[&str]) -> (String, String) {
        let (kind, workers, input, dropa) = (a[1], a[2].parse::<u32>().unwrap(), a[3], parse_drop(a[4]));
        let script: Vec<usize> = if a[5] == "-" { vec![] } else { a[5].split(',').map(|x| x.parse().unwrap()).collect() };
        let sched = ScriptSched { script, kinds: vec![], started: false, per_step: true, pos: 0 };
        let run = run_once(sched, kind, workers, input, dropa);
        if std::env::var("MT_DEBUG").is_ok() {
            eprintln!("events: {}", trace_string(&run.events));
        }
        (outcome_string(kind, &run), oracle(kind, workers, input, dropa, &run))
    }

    // ---------------------------------------------------------------------------------------------
    pub fn gen(rng: &mut Rng, tier: &str, dist: &mut Dist) -> Vec<String> {
        let thorough = tier == "thorough";
        let mut cmds: Vec<String> = Vec::new();
        let mut seen = std::collections::HashSet::new();
        let mut scen: Vec<(String, u32, String, String, String)> = Vec::new(); // kind, workers, input, drop, label

        // ---- LZMA2 reader streams ----
        let payload = |rng: &mut Rng, n: usize| -> Vec<u8> { gen_data_len(rng, "text", n) };
        let unit = |rng: &mut Rng| -> Vec<u8> {
            match rng.below(4) {
                0 => {
                    let n = 1 + rng.below(40) as usize;
                    raw_chunk(1, &payload(rng, n))
                }
                1 => {
                    // a dictionary-reset chunk followed by a dependent one
                    let (n1, n2) = (1 + rng.below(30) as usize, 1 + rng.below(30) as usize);
                    let mut v = raw_chunk(1, &payload(rng, n1));
                    v.extend(raw_chunk(2, &payload(rng, n2)));
                    v
                }
                _ => {
                    let n = 20 + rng.below(400) as usize;
                    lzma2_chunks(&payload(rng, n))
                }
            }
        };
        let n_streams = if thorough { 40 } else { 10 };
        for si in 0..n_streams {
            let k = if si < 7 { si } else { rng.below(7) as usize };
            let units: Vec<Vec<u8>> = (0..k).map(|_| unit(rng)).collect();
            let valid: Vec<u8> = units.concat().into_iter().chain(std::iter::once(0)).collect();
            let w = 1 + rng.below(4) as u32;
            scen.push(("lzma2r".into(), w, hex(&valid), "end".into(), format!("valid.{}units", k.min(6))));
            if k >= 1 {
                // unit j corrupt
                let j = rng.below(k as u64) as usize;
                let mut us = units.clone();
                us[j] = bad_chunk();
                let s: Vec<u8> = us.concat().into_iter().chain(std::iter::once(0)).collect();
                scen.push(("lzma2r".into(), w, hex(&s), "end".into(), "corrupt_unit".into()));
                // missing terminator
                scen.push(("lzma2r".into(), w, hex(&units.concat()), "end".into(), "missing_terminator".into()));
                // truncated inside a chunk
                let cut = 1 + rng.below((valid.len() - 1) as u64) as usize;
                scen.push(("lzma2r".into(), w, hex(&valid[..cut]), "end".into(), "truncated".into()));
                // inner reader error after n bytes
                let n = rng.below(valid.len() as u64 + 1) as usize;
                scen.push(("lzma2r".into(), w, format!("{}@{}", hex(&valid), n), "end".into(), "io_error".into()));
                // dropped mid-stream
                let d = rng.below(k as u64 + 2) as usize;
                scen.push(("lzma2r".into(), w, hex(&valid), d.to_string(), "dropped_early".into()));
            }
        }
        scen.push(("lzma2r".into(), 1, "-".into(), "end".into(), "empty".into()));
        scen.push(("lzma2r".into(), 3, "-".into(), "0".into(), "empty".into()));
        scen.push(("lzma2r".into(), 2, hex(&[0x37, 1, 2]), "end".into(), "invalid_control".into()));

        // ---- LZIP reader ----
        for si in 0..(if thorough { 16 } else { 5 }) {
            let k = 1 + if si < 4 { si } else { rng.below(5) as usize };
            let members: Vec<Vec<u8>> = (0..k)
                .map(|_| {
                    let n = rng.below(300) as usize;
                    lzip_member(&payload(rng, n))
                })
                .collect();
            let w = 1 + rng.below(4) as u32;
            scen.push(("lzipr".into(), w, hex(&members.concat()), "end".into(), format!("lzip.valid.{}members", k.min(5))));
            let j = rng.below(k as u64) as usize;
            let mut ms = members.clone();
            let l = ms[j].len();
            ms[j][l - 20] ^= 0x55; // CRC32 of the member
            scen.push(("lzipr".into(), w, hex(&ms.concat()), "end".into(), "lzip.corrupt_member".into()));
            let d = rng.below(k as u64 + 1) as usize;
            scen.push(("lzipr".into(), w, hex(&members.concat()), d.to_string(), "lzip.dropped_early".into()));
        }

        // LZIP files with EMPTY members (the output of a writer that was finished without data) in
        // front of, between and behind non-empty ones: the reader must not take a member that
        // decodes to zero bytes for the end of the data
        for (si, shape) in [vec![1usize, 0, 1], vec![0, 1], vec![1, 0, 0, 1, 0], vec![0, 0, 1]].iter().enumerate() {
            if !thorough && si >= 3 {
                break;
            }
            let members: Vec<Vec<u8>> = shape
                .iter()
                .map(|&nz| {
                    let n = if nz == 0 { 0 } else { 1 + rng.below(200) as usize };
                    lzip_member(&payload(rng, n))
                })
                .collect();
            let w = 1 + rng.below(4) as u32;
            scen.push(("lzipr".into(), w, hex(&members.concat()), "end".into(), "lzip.empty_members".into()));
        }

        // a member whose content has CRC-32 = 0 (a trailer field that looks "empty"), alone, in the middle, last
        {
            let z: &[u8] = b"payload whose CRC-32 is zero: \x37\x78\x3f\xae";
            assert_eq!(crate::areas::a_c04::crc32(z), 0);
            let (a, b) = (lzip_member(&payload(rng, 40)), lzip_member(&payload(rng, 60)));
            let zm = lzip_member(z);
            for (i, f) in [zm.clone(), [a.clone(), zm.clone(), b.clone()].concat(), [a.clone(), zm.clone()].concat()].iter().enumerate() {
                scen.push(("lzipr".into(), 1 + i as u32, hex(f), "end".into(), "lzip.crc_zero_member".into()));
                cmds.push(format!("mt_scan {}", hex(f)));
            }
        }
        // num_workers = 0 (the crate clamps the request into 1..=256): every type must still work
        {
            let m: Vec<u8> = [lzip_member(&payload(rng, 50)), lzip_member(&payload(rng, 70))].concat();
            scen.push(("lzipr".into(), 0, hex(&m), "end".into(), "workers0".into()));
            let u: Vec<u8> = [unit(rng), unit(rng)].concat().into_iter().chain(std::iter::once(0)).collect();
            scen.push(("lzma2r".into(), 0, hex(&u), "end".into(), "workers0".into()));
            for kind in ["lzma2w", "lzipw"] {
                scen.push((kind.into(), 0, format!("text:{}:w{}+f+w{}", rng.below(1 << 30), UNIT + 10, 100), "end".into(), "workers0".into()));
                scen.push((kind.into(), 0, format!("text:{}:w{}", rng.below(1 << 30), 50), "end".into(), "workers0".into()));
            }
        }

        // ---- writers ----
        // LZMA2WriterMT with a preset dictionary in its options and more than one work unit whose data
        // repeats the preset dictionary: every unit must still be self-contained
        for si in 0..(if thorough { 6 } else { 2 }) {
            let w = if si % 2 == 0 { 1 } else { 2 + rng.below(2) as u32 };
            let ops = if si % 2 == 0 { format!("w{}", 2 * UNIT + 100) } else { format!("w{}+w{}+f+w{}", UNIT, UNIT / 2, UNIT) };
            let spec = format!("text:{}:{}:p2048", rng.below(1 << 30), ops);
            scen.push(("lzma2w".into(), w, spec, "end".into(), "lzma2w.preset_dict".into()));
        }
        // back-pressure: one write of many units with few workers, so that the queue fills (>= 4 units
        // waiting) while every worker is busy - the number of worker threads must stay <= the limit
        for si in 0..(if thorough { 8 } else { 4 }) {
            let kind = if si % 2 == 0 { "lzma2w" } else { "lzipw" };
            let w = 1 + (si as u32 / 2) % 2;
            let nunits = 8 + rng.below(4) as usize;
            let spec = format!("constant:{}:w{}", rng.below(1 << 30), nunits * UNIT);
            // the schedule that reaches the condition for certain: the caller runs whenever it can, the
            // workers only when it is blocked (a model-step schedule of zeros, completed deterministically)
            // caller program for the model: one full-unit iteration of write()'s loop per unit, then finish
            cmds.push(format!("mt_sched {} {} {} end {} prog={},F", kind, w, spec, vec!["0"; 400].join(","), vec!["W"; nunits].join(",")));
            dist.bump("scenario.backpressure_caller_first");
            scen.push((kind.into(), w, spec, "end".into(), format!("{}.backpressure", kind)));
        }
        // a short write followed by one write of at least a whole unit (the staged bytes must go into the
        // same unit as the head of the big write: unit boundaries do not depend on the partition)
        for kind in ["lzma2w", "lzipw"] {
            for ops in [format!("w1+w{}", 2 * UNIT + 5), format!("w100+w{}", UNIT), format!("w{}+w{}+w7", UNIT - 1, 3 * UNIT)] {
                let w = 1 + rng.below(3) as u32;
                scen.push((kind.into(), w, format!("text:{}:{}", rng.below(1 << 30), ops), "end".into(), format!("{}.short_then_big_write", kind)));
            }
        }
        for si in 0..(if thorough { 24 } else { 8 }) {
            let kind = if si % 2 == 0 { "lzma2w" } else { "lzipw" };
            let w = 1 + rng.below(4) as u32;
            let n_ops = rng.below(5) as usize;
            let mut ops = Vec::new();
            for _ in 0..n_ops {
                if rng.chance(1, 4) {
                    ops.push("f".to_string());
                } else {
                    let n = match rng.below(4) {
                        0 => UNIT,
                        1 => UNIT + 1 + rng.below(50) as usize,
                        2 => 1 + rng.below(100) as usize,
                        _ => rng.below(3 * UNIT as u64) as usize,
                    };
                    ops.push(format!("w{}", n));
                }
            }
            let class = *rng.pick(&["text", "constant", "periodic", "runs"]);
            let spec = format!("{}:{}:{}", class, rng.below(1 << 30), if ops.is_empty() { "-".to_string() } else { ops.join("+") });
            scen.push((kind.into(), w, spec.clone(), "end".into(), format!("{}.finish", kind)));
            if !ops.is_empty() {
                let d = rng.below(ops.len() as u64 + 1) as usize;
                scen.push((kind.into(), w, spec, d.to_string(), format!("{}.dropped", kind)));
            }
        }

        // ---- schedules ----
        let per = if thorough { 60 } else { 7 };
        for (kind, w, input, dropa, label) in &scen {
            let d = parse_drop(dropa);
            let mut runs: Vec<(Run, &str)> = Vec::new();
            // the back-pressure condition needs the coordinator to run ahead of busy workers: more schedules
            let per = if label.ends_with("backpressure") { per * 4 } else { per };
            for i in 0..per {
                let seed = rng.next();
                if i % 3 == 2 {
                    runs.push((run_once(PctScheduler::new_from_seed(seed, 3, 1), kind, *w, input, d), "pct"));
                } else {
                    runs.push((run_once(RandomScheduler::new_from_seed(seed, 1), kind, *w, input, d), "random"));
                }
            }
            // exhaustive DFS where the state space is small: no data, one worker
            if (label == "empty" || (input.len() < 40 && *w == 1)) && kind.ends_with('r') {
                for r in run_many(DfsScheduler::new(Some(if thorough { 4000 } else { 150 }), false), kind, *w, input, d) {
                    runs.push((r, "dfs"));
                }
            }
            for (run, sk) in runs {
                let line = format!("mt {} {} {} {} {}", kind, w, input, dropa, trace_string(&run.events));
                if seen.insert(line.clone()) {
                    // A case must be replayable from its command line. The scripted scheduler only knows
                    // the order of the events, not of the silent yield points in between, and cannot
                    // reproduce every recorded execution (about 1 in 5000): those are counted and left
                    // out; a trace the MODEL does not accept is never dropped here.
                    if run.panic.is_none() {
                        let kinds: Vec<u32> = run.events.iter().map(|e| e.1).collect();
                        let script: Vec<usize> = run.events.iter().map(|e| e.0).collect();
                        let again = run_once(ScriptSched { script, kinds, started: false, per_step: false, pos: 0 }, kind, *w, input, d);
                        if again.events != run.events {
                            dist.bump("not_replayable_dropped");
                            continue;
                        }
                    }
                    dist.bump(&format!("scenario.{}", label));
                    dist.bump(&format!("scheduler.{}", sk));
                    dist.bump(&format!("workers.{}", w));
                    dist.bump(&format!("outcome.{}", outcome_string(kind, &run).split(' ').take(2).collect::<Vec<_>>().join("_")));
                    dist.add("events", run.events.len() as u64);
                    if run.events.iter().any(|e| e.1 == 13) && run.events.iter().filter(|e| e.1 == 10 && e.2 == 1).count() > 0 {
                        dist.bump("reordered_result_seen");
                    }
                    cmds.push(line);
                }
            }
        }

        // ---- unit cutting ----
        for _ in 0..(if thorough { 400 } else { 60 }) {
            let k = rng.below(6) as usize;
            let mut s: Vec<u8> = (0..k).map(|_| unit(rng)).collect::<Vec<_>>().concat();
            match rng.below(5) {
                0 => {}
                1 => {
                    let cut = rng.below(s.len() as u64 + 1) as usize;
                    s.truncate(cut)
                }
                2 => s.push(rng.next() as u8),
                _ => s.push(0),
            }
            dist.bump("cut.lzma2");
            cmds.push(format!("mt_cut {}", hex(&s)));
        }
        for _ in 0..(if thorough { 200 } else { 40 }) {
            let k = 1 + rng.below(4) as usize;
            let mut s: Vec<u8> = (0..k)
                .map(|_| {
                    let n = rng.below(100) as usize;
                    lzip_member(&payload(rng, n))
                })
                .collect::<Vec<_>>()
                .concat();
            match rng.below(6) {
                0 => {
                    let i = rng.below(s.len() as u64) as usize;
                    s[i] ^= 1 << rng.below(8);
                }
                1 => {
                    let cut = rng.below(s.len() as u64 + 1) as usize;
                    s.truncate(cut)
                }
                2 => {
                    let mut g: Vec<u8> = (0..rng.below(30)).map(|_| rng.next() as u8).collect();
                    g.extend_from_slice(&s);
                    s = g
                }
                _ => {}
            }
            dist.bump("cut.lzip");
            cmds.push(format!("mt_scan {}", hex(&s)));
            // hostile member tables: the member_size field (trailer bytes 12..19) of one member - the
            // last or an earlier one - set to a border value (0, below a header, off by one, the
            // whole file, beyond the file, huge)
            let members: Vec<Vec<u8>> = (0..1 + rng.below(4))
                .map(|_| {
                    let n = rng.below(60) as usize;
                    lzip_member(&payload(rng, n))
                })
                .collect();
            let j = rng.below(members.len() as u64) as usize;
            let total: u64 = members.iter().map(|m| m.len() as u64).sum();
            let own = members[j].len() as u64;
            let upto: u64 = members[..=j].iter().map(|m| m.len() as u64).sum();
            let v = *rng.pick(&[0u64, 0, 0, 1, 19, 20, 25, 26, own - 1, own + 1, upto, upto + 1, total, total + 1, 1 << 32, 1 << 63, u64::MAX]);
            let mut s = Vec::new();
            for (i, m) in members.iter().enumerate() {
                let mut m = m.clone();
                if i == j {
                    let l = m.len();
                    m[l - 8..].copy_from_slice(&v.to_le_bytes());
                }
                s.extend_from_slice(&m);
            }
            dist.bump(if v == 0 { "scan.member_size_zero" } else { "scan.member_size_border" });
            cmds.push(format!("mt_scan {}", hex(&s)));
        }
        cmds
    }

    /// unit cutting of LZMA2ReaderMT: number of units pushed to the queue, and whether the source
    /// ended (N) or failed / was empty (E), read off the events of one complete run
    pub fn exec_cut(a: &[&str]) -> (String, String) {
        let run = run_once(RandomScheduler::new_from_seed(1, 1), "lzma2r", 1, a[1], None);
        let obs = match (&run.panic, run.progress) {
            (None, 3) => {
                let pushes = run.events.iter().filter(|e| e.0 == 0 && e.1 == 19).count();
                let src_err = run.events.iter().any(|e| e.0 == 0 && e.1 == 60);
                format!("OK units={} src={}", pushes, if src_err { "E" } else { "N" })
            }
            _ => outcome_string("lzma2r", &run),
        };
        let mut v = oracle("lzma2r", 1, a[1], None, &run);
        // C18: for a well-formed stream the number of units the MT reader cuts (= chunk_count()) is the
        // number of independent units in the stream: chunks with control 0x01 or >= 0xE0 (the harness's
        // own walk over the chunk headers), the first chunk always starting one
        if v == "ok" {
            let b = unhex(a[1]);
            let (mut i, mut indep, mut chunks, mut well_formed) = (0usize, 0usize, 0usize, false);
            while i < b.len() {
                let c = b[i];
                if c == 0 {
                    well_formed = true;
                    break;
                }
                let len = if c >= 0x80 {
                    if i + 5 > b.len() { break; }
                    5 + (if c >= 0xC0 { 1 } else { 0 }) + ((b[i + 3] as usize) << 8 | b[i + 4] as usize) + 1
                } else if c <= 2 {
                    if i + 3 > b.len() { break; }
                    3 + ((b[i + 1] as usize) << 8 | b[i + 2] as usize) + 1
                } else {
                    break;
                };
                if i + len > b.len() { break; }
                if c == 1 || c >= 0xE0 || chunks == 0 {
                    indep += 1;
                }
                chunks += 1;
                i += len;
            }
            if well_formed && chunks > 0 {
                if let Some(n) = obs.strip_prefix("OK units=").and_then(|r| r.split(' ').next()).and_then(|x| x.parse::<usize>().ok()) {
                    if n != indep {
                        v = format!("FAIL the MT reader cut {} units, the stream has {} independent units", n, indep);
                    }
                }
            }
        }
        (obs, v)
    }

    /// scan_members of LZIPReaderMT (runs in new()): member_count() or the error kind
    pub fn exec_scan(a: &[&str]) -> (String, String) {
        let run = run_once(RandomScheduler::new_from_seed(1, 1), "lzipr", 1, a[1], Some(0));
        let obs = match (&run.panic, run.progress) {
            (None, 3) => {
                if let Some(c) = run.result.strip_prefix('E') {
                    format!("ERR {}", c)
                } else {
                    format!("OK {}", run.count)
                }
            }
            _ => outcome_string("lzipr", &run),
        };
        let v = if obs.starts_with("OK") || obs.starts_with("ERR") { "ok".to_string() } else { format!("FAIL scan: {}", obs) };
        (obs, v)
    }
}

// ------------------------------------------------------------------------------------------------
// guard off: the real thing on OS threads — supporting exploration only (one OS schedule per run)
// ------------------------------------------------------------------------------------------------
#[cfg(not(hasenbanck_lzma_rust2_verif))]
mod real {
    use super::*;
    use std::sync::mpsc;
    use std::time::{Duration, Instant};

    /// number of threads of this process (the harness's pool threads all exist before the first case
    /// starts: util::run_cases holds them at a barrier, so the base line of the census is stable)
    fn tasks() -> usize {
        std::fs::read_dir("/proc/self/task").map(|d| d.count()).unwrap_or(0)
    }

    /// mt_real <type> <workers> <input> <drop> <repeat>
    /// runs the scenario `repeat` times on std threads; wall-clock guard 600 s per run; thread census
    /// of the process before and (polling up to 120 s) after the last drop
    pub fn exec_real(a: &[&str]) -> (String, String) {
        let (kind, workers, input, dropa) = (a[1].to_string(), a[2].parse::<u32>().unwrap(), a[3].to_string(), a[4].to_string());
        let repeat: usize = a[5].parse().unwrap();
        // the census counts the threads of the whole process: one scenario at a time
        static ONE_AT_A_TIME: std::sync::Mutex<()> = std::sync::Mutex::new(());
        let _guard = ONE_AT_A_TIME.lock().unwrap_or_else(|e| e.into_inner());
        std::thread::sleep(Duration::from_millis(50));
        let before = tasks();
        let mut outcomes = std::collections::BTreeMap::new();
        let mut max_threads = 0usize;
        let mut verdict = String::from("ok");
        let mut max_over = 0usize;
        for _ in 0..repeat {
            // workers of the previous repetition may still be on their way out: they are part of this
            // repetition's base line (the peak above it can then only be under-estimated, never over-)
            let base_rep = tasks();
            let (tx, rx) = mpsc::channel();
            let (k, i, d) = (kind.clone(), input.clone(), dropa.clone());
            std::thread::Builder::new().name("lzv-runner".into()).spawn(move || {
                let r = one(&k, workers, &i, &d);
                let _ = tx.send(r);
            }).unwrap();
            let t0 = Instant::now();
            let res = loop {
                match rx.recv_timeout(Duration::from_millis(5)) {
                    Ok(r) => break Some(r),
                    Err(_) => {
                        let now = tasks();
                        max_threads = max_threads.max(now);
                        max_over = max_over.max(now.saturating_sub(base_rep + 1));
                        if t0.elapsed() > Duration::from_secs(600) {
                            break None;
                        }
                    }
                }
            };
            match res {
                Some((o, v)) => {
                    *outcomes.entry(o).or_insert(0usize) += 1;
                    if v != "ok" {
                        verdict = v;
                    }
                }
                None => {
                    *outcomes.entry("HANG".to_string()).or_insert(0) += 1;
                    verdict = "FAIL a call did not return within 600 s".into();
                    break;
                }
            }
        }
        if std::env::var("LZVERIF_SELFTEST_LEAK").is_ok() {
            // self-test of the census: an unnamed thread that never exits
            std::thread::spawn(|| std::thread::sleep(Duration::from_secs(3600)));
        }
        // released workers need to be scheduled to exit: wait up to 20 s (loaded machine) for the
        // census to come back to where it started
        // (a leaked worker sleeps on a condition variable for ever, so waiting long costs nothing on the
        // unchanged tree and keeps the verdict independent of how loaded the machine is)
        let mut after = tasks();
        for _ in 0..1200 {
            if after <= before {
                break;
            }
            std::thread::sleep(Duration::from_millis(100));
            after = tasks();
        }
        if verdict == "ok" && after > before {
            // name and scheduler state of every thread of the process, for the replay file
            let mut st = Vec::new();
            if let Ok(dir) = std::fs::read_dir("/proc/self/task") {
                for e in dir.flatten() {
                    let stat = std::fs::read_to_string(e.path().join("stat")).unwrap_or_default();
                    let f: Vec<&str> = stat.split_whitespace().collect();
                    if f.len() > 2 {
                        st.push(format!("{}{}", f[1], f[2]));
                    }
                }
            }
            verdict = format!("FAIL {} thread(s) still alive 120 s after the last drop [{}]", after - before, st.join(" "));
        }
        // threads of this process while running: harness pool + runner + workers; never more workers
        // than the caller allowed (the crate clamps the request into 1..=256)
        let limit = (workers as usize).clamp(1, 256);
        if verdict == "ok" && max_over > limit {
            verdict = format!("FAIL {} threads ran at the same time on top of those alive when the call started, the limit was {} workers", max_over, limit);
        }
        let o = outcomes.iter().map(|(k, v)| format!("{}x{}", k, v)).collect::<Vec<_>>().join(",");
        (format!("REAL {} leaked={}", o, after.saturating_sub(before)), verdict)
    }

    fn one(kind: &str, workers: u32, input: &str, dropa: &str) -> (String, String) {
        let drop_after: Option<usize> = if dropa == "end" { None } else { Some(dropa.parse().unwrap()) };
        match kind {
            "lziprm" => {
                // <input> = number of tiny members: a file with MORE members than the worker limit, read with a
                // worker count request far above the limit (the census of the run bounds the threads)
                let count: usize = input.parse().unwrap();
                let mut file = Vec::new();
                let mut all = Vec::new();
                for i in 0..count {
                    let d = format!("member {i} ").into_bytes();
                    file.extend_from_slice(&lzip_member(&d));
                    all.extend_from_slice(&d);
                }
                let mut out = Vec::new();
                return match LZIPReaderMT::new(std::io::Cursor::new(file), workers).and_then(|mut r| r.read_to_end(&mut out)) {
                    Ok(_) if out == all => ("N".into(), "ok".into()),
                    Ok(_) => ("N".into(), "FAIL MT differs from the members' contents".into()),
                    Err(e) => (format!("E{}", err_code(&e)), "FAIL MT reader rejects a valid file".into()),
                };
            }
            "lzma2r" | "lzipr" => {
                let (bytes, fail) = parse_input(input);
                let st = if kind == "lzma2r" { st_lzma2_decode(&bytes) } else { st_lzip_decode(&bytes) };
                let src = FailAfter { data: std::io::Cursor::new(bytes), limit: fail };
                let mut out = Vec::new();
                let mut result = String::from("P");
                let mut buf = vec![0u8; 1 << 16];
                let mut calls = 0;
                macro_rules! drive {
                    ($r:expr) => {{
                        loop {
                            if let Some(d) = drop_after {
                                if calls >= d {
                                    break;
                                }
                            }
                            calls += 1;
                            match $r.read(&mut buf) {
                                Ok(0) => {
                                    result = "N".into();
                                    break;
                                }
                                Ok(n) => out.extend_from_slice(&buf[..n]),
                                Err(e) => {
                                    result = format!("E{}", err_code(&e));
                                    break;
                                }
                            }
                        }
                    }};
                }
                if kind == "lzma2r" {
                    let mut r = LZMA2ReaderMT::new(src, DICT, None, workers);
                    drive!(r);
                } else {
                    match LZIPReaderMT::new(src, workers) {
                        Ok(mut r) => drive!(r),
                        Err(e) => result = format!("E{}", err_code(&e)),
                    }
                }
                let v = match (&st, result.as_str(), fail) {
                    (_, _, Some(_)) => "ok".to_string(),
                    (Outcome::Ok(d), "N", _) if *d == out => "ok".into(),
                    (Outcome::Ok(d), "P", _) if d.starts_with(&out) => "ok".into(),
                    (Outcome::Ok(_), _, _) => "FAIL MT differs from ST on a valid stream".into(),
                    (_, "N", _) => "FAIL MT reported success on a stream ST rejects".into(),
                    _ => "ok".into(),
                };
                (result, v)
            }
            _ => {
                let plan = parse_writer(input);
                let mut pos = 0;
                let mut result = String::from("N");
                macro_rules! drive {
                    ($w:expr) => {{
                        let mut w = $w;
                        let mut done = 0;
                        let mut early = false;
                        for o in &plan.ops {
                            if let Some(d) = drop_after {
                                if done >= d {
                                    early = true;
                                    break;
                                }
                            }
                            done += 1;
                            let r = match o {
                                Some(n) => {
                                    let r = w.write_all(&plan.data[pos..pos + n]);
                                    pos += n;
                                    r
                                }
                                None => w.flush(),
                            };
                            if let Err(e) = r {
                                result = format!("E{}", err_code(&e));
                                early = true;
                                break;
                            }
                        }
                        if early {
                            if result == "N" {
                                result = "P".into();
                            }
                            None
                        } else {
                            match w.finish() {
                                Ok(v) => Some(v),
                                Err(e) => {
                                    result = format!("E{}", err_code(&e));
                                    None
                                }
                            }
                        }
                    }};
                }
                if kind == "lzma2wf" || kind == "lzipwf" {
                    // a sink that takes every byte but whose flush() fails: finish() must report the error, and the
                    // writer dropped afterwards must still release all its workers (the census after the run)
                    struct FlushFails(Vec<u8>);
                    impl Write for FlushFails {
                        fn write(&mut self, b: &[u8]) -> std::io::Result<usize> {
                            self.0.extend_from_slice(b);
                            Ok(b.len())
                        }
                        fn flush(&mut self) -> std::io::Result<()> {
                            Err(std::io::Error::new(std::io::ErrorKind::Other, "flush fails"))
                        }
                    }
                    let r = if kind == "lzma2wf" {
                        let mut opt = LZMA2Options::with_preset(1);
                        opt.lzma_options.dict_size = DICT;
                        opt.set_chunk_size(NonZeroU64::new(UNIT as u64));
                        let mut w = LZMA2WriterMT::new(FlushFails(Vec::new()), opt, workers).unwrap();
                        let _ = w.write_all(&plan.data);
                        w.finish().map(|_| ())
                    } else {
                        let mut opt = LZIPOptions::with_preset(1);
                        opt.lzma_options.dict_size = DICT;
                        opt.set_member_size(NonZeroU64::new(UNIT as u64));
                        let mut w = LZIPWriterMT::new(FlushFails(Vec::new()), opt, workers).unwrap();
                        let _ = w.write_all(&plan.data);
                        w.finish().map(|_| ())
                    };
                    return match r {
                        Ok(()) => ("N".into(), "FAIL the sink's flush error was swallowed by finish()".into()),
                        Err(e) => (format!("E{}", err_code(&e)), "ok".into()),
                    };
                }
                let out = if kind == "lzma2w" {
                    let mut opt = LZMA2Options::with_preset(1);
                    opt.lzma_options.dict_size = DICT;
                    opt.set_chunk_size(NonZeroU64::new(UNIT as u64));
                    drive!(LZMA2WriterMT::new(Vec::new(), opt, workers).unwrap())
                } else {
                    let mut opt = LZIPOptions::with_preset(1);
                    opt.lzma_options.dict_size = DICT;
                    opt.set_member_size(NonZeroU64::new(UNIT as u64));
                    drive!(LZIPWriterMT::new(Vec::new(), opt, workers).unwrap())
                };
                let v = match out {
                    Some(o) => {
                        let expect = expected_writer_output(kind, &plan, plan.ops.len(), true);
                        if o == expect {
                            "ok".to_string()
                        } else {
                            "FAIL MT output differs from the per-unit single-threaded encoding".into()
                        }
                    }
                    None => {
                        if result.starts_with('E') {
                            "FAIL writer error on a perfect sink".into()
                        } else {
                            "ok".into()
                        }
                    }
                };
                (result, v)
            }
        }
    }
}

pub fn gen(rng: &mut Rng, tier: &str, dist: &mut Dist) -> Vec<String> {
    #[cfg(hasenbanck_lzma_rust2_verif)]
    {
        sh::gen(rng, tier, dist)
    }
    #[cfg(not(hasenbanck_lzma_rust2_verif))]
    {
        let _ = (rng, tier, dist);
        Vec::new()
    }
}

pub fn exec(a: &[&str]) -> (String, String) {
    #[cfg(hasenbanck_lzma_rust2_verif)]
    {
        match a[0] {
            "mt" => sh::exec_mt(a),
            "mt_sched" => sh::exec_sched(a),
            "mt_cut" => sh::exec_cut(a),
            "mt_scan" => sh::exec_scan(a),
            _ => ("NOCMD".into(), "FAIL unknown command (mt_real needs a guard-off build)".into()),
        }
    }
    #[cfg(not(hasenbanck_lzma_rust2_verif))]
    {
        match a[0] {
            "mt_real" => real::exec_real(a),
            _ => ("NOCMD".into(), "FAIL this command needs the verification hooks".into()),
        }
    }
}

pub const AREA: Area = Area { name: "mt", gen, exec };
