//! Area "options" (C19): every value a caller can put into the public option structs either makes
//! constructing / writing / finishing return an error, or yields a stream that the corresponding
//! reader decodes to the written bytes; never a panic.
//!
//!   opt <ck> <kind> <dict> <lc> <lp> <pb> <mode> <mf> <nice_len> <depth> <preset> <filters> <data> <len>
//!     kind    1 = LZMAWriter::new_use_header(None)   2 = LZMAWriter::new_no_header(end marker)
//!             3 = LZMA2Writer::new                   4 = XZWriter::new          5 = LZIPWriter::new
//!     preset  -  = None, e = Some(empty), p<N> = Some(N bytes)
//!     filters .  = none, otherwise comma separated <name>:<property> (XZ only), names
//!             delta x86 ppc ia64 arm armthumb sparc arm64 riscv
//!     data    0 = compressible, 1 = random; <len> bytes, written with one write_all
//! Observation: "OK" | "ERR <code> <stage new|write|finish>" | "PANIC <stage>".
//! Oracle (the property itself, on the implementation): Err, or the produced stream decodes with
//! the crate's own reader (same preset dictionary, same dictionary size) to the input; no panic.
use crate::util::*;
use lzma_rust2::{
    EncodeMode, LZIPOptions, LZIPReader, LZIPWriter, LZMA2Options, LZMA2Reader, LZMA2Writer, LZMAOptions, LZMAReader, LZMAWriter, MFType,
    XZOptions, XZReader, XZWriter,
};
#[cfg(hasenbanck_lzma_rust2_verif)]
use lzma_rust2::{FilterConfig, FilterType};
use std::io::{Read, Write};

fn p<T: std::str::FromStr>(s: &str) -> T
where
    T::Err: std::fmt::Debug,
{
    s.parse().unwrap()
}

pub fn checked_profile() -> bool {
    std::panic::catch_unwind(|| {
        let a: u8 = std::hint::black_box(255);
        let _ = std::hint::black_box(a + std::hint::black_box(1));
    })
    .is_err()
}

fn data_of(kind: u32, len: usize) -> Vec<u8> {
    let mut rng = Rng::new(len as u64 * 2 + kind as u64 + 77);
    gen_data_len(&mut rng, if kind == 0 { "text" } else { "random" }, len)
}

fn preset_of(s: &str) -> Option<Vec<u8>> {
    match s {
        "-" => None,
        "e" => Some(Vec::new()),
        _ => {
            let n: usize = p(&s[1..]);
            let mut rng = Rng::new(n as u64 + 4242);
            Some(gen_data_len(&mut rng, "text", n))
        }
    }
}

#[cfg(hasenbanck_lzma_rust2_verif)]
fn filter_of(s: &str) -> FilterConfig {
    let (name, prop) = s.split_once(':').unwrap();
    let property: u32 = p(prop);
    let filter_type = match name {
        "delta" => FilterType::Delta,
        "x86" => FilterType::BcjX86,
        "ppc" => FilterType::BcjPPC,
        "ia64" => FilterType::BcjIA64,
        "arm" => FilterType::BcjARM,
        "armthumb" => FilterType::BcjARMThumb,
        "sparc" => FilterType::BcjSPARC,
        "arm64" => FilterType::BcjARM64,
        "riscv" => FilterType::BcjRISCV,
        _ => panic!("unknown filter {name}"),
    };
    FilterConfig { filter_type, property }
}

enum Res {
    Ok(Vec<u8>),
    Err(u32, &'static str),
    Panic(&'static str, String),
}

/// runs the three stages separately so that the observation names the stage that failed
fn run3<W>(new: impl FnOnce() -> std::io::Result<W>, write: impl FnOnce(&mut W) -> std::io::Result<()>, finish: impl FnOnce(W) -> std::io::Result<Vec<u8>>) -> Res {
    let mut w = match guarded(new) {
        Outcome::Ok(w) => w,
        Outcome::Err(c) => return Res::Err(c, "new"),
        Outcome::Panic(m) => return Res::Panic("new", m),
    };
    match guarded(|| write(&mut w)) {
        Outcome::Ok(()) => {}
        Outcome::Err(c) => return Res::Err(c, "write"),
        Outcome::Panic(m) => return Res::Panic("write", m),
    }
    match guarded(|| finish(w)) {
        Outcome::Ok(v) => Res::Ok(v),
        Outcome::Err(c) => Res::Err(c, "finish"),
        Outcome::Panic(m) => Res::Panic("finish", m),
    }
}

fn read_all<R: Read>(mut r: R, cap: usize) -> std::io::Result<Vec<u8>> {
    let mut out = Vec::new();
    let mut buf = vec![0u8; 8192];
    loop {
        let n = r.read(&mut buf)?;
        if n == 0 {
            return Ok(out);
        }
        out.extend_from_slice(&buf[..n]);
        if out.len() > cap {
            return Err(std::io::Error::other("output exceeds cap"));
        }
    }
}

#[derive(Clone)]
struct Case {
    dict: u32,
    lc: u32,
    lp: u32,
    pb: u32,
    mode: u32,
    mf: u32,
    nice: u32,
    depth: i32,
    preset: &'static str,
    filters: String,
}

fn base_case() -> Case {
    Case { dict: 65536, lc: 3, lp: 0, pb: 2, mode: 0, mf: 0, nice: 32, depth: 0, preset: "-", filters: ".".into() }
}

fn in_range(kind: u32, c: &Case) -> bool {
    let lzma2 = kind == 3 || kind == 4;
    let (lc, lp, pb, dict) = if kind == 5 { (3, 0, 2, c.dict.clamp(4096, 1 << 29)) } else { (c.lc, c.lp, c.pb, c.dict) };
    lc <= 8 && lp <= 4 && pb <= 4 && (!lzma2 || lc + lp <= 4) && (4096..=768 << 20).contains(&dict) && (8..=273).contains(&c.nice)
}

const DICTS: &[u32] = &[0, 1, 2, 4095, 4096, 4097, 5000, 65535, 65536, 1 << 20, (1 << 20) + 1, (768 << 20) + 1, 1 << 30, 0x7FFF_FFFF, 0x8000_0000, 0xFFFF_FFF0, u32::MAX];
const LCS: &[u32] = &[0, 1, 4, 5, 8, 9, 31, 32, 33, 64, u32::MAX];
const LPS: &[u32] = &[0, 1, 4, 5, 31, 32, 33, 64, u32::MAX];
const PBS: &[u32] = &[0, 1, 4, 5, 6, 31, 32, 33, 64, u32::MAX];
const NICES: &[u32] = &[0, 1, 2, 3, 7, 8, 9, 272, 273, 274, 1000, 0x8000_0000, u32::MAX];
const DEPTHS: &[i32] = &[i32::MIN, -1, 0, 1, 1000, i32::MAX];
const PRESETS: &[&str] = &["-", "e", "p1", "p100", "p5000", "p70000"];
const FILTERS: &[&str] = &[
    "delta:0", "delta:1", "delta:2", "delta:255", "delta:256", "delta:257", "delta:512", "delta:4294967295", "x86:0", "x86:1", "x86:4294967295",
    "arm:0", "arm:4", "arm:2", "arm:1", "arm:4294967292", "ia64:16", "ia64:8", "ia64:4", "armthumb:2", "armthumb:1", "riscv:2", "riscv:3", "ppc:4", "ppc:6",
    "sparc:4", "sparc:5", "arm64:4", "arm64:7", "delta:1,delta:2,delta:3", "delta:1,delta:2,delta:3,delta:4", "x86:0,delta:4", "x86:0,arm:2,delta:1",
    "delta:1,x86:0,arm:4,delta:0", "delta:300,delta:1",
];
const INPUTS: &[(u32, usize)] = &[(0, 0), (0, 1), (0, 20), (0, 3000), (1, 3000), (0, 70000)];

pub fn gen(rng: &mut Rng, tier: &str, dist: &mut Dist) -> Vec<String> {
    let thorough = tier == "thorough";
    let ck = checked_profile() as u32;
    let mut cmds: Vec<String> = Vec::new();
    let mut emit = |kind: u32, c: &Case, dk: u32, len: usize, dist: &mut Dist, tag: &str| {
        cmds.push(format!("opt {ck} {kind} {} {} {} {} {} {} {} {} {} {} {dk} {len}", c.dict, c.lc, c.lp, c.pb, c.mode, c.mf, c.nice, c.depth, c.preset, c.filters));
        dist.bump(&format!("kind{kind}.{}", if in_range(kind, c) && (c.preset == "-" || kind == 2 || kind == 3) && c.filters == "." { "in_range" } else { "other" }));
        dist.bump(&format!("vary.{tag}"));
    };
    // large valid dictionaries: the tables (several GiB for 768 MiB; LZIP clamps every larger request
    // to a real 512 MiB dictionary) are cleared eagerly, 40 s each - thorough tier only; quick
    // stays at 64 MiB on the valid side (the invalid side 768 MiB + 1 is in the grid)
    emit(2, &Case { dict: 64 << 20, ..base_case() }, 0, 20, dist, "dict");
    emit(3, &Case { dict: 64 << 20, mf: 1, ..base_case() }, 0, 20, dist, "dict");
    // (in the release profile only: with debug assertions the eager clearing of the tables alone takes
    // minutes; these cases run one at a time, see exec)
    if thorough && ck == 0 {
        emit(2, &Case { dict: 768 << 20, ..base_case() }, 0, 20, dist, "dict");
        emit(5, &Case { dict: u32::MAX, ..base_case() }, 0, 20, dist, "dict");
        emit(3, &Case { dict: 768 << 20, mf: 1, ..base_case() }, 0, 20, dist, "dict");
    }
    for kind in 1..=5u32 {
        for &(dk, len) in INPUTS {
            let b = base_case();
            emit(kind, &b, dk, len, dist, "base");
            // one field at a time over its boundary values
            for &v in DICTS {
                // LZIPWriter clamps every larger request to a real 512 MiB dictionary (2.5 GiB of
                // tables that are cleared eagerly): exercised twice, with a small input, below
                if kind == 5 && v > 1 << 22 {
                    continue;
                }
                emit(kind, &Case { dict: v, ..b.clone() }, dk, len, dist, "dict");
            }
            for &v in LCS {
                emit(kind, &Case { lc: v, ..b.clone() }, dk, len, dist, "lc");
            }
            for &v in LPS {
                emit(kind, &Case { lp: v, lc: 0, ..b.clone() }, dk, len, dist, "lp");
                emit(kind, &Case { lp: v, ..b.clone() }, dk, len, dist, "lp");
            }
            for &v in PBS {
                emit(kind, &Case { pb: v, ..b.clone() }, dk, len, dist, "pb");
            }
            for (lc, lp) in [(4u32, 0u32), (3, 1), (4, 1), (2, 2), (0, 4), (1, 4), (8, 4), (8, 0), (5, 0), (9, 5)] {
                emit(kind, &Case { lc, lp, ..b.clone() }, dk, len, dist, "lc+lp");
            }
            for &v in NICES {
                emit(kind, &Case { nice: v, ..b.clone() }, dk, len, dist, "nice_len");
                emit(kind, &Case { nice: v, mode: 1, mf: 1, ..b.clone() }, dk, len, dist, "nice_len");
            }
            for &v in DEPTHS {
                // a huge depth limit makes the match finders walk chains of up to dict_size entries per
                // position: exercised with inputs up to 3000 bytes only (time, not behaviour)
                if v > 1 && len > 3000 {
                    continue;
                }
                emit(kind, &Case { depth: v, ..b.clone() }, dk, len, dist, "depth");
                emit(kind, &Case { depth: v, mf: 1, mode: 1, ..b.clone() }, dk, len, dist, "depth");
            }
            for &v in PRESETS {
                emit(kind, &Case { preset: v, ..b.clone() }, dk, len, dist, "preset");
                emit(kind, &Case { preset: v, dict: 4096, ..b.clone() }, dk, len, dist, "preset");
            }
            for (mode, mf) in [(0u32, 1u32), (1, 0), (1, 1)] {
                emit(kind, &Case { mode, mf, ..b.clone() }, dk, len, dist, "mode_mf");
            }
            if kind == 4 {
                for &f in FILTERS {
                    emit(kind, &Case { filters: f.to_string(), ..b.clone() }, dk, len, dist, "filters");
                }
            }
        }
    }
    // random combinations of boundary values
    let n = if thorough { 20000 } else { 2500 };
    for _ in 0..n {
        let kind = rng.range(1, 5) as u32;
        let mut c = base_case();
        for _ in 0..rng.range(1, 4) {
            match rng.below(9) {
                0 => c.dict = *rng.pick(DICTS),
                1 => c.lc = *rng.pick(LCS),
                2 => c.lp = *rng.pick(LPS),
                3 => c.pb = *rng.pick(PBS),
                4 => c.nice = *rng.pick(NICES),
                5 => c.depth = *rng.pick(DEPTHS),
                6 => c.preset = *rng.pick(PRESETS),
                7 => {
                    c.mode = rng.below(2) as u32;
                    c.mf = rng.below(2) as u32;
                }
                _ => {
                    if kind == 4 {
                        c.filters = rng.pick(FILTERS).to_string()
                    } else {
                        c.dict = rng.range(4096, 1 << 22) as u32
                    }
                }
            }
        }
        // random in-range interior values now and then
        if rng.chance(1, 3) {
            c.lc = rng.below(5) as u32;
            c.lp = rng.below(5 - c.lc as u64) as u32;
            c.pb = rng.below(5) as u32;
            c.nice = rng.range(8, 273) as u32;
        }
        if c.dict > 1 << 22 && (c.dict <= 768 << 20 || kind == 5) {
            c.dict = 1 << 22;
        }
        let (dk, mut len) = *rng.pick(INPUTS);
        if c.depth > 1 && len > 3000 {
            len = 3000;
        }
        emit(kind, &c, dk, len, dist, "random");
    }
    cmds
}

/// dictionary sizes above the documented encoder maximum are rejected before anything is allocated
const ENC_DICT_MAX_GATE: u32 = 768 << 20;

pub fn exec(a: &[&str]) -> (String, String) {
    if a[0] != "opt" || a.len() < 15 {
        return ("NOCMD".into(), "FAIL unknown command".into());
    }
    if a[1] != (checked_profile() as u32).to_string() {
        return ("PROFILE-MISMATCH".into(), "FAIL the command line was generated for the other build profile".into());
    }
    let kind: u32 = p(a[2]);
    let (dict, lc, lp, pb): (u32, u32, u32, u32) = (p(a[3]), p(a[4]), p(a[5]), p(a[6]));
    let (mode, mf, nice, depth): (u32, u32, u32, i32) = (p(a[7]), p(a[8]), p(a[9]), p(a[10]));
    let preset = preset_of(a[11]);
    let filters = a[12];
    let data = data_of(p(a[13]), p(a[14]));
    let mut o = LZMAOptions::new(
        dict,
        lc,
        lp,
        pb,
        if mode == 0 { EncodeMode::Fast } else { EncodeMode::Normal },
        nice,
        if mf == 0 { MFType::HC4 } else { MFType::BT4 },
        depth,
    );
    o.preset_dict = preset.clone();
    // An encoder for a dictionary of hundreds of MiB touches several GiB of tables: sixteen of them at
    // once exceed the machine's memory and the page-fault / reclaim work then counts as the case's
    // CPU time.  Such cases run one at a time (waiting costs no CPU time, the verdict stays
    // independent of what else is running).
    static HUGE: std::sync::Mutex<()> = std::sync::Mutex::new(());
    let _huge = if (128u32 << 20..=ENC_DICT_MAX_GATE).contains(&dict) || (kind == 5 && dict >= 128 << 20) { Some(HUGE.lock().unwrap_or_else(|e| e.into_inner())) } else { None };
    let cap = data.len() + 1024;
    let res = match kind {
        1 => run3(|| LZMAWriter::new_use_header(Vec::new(), &o, None), |w| w.write_all(&data), |w| w.finish()),
        2 => run3(|| LZMAWriter::new_no_header(Vec::new(), &o, true), |w| w.write_all(&data), |w| w.finish()),
        3 => run3(|| Ok(LZMA2Writer::new(Vec::new(), LZMA2Options { lzma_options: o.clone(), chunk_size: None })), |w| w.write_all(&data), |w| w.finish()),
        4 => {
            let mut xo = XZOptions::with_preset(0);
            xo.lzma_options = o.clone();
            #[cfg(hasenbanck_lzma_rust2_verif)]
            if filters != "." {
                xo.filters = filters.split(',').map(filter_of).collect();
            }
            #[cfg(not(hasenbanck_lzma_rust2_verif))]
            if filters != "." {
                return ("NOHOOK".into(), "FAIL harness built without the re-export hook".into());
            }
            run3(|| XZWriter::new(Vec::new(), xo), |w| w.write_all(&data), |w| w.finish())
        }
        5 => run3(|| Ok(LZIPWriter::new(Vec::new(), LZIPOptions { lzma_options: o.clone(), member_size: None })), |w| w.write_all(&data), |w| w.finish()),
        _ => return ("BADKIND".into(), "FAIL bad kind".into()),
    };
    match res {
        Res::Err(c, stage) => (format!("ERR {c} {stage}"), "ok".into()),
        Res::Panic(stage, m) => (format!("PANIC {stage}"), format!("FAIL writer panics in {stage}: {}", &m[..m.len().min(120)])),
        Res::Ok(stream) => {
            // decode with the corresponding reader, given the same parameters
            let pd = preset.as_deref();
            let dec = guarded(|| match kind {
                1 => read_all(LZMAReader::new_mem_limit(&stream[..], u32::MAX, None)?, cap),
                2 => read_all(LZMAReader::new(&stream[..], u64::MAX, lc, lp, pb, dict, pd)?, cap),
                3 => read_all(LZMA2Reader::new(&stream[..], dict, pd), cap),
                4 => read_all(XZReader::new(&stream[..], false), cap),
                _ => read_all(LZIPReader::new(&stream[..])?, cap),
            });
            let v = match dec {
                Outcome::Ok(d) if d == data => "ok".to_string(),
                Outcome::Ok(d) => format!("FAIL stream decodes to different data ({} bytes instead of {})", d.len(), data.len()),
                Outcome::Err(c) => format!("FAIL writer reported success but the reader rejects the stream (error {c})"),
                Outcome::Panic(m) => format!("FAIL writer reported success but the reader panics: {}", &m[..m.len().min(100)]),
            };
            ("OK".into(), v)
        }
    }
}

pub const AREA: Area = Area { name: "options", gen, exec };
