// Collects every src/a_*.rs as an area module:  mod a_x;  and  AREAS = [a_x::AREA, ...].
use std::{env, fs, path::Path};
fn main() {
    let mut names: Vec<String> = fs::read_dir("src")
        .unwrap()
        .filter_map(|e| {
            let n = e.unwrap().file_name().into_string().unwrap();
            if n.starts_with("a_") && n.ends_with(".rs") { Some(n[..n.len() - 3].to_string()) } else { None }
        })
        .collect();
    names.sort();
    // without the verification hooks (guard-off build: only the real-thread part of area mt is
    // used) the areas that need hook re-exports of the crate are left out
    let hooks_on = env::var("CARGO_ENCODED_RUSTFLAGS").map(|f| f.contains("hasenbanck_lzma_rust2_verif")).unwrap_or(false);
    if !hooks_on {
        names.retain(|n| !fs::read_to_string(format!("src/{}.rs", n)).unwrap().contains("// requires-verif-hooks"));
    }
    let src = fs::canonicalize("src").unwrap();
    let mut s = String::new();
    for n in &names {
        s += &format!("#[path = \"{}/{}.rs\"]\npub mod {};\n", src.display(), n, n);
    }
    s += "pub const AREAS: &[crate::util::Area] = &[";
    for n in &names {
        s += &format!("{}::AREA, ", n);
    }
    s += "];\n";
    fs::write(Path::new(&env::var("OUT_DIR").unwrap()).join("areas_gen.rs"), s).unwrap();
    println!("cargo:rerun-if-changed=src");
    println!("cargo:rerun-if-env-changed=CARGO_ENCODED_RUSTFLAGS");
    println!("cargo:rustc-check-cfg=cfg(hasenbanck_lzma_rust2_verif)");
}
