#!/bin/bash
# tools/try_mutant.sh <mutant-dir> <Cxx> [<Cyy> ...]
# Applies <mutant-dir>/patch.diff to /repo, runs the given checks (quick), prints their verdicts,
# and restores /repo.  The mutant is never committed.
set -u
M="$1"; shift
cd /repo || exit 2
if ! git diff --quiet; then echo "/repo has uncommitted changes"; exit 2; fi
if ! git apply --check "$M/patch.diff" 2>/dev/null; then echo "PATCH DOES NOT APPLY on $(git log --format=%h -1)"; exit 3; fi
git apply "$M/patch.diff"
# the evidence files describe runs on the unchanged tree: keep them out of the mutant runs
EVBAK=$(mktemp -d /tmp/evbak.XXXXXX); cp /verif/evidence/*.json "$EVBAK"/ 2>/dev/null
trap 'git -C /repo checkout -- . ; git -C /repo clean -fdq -e target; cp "$EVBAK"/*.json /verif/evidence/ 2>/dev/null; rm -rf "$EVBAK"' EXIT
cd /verif
for c in "$@"; do
  out=$(timeout 3000 ./check "$c" quick 2>&1); rc=$?
  echo "== $c rc=$rc"
  echo "$out" | grep -E "VIOLATION|KNOWN-FINDING|area .*differences|proofs:" | sed 's/^/   /'
done
