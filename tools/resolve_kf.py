#!/usr/bin/env python3
"""Resolves a merge conflict in known-findings.txt by keeping every distinct line of both sides."""
out, seen = [], set()
for l in open('/verif/known-findings.txt').read().splitlines():
    if l.startswith(('<<<<<<<', '=======', '>>>>>>>')):
        continue
    k = l.strip()
    if k and k in seen:
        continue
    seen.add(k)
    out.append(l)
open('/verif/known-findings.txt', 'w').write("\n".join(out) + "\n")
