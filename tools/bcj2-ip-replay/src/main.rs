// Replay of C11_bcj2_ip_checked_add_refuted on the real code: decode more than 4 GiB through BCJ2Reader
// in a build with overflow checks.  MAIN = n zero bytes (no candidates), RC = five zero bytes.
use lzma_rust2::filter::bcj2::BCJ2Reader;
use std::io::Read;

struct Zeros(u64);
impl Read for Zeros {
    fn read(&mut self, buf: &mut [u8]) -> std::io::Result<usize> {
        let n = (buf.len() as u64).min(self.0) as usize;
        for b in &mut buf[..n] { *b = 0; }
        self.0 -= n as u64;
        Ok(n)
    }
}
enum In { Z(Zeros), B(std::io::Cursor<Vec<u8>>) }
impl Read for In {
    fn read(&mut self, buf: &mut [u8]) -> std::io::Result<usize> {
        match self { In::Z(z) => z.read(buf), In::B(c) => c.read(buf) }
    }
}
fn main() {
    let n: u64 = (1u64 << 32) + 16;
    let inputs = vec![In::Z(Zeros(n)), In::B(Default::default()), In::B(Default::default()), In::B(std::io::Cursor::new(vec![0u8; 5]))];
    let mut r = BCJ2Reader::new(inputs, n);
    let mut buf = vec![0u8; 1 << 20];
    let mut total = 0u64;
    loop {
        match r.read(&mut buf) {
            Ok(0) => break,
            Ok(k) => total += k as u64,
            Err(e) => { println!("error after {total} bytes: {e}"); return; }
        }
    }
    println!("decoded {total} bytes without panic");
}
