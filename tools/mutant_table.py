#!/usr/bin/env python3
"""Prints the markdown table of DESIGN.md §12.4 from seeded/*/meta.json."""
import json, glob, os
rows = []
for d in sorted(glob.glob("/verif/seeded/*/")):
    if d.rstrip("/").endswith("pending"):
        continue
    m = json.load(open(d + "meta.json"))
    def cell(x, n):
        x = " ".join(str(x).split()).replace("|", "/")
        return x if len(x) <= n else x[: n - 1] + "…"
    rows.append(f"| {os.path.basename(d.rstrip('/'))} | {m.get('property', '')} | {cell(m.get('needs', ''), 230)} | {cell(m.get('checks', ''), 420)} |")
print("| mutant | breaks | needs | result of the checks |\n|---|---|---|---|")
print("\n".join(rows))
