#!/bin/bash
# tools/keep_mutant.sh <mutant-dir> <id> "<caught by ...>"  — copies a confirmed mutant into /verif/seeded/<id>/
M="$1"; ID="$2"; CAUGHT="$3"
D=/verif/seeded/$ID
mkdir -p "$D"
cp "$M/patch.diff" "$M/demo.rs" "$D/"
[ -f "$M/HOWTO.txt" ] && cp "$M/HOWTO.txt" "$D/"
python3 - "$M/meta.json" "$D/meta.json" "$CAUGHT" <<'PY'
import json, sys
m = json.load(open(sys.argv[1]))
m["confirmed_by_me"] = "tools/confirm_mutant.sh: demo passes on the clean tree, crate builds and `cargo test --offline --lib` passes with the patch, demo fails with the patch"
m["checks"] = sys.argv[3]
json.dump(m, open(sys.argv[2], "w"), indent=1)
PY
echo kept $D
