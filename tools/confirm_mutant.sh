#!/bin/bash
# tools/confirm_mutant.sh <mutant-dir> <scratch-worktree>
# Confirms in a scratch worktree of /repo that the demo passes without the patch, the crate builds
# and its lib tests pass with the patch, and the demo fails with it.
set -u
M="$1"; W="$2"
cd "$W" || exit 2
git checkout -q -- . ; git clean -fdq -e target -e deliver
git checkout -q --detach "$(git -C /repo rev-parse HEAD)" 2>/dev/null
name=$(basename "$M" | tr -c 'a-zA-Z0-9\n' '_')
cp "$M/demo.rs" "tests/zz_demo_$name.rs"
echo "-- clean tree: demo"; timeout 1500 cargo test --offline --test "zz_demo_$name" 2>&1 | grep -E "^test result|error(\[|:)|panicked" | head -5
git apply --check "$M/patch.diff" || { echo "PATCH DOES NOT APPLY"; exit 3; }
git apply "$M/patch.diff"
echo "-- patched tree: lib tests"; timeout 1500 cargo test --offline --lib 2>&1 | grep -E "^test result|^error" | head -3
echo "-- patched tree: demo"; timeout 1500 cargo test --offline --test "zz_demo_$name" 2>&1 | grep -E "^test result|error(\[|:)|panicked" | head -5
git checkout -q -- . ; git clean -fdq -e target -e deliver
