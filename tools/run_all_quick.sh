#!/bin/bash
# tools/run_all_quick.sh — runs every claimed quick check on the unchanged tree, one after the other,
# and prints one summary line per property (the evidence files are rewritten by the runs).
cd /verif
for c in $(python3 -c "import json; print(' '.join(x['property_id'] for x in json.load(open('MANIFEST.json'))['checks']))"); do
  s=$(date +%s); out=$(timeout 3000 ./check $c quick 2>&1); rc=$?
  echo "$c rc=$rc $(( $(date +%s) - s ))s $(echo "$out" | grep -E 'VIOLATION|done:' | tr '\n' ' ' | cut -c1-200)"
done
