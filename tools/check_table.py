#!/usr/bin/env python3
"""Prints the markdown table of DESIGN.md §12.5 (what each check consists of) from lib/props/Cxx.py."""
import sys, importlib, json
sys.path.insert(0, "/verif/lib")
ev = {}
print("| property | property files (Coq) | theorems | areas run against /repo | profiles / configurations | known findings |")
print("|---|---|---|---|---|---|")
kf = {}
for l in open("/verif/known-findings.txt"):
    if l.startswith("known:"):
        p = l.split("property=")[1].split()[0]; i = l.split("id=")[1].split()[0]
        kf.setdefault(p, []).append(i)
for n in range(1, 20):
    c = f"C{n:02d}"
    cfg = importlib.import_module(f"props.{c}").CFG
    coq = cfg["coq"] if isinstance(cfg["coq"], list) else [cfg["coq"]]
    prof = list(cfg.get("profiles", ["release"]))
    extra = [h.__name__ for h in cfg.get("extra", [])]
    if "run_noopt" in extra: prof.append("std without optimization")
    if "run_nostd" in extra: prof.append("no_std with/without optimization")
    if "real_thread_run" in extra: prof.append("real OS threads (guard off, supporting)")
    print(f"| {c} | {', '.join(x.replace('Properties/', '') for x in coq)} | {len(cfg['theorems_expected'])} | {', '.join(cfg['areas'])} | {', '.join(prof)} | {', '.join(kf.get(c, [])) or '-'} |")
