#!/bin/sh
# One-time offline build of the framework: Coq development (full .vo), extracted model driver,
# Rust harness against /repo's current working tree.  Everything lands under /verif/build.
set -e
cd "$(dirname "$0")"
export CARGO_NET_OFFLINE=true CARGO_TARGET_DIR="$(pwd)/build/cargo"
mkdir -p build evidence replays
python3 -c "import sys; sys.path.insert(0, \"lib\"); import framework; framework.ensure_makefile()"
( cd coq && timeout 7200 make -j16 2>&1 | grep -v '^WARNING conda' | tail -5 )
timeout 3000 ./driver/build.sh
( cd harness && RUSTFLAGS="--cfg hasenbanck_lzma_rust2_verif" timeout 3000 cargo build --offline --release 2>&1 | tail -2 )
# the overflow-checked profile (C11, C13, C17, C19)
( cd harness && RUSTFLAGS="--cfg hasenbanck_lzma_rust2_verif" timeout 3000 cargo build --offline --profile checked 2>&1 | tail -1 )
# the other feature configurations of the crate (C14): std without optimization, no_std with/without optimization
( cd harness && RUSTFLAGS="--cfg hasenbanck_lzma_rust2_verif" CARGO_TARGET_DIR="$(pwd)/../build/cargo-noopt" timeout 3000 cargo build --offline --release --no-default-features 2>&1 | tail -1 )
( cd harness-nostd && RUSTFLAGS="--cfg hasenbanck_lzma_rust2_verif" CARGO_TARGET_DIR="$(pwd)/../build/cargo-nostd-opt" timeout 3000 cargo build --offline --release 2>&1 | tail -1 )
( cd harness-nostd && RUSTFLAGS="--cfg hasenbanck_lzma_rust2_verif" CARGO_TARGET_DIR="$(pwd)/../build/cargo-nostd" timeout 3000 cargo build --offline --release --no-default-features 2>&1 | tail -1 )
# independent re-check of the property theorems and the axioms they rely on (informational log)
( cd coq && timeout 3000 coqchk -silent -o -Q . LzVerif $(ls Properties/*.vo | sed 's|/|.|g; s|\.vo$||; s|^|LzVerif.|') > ../build/coqchk.log 2>&1 || true )
tail -5 build/coqchk.log || true
echo setup done
