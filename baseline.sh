#!/bin/sh
# Runs /repo's own test suite with the verification guard OFF and compares with the stable-pass
# list of /root/.vp/BASELINE.json.  Exit 0 iff every stable-pass test passes.
cd /repo || exit 2
export CARGO_NET_OFFLINE=true
unset RUSTFLAGS
mkdir -p /verif/build/baseline
cargo nextest run --workspace --no-fail-fast --tool-config-file pb:/w/lib/nextest.toml --profile pb --test-threads 8 --offline > /verif/build/baseline/log.txt 2>&1
python3 - <<'PY'
import json, sys
import xml.etree.ElementTree as ET
b = json.load(open('/root/.vp/BASELINE.json'))
t = ET.parse('/repo/target/nextest/pb/junit.xml')
passed = set()
for ts in t.getroot().iter('testsuite'):
    for tc in ts.iter('testcase'):
        if tc.find('failure') is None and tc.find('error') is None:
            passed.add(f"{ts.get('name')}::{tc.get('name')}")
missing = [x for x in b['stable_pass'] if x not in passed]
print(f"stable_pass={len(b['stable_pass'])} passed_now={len(passed)} missing={len(missing)}")
for x in missing[:20]:
    print("  NOT PASSING:", x)
sys.exit(1 if missing else 0)
PY
