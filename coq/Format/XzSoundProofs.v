(* Format/XzSoundProofs.v — C04_sound_xz: whenever the reader reports success, the input parses
   into stream header, blocks, index and footer in which EVERY integrity field was compared with
   the value computed from the bytes actually read / returned:
     stream header: magic, reserved flag byte, known check type, CRC-32 of the flags;
     each block: header CRC-32, the payload decoded by the block's chain to exactly the bytes
       returned for it, block padding = zero bytes up to four-byte alignment, stored check =
       H(check type, returned bytes) (nothing for check type None);
     index: record count = number of blocks decoded, zero padding, stored CRC-32 = CRC-32 of the
       canonical encoding of what was parsed; footer: CRC-32, flags equal to the header's, magic.
   The returned data are the concatenation of the blocks' contents.  Consequently (the property's
   wording): a file f' accepted with content d' contains, for each block, a stored check that
   equals H of that block's part of d' - so d' differs from the original content only if a block
   check of the damaged file collides (or the check type is None). *)
From LzVerif Require Import Base.Bytes Format.Crc Format.CrcProofs Format.Vli Format.XzFormat
  Format.XzSplitProofs Format.XzHeaderProofs Format.BitflipProofs.
Ltac Zify.zify_post_hook ::= Z.div_mod_to_equations.

(* ------------------------------------------------------------------------------------------- *)
(* suffixes: every step of BlockHeader::parse returns a suffix of what it was given *)
Definition suffix (s l : list Z) : Prop := exists p, l = p ++ s.
Lemma suffix_refl l : suffix l l.
Proof. exists []. reflexivity. Qed.
Lemma suffix_trans a b c : suffix a b -> suffix b c -> suffix a c.
Proof. intros (p & ->) (q & ->). exists (q ++ p). rewrite app_assoc. reflexivity. Qed.
Lemma suffix_skipn n l : suffix (skipn n l) l.
Proof. exists (firstn n l). symmetry. apply firstn_skipn. Qed.
Lemma suffix_cons x l : suffix l (x :: l).
Proof. exists [x]. reflexivity. Qed.

Lemma bh_vli_suffix s v s1 : bh_vli s = Ok (v, s1) -> suffix s1 s.
Proof.
  unfold bh_vli. destruct (vli_parse_slice s); try discriminate. cbn [obind]. intros H. inversion H.
  unfold vli_skip. apply suffix_skipn.
Qed.

Ltac bcj_suffix H Ev :=
  match type of H with
  | (if ?ps =? 0 then _ else _) = _ =>
      destruct (ps =? 0); [inversion H; subst; exact Ev|];
      destruct (ps =? 4); [|discriminate H]
  end;
  match type of H with
  | match ?s2 with _ => _ end = _ =>
      destruct s2 as [|b0 [|b1 [|b2 [|b3 s3]]]]; try discriminate H
  end;
  match type of H with
  | (if ?c then _ else _) = _ => destruct c; [discriminate H|]
  end;
  inversion H; subst;
  (eapply suffix_trans; [|exact Ev]);
  do 3 (eapply suffix_trans; [|apply suffix_cons]); apply suffix_cons.

Lemma bh_filter_props_suffix k s v s1 : bh_filter_props k s = Ok (v, s1) -> suffix s1 s.
Proof.
  intros H. destruct k; cbn [bh_filter_props] in H; destruct s as [|x s']; try discriminate;
    (destruct (bh_vli (x :: s')) as [[ps s2]| | |] eqn:Ev; try discriminate; cbn [obind] in H;
     apply bh_vli_suffix in Ev).
  - destruct (negb (ps =? 1)); [discriminate|]. destruct s2 as [|b s3]; [discriminate|]. inversion H; subst.
    eapply suffix_trans; [apply suffix_cons | exact Ev].
  - bcj_suffix H Ev.
  - bcj_suffix H Ev.
  - bcj_suffix H Ev.
  - bcj_suffix H Ev.
  - bcj_suffix H Ev.
  - bcj_suffix H Ev.
  - bcj_suffix H Ev.
  - bcj_suffix H Ev.
  - destruct (negb (ps =? 1)); [discriminate|]. destruct s2 as [|b s3]; [discriminate|].
    destruct (xz_decode_dict b); try discriminate. cbn [obind] in H. inversion H; subst.
    eapply suffix_trans; [apply suffix_cons | exact Ev].
Qed.

Lemma bh_filters_loop_suffix : forall n s acc fs s1, bh_filters_loop n s acc = Ok (fs, s1) -> suffix s1 s.
Proof.
  induction n as [|n IH]; intros s acc fs s1 H; cbn [bh_filters_loop] in H.
  - inversion H. apply suffix_refl.
  - destruct s as [|x s']; [discriminate|].
    destruct (vli_parse_slice (x :: s')); try discriminate. cbn [obind] in H.
    destruct (fkind_of_id a) as [fk|]; [|discriminate].
    destruct (bh_filter_props fk (vli_skip (x :: s'))) as [[prop s2]| | |] eqn:Ep; try discriminate. cbn [obind] in H.
    apply bh_filter_props_suffix in Ep. apply IH in H.
    eapply suffix_trans; [exact H|]. eapply suffix_trans; [exact Ep|]. unfold vli_skip. apply suffix_skipn.
Qed.

Lemma bh_padding_suffix : forall s s1, bh_padding s = Ok s1 -> suffix s1 s.
Proof.
  induction s as [|b t IH]; intros s1 H; cbn [bh_padding] in H.
  - inversion H. apply suffix_refl.
  - destruct (4 <? zlen (b :: t)).
    + destruct (b =? 0); [|discriminate]. apply IH in H. eapply suffix_trans; [exact H | apply suffix_cons].
    + inversion H. apply suffix_refl.
Qed.

(* BlockHeader::parse accepts only: a non-zero size byte, (size+1)*4 - 1 further bytes whose last
   four are the CRC-32 of everything before them (size byte included) *)
Lemma xz_parse_block_header_inv src bh rest : xz_parse_block_header src = Ok (Some bh, rest) ->
  exists enc body crc, src = enc :: body ++ crc ++ rest /\ enc <> 0 /\
    zlen (body ++ crc) = (enc + 1) * 4 - 1 /\ zlen crc = 4 /\ le_value crc = crc32 (enc :: body).
Proof.
  unfold xz_parse_block_header. intros H. destruct src as [|enc r0]; [discriminate|].
  destruct (Z.eqb_spec enc 0) as [|Hne]; [discriminate|].
  destruct ((enc + 1) * 4 <? 8) eqn:E8; [discriminate|]. destruct (1024 <? (enc + 1) * 4) eqn:E1024; [discriminate|].
  cbn [orb] in H.
  destruct (xz_take ((enc + 1) * 4 - 1) r0) as [[hd rest0]| | |] eqn:Et; try discriminate. cbn [obind] in H.
  apply Z.ltb_ge in E8. apply xz_take_inv in Et as [Er0 Lhd]; [|lia].
  destruct hd as [|flags s0]; [discriminate|].
  destruct (if negb (Z.land flags 64 =? 0) then _ else _) as [[csz s1]| | |] eqn:Ec; try discriminate. cbn [obind] in H.
  destruct (if negb (Z.land flags 128 =? 0) then _ else _) as [[usz s2]| | |] eqn:Eu; try discriminate. cbn [obind] in H.
  destruct (bh_filters_loop _ s2 []) as [[filters s3]| | |] eqn:Ef; try discriminate. cbn [obind] in H.
  destruct (negb (last_is_lzma2 filters)); [discriminate|].
  destruct (bh_padding s3) as [s4| | |] eqn:Ep; try discriminate. cbn [obind] in H.
  destruct (Z.eqb_spec (zlen s4) 4) as [L4|]; [|discriminate]. cbn [negb] in H.
  destruct (Z.eqb_spec (le_value s4) (crc32 (enc :: firstn (Z.to_nat (zlen (flags :: s0) - 4)) (flags :: s0)))) as [V|]; [|discriminate].
  cbn [negb] in H. inversion H; subst bh rest0; clear H.
  (* s4 is a suffix of the header data *)
  assert (S1 : suffix s1 s0).
  { destruct (negb (Z.land flags 64 =? 0)).
    - destruct (zlen s0 <? 8); [discriminate|]. destruct (bh_vli s0) as [[v r]| | |] eqn:Ev; try discriminate.
      cbn [obind fst snd] in Ec. inversion Ec; subst. eapply bh_vli_suffix; exact Ev.
    - inversion Ec; subst. apply suffix_refl. }
  assert (S2 : suffix s2 s1).
  { destruct (negb (Z.land flags 128 =? 0)).
    - destruct s1 as [|y s1']; [discriminate|]. destruct (bh_vli (y :: s1')) as [[v r]| | |] eqn:Ev; try discriminate.
      cbn [obind fst snd] in Eu. inversion Eu; subst. eapply bh_vli_suffix; exact Ev.
    - inversion Eu; subst. apply suffix_refl. }
  assert (S4 : suffix s4 (flags :: s0)).
  { eapply suffix_trans; [eapply bh_padding_suffix; exact Ep|].
    eapply suffix_trans; [eapply bh_filters_loop_suffix; exact Ef|].
    eapply suffix_trans; [exact S2|]. eapply suffix_trans; [exact S1 | apply suffix_cons]. }
  destruct S4 as (body & Ehd). exists enc, body, s4.
  rewrite Ehd in V, Lhd. rewrite zlen_app, L4 in V. replace (zlen body + 4 - 4) with (zlen body) in V by lia.
  unfold zlen in V at 1. rewrite Nat2Z.id, firstn_app_exact in V by reflexivity.
  split; [rewrite Er0, Ehd, <- app_assoc; reflexivity|]. split; [exact Hne|]. split; [exact Lhd|]. split; [exact L4 | exact V].
Qed.

Lemma xz_parse_block_header_none_inv src rest : xz_parse_block_header src = Ok (None, rest) -> src = 0 :: rest.
Proof.
  unfold xz_parse_block_header. intros H. destruct src as [|enc r0]; [discriminate|].
  destruct (Z.eqb_spec enc 0) as [->|Hne]; [inversion H; reflexivity|].
  destruct ((enc + 1) * 4 <? 8); [discriminate|]. destruct (1024 <? (enc + 1) * 4); [discriminate|]. cbn [orb] in H.
  destruct (xz_take ((enc + 1) * 4 - 1) r0) as [[hd rest0]| | |]; try discriminate. cbn [obind] in H.
  destruct hd as [|flags s0]; [discriminate|].
  destruct (if negb (Z.land flags 64 =? 0) then _ else _) as [[csz s1]| | |]; try discriminate. cbn [obind] in H.
  destruct (if negb (Z.land flags 128 =? 0) then _ else _) as [[usz s2]| | |]; try discriminate. cbn [obind] in H.
  destruct (bh_filters_loop _ s2 []) as [[filters s3]| | |]; try discriminate. cbn [obind] in H.
  destruct (negb (last_is_lzma2 filters)); [discriminate|].
  destruct (bh_padding s3) as [s4| | |]; try discriminate. cbn [obind] in H.
  destruct (negb (zlen s4 =? 4)); [discriminate|].
  match type of H with (if ?c then _ else _) = _ => destruct c; discriminate end.
Qed.

Lemma forallb_zero_repeat l : forallb (fun b => b =? 0) l = true -> l = repeatn 0 (length l).
Proof.
  induction l as [|x l IH]; intros H; [reflexivity|]. cbn [forallb] in H. apply andb_true_iff in H as [Hx Hl].
  apply Z.eqb_eq in Hx. subst x. cbn [length repeatn]. f_equal. apply IH, Hl.
Qed.

Lemma xz_consume_padding_inv pos src rest : xz_consume_padding pos src = Ok rest ->
  src = repeatn 0 (Z.to_nat (pad4 pos)) ++ rest.
Proof.
  unfold xz_consume_padding. intros H. pose proof (pad4_range pos) as Hr.
  destruct (Z.eqb_spec (pad4 pos) 0) as [E|Hne]; [inversion H; rewrite E; reflexivity|].
  destruct (Z.eqb_spec (zlen (firstn (Z.to_nat (pad4 pos)) src)) (pad4 pos)) as [L|]; [|discriminate]. cbn [negb] in H.
  destruct (forallb (fun b => b =? 0) (firstn (Z.to_nat (pad4 pos)) src)) eqn:Ez; [|discriminate]. cbn [negb] in H.
  inversion H; subst rest. apply forallb_zero_repeat in Ez.
  rewrite <- (firstn_skipn (Z.to_nat (pad4 pos)) src) at 1. f_equal. rewrite Ez. f_equal. unfold zlen in L. lia.
Qed.

Lemma xz_verify_check_inv ct computed src rest : xz_verify_check ct computed src = Ok rest ->
  (ct = 0 /\ src = rest) \/ (ct <> 0 /\ src = computed ++ rest /\ zlen computed = check_size ct).
Proof.
  unfold xz_verify_check. intros H. destruct (Z.eqb_spec ct 0) as [->|Hne]; [left; inversion H; auto|].
  right. destruct (xz_take (check_size ct) src) as [[stored r]| | |] eqn:Et; try discriminate. cbn [obind] in H.
  destruct (bytes_eqb stored computed) eqn:Eb; [|discriminate]. inversion H; subst r. apply bytes_eqb_eq in Eb. subst stored.
  apply xz_take_inv in Et as [Es L]; [auto | unfold check_size; repeat (destruct (_ =? _)); lia].
Qed.

Lemma vli_reader_loop_nonneg : forall n inp res sh v r, 0 <= res -> 0 <= sh ->
  vli_parse_reader_loop n inp res sh = Ok (v, r) -> 0 <= v /\ suffix r inp.
Proof.
  induction n as [|n IHn]; intros inp res sh v r Hres Hsh Hp; [discriminate|].
  cbn [vli_parse_reader_loop] in Hp. destruct inp as [|b t]; [discriminate|].
  destruct (63 <=? sh); [discriminate|].
  assert (Hl : 0 <= Z.lor res (Z.shiftl (Z.land b 127) sh)).
  { apply Z.lor_nonneg. split; [exact Hres|]. apply Z.shiftl_nonneg. apply Z.land_nonneg. right. lia. }
  destruct (Z.land b 128 =? 0).
  - inversion Hp; subst. split; [exact Hl | apply suffix_cons].
  - apply IHn in Hp; [|exact Hl|lia]. destruct Hp as [Hv Hs]. split; [exact Hv|].
    eapply suffix_trans; [exact Hs | apply suffix_cons].
Qed.

Lemma vli_parse_reader_facts s v r : vli_parse_reader s = Ok (v, r) -> 0 <= v /\ suffix r s.
Proof. unfold vli_parse_reader. apply vli_reader_loop_nonneg; lia. Qed.

Lemma xz_index_records_loop_suffix : forall fuel count s acc rs rb,
  xz_index_records_loop fuel count s acc = Ok (rs, rb) -> suffix rb s.
Proof.
  induction fuel as [|fuel IHf]; intros count s acc rs rb Hl; cbn [xz_index_records_loop] in Hl.
  - destruct (count <=? 0); [inversion Hl; apply suffix_refl | discriminate].
  - destruct (count <=? 0); [inversion Hl; apply suffix_refl|].
    destruct (vli_parse_reader s) as [[u r1]| | |] eqn:E1; try discriminate. cbn [obind] in Hl.
    destruct (vli_parse_reader r1) as [[c r2]| | |] eqn:E2; try discriminate. cbn [obind] in Hl.
    destruct (u =? 0); [discriminate|]. apply IHf in Hl.
    apply vli_parse_reader_facts in E1 as [_ S1]. apply vli_parse_reader_facts in E2 as [_ S2].
    eapply suffix_trans; [exact Hl|]. eapply suffix_trans; [exact S2 | exact S1].
Qed.

Section Sound.
  Variable H : Z -> list Z -> list Z.
  Variable blockdec : list (fkind * Z) -> list Z -> outcome (list Z * list Z).

  (* the blocks of a stream as the reader saw them; [pos] = bytes of the source consumed before *)
  Inductive xz_blocks_ok (ct : Z) : Z -> list Z -> list (list Z) -> list Z -> Prop :=
  | xbo_end : forall pos r, xz_blocks_ok ct pos (0 :: r) [] r
  | xbo_block : forall pos enc body crc bh tail1 content tail2 chk src' cs r,
      (* block header: non-zero size byte, declared length, CRC-32 verified; it parses to [bh] *)
      enc <> 0 -> zlen (body ++ crc) = (enc + 1) * 4 - 1 -> zlen crc = 4 -> le_value crc = crc32 (enc :: body) ->
      xz_parse_block_header (enc :: body ++ crc ++ tail1) = Ok (Some bh, tail1) ->
      (* the chain of the header decodes the compressed data to the bytes returned for the block *)
      blockdec (bh_filters bh) tail1 = Ok (content, tail2) -> suffix tail2 tail1 ->
      (* block padding: zero bytes up to four-byte alignment of the position *)
      tail2 = repeatn 0 (Z.to_nat (pad4 (pos + (enc + 1) * 4 + (zlen tail1 - zlen tail2)))) ++ chk ++ src' ->
      (* check field: nothing for None, otherwise exactly H of the returned bytes *)
      ((ct = 0 /\ chk = []) \/ (ct <> 0 /\ chk = H ct content /\ zlen chk = check_size ct)) ->
      xz_blocks_ok ct (pos + (enc + 1) * 4 + (zlen tail1 - zlen tail2) + (zlen tail2 - zlen src')) src' cs r ->
      xz_blocks_ok ct pos (enc :: body ++ crc ++ tail1) (content :: cs) r.

  (* [blockdec] only consumes input: what it leaves is a suffix of what it got *)
  Hypothesis blockdec_suffix : forall fs src c r, blockdec fs src = Ok (c, r) -> suffix r src.

  Theorem xzd_blocks_sound ct : forall fuel src pos n acc acc' r pos' n',
    xzd_blocks H blockdec fuel ct src pos n acc = Ok (acc', r, pos', n') ->
    exists cs, xz_blocks_ok ct pos src cs r /\ acc' = rev_append (concat cs) acc /\ n' = n + zlen cs.
  Proof.
    induction fuel as [|fuel IH]; intros src pos n acc acc' r pos' n' E; [discriminate|].
    cbn [xzd_blocks] in E.
    destruct (xz_parse_block_header src) as [[h r1]| | |] eqn:Eh; try discriminate. cbn [obind] in E.
    destruct h as [bh|].
    - destruct (blockdec (bh_filters bh) r1) as [[content r2]| | |] eqn:Eb; try discriminate. cbn [obind] in E.
      destruct (xz_consume_padding _ r2) as [r3| | |] eqn:Ep; try discriminate. cbn [obind] in E.
      destruct (xz_verify_check ct (H ct content) r3) as [r4| | |] eqn:Ev; try discriminate. cbn [obind] in E.
      pose proof Eh as Eh0.
      apply xz_parse_block_header_inv in Eh as (enc & body & crc & Es & Hne & Lh & Lc & Vc).
      apply xz_consume_padding_inv in Ep. apply xz_verify_check_inv in Ev.
      destruct (IH _ _ _ _ _ _ _ _ E) as (cs & Bk & Ea & En).
      exists (content :: cs). split; [|split].
      + subst src.
        assert (Z1 : zlen (enc :: body ++ crc ++ r1) - zlen r1 = (enc + 1) * 4).
        { rewrite zlen_cons, app_assoc, zlen_app. lia. }
        rewrite Z1 in *.
        destruct Ev as [[Hct Er]|[Hct [Er Lk]]].
        * apply (xbo_block ct pos enc body crc bh r1 content r2 [] r4 cs r Hne Lh Lc Vc Eh0 Eb).
          -- eapply blockdec_suffix; exact Eb.
          -- cbn [app]. rewrite Ep at 1. subst r4. reflexivity.
          -- left. auto.
          -- exact Bk.
        * apply (xbo_block ct pos enc body crc bh r1 content r2 (H ct content) r4 cs r Hne Lh Lc Vc Eh0 Eb).
          -- eapply blockdec_suffix; exact Eb.
          -- rewrite Ep at 1. rewrite Er. reflexivity.
          -- right. auto.
          -- exact Bk.
      + rewrite Ea. cbn [concat]. rewrite !rev_append_rev, rev_app_distr, <- app_assoc. reflexivity.
      + rewrite En, zlen_cons. lia.
    - inversion E; subst. apply xz_parse_block_header_none_inv in Eh. subst src.
      exists []. split; [constructor|]. split; [reflexivity | cbn; lia].
  Qed.

  (* the index as the reader checks it: count = blocks seen, CRC-32 of the canonical encoding of what
     was parsed equals the stored one; footer: CRC-32, flags = header flags, magic *)
  Lemma xz_index_records_loop_count : forall fuel count src acc recs r,
    0 <= count -> xz_index_records_loop fuel count src acc = Ok (recs, r) -> zlen recs = zlen acc + count.
  Proof.
    induction fuel as [|fuel IH]; intros count src acc recs r Hc E; cbn [xz_index_records_loop] in E.
    - destruct (Z.leb_spec count 0); [|discriminate]. inversion E; subst. rewrite frev_rev, zlen_rev. lia.
    - destruct (Z.leb_spec count 0); [inversion E; subst; rewrite frev_rev, zlen_rev; lia|].
      destruct (vli_parse_reader src) as [[u r1]| | |]; try discriminate. cbn [obind] in E.
      destruct (vli_parse_reader r1) as [[c r2]| | |]; try discriminate. cbn [obind] in E.
      destruct (u =? 0); [discriminate|]. apply IH in E; [|lia]. rewrite zlen_cons in E. lia.
  Qed.

  Theorem xz_index_and_footer_sound fx ct blocks src rest :
    xz_index_and_footer fx ct blocks src = Ok rest ->
    exists recs r1 fcrc bwb, zlen recs = blocks /\ suffix r1 src /\
      xz_parse_index fx src = Ok (blocks, recs, r1) /\
      r1 = fcrc ++ bwb ++ xz_stream_flags ct ++ XZ_FOOTER_MAGIC ++ rest /\
      zlen fcrc = 4 /\ zlen bwb = 4 /\ le_value fcrc = crc32 (bwb ++ xz_stream_flags ct).
  Proof.
    unfold xz_index_and_footer. intros E.
    destruct (xz_parse_index fx src) as [[[count recs] r1]| | |] eqn:Ei; try discriminate. cbn [obind] in E.
    destruct (Z.eqb_spec count blocks) as [->|]; [|discriminate]. cbn [negb] in E.
    destruct (xz_parse_footer r1) as [[[bw flags] r2]| | |] eqn:Ef; try discriminate. cbn [obind] in E.
    destruct (bytes_eqb flags (xz_stream_flags ct)) eqn:Efl; [|discriminate]. cbn [negb] in E. inversion E; subst r2.
    apply bytes_eqb_eq in Efl. subst flags.
    apply xz_parse_footer_inv in Ef as (fcrc & bwb & Er1 & L1 & L2 & _ & V & _).
    exists recs, r1, fcrc, bwb.
    (* record count and the suffix property, from the index parser *)
    pose proof Ei as Ei0. unfold xz_parse_index in Ei.
    destruct (vli_parse_reader src) as [[cnt ra]| | |] eqn:Ev; try discriminate. cbn [obind] in Ei.
    destruct (negb (fx11 fx) && (576460752303423488 <=? cnt)); [discriminate|].
    destruct (xz_index_records_loop _ cnt ra []) as [[rs rb]| | |] eqn:El; try discriminate. cbn [obind] in Ei.
    destruct (xz_take _ rb) as [[pd rc]| | |] eqn:Ep; try discriminate. cbn [obind] in Ei.
    destruct (negb (forallb (fun b => b =? 0) pd)); [discriminate|].
    destruct (xz_take 4 rc) as [[crc rd]| | |] eqn:Ec; try discriminate. cbn [obind] in Ei.
    destruct (vli_encode cnt); try discriminate. cbn [obind] in Ei.
    destruct (xz_index_records rs); try discriminate. cbn [obind] in Ei.
    match type of Ei with (if ?c then _ else _) = _ => destruct c; [discriminate|] end.
    inversion Ei; subst cnt rs rd.
    apply vli_parse_reader_facts in Ev as [Hcnt Sv0].
    split.
    { apply xz_index_records_loop_count in El; [|exact Hcnt]. cbn in El. lia. }
    split.
    { apply xz_take_inv in Ec as [Erc _]; [|lia].
      assert (Sp : suffix rc rb).
      { unfold xz_take in Ep. destruct (zlen rb <? _); [discriminate|]. inversion Ep; subst. apply suffix_skipn. }
      eapply suffix_trans; [|exact Sv0]. eapply suffix_trans; [|eapply xz_index_records_loop_suffix; exact El].
      eapply suffix_trans; [|exact Sp]. exists crc. exact Erc. }
    split; [reflexivity|]. split; [exact Er1|]. auto.
  Qed.

  (* stream padding and the next stream header, as the repaired try_start_next_stream accepts them *)
  Lemma xz_skip_zeros_inv : forall s n m r, xz_skip_zeros s n = (m, r) ->
    exists k, m = n + Z.of_nat k /\ s = repeatn 0 k ++ r /\ (r = [] \/ exists b t, r = b :: t /\ b <> 0).
  Proof.
    induction s as [|b t IH]; intros n m r E; cbn [xz_skip_zeros] in E.
    - inversion E; subst. exists 0%nat. split; [lia|]. split; [reflexivity | left; reflexivity].
    - destruct (Z.eqb_spec b 0) as [->|Hne].
      + apply IH in E as (k & Hm & Hs & Hr). exists (S k). split; [lia|]. split; [cbn [repeatn app]; rewrite Hs; reflexivity | exact Hr].
      + inversion E; subst. exists 0%nat. split; [lia|]. split; [reflexivity|]. right. eauto.
  Qed.

  Lemma xz_try_next_stream_inv s nct r : xz_try_next_stream xz_fixed s = Ok (nct, r) ->
    exists k, Z.of_nat k mod 4 = 0 /\
      ((nct = None /\ s = repeatn 0 k /\ r = []) \/
       (exists ct2 crc, nct = Some ct2 /\ s = repeatn 0 k ++ XZ_MAGIC ++ [0; ct2] ++ crc ++ r /\
                        check_known ct2 = true /\ zlen crc = 4 /\ le_value crc = crc32 [0; ct2])).
  Proof.
    unfold xz_try_next_stream. intros E. destruct (xz_skip_zeros s 0) as [padding r0] eqn:Ez.
    apply xz_skip_zeros_inv in Ez as (k & Hp & Hs & Hr). replace padding with (Z.of_nat k) in * by lia. clear Hp.
    destruct r0 as [|b r1].
    - cbn [fx16b xz_fixed andb] in E. destruct (Z.eqb_spec (Z.of_nat k mod 4) 0) as [H4|]; [|discriminate].
      cbn [negb] in E. inversion E; subst. exists k. split; [exact H4|]. left. rewrite app_nil_r. auto.
    - cbn [fx16 xz_fixed] in E. destruct (Z.eqb_spec b 253) as [->|]; [|discriminate]. cbn [negb] in E.
      destruct (zlen r1 <? 5) eqn:E5; [discriminate|].
      destruct (bytes_eqb (253 :: firstn 5 r1) XZ_MAGIC) eqn:Em; [|discriminate]. cbn [negb] in E.
      destruct (Z.eqb_spec (Z.of_nat k mod 4) 0) as [H4|]; [|discriminate]. cbn [negb] in E.
      destruct (xz_parse_flags_crc (skipn 5 r1)) as [[ct2 r2]| | |] eqn:Ef; try discriminate. cbn [obind fst snd] in E.
      inversion E; subst nct r. apply bytes_eqb_eq in Em.
      exists k. split; [exact H4|]. right.
      (* flags and CRC *)
      unfold xz_parse_flags_crc in Ef.
      destruct (xz_take 2 (skipn 5 r1)) as [[flags ra]| | |] eqn:E2; try discriminate. cbn [obind] in Ef.
      apply xz_take_inv in E2 as [E2 L2]; [|lia].
      destruct flags as [|f0 [|f1 [|? ?]]]; try discriminate.
      destruct (Z.eqb_spec f0 0); [|discriminate]. subst f0. cbn [negb] in Ef.
      destruct (check_known f1) eqn:Ek; [|discriminate]. cbn [negb] in Ef.
      destruct (xz_take 4 ra) as [[crc rb]| | |] eqn:E3; try discriminate. cbn [obind] in Ef.
      apply xz_take_inv in E3 as [E3 L3]; [|lia].
      destruct (Z.eqb_spec (le_value crc) (crc32 [0; f1])); [|discriminate]. cbn [negb] in Ef. inversion Ef; subst ct2 rb.
      exists f1, crc. split; [reflexivity|]. split; [|auto].
      rewrite Hs. f_equal. rewrite <- (firstn_skipn 5 r1), E2, E3.
      change (253 :: firstn 5 r1 ++ ([0; f1] ++ crc ++ r2)) with ((253 :: firstn 5 r1) ++ [0; f1] ++ crc ++ r2).
      rewrite Em. reflexivity.
  Qed.

  (* the streams of a file as the reader accepted them: per stream the contents of its blocks *)
  Inductive xz_streams_ok (multi : bool) : Z -> Z -> list Z -> list (list (list Z)) -> list Z -> Prop :=
  | xso_stream : forall ct pos src cs r1 recs r2 fcrc bwb rest0 css rest,
      xz_blocks_ok ct pos src cs r1 ->
      (* index: as many records as blocks, CRC-32 verified; footer: CRC-32, same flags, magic *)
      zlen recs = zlen cs -> xz_parse_index xz_fixed r1 = Ok (zlen cs, recs, r2) ->
      r2 = fcrc ++ bwb ++ xz_stream_flags ct ++ XZ_FOOTER_MAGIC ++ rest0 ->
      zlen fcrc = 4 -> zlen bwb = 4 -> le_value fcrc = crc32 (bwb ++ xz_stream_flags ct) ->
      (* what follows *)
      ((multi = false /\ css = [] /\ rest = rest0) \/
       (multi = true /\ css = [] /\ rest = [] /\ exists k, Z.of_nat k mod 4 = 0 /\ rest0 = repeatn 0 k) \/
       (multi = true /\ exists k ct2 crc src2 pos2,
          Z.of_nat k mod 4 = 0 /\ rest0 = repeatn 0 k ++ XZ_MAGIC ++ [0; ct2] ++ crc ++ src2 /\
          check_known ct2 = true /\ zlen crc = 4 /\ le_value crc = crc32 [0; ct2] /\
          xz_streams_ok multi ct2 pos2 src2 css rest)) ->
      xz_streams_ok multi ct pos src (cs :: css) rest.

  Theorem xzd_streams_sound multi : forall fuel ct src pos acc d rest,
    xzd_streams H blockdec fuel xz_fixed multi ct src pos acc = Ok (d, rest) ->
    exists css, xz_streams_ok multi ct pos src css rest /\
                d = rev acc ++ concat (map (@concat Z) css).
  Proof.
    induction fuel as [|fuel IH]; intros ct src pos acc d rest E; [discriminate|].
    cbn [xzd_streams] in E.
    destruct (xzd_blocks H blockdec (S (length src)) ct src pos 0 acc) as [[[[acc1 r1] pos1] n]| | |] eqn:Eb; try discriminate.
    cbn [obind] in E.
    apply xzd_blocks_sound in Eb as (cs & Bk & Ea & En).
    destruct (xz_index_and_footer xz_fixed ct n r1) as [r2| | |] eqn:Ei; try discriminate. cbn [obind] in E.
    apply xz_index_and_footer_sound in Ei as (recs & ri & fcrc & bwb & Lr & _ & Pi & Eri & L1 & L2 & V).
    assert (En' : n = zlen cs) by lia. subst n.
    destruct multi.
    - destruct (xz_try_next_stream xz_fixed r2) as [[nct r3]| | |] eqn:Et; try discriminate. cbn [obind] in E.
      apply xz_try_next_stream_inv in Et as (k & H4 & [(En & Es & Er)|(ct2 & crc & En & Es & Hk & Lc & Vc)]); subst nct.
      + inversion E; subst d rest r3. exists [cs]. split.
        * eapply xso_stream; eauto. right. left. eauto 8.
        * rewrite frev_rev, Ea, rev_append_rev, rev_app_distr, rev_involutive. cbn [map concat]. rewrite app_nil_r. reflexivity.
      + apply IH in E as (css & Sk & Ed). exists (cs :: css). split.
        * eapply xso_stream; eauto. right. right. split; [reflexivity|]. eauto 12.
        * rewrite Ed, Ea, rev_append_rev, rev_app_distr, rev_involutive. cbn [map concat]. rewrite <- app_assoc. reflexivity.
    - inversion E; subst d rest. exists [cs]. split.
      + eapply xso_stream; eauto.
      + rewrite frev_rev, Ea, rev_append_rev, rev_app_distr, rev_involutive. cbn [map concat]. rewrite app_nil_r. reflexivity.
  Qed.

  (* C04_sound_xz: success of the reader (repaired code) means: the input is a stream header with
     valid magic / flags / CRC-32 followed by streams in each of which every block's header CRC,
     padding and check, the index count and CRC and the footer CRC, flags and magic were verified,
     and the data returned are exactly the blocks' contents in order *)
  Theorem C04_sound_xz_thm multi src d rest :
    xz_decode H blockdec xz_fixed multi src = Ok (d, rest) ->
    exists ct crc tl css,
      src = XZ_MAGIC ++ [0; ct] ++ crc ++ tl /\ check_known ct = true /\ zlen crc = 4 /\ le_value crc = crc32 [0; ct] /\
      xz_streams_ok multi ct 12 tl css rest /\ d = concat (map (@concat Z) css).
  Proof.
    unfold xz_decode. intros E.
    destruct (xz_parse_stream_header src) as [[ct r1]| | |] eqn:Eh; try discriminate. cbn [obind] in E.
    apply xz_parse_stream_header_inv in Eh as (crc & Es & Hk & Lc & Vc).
    apply xzd_streams_sound in E as (css & Sk & Ed). exists ct, crc, r1, css.
    split; [exact Es|]. split; [exact Hk|]. split; [exact Lc|]. split; [exact Vc|]. split; [|exact Ed].
    replace (zlen src - zlen r1) with 12 in Sk; [exact Sk|].
    rewrite Es, !zlen_app, Lc. change (zlen XZ_MAGIC) with 6. change (zlen [0; ct]) with 2. lia.
  Qed.
End Sound.

(* C04_bitflip, block header: two headers with the same size byte that differ in exactly one of the
   other bytes (flags, optional sizes, filter flags, header padding, CRC field) are not both accepted *)
Theorem bitflip_block_header enc hd hd' rest rest' bh bh' r r' :
  zlen hd = (enc + 1) * 4 - 1 -> bytes_ok (enc :: hd) = true -> bytes_ok (enc :: hd') = true ->
  one_byte_diff hd hd' ->
  xz_parse_block_header (enc :: hd ++ rest) = Ok (Some bh, r) ->
  xz_parse_block_header (enc :: hd' ++ rest') = Ok (Some bh', r') -> False.
Proof.
  intros Lh B B' D P P'.
  apply xz_parse_block_header_inv in P as (e1 & body & crc & E & _ & L & Lc & V).
  apply xz_parse_block_header_inv in P' as (e2 & body' & crc' & E' & _ & L' & Lc' & V').
  inversion E as [[Ee Eh]]. inversion E' as [[Ee' Eh']]. subst e1 e2. clear E E'.
  pose proof (one_byte_diff_length _ _ D) as Ll.
  assert (Ehd : hd = body ++ crc).
  { assert (E2 : hd ++ rest = (body ++ crc) ++ r) by (rewrite Eh, <- app_assoc; reflexivity).
    apply app_eq_length in E2 as [E2 _]; [exact E2|]. unfold zlen in *. lia. }
  assert (Ehd' : hd' = body' ++ crc').
  { assert (E2 : hd' ++ rest' = (body' ++ crc') ++ r') by (rewrite Eh', <- app_assoc; reflexivity).
    apply app_eq_length in E2 as [E2 _]; [exact E2|]. unfold zlen in *. lia. }
  subst hd hd'.
  assert (D2 : one_byte_diff ((enc :: body) ++ crc) ((enc :: body') ++ crc')).
  { destruct D as (p & b & b' & s & E1 & E2 & Hne). exists (enc :: p), b, b', s. cbn [app]. rewrite E1, E2. auto. }
  change (enc :: body ++ crc) with ((enc :: body) ++ crc) in B. change (enc :: body' ++ crc') with ((enc :: body') ++ crc') in B'.
  rewrite bytes_ok_app in B, B'. apply andb_true_iff in B as [Bd Bc]. apply andb_true_iff in B' as [Bd' Bc'].
  eapply (crc32_pair_one_diff (enc :: body) (enc :: body') crc crc'); try eassumption.
  - rewrite !app_length in Ll. unfold zlen in Lc, Lc'. cbn [length]. lia.
  - unfold zlen in Lc, Lc'. lia.
Qed.
