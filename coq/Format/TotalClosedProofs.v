(* Format/TotalClosedProofs.v — C06 for the executable whole-file reader models with their CONCRETE
   payload decoders: xz_decode_c (XZReader: LZMA2Reader read in 4096-byte calls behind the Delta
   readers) and lz_decode_c (LZIPReader: LZMAReader with lc=3, lp=0, pb=2, unknown size) are total
   on every byte string.  No hypothesis on the payload decoder is left: the totality of the two
   readers (Codec/Total1Proofs.v, Total2Proofs.v) gives the [shrk] hypothesis of
   Format/TotalProofs.v, including the bound on the number of read() calls the models budget
   (LZIP: 64 + 16 per source byte, XZ: 2 + 171 per source byte).
   LZIP: the LZMAReader model is total on any integer list, so lz_decode_total applies directly.
   XZ: the LZMA2Reader model copies source bytes into the dictionary (stored chunks), so its
   totality needs a byte string; the container theorem is re-proved with "the source is a byte
   string" carried through every parser (each returns a tail of its source).
   BCJ filters: xz_chain_deltas answers Err for chains containing them (the executable model stops
   there), so nothing is claimed about the BCJ readers.  Proofs only. *)
From LzVerif Require Import Base.Bytes Codec.RangeArithProofs Codec.LzmaSymProofs Filter.Delta Filter.DeltaProofs
  Format.Crc Format.Vli Format.XzFormat Format.LzipFormat Format.LzipDict Format.XzProofs
  Format.TotalProofs Format.TotalChainProofs Codec.Range Codec.Lzma1 Codec.Lzma2Dec
  Codec.TotalCoreProofs Codec.Total1Proofs Codec.Total2Proofs.
Ltac Zify.zify_post_hook ::= Z.div_mod_to_equations.

(* ---------------------------------------------------------------------------------------------
   LZIP: the concrete payload decoder *)
Lemma lzma1_drain_shr : forall fuel s acc, rinv1 s -> pot1 s + 8192 <= 4096 * Z.of_nat fuel ->
  match lzma1_drain fuel s acc with
  | Ok (_, r) => (length r <= length (rd_in (l_rc s)))%nat
  | Err _ => True
  | _ => False
  end.
Proof.
  induction fuel as [|f IH]; intros s acc Hi Hf.
  { pose proof (pot1_nonneg s Hi). lia. }
  cbn [lzma1_drain].
  destruct (read1_total s 4096 Hi) as [(e & He)|(out & s1 & Hr & Hi1 & Hol & Hpot & Hin & Hfull)].
  - rewrite He. exact I.
  - rewrite Hr. cbn [obind]. destruct out as [|b out'].
    + unfold lzma1_unconsumed. exact Hin.
    + pose proof (pot1_nonneg s1 Hi1) as Hp1. pose proof (zlen_nonneg out') as Ho.
      rewrite zlen_cons in *.
      assert (Hf1 : pot1 s1 + 8192 <= 4096 * Z.of_nat f).
      { destruct (l_end_reached s1) eqn:Eend.
        - unfold pot1 in *. rewrite Eend in *. lia.
        - specialize (Hfull eq_refl ltac:(lia)). lia. }
      specialize (IH s1 (rev_append (b :: out') acc) Hi1 Hf1).
      destruct (lzma1_drain f s1 (rev_append (b :: out') acc)) as [[c r]|e|e|]; try exact IH. lia.
Qed.

(* LZMAReader::new(src, u64::MAX, 3, 0, 2, dict, None) read to its end: on ANY source and any
   dictionary size the result is Ok or Err and the unread rest is no longer than the source, as
   soon as the budget of read() calls is 64 + 16 per source byte (what lz_decode_c uses) *)
Theorem lzip_payload_dec_n_shr : forall calls d s, (64 + 16 * length s <= calls)%nat ->
  shrk 0 s (lzip_payload_dec_n calls d s).
Proof.
  intros calls d s Hc. unfold lzip_payload_dec_n.
  pose proof (construct2_inv s U64_MAX 3 0 2 d None ltac:(lia) ltac:(lia) ltac:(lia) ltac:(unfold U64_MAX; lia) I) as HC.
  destruct (lzma1_construct2 s U64_MAX 3 0 2 d None) as [s0|e|e|]; cbn [obind shrk]; try exact HC.
  destruct HC as (Hi & _ & Hpot & Hlen).
  pose proof (lzma1_drain_shr calls s0 [] (or_intror Hi) ltac:(unfold zlen in Hpot; lia)) as HD.
  destruct (lzma1_drain calls s0 []) as [[c r]|e|e|]; cbn [shrk]; try exact HD. lia.
Qed.

Theorem lzip_payload_dec_shr : forall d s, shrk 0 s (lzip_payload_dec d s).
Proof. intros d s. unfold lzip_payload_dec. apply lzip_payload_dec_n_shr. lia. Qed.

Theorem lz_decode_c_total : forall fx f, total (lz_decode_c fx f).
Proof. intros fx f. unfold lz_decode_c. apply lz_decode_total. exact lzip_payload_dec_shr. Qed.

(* ---------------------------------------------------------------------------------------------
   XZ: the concrete payload decoder on byte strings *)
Lemma lzma2_drain_shr : forall fuel s acc, rinv2 s -> pot2 s + 8192 <= 4096 * Z.of_nat fuel ->
  match lzma2_drain fuel s acc with
  | Ok (_, r) => (length r <= length (m_in s))%nat /\ bytes_ok r = true
  | Err _ => True
  | _ => False
  end.
Proof.
  induction fuel as [|f IH]; intros s acc Hi Hf.
  { pose proof (pot2_nonneg s Hi). lia. }
  cbn [lzma2_drain].
  destruct (read2_total s 4096 Hi) as [(e & He)|(out & s1 & Hr & Hi1 & Hol & Hpot & Hin & Hfull)].
  - rewrite He. exact I.
  - rewrite Hr. cbn [obind]. destruct out as [|b out'].
    + split; [exact Hin | apply Hi1].
    + pose proof (pot2_nonneg s1 Hi1) as Hp1. pose proof (zlen_nonneg out') as Ho.
      rewrite zlen_cons in *.
      assert (Hf1 : pot2 s1 + 8192 <= 4096 * Z.of_nat f).
      { destruct (m_end_reached s1) eqn:Eend.
        - unfold pot2 in *. rewrite Eend in *. lia.
        - specialize (Hfull eq_refl ltac:(lia)). lia. }
      specialize (IH s1 (rev_append (b :: out') acc) Hi1 Hf1).
      destruct (lzma2_drain f s1 (rev_append (b :: out') acc)) as [[c r]|e|e|]; try exact IH.
      destruct IH as (IH1 & IH2). split; [lia | exact IH2].
Qed.

Definition shrkb {A} (src : list Z) (o : outcome (A * list Z)) : Prop :=
  match o with Ok (_, r) => (length r <= length src)%nat /\ bytes_ok r = true | Err _ => True | _ => False end.

(* LZMA2Reader::new(src, dict, None) read to its end in 4096-byte calls: on every byte string and
   any dictionary size, as soon as the budget of read() calls is 2 + 171 per source byte (what
   xz_decode_c uses) *)
Theorem lzma2_payload_dec_n_shrb : forall calls d s, bytes_ok s = true -> (2 + 171 * length s <= calls)%nat ->
  shrkb s (lzma2_payload_dec_n calls d s).
Proof.
  intros calls d s Hb Hc. unfold lzma2_payload_dec_n.
  destruct (lzma2_new_inv s d None Hb I) as (s0 & Hnew & Hri & Hi & He & Hin & HP).
  rewrite Hnew. cbn [obind].
  assert (Hpot : pot2 s0 + 8192 <= 4096 * Z.of_nat calls).
  { unfold pot2. rewrite He, HP. unfold zlen. lia. }
  pose proof (lzma2_drain_shr _ s0 [] Hri Hpot) as HD. rewrite Hin in HD. exact HD.
Qed.

Theorem lzma2_payload_dec_shrb : forall d s, bytes_ok s = true -> shrkb s (lzma2_payload_dec d s).
Proof. intros d s Hb. unfold lzma2_payload_dec. apply lzma2_payload_dec_n_shrb; [exact Hb | lia]. Qed.

(* ---- every parser of the container returns a tail of its source ------------------------------- *)
Ltac crunch H :=
  repeat (cbn [obind] in H;
          match type of H with
          | Err _ = Ok _ => discriminate H
          | Panic _ = Ok _ => discriminate H
          | Fuel = Ok _ => discriminate H
          | (if ?c then _ else _) = Ok _ => destruct c
          | obind ?x _ = Ok _ => let E := fresh "E" in destruct x as [?|?|?|] eqn:E
          | (let '(a, b) := ?p in _) = Ok _ => destruct p
          | match ?x with _ => _ end = Ok _ => let E := fresh "E" in destruct x eqn:E
          end).

Lemma xz_take_bytes n src a b : bytes_ok src = true -> xz_take n src = Ok (a, b) -> bytes_ok b = true.
Proof.
  intros Hb H. unfold xz_take in H. destruct (zlen src <? n); [discriminate|].
  apply Ok_inj in H. apply pair_inj in H as (_ & <-). apply b_skipn. exact Hb.
Qed.

Lemma xz_parse_flags_crc_bytes src ct r : bytes_ok src = true -> xz_parse_flags_crc src = Ok (ct, r) -> bytes_ok r = true.
Proof.
  intros Hb H. unfold xz_parse_flags_crc in H. crunch H.
  apply Ok_inj in H. apply pair_inj in H as (_ & <-).
  eapply xz_take_bytes; [|eassumption]. eapply xz_take_bytes; eassumption.
Qed.

Lemma xz_parse_stream_header_bytes src ct r : bytes_ok src = true -> xz_parse_stream_header src = Ok (ct, r) -> bytes_ok r = true.
Proof.
  intros Hb H. unfold xz_parse_stream_header in H. crunch H.
  eapply xz_parse_flags_crc_bytes; [|exact H]. eapply xz_take_bytes; eassumption.
Qed.

Lemma xz_parse_block_header_bytes src h r : bytes_ok src = true -> xz_parse_block_header src = Ok (h, r) -> bytes_ok r = true.
Proof.
  intros Hb H. unfold xz_parse_block_header in H. destruct src as [|enc r0]; [discriminate|].
  apply bytes_ok_cons in Hb as (_ & Hb).
  destruct (enc =? 0). { apply Ok_inj in H. apply pair_inj in H as (_ & <-). exact Hb. }
  cbv zeta in H. crunch H.
  apply Ok_inj in H. apply pair_inj in H as (_ & <-). eapply xz_take_bytes; eassumption.
Qed.

Lemma xz_consume_padding_bytes pos src r : bytes_ok src = true -> xz_consume_padding pos src = Ok r -> bytes_ok r = true.
Proof.
  intros Hb H. unfold xz_consume_padding in H. cbv zeta in H. crunch H; apply Ok_inj in H; subst r; [exact Hb | apply b_skipn; exact Hb].
Qed.

Lemma xz_verify_check_bytes ct computed src r : bytes_ok src = true -> xz_verify_check ct computed src = Ok r -> bytes_ok r = true.
Proof.
  intros Hb H. unfold xz_verify_check in H. crunch H; apply Ok_inj in H; subst r; [exact Hb | eapply xz_take_bytes; eassumption].
Qed.

Lemma vli_parse_reader_loop_bytes : forall n input res sh v r, bytes_ok input = true ->
  vli_parse_reader_loop n input res sh = Ok (v, r) -> bytes_ok r = true.
Proof.
  induction n as [|k IH]; intros input res sh v r Hb H; cbn [vli_parse_reader_loop] in H; [discriminate|].
  destruct input as [|b t]; [discriminate|]. apply bytes_ok_cons in Hb as (_ & Hb).
  destruct (63 <=? sh); [discriminate|]. cbv zeta in H.
  destruct (Z.land b 128 =? 0).
  - apply Ok_inj in H. apply pair_inj in H as (_ & <-). exact Hb.
  - eapply IH; eassumption.
Qed.

Lemma vli_parse_reader_bytes input v r : bytes_ok input = true -> vli_parse_reader input = Ok (v, r) -> bytes_ok r = true.
Proof. apply vli_parse_reader_loop_bytes. Qed.

Lemma xz_index_records_loop_bytes : forall fuel count src acc recs r, bytes_ok src = true ->
  xz_index_records_loop fuel count src acc = Ok (recs, r) -> bytes_ok r = true.
Proof.
  induction fuel as [|f IH]; intros count src acc recs r Hb H; cbn [xz_index_records_loop] in H.
  - destruct (count <=? 0); [|discriminate]. apply Ok_inj in H. apply pair_inj in H as (_ & <-). exact Hb.
  - destruct (count <=? 0). { apply Ok_inj in H. apply pair_inj in H as (_ & <-). exact Hb. }
    destruct (vli_parse_reader src) as [[u r1]|e|e|] eqn:E1; cbn [obind] in H; try discriminate.
    destruct (vli_parse_reader r1) as [[c r2]|e|e|] eqn:E2; cbn [obind] in H; try discriminate.
    destruct (u =? 0); [discriminate|].
    eapply IH; [|exact H]. eapply vli_parse_reader_bytes; [|exact E2]. eapply vli_parse_reader_bytes; eassumption.
Qed.

Lemma xz_parse_index_bytes fx src x r : bytes_ok src = true -> xz_parse_index fx src = Ok (x, r) -> bytes_ok r = true.
Proof.
  intros Hb H. unfold xz_parse_index in H.
  destruct (vli_parse_reader src) as [[count r1]|e|e|] eqn:E1; cbn [obind] in H; try discriminate.
  destruct (negb (fx11 fx) && (576460752303423488 <=? count)); [discriminate|].
  destruct (xz_index_records_loop (S (length r1)) count r1 []) as [[recs r2]|e|e|] eqn:E2; cbn [obind] in H; try discriminate.
  cbv zeta in H. crunch H.
  apply Ok_inj in H. apply pair_inj in H as (_ & <-).
  eapply xz_take_bytes; [|eassumption]. eapply xz_take_bytes; [|eassumption].
  eapply xz_index_records_loop_bytes; [|exact E2]. eapply vli_parse_reader_bytes; eassumption.
Qed.

Lemma xz_parse_footer_bytes src x r : bytes_ok src = true -> xz_parse_footer src = Ok (x, r) -> bytes_ok r = true.
Proof.
  intros Hb H. unfold xz_parse_footer in H. crunch H.
  apply Ok_inj in H. apply pair_inj in H as (_ & <-).
  eapply xz_take_bytes; [|eassumption]. eapply xz_take_bytes; [|eassumption].
  eapply xz_take_bytes; [|eassumption]. eapply xz_take_bytes; eassumption.
Qed.

Lemma xz_index_and_footer_bytes fx ct blocks src r : bytes_ok src = true ->
  xz_index_and_footer fx ct blocks src = Ok r -> bytes_ok r = true.
Proof.
  intros Hb H. unfold xz_index_and_footer in H.
  destruct (xz_parse_index fx src) as [[[count recs] r1]|e|e|] eqn:E1; cbn [obind] in H; try discriminate.
  destruct (negb (count =? blocks)); [discriminate|].
  destruct (xz_parse_footer r1) as [[[bw flags] r2]|e|e|] eqn:E2; cbn [obind] in H; try discriminate.
  destruct (negb (bytes_eqb flags (xz_stream_flags ct))); [discriminate|].
  apply Ok_inj in H. subst r.
  eapply xz_parse_footer_bytes; [|exact E2]. eapply xz_parse_index_bytes; eassumption.
Qed.

Lemma xz_skip_zeros_bytes : forall src n, bytes_ok src = true -> bytes_ok (snd (xz_skip_zeros src n)) = true.
Proof.
  induction src as [|b t IH]; intros n Hb; cbn [xz_skip_zeros]; [reflexivity|].
  destruct (b =? 0); [|exact Hb]. apply IH. apply bytes_ok_cons in Hb as (_ & Hb). exact Hb.
Qed.

Lemma xz_try_next_stream_bytes fx src x r : bytes_ok src = true -> xz_try_next_stream fx src = Ok (x, r) -> bytes_ok r = true.
Proof.
  intros Hb H. unfold xz_try_next_stream in H.
  pose proof (xz_skip_zeros_bytes src 0 Hb) as Hz.
  destruct (xz_skip_zeros src 0) as [padding r0]. cbn [snd] in Hz.
  destruct r0 as [|b r1].
  - destruct (fx16b fx && negb (padding mod 4 =? 0)); [discriminate|].
    apply Ok_inj in H. apply pair_inj in H as (_ & <-). reflexivity.
  - apply bytes_ok_cons in Hz as (_ & Hz).
    destruct (if fx16 fx then negb (b =? 253) else b =? 253); [discriminate|].
    destruct (zlen r1 <? 5); [discriminate|]. cbv zeta in H.
    destruct (negb (bytes_eqb (b :: firstn 5 r1) XZ_MAGIC)); [discriminate|].
    destruct (negb (padding mod 4 =? 0)); [discriminate|].
    destruct (xz_parse_flags_crc (skipn 5 r1)) as [[ct r2]|e|e|] eqn:E; cbn [obind] in H; try discriminate.
    apply Ok_inj in H. apply pair_inj in H as (_ & <-). cbn [snd].
    eapply xz_parse_flags_crc_bytes; [|exact E]. apply b_skipn. exact Hz.
Qed.

(* ---- the whole-file reader on byte strings ------------------------------------------------------ *)
Section XzTotalBytes.
  Variable H : Z -> list Z -> list Z.
  Variable blockdec : list (fkind * Z) -> list Z -> outcome (list Z * list Z).
  (* on byte strings the payload decoder returns Ok or Err, and a tail-sized byte string as rest *)
  Hypothesis blockdec_shrb : forall fs s, bytes_ok s = true -> shrkb s (blockdec fs s).

  Lemma xzd_blocks_total_b : forall fuel ct src pos n acc, (length src < fuel)%nat -> bytes_ok src = true ->
    match xzd_blocks H blockdec fuel ct src pos n acc with
    | Ok (_, r, _, _) => (length r < length src)%nat /\ bytes_ok r = true
    | Err _ => True
    | _ => False
    end.
  Proof.
    induction fuel as [|f IH]; intros ct src pos n acc Hf Hb; [lia|].
    cbn [xzd_blocks].
    pose proof (xz_parse_block_header_shr src) as S1.
    destruct (xz_parse_block_header src) as [[h r1]| | |] eqn:E1; cbn [shrk] in S1; try contradiction; cbn [obind]; [|exact I].
    pose proof (xz_parse_block_header_bytes _ _ _ Hb E1) as B1.
    destruct h as [bh|]; [|split; [lia | exact B1]].
    pose proof (blockdec_shrb (bh_filters bh) r1 B1) as S2.
    destruct (blockdec (bh_filters bh) r1) as [[content r2]| | |]; cbn [shrkb] in S2; try contradiction; cbn [obind]; [|exact I].
    destruct S2 as (S2 & B2).
    match goal with |- context [xz_consume_padding ?p r2] => pose proof (xz_consume_padding_spec p r2) as S3;
      pose proof (xz_consume_padding_bytes p r2) as B3;
      destruct (xz_consume_padding p r2) as [r3| | |]; try contradiction; cbn [obind]; [|exact I] end.
    specialize (B3 r3 B2 eq_refl).
    pose proof (xz_verify_check_spec ct (H ct content) r3) as S4.
    pose proof (xz_verify_check_bytes ct (H ct content) r3) as B4.
    destruct (xz_verify_check ct (H ct content) r3) as [r4| | |]; try contradiction; cbn [obind]; [|exact I].
    specialize (B4 r4 B3 eq_refl).
    match goal with |- match xzd_blocks H blockdec f ct r4 ?p ?m ?a with _ => _ end =>
      specialize (IH ct r4 p m a ltac:(lia) B4); destruct (xzd_blocks H blockdec f ct r4 p m a) as [[[[a1 r5] p5] n5]| | |];
        try contradiction; [destruct IH as (IH1 & IH2); split; [lia | exact IH2] | exact I] end.
  Qed.

  Lemma xzd_streams_total_b fx multi : fx11 fx = true -> forall fuel ct src pos acc, (length src < fuel)%nat ->
    bytes_ok src = true -> total (xzd_streams H blockdec fuel fx multi ct src pos acc).
  Proof.
    intros H11. induction fuel as [|f IH]; intros ct src pos acc Hf Hb; [lia|].
    cbn [xzd_streams].
    pose proof (xzd_blocks_total_b (S (length src)) ct src pos 0 acc ltac:(lia) Hb) as S1.
    destruct (xzd_blocks H blockdec (S (length src)) ct src pos 0 acc) as [[[[acc1 r1] pos1] n]| | |]; try contradiction;
      cbn [obind]; [|exact I].
    destruct S1 as (S1 & B1).
    pose proof (xz_index_and_footer_spec fx ct n r1 H11) as S2.
    pose proof (xz_index_and_footer_bytes fx ct n r1) as B2.
    destruct (xz_index_and_footer fx ct n r1) as [r2| | |]; try contradiction; cbn [obind]; [|exact I].
    specialize (B2 r2 B1 eq_refl).
    destruct multi; [|exact I].
    pose proof (xz_try_next_stream_shr fx r2) as S3.
    pose proof (xz_try_next_stream_bytes fx r2) as B3.
    destruct (xz_try_next_stream fx r2) as [[nct r3]| | |]; cbn [shrk] in S3; try contradiction; cbn [obind]; [|exact I].
    specialize (B3 nct r3 B2 eq_refl).
    destruct nct as [ct2|]; [|exact I]. apply IH; [lia | exact B3].
  Qed.

  Theorem xz_decode_total_b fx multi src : fx11 fx = true -> bytes_ok src = true ->
    total (xz_decode H blockdec fx multi src).
  Proof.
    intros H11 Hb. unfold xz_decode.
    pose proof (xz_parse_stream_header_shr src) as S1.
    pose proof (xz_parse_stream_header_bytes src) as B1.
    destruct (xz_parse_stream_header src) as [[ct r1]| | |]; cbn [shrk] in S1; try contradiction; cbn [obind]; [|exact I].
    apply xzd_streams_total_b; [exact H11 | lia | exact (B1 ct r1 Hb eq_refl)].
  Qed.
End XzTotalBytes.

(* the Delta readers around a payload decoder *)
Lemma xz_blockdec_gen_shrb pdec : (forall d s, bytes_ok s = true -> shrkb s (pdec d s)) ->
  forall fs s, bytes_ok s = true -> shrkb s (xz_blockdec_gen pdec fs s).
Proof.
  intros Hp fs s Hb. unfold xz_blockdec_gen.
  pose proof (xz_chain_deltas_inv fs) as Hc.
  destruct (xz_chain_deltas fs) as [ds| | |]; try contradiction; cbn [obind]; [|exact I].
  pose proof (Hp (xz_chain_dict fs) s Hb) as S1.
  destruct (pdec (xz_chain_dict fs) s) as [[raw rest]| | |]; cbn [shrkb] in S1; try contradiction; cbn [obind]; [|exact I].
  pose proof (xz_deltas_decode_total ds raw Hc) as T.
  destruct (xz_deltas_decode ds raw) as [dr| | |]; cbn [total] in T; try contradiction; cbn [obind]; [|exact I].
  cbn [shrkb]. exact S1.
Qed.

(* XZReader with LZMA2Reader and the Delta readers: total on every byte string *)
Theorem xz_decode_c_total : forall fx multi f, fx11 fx = true -> bytes_ok f = true -> total (xz_decode_c fx multi f).
Proof.
  intros fx multi f H11 Hb. unfold xz_decode_c, xz_blockdec.
  apply xz_decode_total_b; [|exact H11 | exact Hb].
  apply xz_blockdec_gen_shrb. exact lzma2_payload_dec_shrb.
Qed.

Print Assumptions lzip_payload_dec_shr.
Print Assumptions lz_decode_c_total.
Print Assumptions lzma2_payload_dec_shrb.
Print Assumptions xz_decode_c_total.
