(* Format/PayloadLzma2Proofs.v — the LZMA2 payload decoder of the XZ reader model
   (lzma2_payload_dec of XzFormat.v: LZMA2Reader::new(dd), 4096-byte read() calls until Ok(0)) on
   what the LZMA2 writer model wrote with dictionary size d <= dd:
     - the decoder returns exactly the data and leaves exactly what followed the stream;
     - the number of read() calls the model allows itself (2 + 171 per source byte) suffices.
   This is the round trip of Codec/Lzma2ReadProofs.v (read_chunks) with
     (1) a reader dictionary that may be LARGER than the writer's (the XZ block header only
         announces a size >= the one in use), and
     (2) a number of calls proportional to length/4096 instead of the length. *)
From LzVerif Require Import Base.Bytes Codec.Store Codec.Range Codec.LzWindow Codec.LzmaDec Codec.LzmaEnc
  Codec.LzmaWriters Codec.Lzma2Dec Codec.LzmaRoundtrip Codec.LzmaChunkProofs Codec.Lzma2BitsProofs
  Codec.Lzma2SpecProofs Codec.Lzma2FrameSyncProofs
  Codec.Lzma2LoopProofs Codec.Lzma2ReadProofs Format.XzFormat.
Ltac Zify.zify_post_hook ::= Z.div_mod_to_equations.

(* ---- the drain loop from an abstract description of one iteration ----------------------------- *)
Section Drain.
  Variable Inv : lzma2 -> list Z -> Prop.
  Variable tail : list Z.
  Hypothesis Inv_live : forall s rem, Inv s rem -> m_end_reached s = false /\ m_error s = None.
  Hypothesis iter_step : forall s rem len, Inv s rem -> 0 < len ->
    exists out s', lzma2_iter s len = Ok (out, s') /\
      ((rem = [] /\ out = [] /\ Ended tail s') \/
       (out <> [] /\ zlen out <= len /\ exists rem', rem = out ++ rem' /\ Inv s' rem')).

  (* one read(): the buffer is filled completely unless the stream ends *)
  Lemma read_full s rem sz : Inv s rem -> 0 < sz ->
    exists out s' rem', lzma2_read s sz = Ok (out, s') /\ rem = out ++ rem' /\
      ((Inv s' rem' /\ zlen out = sz) \/ (rem' = [] /\ Ended tail s')).
  Proof.
    intros HInv Hsz. destruct (Inv_live s rem HInv) as (Hend & Herr).
    rewrite l2_read_live by assumption.
    destruct (read_loop_ok Inv tail Inv_live iter_step (Z.to_nat (2 * sz + 4)) s rem sz [] HInv ltac:(lia) ltac:(lia))
      as (out & s1 & rem1 & Hloop & Hrem & _ & Hcase).
    cbn [rev app] in Hloop. exists out, s1, rem1. split; [exact Hloop|]. split; [exact Hrem | exact Hcase].
  Qed.

  Lemma drain_ended f s acc : Ended tail s -> lzma2_drain (S f) s acc = Ok (frev acc, tail).
  Proof.
    intros HE. cbn [lzma2_drain]. rewrite (read_ended tail s 4096 HE) by lia. cbn [obind].
    destruct HE as (_ & _ & Hin). rewrite Hin. reflexivity.
  Qed.

  Lemma drain_ok : forall fuel s rem acc, Inv s rem -> zlen rem / 4096 + 2 <= Z.of_nat fuel ->
    lzma2_drain fuel s acc = Ok (rev acc ++ rem, tail).
  Proof.
    induction fuel as [|f IH]; intros s rem acc HInv Hf.
    - pose proof (l2_zlen_nonneg rem). lia.
    - cbn [lzma2_drain].
      destruct (read_full s rem 4096 HInv ltac:(lia)) as (out & s1 & rem1 & Hrd & Hrem & Hcase).
      rewrite Hrd. cbn [obind].
      pose proof (l2_zlen_nonneg rem1) as Hr1. pose proof (l2_zlen_nonneg out) as Ho.
      assert (Hl : zlen rem = zlen out + zlen rem1) by (rewrite Hrem; apply l2_zlen_app).
      destruct Hcase as [(HInv1 & Hfull) | (Hnil & HE)].
      + destruct out as [|b out']; [unfold zlen in Hfull; cbn [length] in Hfull; lia|].
        rewrite (IH s1 rem1 _ HInv1) by lia.
        rewrite l2_rev_rev_append, <- app_assoc, Hrem. reflexivity.
      + subst rem1. rewrite app_nil_r in Hrem. subst rem. destruct out as [|b out'].
        * destruct HE as (_ & _ & Hin). rewrite Hin, frev_rev, app_nil_r. reflexivity.
        * destruct f as [|f']; [lia|]. rewrite (drain_ended f' s1 _ HE).
          rewrite frev_rev, l2_rev_rev_append. reflexivity.
  Qed.
End Drain.

(* ---- a well-formed chunk sequence cannot be much shorter than its data ------------------------- *)
(* an LZMA chunk carries at most 2 MiB in at least 6 bytes *)
Lemma chunks_ok_len lc lp pb r h bytes : chunks_ok lc lp pb r h bytes ->
  h_total h - h_pos h <= 349526 * (zlen bytes - 1).
Proof.
  induction 1 as [r h He | r h bytes _ IH | r h n bytes Hn Hle _ IH
                 | r h syms E c' h' usize csize bytes Hne Hs Hp Hbits Hu Hur Hc Hcr _ IH].
  - change (zlen [0]) with 1. lia.
  - cbn [h_rebase h_total h_pos] in IH. exact IH.
  - cbn [h_at h_total h_pos] in IH. rewrite !zlen_app, zlen_aget_list.
    change (zlen (unc_header r n)) with 3. pose proof (l2_zlen_nonneg bytes). lia.
  - destruct (enc_syms_fields _ _ _ _ _ _ Hs) as (_ & Ht & _ & _). rewrite Ht in IH.
    rewrite !zlen_app. pose proof (l2_zlen_nonneg bytes).
    assert (Hh : 5 <= zlen (lzma_header lc lp pb r usize csize)).
    { unfold lzma_header. rewrite zlen_app.
      match goal with |- context [zlen (if ?b then _ else _)] => pose proof (l2_zlen_nonneg (if b then [props_byte lc lp pb] else [])) end.
      change (zlen [wrap8 (Z.lor (lzma_ctl0 r) (Z.shiftr (usize - 1) 16)); wrap8 (Z.shiftr (usize - 1) 8);
                    wrap8 (usize - 1); wrap8 (Z.shiftr (csize - 1) 8); wrap8 (csize - 1)]) with 5. lia. }
    lia.
Qed.

(* ---- LZMA2 writer model, then the payload decoder of the XZ reader model ----------------------- *)
Lemma l2_window_ge d dd : d <= 2147483648 -> d <= dd ->
  0 < l2_window_size dd /\ l2_window_size dd mod 16 = 0 /\ d <= l2_window_size dd.
Proof. intros Hd Hdd. unfold l2_window_size. lia. Qed.

(* [calls] 4096-byte read() calls suffice when calls >= |data| / 4096 + 2 *)
Theorem lzma2_payload_dec_n_rt : forall lc lp pb d dd data evs stream tail calls,
  0 <= lc -> 0 <= lp -> lc + lp <= 4 -> 0 <= pb <= 4 -> d <= 2147483648 -> d <= dd ->
  bytes_ok data = true -> l2_no_end evs ->
  lzma2_write lc lp pb d None data evs = Ok stream ->
  zlen data / 4096 + 2 <= Z.of_nat calls ->
  lzma2_payload_dec_n calls dd (stream ++ tail) = Ok (data, tail).
Proof.
  intros lc lp pb d dd data evs stream tail calls Hlc Hlp Hs Hpb Hd Hdd Hbytes Hne Hw Hcalls.
  pose proof (lzma2_frame_sync lc lp pb d None data evs stream Hd Hne Hw) as Hck.
  cbn [start_level preset_list] in Hck.
  unfold lzma2_payload_dec_n, lzma2_new, lzma2_get_dict_size. cbn [obind]. fold (l2_window_size dd).
  set (h0 := ehist_new d [] data) in *.
  destruct (l2_window_ge d dd Hd Hdd) as (Hws1 & Hws2 & Hws3).
  assert (Hdata : forall i, 0 <= aget 0 (h_data h0) i < 256).
  { intros i. apply (data_ok_new d [] data eq_refl Hbytes i). }
  match goal with |- lzma2_drain _ ?st _ = _ => set (s0 := st) end.
  assert (Hb : at_boundary lc lp pb d (l2_window_size dd) (h_data h0) (h_total h0) true RDict h0 s0).
  { unfold at_boundary, s0. cbn [m_uncompressed_size m_end_reached m_error m_rc m_coder m_probs m_need_props
                                  m_need_dict_reset m_win].
    split; [reflexivity|]. split; [reflexivity|]. split; [reflexivity|]. split; [reflexivity|].
    split; [split; [exact I|]; split; intros _; reflexivity|].
    split; [|unfold hfix; repeat split; reflexivity].
    unfold sync_win, lzwin_new. cbn [w_size w_pending_len].
    split; [reflexivity|]. split; [reflexivity|].
    unfold h0, ehist_new. rewrite preset_kept_nil. cbn [h_base h_pos]. split; [reflexivity | lia]. }
  assert (HI : Inv lc lp pb d (l2_window_size dd) tail (h_data h0) (h_total h0) true s0 (data_from h0)).
  { left. exists RDict, h0, stream. split; [exact Hck|]. split; [exact Hb|]. split; reflexivity. }
  rewrite (drain_ok (Inv lc lp pb d (l2_window_size dd) tail (h_data h0) (h_total h0) true) tail
             (Inv_live lc lp pb d (l2_window_size dd) tail (h_data h0) (h_total h0) true)
             (iter_step lc lp pb d (l2_window_size dd) tail (h_data h0) (h_total h0) Hlc Hlp Hs Hpb Hd Hws3 Hws1 Hws2 Hdata)
             calls s0 (data_from h0) [] HI).
  - cbn [rev app]. unfold h0. rewrite (data_from_new d data). reflexivity.
  - unfold h0. rewrite (data_from_new d data). exact Hcalls.
Qed.

(* the stream is long enough for the call budget of the model *)
Lemma lzma2_stream_len lc lp pb d data evs stream :
  d <= 2147483648 -> l2_no_end evs -> lzma2_write lc lp pb d None data evs = Ok stream ->
  zlen data <= 349526 * (zlen stream - 1).
Proof.
  intros Hd Hne Hw.
  pose proof (chunks_ok_len _ _ _ _ _ _ (lzma2_frame_sync lc lp pb d None data evs stream Hd Hne Hw)) as H.
  cbn [start_level preset_list] in H. unfold ehist_new in H. rewrite preset_kept_nil in H.
  cbn [h_total h_pos app] in H. change (zlen (@nil Z)) with 0 in H. lia.
Qed.

(* C01 + C16 for the payload decoder the XZ reader model uses (xz_decode_c): its own call budget *)
Theorem lzma2_payload_dec_rt : forall lc lp pb d dd data evs stream tail,
  0 <= lc -> 0 <= lp -> lc + lp <= 4 -> 0 <= pb <= 4 -> d <= 2147483648 -> d <= dd ->
  bytes_ok data = true -> l2_no_end evs ->
  lzma2_write lc lp pb d None data evs = Ok stream ->
  lzma2_payload_dec dd (stream ++ tail) = Ok (data, tail).
Proof.
  intros lc lp pb d dd data evs stream tail Hlc Hlp Hs Hpb Hd Hdd Hbytes Hne Hw.
  unfold lzma2_payload_dec.
  apply (lzma2_payload_dec_n_rt lc lp pb d dd data evs stream tail _ Hlc Hlp Hs Hpb Hd Hdd Hbytes Hne Hw).
  pose proof (lzma2_stream_len lc lp pb d data evs stream Hd Hne Hw) as Hl.
  rewrite !Nat2Z.inj_succ, Nat2Z.inj_mul, app_length, Nat2Z.inj_add.
  fold (zlen stream). fold (zlen tail). pose proof (l2_zlen_nonneg tail). pose proof (l2_zlen_nonneg data).
  change (Z.of_nat 171) with 171. lia.
Qed.

(* ---- the same reader, call by call (for the call-by-call container model xzr_read) -------------- *)
(* [l2_rs lc lp pb d dd data tail s rem]: the LZMA2Reader state s is somewhere inside the stream
   written for [data] (or behind its end), still has to deliver [rem], and [tail] follows the stream *)
Definition l2_rs (lc lp pb d dd : Z) (data tail : list Z) (s : lzma2) (rem : list Z) : Prop :=
  let h0 := ehist_new d [] data in
  Inv lc lp pb d (l2_window_size dd) tail (h_data h0) (h_total h0) true s rem \/ (rem = [] /\ Ended tail s).

Lemma l2_rs_new : forall lc lp pb d dd data evs stream tail,
  0 <= lc -> 0 <= lp -> lc + lp <= 4 -> 0 <= pb <= 4 -> d <= 2147483648 -> d <= dd ->
  bytes_ok data = true -> l2_no_end evs ->
  lzma2_write lc lp pb d None data evs = Ok stream ->
  exists s0, lzma2_new (stream ++ tail) dd None = Ok s0 /\ l2_rs lc lp pb d dd data tail s0 data.
Proof.
  intros lc lp pb d dd data evs stream tail Hlc Hlp Hs Hpb Hd Hdd Hbytes Hne Hw.
  pose proof (lzma2_frame_sync lc lp pb d None data evs stream Hd Hne Hw) as Hck.
  cbn [start_level preset_list] in Hck.
  unfold lzma2_new, lzma2_get_dict_size. cbn [obind]. fold (l2_window_size dd).
  eexists. split; [reflexivity|]. unfold l2_rs. cbv zeta.
  set (h0 := ehist_new d [] data) in *.
  left. left. exists RDict, h0, stream. split; [exact Hck|]. split; [|split; [reflexivity|]].
  - unfold at_boundary. cbn [m_uncompressed_size m_end_reached m_error m_rc m_coder m_probs m_need_props
                             m_need_dict_reset m_win].
    split; [reflexivity|]. split; [reflexivity|]. split; [reflexivity|]. split; [reflexivity|].
    split; [split; [exact I|]; split; intros _; reflexivity|].
    split; [|unfold hfix; repeat split; reflexivity].
    unfold sync_win, lzwin_new. cbn [w_size w_pending_len].
    split; [reflexivity|]. split; [reflexivity|].
    unfold h0, ehist_new. rewrite preset_kept_nil. cbn [h_base h_pos]. split; [reflexivity | lia].
  - unfold h0. rewrite (data_from_new d data). reflexivity.
Qed.

(* one read() with a non-empty destination *)
Lemma l2_rs_read : forall lc lp pb d dd data tail s rem sz,
  0 <= lc -> 0 <= lp -> lc + lp <= 4 -> 0 <= pb <= 4 -> d <= 2147483648 -> d <= dd ->
  bytes_ok data = true ->
  l2_rs lc lp pb d dd data tail s rem -> 0 < sz ->
  exists out s' rem', lzma2_read s sz = Ok (out, s') /\ rem = out ++ rem' /\
    l2_rs lc lp pb d dd data tail s' rem' /\
    (out = [] -> rem = [] /\ m_in s' = tail) /\ (rem <> [] -> out <> []).
Proof.
  intros lc lp pb d dd data tail s rem sz Hlc Hlp Hs Hpb Hd Hdd Hbytes HR Hsz.
  unfold l2_rs in *. cbv zeta in *. set (h0 := ehist_new d [] data) in *.
  destruct (l2_window_ge d dd Hd Hdd) as (Hws1 & Hws2 & Hws3).
  assert (Hdata : forall i, 0 <= aget 0 (h_data h0) i < 256).
  { intros i. apply (data_ok_new d [] data eq_refl Hbytes i). }
  destruct HR as [HI | (-> & HE)].
  - destruct (read_ok (Inv lc lp pb d (l2_window_size dd) tail (h_data h0) (h_total h0) true) tail
                (Inv_live lc lp pb d (l2_window_size dd) tail (h_data h0) (h_total h0) true)
                (iter_step lc lp pb d (l2_window_size dd) tail (h_data h0) (h_total h0) Hlc Hlp Hs Hpb Hd Hws3 Hws1 Hws2 Hdata)
                s rem sz HI Hsz) as (out & s1 & rem1 & Hrd & Hrem & Hcase & Hempty & Hnonempty).
    exists out, s1, rem1. split; [exact Hrd|]. split; [exact Hrem|].
    split; [destruct Hcase as [HI1 | (Hn & HE1)]; [left; exact HI1 | right; split; assumption]|].
    split; [|exact Hnonempty].
    intros Ho. destruct (Hempty Ho) as (Hr & (_ & _ & Hin)). split; assumption.
  - exists [], s, []. rewrite (read_ended tail s sz HE Hsz).
    split; [reflexivity|]. split; [reflexivity|]. split; [right; split; [reflexivity | exact HE]|].
    split; [|intros X; congruence]. intros _. split; [reflexivity|]. destruct HE as (_ & _ & Hin). exact Hin.
Qed.

Print Assumptions lzma2_payload_dec_rt.
