(* Format/ContainerCondProofs.v — the container round trips of XzProofs.v / LzipProofs.v once more,
   with the payload-codec hypothesis restricted to the payloads that actually occur.

   XzProofs.v and LzipProofs.v assume  forall d dd x tail, d <= dd -> pdec dd (penc d x ++ tail) = Ok (x, tail)
   for EVERY dictionary size d and EVERY list x.  The concrete LZMA2 / LZMA models satisfy this only
   for byte strings, dictionary sizes up to 2 GiB and (LZMA1) a bounded number of coded bits, so
   the theorems there cannot be instantiated with them.  Here the hypothesis is
     - XZ:   a block decoder [bdec] that inverts the writer's payload for the blocks satisfying an
             arbitrary predicate [bgood] (covers both the abstract chain  blockdec pdec fdec  of
             XzProofs.v and the executable chain  xz_blockdec  of XzFormat.v);
     - LZIP: pdec inverts penc for the byte strings x and dictionary sizes d satisfying an arbitrary
             predicate [good], and reader dictionaries in the range the header byte can announce;
   and every theorem asks [bgood] / [good] of the blocks / members the writer cuts.  The proofs
   follow XzProofs.v / LzipProofs.v line by line; all parsing lemmas are reused from there. *)
From LzVerif Require Import Base.Bytes Format.Crc Format.CrcProofs Format.Sha256 Format.Vli Format.VliProofs
  Format.XzFormat Format.LzipFormat Format.LzipDict Format.LzipDictProofs Format.XzSplitProofs Format.LzipSplitProofs
  Format.XzHeaderProofs Format.XzBlockHeaderProofs Format.XzIndexProofs Format.XzProofs Format.LzipProofs.
Ltac Zify.zify_post_hook ::= Z.div_mod_to_equations.

(* ============================================================================================= *)
(* XZ *)
(* the stream-padding lemmas of XzProofs.v (there inside the Section, hence with its hypotheses) *)
Lemma tn_skip_zeros_app k : forall l n, xz_skip_zeros (repeatn 0 k ++ l) n = xz_skip_zeros l (n + Z.of_nat k).
Proof.
  induction k as [|k IH]; intros l n.
  - cbn [repeatn app]. f_equal. lia.
  - cbn [repeatn app xz_skip_zeros Z.eqb]. rewrite IH. f_equal. lia.
Qed.

Lemma tn_end p : 0 <= p ->
  xz_try_next_stream xz_fixed (repeatn 0 (Z.to_nat p)) =
  if p mod 4 =? 0 then Ok (None, []) else Err E_INVALID_DATA.
Proof.
  intros Hp. unfold xz_try_next_stream.
  replace (repeatn 0 (Z.to_nat p)) with (repeatn 0 (Z.to_nat p) ++ []) by apply app_nil_r.
  rewrite tn_skip_zeros_app. cbn [xz_skip_zeros fx16b xz_fixed andb]. rewrite Z2Nat.id by lia. cbn [Z.add].
  destruct (p mod 4 =? 0); reflexivity.
Qed.

Lemma tn_stream_header p ct X : 0 <= p -> check_known ct = true ->
  xz_try_next_stream xz_fixed (repeatn 0 (Z.to_nat p) ++ xz_stream_header ct ++ X) =
  if p mod 4 =? 0 then Ok (Some ct, X) else Err E_INVALID_DATA.
Proof.
  intros Hp Hk. set (Y := xz_stream_flags ct ++ crc32_bytes (xz_stream_flags ct) ++ X).
  assert (EY : xz_stream_header ct ++ X = 253 :: 55 :: 122 :: 88 :: 90 :: 0 :: Y).
  { unfold xz_stream_header, XZ_MAGIC, Y. rewrite <- !app_assoc. reflexivity. }
  rewrite EY. unfold xz_try_next_stream. rewrite tn_skip_zeros_app, Z2Nat.id by lia.
  cbn [xz_skip_zeros]. change (253 =? 0) with false. cbv iota. cbn [fx16 xz_fixed].
  change (253 =? 253) with true. cbn [negb].
  rewrite !zlen_cons. pose proof (zlen_nonneg Y).
  destruct (Z.ltb_spec (1 + (1 + (1 + (1 + (1 + zlen Y))))) 5); [lia|].
  cbn [firstn skipn]. change (bytes_eqb [253; 55; 122; 88; 90; 0] XZ_MAGIC) with true. cbn [negb].
  replace (0 + p) with p by lia.
  destruct (p mod 4 =? 0); cbn [negb]; [|reflexivity].
  unfold Y. rewrite xz_parse_flags_crc_ok by exact Hk. reflexivity.
Qed.

Lemma tn_garbage p b X : 0 <= p -> b <> 0 -> b <> 253 ->
  xz_try_next_stream xz_fixed (repeatn 0 (Z.to_nat p) ++ b :: X) = Err E_INVALID_DATA.
Proof.
  intros Hp H0 H253. unfold xz_try_next_stream. rewrite tn_skip_zeros_app.
  cbn [xz_skip_zeros]. destruct (Z.eqb_spec b 0); [contradiction|].
  cbn [fx16 xz_fixed]. destruct (Z.eqb_spec b 253); [contradiction | reflexivity].
Qed.

Section XzCond.
  Variable penc : Z -> list Z -> list Z.
  Variable fenc : fkind -> Z -> list Z -> list Z.
  Variable bdec : list (fkind * Z) -> list Z -> outcome (list Z * list Z).
  Variable bgood : xzopts -> list Z -> Prop.
  (* the block decoder for the chain the reader parses from the block header (the configured
     pre-filters, then LZMA2 with an announced dictionary dd >= the writer's) returns the block's
     content and leaves what follows the payload *)
  Hypothesis bdec_ok : forall o c dd tail, bgood o c -> xo_dict o <= dd ->
    bdec (xo_filters o ++ [(FLZMA2, dd)]) (payload_of penc fenc o c ++ tail) = Ok (c, tail).

  Notation payload_of' := (payload_of penc fenc).
  Notation xz_encode' := (xz_encode penc fenc).
  Notation xzd_blocks' := (xzd_blocks xz_check_bytes bdec).
  Notation xzd_streams' := (xzd_streams xz_check_bytes bdec).
  Notation xz_decode' := (xz_decode xz_check_bytes bdec).

  (* the blocks of one stream *)
  Lemma xzd_blocks_rt_c o : opts_ok o -> forall blocks bytes recs,
    Forall (bgood o) blocks ->
    xz_blocks_bytes xz_fixed o blocks (map (payload_of' o) blocks) = Ok (bytes, recs) ->
    zlen bytes mod 4 = 0 /\ recs_ok recs /\ zlen recs = zlen blocks /\ zlen blocks <= zlen bytes /\
    forall fuel rest pos n acc, pos mod 4 = 0 -> (length blocks < fuel)%nat ->
      exists pos', pos' mod 4 = 0 /\
        xzd_blocks' fuel (xo_check o) (bytes ++ 0 :: rest) pos n acc
        = Ok (rev_append (concat blocks) acc, rest, pos' + 1, n + zlen blocks).
  Proof.
    intros Hopts. pose proof Hopts as [Hk Hfs]. induction blocks as [|c cs IH]; intros bytes recs Hg E.
    - cbn [xz_blocks_bytes map] in E. inversion E; subst bytes recs.
      split; [reflexivity|]. split; [constructor|]. split; [reflexivity|]. split; [cbn; lia|].
      intros fuel rest pos n acc Hpos Hf. destruct fuel as [|fuel]; [cbn in Hf; lia|].
      exists pos. split; [exact Hpos|]. cbn [app xzd_blocks xz_parse_block_header]. cbn [Z.eqb obind].
      cbn [concat rev_append]. rewrite zlen_cons. f_equal. f_equal; [f_equal; lia | cbn; lia].
    - inversion Hg as [|x l Hgc Hgcs]; subst x l.
      cbn [xz_blocks_bytes map] in E.
      destruct (xz_block xz_fixed o c (payload_of' o c)) as [[bb rec]| | |] eqn:Eb; try discriminate. cbn [obind] in E.
      destruct (xz_blocks_bytes xz_fixed o cs (map (payload_of' o) cs)) as [[bs rs]| | |] eqn:Ecs; try discriminate.
      cbn [obind fst snd] in E. inversion E; subst bytes recs; clear E.
      destruct (IH bs rs Hgcs eq_refl) as (Mb & Rk & Lr & Lb & Loop).
      unfold xz_block in Eb. destruct (xz_block_header o) as [h| | |] eqn:Eh; try discriminate. cbn [obind] in Eb.
      inversion Eb; subst bb rec; clear Eb. cbn [fx5 xz_fixed].
      set (payload := payload_of' o c) in *.
      set (chk := xz_check_bytes (xo_check o) c) in *.
      set (pn := pad4 (zlen payload)) in *.
      destruct (check_size_mod4 _ Hk) as [Hc4 Hc0].
      assert (Lchk : zlen chk = check_size (xo_check o)) by (apply zlen_check_bytes; exact Hk).
      pose proof (pad4_range (zlen payload)) as Hpn. fold pn in Hpn.
      assert (Hsum : (zlen payload + pn) mod 4 = 0) by (unfold pn; apply pad4_sum).
      destruct (xz_block_header_rt o h [] Hopts Eh) as (dd0 & _ & _ & Hh4 & Hh12).
      assert (Lbb : zlen (h ++ payload ++ repeatn 0 (Z.to_nat pn) ++ chk) = zlen h + zlen payload + pn + zlen chk).
      { rewrite !zlen_app, zlen_repeatn. lia. }
      pose proof (zlen_nonneg payload) as Hp0.
      split; [rewrite zlen_app, Lbb; lia|].
      split; [constructor; [cbn [fst snd]; pose proof (zlen_nonneg c); lia | exact Rk]|].
      split; [rewrite !zlen_cons; lia|].
      split; [rewrite zlen_app, Lbb, zlen_cons; lia|].
      intros fuel rest pos n acc Hpos Hf. destruct fuel as [|fuel]; [cbn in Hf; lia|].
      cbn [xzd_blocks].
      (* header *)
      set (tail1 := payload ++ repeatn 0 (Z.to_nat pn) ++ chk ++ bs ++ 0 :: rest).
      assert (Esrc : (h ++ payload ++ repeatn 0 (Z.to_nat pn) ++ chk) ++ bs ++ 0 :: rest = h ++ tail1)
        by (unfold tail1; rewrite <- !app_assoc; reflexivity).
      rewrite <- app_assoc, Esrc.
      destruct (xz_block_header_rt o h tail1 Hopts Eh) as (dd & Hdd & Ph & _ & _).
      rewrite Ph. cbn [obind bh_filters].
      (* payload through the chain *)
      unfold tail1 at 1. unfold payload at 1.
      rewrite (bdec_ok o c dd _ Hgc Hdd). cbn [obind].
      (* block padding; the position is the header and payload further *)
      set (tail2 := repeatn 0 (Z.to_nat pn) ++ chk ++ bs ++ 0 :: rest).
      assert (Z1 : zlen (h ++ tail1) - zlen tail1 = zlen h) by (rewrite zlen_app; lia).
      assert (Z2 : zlen tail1 - zlen tail2 = zlen payload).
      { assert (E12 : tail1 = payload ++ tail2) by reflexivity. rewrite E12, zlen_app. lia. }
      assert (Z3 : zlen tail2 - zlen (bs ++ 0 :: rest) = pn + zlen chk).
      { assert (E23 : tail2 = repeatn 0 (Z.to_nat pn) ++ chk ++ (bs ++ 0 :: rest)) by reflexivity.
        rewrite E23, !zlen_app, zlen_repeatn. lia. }
      assert (Ppos : pad4 (pos + (zlen (h ++ tail1) - zlen tail1) + (zlen tail1 - zlen tail2)) = pn).
      { rewrite Z1, Z2. unfold pn. apply pad4_add. lia. }
      assert (CP : xz_consume_padding (pos + (zlen (h ++ tail1) - zlen tail1) + (zlen tail1 - zlen tail2)) tail2
                   = Ok (chk ++ bs ++ 0 :: rest)) by (apply (xz_consume_padding_ok _ pn); exact Ppos).
      rewrite CP. cbn [obind]. fold chk.
      assert (VC : xz_verify_check (xo_check o) chk (chk ++ bs ++ 0 :: rest) = Ok (bs ++ 0 :: rest))
        by (apply xz_verify_check_ok; exact Hk).
      rewrite VC. cbn [obind].
      (* the remaining blocks *)
      set (pos3 := pos + (zlen (h ++ tail1) - zlen tail1) + (zlen tail1 - zlen tail2) + (zlen tail2 - zlen (bs ++ 0 :: rest))).
      assert (Hpos3 : pos3 mod 4 = 0) by (unfold pos3; rewrite Z1, Z2, Z3; lia).
      destruct (Loop fuel rest pos3 (n + 1) (rev_append c acc) Hpos3 ltac:(cbn [length] in Hf; lia)) as (pos' & Hp' & EL).
      exists pos'. split; [exact Hp'|]. rewrite EL. cbn [concat]. rewrite rev_append_rev, rev_append_rev, rev_append_rev.
      rewrite rev_app_distr, <- app_assoc, zlen_cons. f_equal. f_equal. lia.
  Qed.

  (* [bgood] of every block the writer cuts from [parts] under the options XZWriter::new derives *)
  Definition stream_good (o0 : xzopts) (parts : list (list Z)) : Prop :=
    forall o blocks, xzw_new o0 = Ok o -> xz_blocks_of xz_fixed (xo_block_size o) parts = Ok blocks ->
      Forall (bgood o) blocks.

  Lemma xzd_stream_rt_c o0 parts f : stream_ok o0 -> stream_good o0 parts -> xz_encode' xz_fixed o0 parts = Ok f ->
    exists body, f = xz_stream_header (xo_check o0) ++ body /\ zlen body mod 4 = 0 /\ (20 <= zlen body) /\
      forall fuel multi rest pos acc, pos mod 4 = 0 ->
        exists pos1, pos1 mod 4 = 0 /\
        xzd_streams' (S fuel) xz_fixed multi (xo_check o0) (body ++ rest) pos acc =
        (if multi then
           do nx <- xz_try_next_stream xz_fixed rest;
           match fst nx with
           | Some ct2 => xzd_streams' fuel xz_fixed multi ct2 (snd nx) (pos1 + (zlen rest - zlen (snd nx))) (rev_append (concat parts) acc)
           | None => Ok (frev (rev_append (concat parts) acc), snd nx)
           end
         else Ok (frev (rev_append (concat parts) acc), rest)).
  Proof.
    intros [[Hk Hfs] Hbs] Hgood E. unfold xz_encode in E.
    destruct (xzw_new o0) as [o| | |] eqn:Eo; try discriminate. cbn [obind] in E.
    assert (Ho : xo_check o = xo_check o0 /\ xo_filters o = xo_filters o0 /\ xo_dict o = xo_dict o0 /\
                 xo_block_size o = match xo_block_size o0 with Some b => Some (Z.max b (xo_dict o0)) | None => None end).
    { unfold xzw_new in Eo. destruct (3 <? zlen (xo_filters o0)); [discriminate|]. inversion Eo. cbn. auto. }
    destruct Ho as (Hoc & Hof & Hod & Hob).
    assert (Hopts : opts_ok o) by (split; [rewrite Hoc; exact Hk | rewrite Hof; exact Hfs]).
    destruct (xz_blocks_of xz_fixed (xo_block_size o) parts) as [blocks| | |] eqn:Ebl; try discriminate. cbn [obind] in E.
    pose proof (Hgood o blocks Eo Ebl) as Hg.
    assert (Hcat : concat blocks = concat parts).
    { rewrite Hob in Ebl. destruct (xo_block_size o0) as [b|].
      - destruct (xz_blocks_fixed_some (Z.max b (xo_dict o0)) parts ltac:(lia)) as (bl & E1 & C1 & _).
        rewrite E1 in Ebl. inversion Ebl; subst. exact C1.
      - rewrite xz_blocks_none in Ebl. inversion Ebl; subst blocks. destruct (concat parts); cbn; [reflexivity|].
        rewrite app_nil_r. reflexivity. }
    unfold xz_container in E.
    destruct (xz_blocks_bytes xz_fixed o blocks (map (payload_of' o) blocks)) as [[bytes recs]| | |] eqn:Ebb; try discriminate.
    cbn [obind fx4 xz_fixed] in E.
    assert (E' : (do idx <- xz_index recs;
                  Ok (xz_stream_header (xo_check o) ++ bytes ++ idx ++ xz_stream_footer (xo_check o) recs)) = Ok f).
    { destruct blocks; exact E. }
    clear E. destruct (xz_index recs) as [idx| | |] eqn:Ei; try discriminate. cbn [obind] in E'.
    destruct (xzd_blocks_rt_c o Hopts blocks bytes recs Hg Ebb) as (Mb & Rk & Lr & Lb & Loop).
    clear Hg Hgood. rewrite Hoc in *.
    exists (bytes ++ idx ++ xz_stream_footer (xo_check o0) recs).
    split; [congruence|].
    destruct (xz_index_and_footer_rt (xo_check o0) recs idx [] Hk Rk Ei) as (t0 & Et0 & Mi & _).
    destruct (xz_index_rt recs idx [] Rk Ei) as (_ & _ & _ & Li8 & _).
    split; [rewrite !zlen_app, zlen_stream_footer; lia|].
    split; [rewrite !zlen_app, zlen_stream_footer; pose proof (zlen_nonneg bytes); lia|].
    intros fuel multi rest pos acc Hpos.
    destruct (xz_index_and_footer_rt (xo_check o0) recs idx rest Hk Rk Ei) as (t & Et & _ & IF).
    set (src := (bytes ++ idx ++ xz_stream_footer (xo_check o0) recs) ++ rest).
    assert (Esrc : src = bytes ++ 0 :: (t ++ xz_stream_footer (xo_check o0) recs ++ rest)).
    { unfold src. rewrite Et. rewrite <- !app_assoc. cbn [app]. reflexivity. }
    destruct (Loop (S (length src)) (t ++ xz_stream_footer (xo_check o0) recs ++ rest) pos 0 acc Hpos) as (pos' & Hp' & EB).
    { apply zlen_length_lt. rewrite Nat2Z.inj_succ. fold (zlen src). rewrite Esrc, zlen_app.
      pose proof (zlen_nonneg (0 :: t ++ xz_stream_footer (xo_check o0) recs ++ rest)). lia. }
    exists (pos' + 1 + zlen t + 12). split.
    { assert (zlen idx = 1 + zlen t) by (rewrite Et, zlen_cons; reflexivity). lia. }
    cbn [xzd_streams]. fold src. rewrite Esrc at 2. rewrite EB. cbn [obind]. rewrite Hcat.
    replace (0 + zlen blocks) with (zlen recs) by lia. rewrite IF. cbn [obind].
    destruct multi; [|reflexivity].
    destruct (xz_try_next_stream xz_fixed rest) as [[nct r3]| | |]; cbn [obind fst snd]; try reflexivity.
    destruct nct as [ct2|]; [|reflexivity].
    f_equal. rewrite !zlen_app, zlen_stream_footer. lia.
  Qed.

  (* C02 (XZ) *)
  Theorem C02_xz_cond : forall o0 parts f multi, stream_ok o0 -> stream_good o0 parts ->
    xz_encode' xz_fixed o0 parts = Ok f ->
    xz_decode' xz_fixed multi f = Ok (concat parts, []).
  Proof.
    intros o0 parts f multi Hok Hg E. pose proof Hok as [[Hk _] _].
    destruct (xzd_stream_rt_c o0 parts f Hok Hg E) as (body & Ef & Mb & Lb & S).
    unfold xz_decode. rewrite Ef. rewrite xz_parse_stream_header_ok by exact Hk. cbn [obind].
    rewrite zlen_app, zlen_stream_header.
    destruct (S (length (xz_stream_header (xo_check o0) ++ body)) multi [] (12 + zlen body - zlen body) []
                ltac:(lia)) as (pos1 & _ & ES).
    rewrite app_nil_r in ES. rewrite ES. destruct multi.
    - cbn [xz_try_next_stream xz_skip_zeros fx16b xz_fixed andb]. cbn [Z.modulo Z.div_eucl Z.eqb negb obind fst snd].
      rewrite frev_rev, rev_append_rev, rev_app_distr, rev_involutive. cbn [rev app]. reflexivity.
    - rewrite frev_rev, rev_append_rev, rev_app_distr, rev_involutive. cbn [rev app]. reflexivity.
  Qed.

  (* C12: concatenated streams and stream padding *)
  Definition st_ok_c (s : xzstream) : Prop :=
    st_ok penc fenc s /\ stream_good (st_opts s) (st_parts s).

  Lemma xz_file_len_c ss : Forall st_ok_c ss -> zlen ss <= zlen (xz_file ss).
  Proof.
    induction ss as [|s t IH]; intros Hok; [cbn; lia|]. inversion Hok as [|x l Hs Ht]; subst x l.
    unfold xz_file. cbn [map concat]. fold (xz_file t). rewrite zlen_cons, zlen_app. specialize (IH Ht).
    destruct Hs as ((Hso & He & Hp) & Hg). destruct (xzd_stream_rt_c _ _ _ Hso Hg He) as (body & Ef & _ & Lb & _).
    unfold st_bytes. rewrite zlen_app, Ef, zlen_app, zlen_stream_header.
    pose proof (zlen_nonneg (repeatn 0 (Z.to_nat (st_pad s)))). lia.
  Qed.

  Lemma xz_multi_run_c : forall t s body fuel pos acc,
    st_ok_c s -> Forall st_ok_c t -> Forall (fun x => st_pad x mod 4 = 0) (s :: t) ->
    st_file s = xz_stream_header (xo_check (st_opts s)) ++ body ->
    pos mod 4 = 0 -> (length t < fuel)%nat ->
    xzd_streams' fuel xz_fixed true (xo_check (st_opts s))
       (body ++ repeatn 0 (Z.to_nat (st_pad s)) ++ xz_file t) pos acc
    = Ok (frev (rev_append (xz_content (s :: t)) acc), []).
  Proof.
    induction t as [|s2 t IH]; intros s body fuel pos acc Hs Ht Hpads Ef Hpos Hf.
    - destruct Hs as ((Hso & He & Hp) & Hg). inversion Hpads as [|x l Hp4 _]; subst x l.
      destruct (xzd_stream_rt_c _ _ _ Hso Hg He) as (body' & Ef' & _ & _ & S).
      assert (body' = body) by (rewrite Ef' in Ef; apply app_inv_head in Ef; exact Ef). subst body'.
      destruct fuel as [|fuel]; [cbn in Hf; lia|].
      destruct (S fuel true (repeatn 0 (Z.to_nat (st_pad s)) ++ xz_file []) pos acc Hpos) as (pos1 & _ & ES).
      rewrite ES. unfold xz_file. cbn [map concat]. rewrite app_nil_r.
      rewrite tn_end by exact Hp. rewrite Hp4. cbn [Z.eqb obind fst snd].
      unfold xz_content. cbn [map concat]. rewrite app_nil_r. reflexivity.
    - destruct Hs as ((Hso & He & Hp) & Hg). inversion Hpads as [|x l Hp4 Hpads']; subst x l.
      inversion Ht as [|x l Hs2 Ht']; subst x l.
      destruct (xzd_stream_rt_c _ _ _ Hso Hg He) as (body' & Ef' & _ & _ & S).
      assert (body' = body) by (rewrite Ef' in Ef; apply app_inv_head in Ef; exact Ef). subst body'.
      destruct fuel as [|fuel]; [cbn in Hf; lia|].
      destruct (S fuel true (repeatn 0 (Z.to_nat (st_pad s)) ++ xz_file (s2 :: t)) pos acc Hpos) as (pos1 & Hp1 & ES).
      rewrite ES. clear ES S.
      pose proof Hs2 as ((Hso2 & He2 & Hp2) & Hg2).
      destruct (xzd_stream_rt_c _ _ _ Hso2 Hg2 He2) as (body2 & Ef2 & Mb2 & _ & _).
      assert (Efile : xz_file (s2 :: t) = xz_stream_header (xo_check (st_opts s2)) ++
                                          (body2 ++ repeatn 0 (Z.to_nat (st_pad s2)) ++ xz_file t)).
      { unfold xz_file. cbn [map concat]. unfold st_bytes. rewrite Ef2, <- !app_assoc. reflexivity. }
      rewrite Efile. destruct Hso2 as [[Hk2 _] _].
      rewrite tn_stream_header by assumption. rewrite Hp4. cbn [Z.eqb obind fst snd].
      rewrite IH; try assumption.
      + unfold xz_content. cbn [map concat]. rewrite !frev_rev, !rev_append_rev.
        repeat rewrite ?rev_app_distr, ?rev_involutive, <- ?app_assoc. reflexivity.
      + rewrite !zlen_app, zlen_repeatn, zlen_stream_header. lia.
      + cbn [length] in Hf. lia.
  Qed.

  Theorem xz_multi_cond : forall s t, Forall st_ok_c (s :: t) -> Forall (fun x => st_pad x mod 4 = 0) (s :: t) ->
    xz_decode' xz_fixed true (xz_file (s :: t)) = Ok (xz_content (s :: t), []).
  Proof.
    intros s t Hok Hpads. inversion Hok as [|x l Hs Ht]; subst x l.
    pose proof Hs as ((Hso & He & Hp) & Hg). pose proof Hso as [[Hk _] _].
    destruct (xzd_stream_rt_c _ _ _ Hso Hg He) as (body & Ef & Mb & _ & _).
    assert (Efile : xz_file (s :: t) = xz_stream_header (xo_check (st_opts s)) ++
                                       (body ++ repeatn 0 (Z.to_nat (st_pad s)) ++ xz_file t)).
    { unfold xz_file. cbn [map concat]. unfold st_bytes. rewrite Ef, <- !app_assoc. reflexivity. }
    unfold xz_decode. rewrite Efile, xz_parse_stream_header_ok by exact Hk. cbn [obind].
    rewrite xz_multi_run_c with (body := body); try assumption.
    - rewrite frev_rev, rev_append_rev, rev_app_distr, rev_involutive. cbn [rev app]. reflexivity.
    - rewrite zlen_app, zlen_stream_header. lia.
    - apply zlen_length_lt. rewrite Nat2Z.inj_succ. rewrite <- Efile. fold (zlen (xz_file (s :: t))).
      pose proof (xz_file_len_c (s :: t) Hok). rewrite zlen_cons in H. lia.
  Qed.

  Theorem xz_multi_bad_padding_cond : forall s rest, st_ok_c s -> st_pad s mod 4 <> 0 ->
    (rest = [] \/ exists ct X, check_known ct = true /\ rest = xz_stream_header ct ++ X) ->
    xz_decode' xz_fixed true (st_bytes s ++ rest) = Err E_INVALID_DATA.
  Proof.
    intros s rest ((Hso & He & Hp) & Hg) Hbad Hrest. pose proof Hso as [[Hk _] _].
    destruct (xzd_stream_rt_c _ _ _ Hso Hg He) as (body & Ef & Mb & _ & S).
    unfold xz_decode, st_bytes. rewrite Ef, <- !app_assoc, xz_parse_stream_header_ok by exact Hk. cbn [obind].
    set (src := xz_stream_header (xo_check (st_opts s)) ++ body ++ repeatn 0 (Z.to_nat (st_pad s)) ++ rest).
    destruct (S (length src) true (repeatn 0 (Z.to_nat (st_pad s)) ++ rest)
                (zlen src - zlen (body ++ repeatn 0 (Z.to_nat (st_pad s)) ++ rest)) []) as (pos1 & _ & ES).
    { unfold src. rewrite zlen_app, zlen_stream_header. lia. }
    rewrite ES. destruct Hrest as [->|(ct & X & Hkc & ->)].
    - rewrite app_nil_r, tn_end by exact Hp. destruct (Z.eqb_spec (st_pad s mod 4) 0); [contradiction | reflexivity].
    - rewrite tn_stream_header by assumption. destruct (Z.eqb_spec (st_pad s mod 4) 0); [contradiction | reflexivity].
  Qed.

  Theorem xz_multi_garbage_cond : forall s b X, st_ok_c s -> b <> 0 -> b <> 253 ->
    xz_decode' xz_fixed true (st_bytes s ++ b :: X) = Err E_INVALID_DATA.
  Proof.
    intros s b X ((Hso & He & Hp) & Hg) H0 H253. pose proof Hso as [[Hk _] _].
    destruct (xzd_stream_rt_c _ _ _ Hso Hg He) as (body & Ef & Mb & _ & S).
    unfold xz_decode, st_bytes. rewrite Ef, <- !app_assoc, xz_parse_stream_header_ok by exact Hk. cbn [obind].
    set (src := xz_stream_header (xo_check (st_opts s)) ++ body ++ repeatn 0 (Z.to_nat (st_pad s)) ++ b :: X).
    destruct (S (length src) true (repeatn 0 (Z.to_nat (st_pad s)) ++ b :: X)
                (zlen src - zlen (body ++ repeatn 0 (Z.to_nat (st_pad s)) ++ b :: X)) []) as (pos1 & _ & ES).
    { unfold src. rewrite zlen_app, zlen_stream_header. lia. }
    rewrite ES, tn_garbage by assumption. reflexivity.
  Qed.

  (* C12 / C16: single-stream decoding stops behind the footer *)
  Theorem xz_single_stops_cond : forall o0 parts f rest, stream_ok o0 -> stream_good o0 parts ->
    xz_encode' xz_fixed o0 parts = Ok f ->
    xz_decode' xz_fixed false (f ++ rest) = Ok (concat parts, rest).
  Proof.
    intros o0 parts f rest Hso Hg He. pose proof Hso as [[Hk _] _].
    destruct (xzd_stream_rt_c _ _ _ Hso Hg He) as (body & Ef & Mb & _ & S).
    unfold xz_decode. rewrite Ef, <- app_assoc, xz_parse_stream_header_ok by exact Hk. cbn [obind].
    set (src := xz_stream_header (xo_check o0) ++ body ++ rest).
    destruct (S (length src) false rest (zlen src - zlen (body ++ rest)) []) as (pos1 & _ & ES).
    { unfold src. rewrite zlen_app, zlen_stream_header. lia. }
    rewrite ES. rewrite frev_rev, rev_append_rev, rev_app_distr, rev_involutive. cbn [rev app]. reflexivity.
  Qed.
End XzCond.

(* ============================================================================================= *)
(* LZIP *)
Lemma lzip_decode_dict_range byte dd : lzip_decode_dict_size byte = Ok dd -> LZIP_MIN_DICT <= dd <= LZIP_MAX_DICT.
Proof.
  unfold lzip_decode_dict_size. cbv zeta.
  destruct ((Z.land byte 31 <? 12) || (29 <? Z.land byte 31)); [discriminate|].
  destruct (7 <? Z.shiftr byte 5); [discriminate|].
  match goal with |- (if (?a <? ?b) || (?c <? ?d) then _ else _) = _ -> _ =>
    destruct (Z.ltb_spec a b) as [Hlo|Hlo]; [discriminate|]; destruct (Z.ltb_spec c d) as [Hhi|Hhi]; [discriminate|] end.
  cbn [orb]. intros Hdd. inversion Hdd; subst dd. lia.
Qed.

(* lz_encode_shape of LzipProofs.v, naming the members the writer cut *)
Lemma lz_encode_shape_c (penc : Z -> list Z -> list Z) : forall o0 parts f,
  bytes_ok (concat parts) = true ->
  (forall members, lz_members_of (lo_member_size (lzw_new o0)) parts = Ok members ->
                   lz_sizes_ok penc (lo_dict (lzw_new o0)) members) ->
  match lo_member_size o0 with Some m => 1 <= m | None => True end ->
  lz_encode penc o0 parts = Ok f ->
  exists byte members,
    lz_members_of (lo_member_size (lzw_new o0)) parts = Ok members /\ members <> [] /\
    f = lm_file penc (map (fun x => mkLzm byte (lo_dict (lzw_new o0)) x) members) /\
    Forall (lm_ok penc) (map (fun x => mkLzm byte (lo_dict (lzw_new o0)) x) members) /\
    concat members = concat parts.
Proof.
  intros o0 parts f Hb Hsz Hms E. unfold lz_encode in E. cbv zeta in E.
  destruct (lz_members_of (lo_member_size (lzw_new o0)) parts) as [members| | |] eqn:Em; try discriminate.
  cbn [obind] in E. unfold lz_write in E.
  set (o := lzw_new o0) in *.
  assert (Hd : LZIP_MIN_DICT <= lo_dict o <= LZIP_MAX_DICT).
  { unfold o, lzw_new; cbn [lo_dict]. unfold lzip_clamp_dict, LZIP_MIN_DICT, LZIP_MAX_DICT.
    destruct (Z.ltb_spec (lo_dict o0) 4096); [lia|]. destruct (Z.ltb_spec 536870912 (lo_dict o0)); lia. }
  destruct (lzip_dict_ok _ Hd) as (byte & dd & Eb & Hbr & Edd & Hle & _).
  rewrite Eb in E. cbn [obind] in E. rewrite Em in E. cbn [obind] in E.
  apply (lz_members_bytes_file penc) in E.
  assert (Hcat : concat members = concat parts /\ members <> []).
  { unfold o, lzw_new in Em; cbn [lo_member_size] in Em. destruct (lo_member_size o0) as [m|].
    - destruct (lz_members_some (Z.max m (lzip_clamp_dict (lo_dict o0))) parts ltac:(lia)) as (mb & E1 & C1 & _ & _ & Hne).
      rewrite E1 in Em. inversion Em; subst mb. split; [exact C1|]. destruct Hne as [->|F]; [discriminate|].
      destruct members; [|discriminate]. cbn in C1.
      exfalso. clear - E1. unfold lz_members_of in E1.
      destruct (lz_write_calls _ lzsplit_init parts); try discriminate. cbn [obind] in E1. inversion E1 as [E2].
      rewrite frev_rev in E2. apply (f_equal (@length (list Z))) in E2. rewrite rev_length in E2. cbn in E2. lia.
    - rewrite lz_members_none in Em. inversion Em; subst members. split; [cbn; apply app_nil_r | discriminate]. }
  destruct Hcat as [Hcat Hne].
  assert (Hok : Forall (lm_ok penc) (map (fun c => mkLzm byte (lo_dict o) c) members)).
  { specialize (Hsz members eq_refl). unfold lz_sizes_ok in Hsz.
    assert (Hbm : Forall (fun c => bytes_ok c = true) members).
    { rewrite <- Hcat in Hb. clear - Hb. induction members as [|c cs IH]; [constructor|].
      cbn [concat] in Hb. rewrite bytes_ok_app in Hb. apply andb_true_iff in Hb as [H1 H2]. constructor; auto. }
    clear - Hsz Hbm Edd Hle. induction members as [|c cs IH]; [constructor|].
    inversion Hsz; subst. inversion Hbm; subst. cbn [map]. constructor; [|apply IH; assumption].
    unfold lm_ok; cbn [lm_byte lm_dict lm_content]. split; [exists dd; auto|]. tauto. }
  exists byte, members. auto.
Qed.

Section LzCond.
  Variable penc : Z -> list Z -> list Z.
  Variable pdec : Z -> list Z -> outcome (list Z * list Z).
  Variable good : Z -> list Z -> Prop.
  Hypothesis pdec_penc : forall d dd x tail, good d x -> bytes_ok x = true -> d <= dd ->
    LZIP_MIN_DICT <= dd <= LZIP_MAX_DICT -> pdec dd (penc d x ++ tail) = Ok (x, tail).

  Definition lm_ok_c (m : lzm) : Prop := lm_ok penc m /\ good (lm_dict m) (lm_content m).

  Notation lzd_members' := (lzd_members pdec).

  Lemma lz_member_rt_c m first rest acc fuel : lm_ok_c m ->
    lzd_members' (S fuel) lz_fixed first (lm_bytes penc m ++ rest) acc =
    lzd_members' fuel lz_fixed false rest (rev_append (lm_content m) acc).
  Proof.
    intros (((dd & Hd & Hle) & Hb & Hc64 & Hp64) & Hg). unfold lm_bytes, lz_member. rewrite <- !app_assoc.
    cbn [lzd_members]. rewrite (lz_header_ok first _ dd) by exact Hd. cbn [obind].
    rewrite (pdec_penc _ _ _ _ Hg Hb Hle (lzip_decode_dict_range _ _ Hd)). cbn [obind].
    set (payload := penc (lm_dict m) (lm_content m)) in *.
    set (c := lm_content m) in *.
    set (tail := le_bytes 4 (crc32 c) ++ le_bytes 8 (zlen c) ++
                 le_bytes 8 (LZIP_HEADER_SIZE + zlen payload + LZIP_TRAILER_SIZE) ++ rest).
    assert (Z1 : zlen (payload ++ tail) - zlen tail = zlen payload) by (rewrite zlen_app; lia).
    rewrite Z1. unfold lz_check_trailer, tail.
    rewrite (lz_take_app_n 4) by apply zlen_le_bytes. cbn [obind].
    rewrite (lz_take_app_n 8) by apply zlen_le_bytes. cbn [obind].
    rewrite (lz_take_app_n 8) by apply zlen_le_bytes. cbn [obind].
    pose proof (crc32_range c Hb) as Hcr. pose proof (zlen_nonneg c). pose proof (zlen_nonneg payload).
    change (2 ^ 64) with 18446744073709551616 in Hc64, Hp64. change (2 ^ 32) with 4294967296 in Hcr.
    unfold LZIP_HEADER_SIZE, LZIP_TRAILER_SIZE in *.
    rewrite !le_value_bytes;
      try (change (256 ^ Z.of_nat 8) with 18446744073709551616; change (256 ^ Z.of_nat 4) with 4294967296; lia).
    rewrite !Z.eqb_refl. cbn [negb]. reflexivity.
  Qed.

  Lemma lz_members_rt_c : forall ms first rest acc fuel, Forall lm_ok_c ms ->
    lzd_members' (length ms + fuel) lz_fixed first (lm_file penc ms ++ rest) acc =
    lzd_members' fuel lz_fixed (match ms with [] => first | _ => false end) rest (rev_append (lm_data ms) acc).
  Proof.
    induction ms as [|m ms IH]; intros first rest acc fuel Hok; [reflexivity|].
    inversion Hok as [|x l Hm Hms]; subst x l.
    unfold lm_file, lm_data. cbn [map concat length Nat.add]. fold (lm_file penc ms). fold (lm_data ms).
    rewrite <- app_assoc, lz_member_rt_c by exact Hm. rewrite IH by exact Hms.
    rewrite !rev_append_rev, rev_app_distr, <- app_assoc. destruct ms; reflexivity.
  Qed.

  Theorem lzip_multi_cond : forall m ms, Forall lm_ok_c (m :: ms) ->
    lz_decode pdec lz_fixed (lm_file penc (m :: ms)) = Ok (lm_data (m :: ms), []).
  Proof.
    intros m ms Hok. unfold lz_decode.
    pose proof (lm_file_len penc (m :: ms)) as Hl.
    assert (Ef : exists fuel, S (length (lm_file penc (m :: ms))) = (length (m :: ms) + S fuel)%nat).
    { exists (length (lm_file penc (m :: ms)) - length (m :: ms))%nat. unfold zlen in Hl. lia. }
    destruct Ef as (fuel & Ef). rewrite Ef.
    rewrite <- (app_nil_r (lm_file penc (m :: ms))) at 1. rewrite lz_members_rt_c by exact Hok.
    cbn [lzd_members lz_parse_header fz6 lz_fixed lz_parse_header_fixed firstn skipn obind].
    rewrite frev_rev, rev_append_rev, rev_app_distr, rev_involutive. cbn [rev app]. reflexivity.
  Qed.

  Theorem lzip_trailing_cond : forall m ms t, Forall lm_ok_c (m :: ms) -> t <> [] ->
    lz_bytes_eqb (firstn 4 t) (firstn (length (firstn 4 t)) LZIP_MAGIC) = false ->
    lz_decode pdec lz_fixed (lm_file penc (m :: ms) ++ t) = Ok (lm_data (m :: ms), skipn 4 t).
  Proof.
    intros m ms t Hok Ht Hnm. unfold lz_decode.
    pose proof (lm_file_len penc (m :: ms)) as Hl.
    assert (Ef : exists fuel, S (length (lm_file penc (m :: ms) ++ t)) = (length (m :: ms) + S fuel)%nat).
    { exists (length (lm_file penc (m :: ms) ++ t) - length (m :: ms))%nat. rewrite app_length. unfold zlen in Hl. lia. }
    destruct Ef as (fuel & Ef). rewrite Ef, lz_members_rt_c by exact Hok.
    cbn [lzd_members lz_parse_header fz6 lz_fixed]. unfold lz_parse_header_fixed.
    destruct (firstn 4 t) as [|b0 bs] eqn:E4.
    { destruct t; [contradiction | discriminate]. }
    rewrite Hnm. cbn [negb obind]. rewrite frev_rev, rev_append_rev, rev_app_distr, rev_involutive. cbn [rev app]. reflexivity.
  Qed.

  (* C02 (LZIP): [good] is asked of every member the writer cuts *)
  Theorem C02_lzip_cond : forall o0 parts f,
    bytes_ok (concat parts) = true ->
    (forall members, lz_members_of (lo_member_size (lzw_new o0)) parts = Ok members ->
                     lz_sizes_ok penc (lo_dict (lzw_new o0)) members /\
                     Forall (good (lo_dict (lzw_new o0))) members) ->
    match lo_member_size o0 with Some m => 1 <= m | None => True end ->
    lz_encode penc o0 parts = Ok f ->
    lz_decode pdec lz_fixed f = Ok (concat parts, []).
  Proof.
    intros o0 parts f Hb Hsz Hms E.
    assert (Hsz1 : forall members, lz_members_of (lo_member_size (lzw_new o0)) parts = Ok members ->
                     lz_sizes_ok penc (lo_dict (lzw_new o0)) members) by (intros mb Hmb; apply (Hsz mb Hmb)).
    destruct (lz_encode_shape_c penc o0 parts f Hb Hsz1 Hms E) as (byte & members & Em & Hne & Ef & Hok & Hcat).
    destruct (Hsz members Em) as (_ & Hgood).
    destruct members as [|c cs]; [contradiction|].
    subst f. cbn [map].
    rewrite lzip_multi_cond.
    - change (mkLzm byte (lo_dict (lzw_new o0)) c :: map (fun c0 => mkLzm byte (lo_dict (lzw_new o0)) c0) cs)
        with (map (fun c0 => mkLzm byte (lo_dict (lzw_new o0)) c0) (c :: cs)).
      rewrite concat_map_content, Hcat. reflexivity.
    - change (mkLzm byte (lo_dict (lzw_new o0)) c :: map (fun c0 => mkLzm byte (lo_dict (lzw_new o0)) c0) cs)
        with (map (fun c0 => mkLzm byte (lo_dict (lzw_new o0)) c0) (c :: cs)).
      clear - Hok Hgood. induction (c :: cs) as [|x xs IH]; [constructor|].
      inversion Hok; subst. inversion Hgood; subst. cbn [map]. constructor; [|apply IH; assumption].
      split; [assumption|]. cbn [lm_dict lm_content]. assumption.
  Qed.
End LzCond.
