(* Format/ComposeProofs.v — the composition: the XZ / LZIP container round trips with the CONCRETE
   payload codecs of the crate in place of the abstract codec of XzProofs.v / LzipProofs.v.

     XZ    payload = LZMA2Writer::new(_, {lc, lp, pb, dict d}) .. finish  (lzma2_write, no preset),
           decoded by LZMA2Reader::new(_, dd, None) read to its end       (lzma2_payload_dec dd),
           where dd >= d is the size the block header announces;
     LZIP  payload = LZMAWriter::new_no_header(_, {3, 0, 2, dict d}, true) (lzma1_write .. false true None),
           decoded by LZMAReader::new(_, u64::MAX, 3, 0, 2, dd, None)      (lzip_payload_dec_n calls dd).

   The writer models are relational in the encoder's choices (the symbol / chunk-event list the
   real encoder's trace is validated against).  An encoder is therefore ANY choice function
   [ch : dictionary size -> data -> events] whose choices the writer model accepts; the payload
   encoder of the container theorems is the writer model applied to its choices.
   Pre-filters: abstract codecs that are inverses on byte strings and map byte strings to byte
   strings, or - for the executable reader chain xz_blockdec - the Delta model of Filter/Delta.v. *)
From LzVerif Require Import Base.Bytes Codec.Store Codec.Range Codec.LzWindow Codec.LzmaDec Codec.LzmaEnc
  Codec.LzmaWriters Codec.Lzma1 Codec.Lzma2Dec Codec.LzmaRoundtrip Codec.RangeEncProofs Codec.RangeProofs Codec.Lzma1ReadProofs
  Codec.Lzma2SpecProofs Codec.Lzma2FrameSyncProofs Codec.Lzma2ReadProofs
  Filter.Delta Filter.DeltaProofs
  Format.Crc Format.CrcProofs Format.Vli Format.XzFormat Format.LzipFormat Format.LzipDict Format.LzipDictProofs
  Format.XzSplitProofs Format.LzipSplitProofs Format.XzHeaderProofs Format.XzBlockHeaderProofs Format.XzProofs
  Format.LzipProofs Format.PayloadLzma2Proofs Format.PayloadLzma1Proofs Format.ContainerCondProofs.
Ltac Zify.zify_post_hook ::= Z.div_mod_to_equations.

(* ============================================================================================= *)
(* LZMA2 as the payload codec *)

Definition l2_params_ok (lc lp pb : Z) : Prop := 0 <= lc /\ 0 <= lp /\ lc + lp <= 4 /\ 0 <= pb <= 4.

(* an LZMA2 encoder: for every dictionary size LZMAOptions::validate admits (4 KiB .. 768 MiB; here
   up to 2 GiB) and every byte string, the writer model accepts its choices, and it never emits an
   end marker symbol (the LZMA2 encoder has none) *)
Definition l2_codec_ok (lc lp pb : Z) (ch : Z -> list Z -> list l2ev) : Prop :=
  forall d x, 4096 <= d <= 2147483648 -> bytes_ok x = true ->
    l2_no_end (ch d x) /\ exists s, lzma2_write lc lp pb d None x (ch d x) = Ok s.

Definition l2_penc (lc lp pb : Z) (ch : Z -> list Z -> list l2ev) (d : Z) (x : list Z) : list Z :=
  match lzma2_write lc lp pb d None x (ch d x) with Ok s => s | _ => [] end.

Lemma l2_pdec_penc lc lp pb ch : l2_params_ok lc lp pb -> l2_codec_ok lc lp pb ch ->
  forall d dd x tail, 4096 <= d <= 2147483648 -> bytes_ok x = true -> d <= dd ->
    lzma2_payload_dec dd (l2_penc lc lp pb ch d x ++ tail) = Ok (x, tail).
Proof.
  intros (Hlc & Hlp & Hs & Hpb) Hch d dd x tail Hd Hb Hdd.
  destruct (Hch d x Hd Hb) as (Hne & s & Hw). unfold l2_penc. rewrite Hw.
  exact (lzma2_payload_dec_rt lc lp pb d dd x (ch d x) s tail Hlc Hlp Hs Hpb ltac:(lia) Hdd Hb Hne Hw).
Qed.

(* list facts *)
Lemma Forall_bytes_concat (l : list (list Z)) : bytes_ok (concat l) = true -> Forall (fun c => bytes_ok c = true) l.
Proof.
  induction l as [|c cs IH]; intros Hb; [constructor|].
  cbn [concat] in Hb. rewrite bytes_ok_app in Hb. apply andb_true_iff in Hb as [H1 H2]. constructor; auto.
Qed.

(* what XZWriter::new keeps of the options, and that the blocks it cuts cover the data *)
Lemma xz_blocks_cover o0 o parts blocks : 1 <= xo_dict o0 ->
  xzw_new o0 = Ok o -> xz_blocks_of xz_fixed (xo_block_size o) parts = Ok blocks ->
  xo_dict o = xo_dict o0 /\ xo_filters o = xo_filters o0 /\ concat blocks = concat parts.
Proof.
  intros Hd Eo Ebl. unfold xzw_new in Eo. destruct (3 <? zlen (xo_filters o0)); [discriminate|].
  inversion Eo; subst o; clear Eo. cbn [xo_dict xo_filters xo_block_size] in *.
  split; [reflexivity|]. split; [reflexivity|].
  destruct (xo_block_size o0) as [b|].
  - destruct (xz_blocks_fixed_some (Z.max b (xo_dict o0)) parts ltac:(lia)) as (bl & E1 & C1 & _).
    rewrite E1 in Ebl. inversion Ebl; subst. exact C1.
  - rewrite xz_blocks_none in Ebl. inversion Ebl; subst blocks. destruct (concat parts); cbn; [reflexivity|].
    rewrite app_nil_r. reflexivity.
Qed.

(* what is asked of a block: its content are bytes, the dictionary size is one LZMAOptions admits *)
Definition l2_bgood (o : xzopts) (c : list Z) : Prop := bytes_ok c = true /\ 4096 <= xo_dict o <= 2147483648.

Lemma l2_stream_good o0 parts : 4096 <= xo_dict o0 <= 2147483648 -> bytes_ok (concat parts) = true ->
  stream_good l2_bgood o0 parts.
Proof.
  intros Hd Hb o blocks Eo Ebl.
  destruct (xz_blocks_cover o0 o parts blocks ltac:(lia) Eo Ebl) as (Ed & _ & Hcat).
  rewrite <- Hcat in Hb. apply Forall_bytes_concat in Hb.
  eapply Forall_impl; [|exact Hb]. intros c Hc. split; [exact Hc | rewrite Ed; exact Hd].
Qed.

(* --------------------------------------------------------------------------------------------- *)
(* XZ with LZMA2 payloads, pre-filter codecs abstract *)
Section XzLzma2.
  Variables lc lp pb : Z.
  Variable ch : Z -> list Z -> list l2ev.
  Hypothesis Hpar : l2_params_ok lc lp pb.
  Hypothesis Hch : l2_codec_ok lc lp pb ch.
  Variables fenc fdec : fkind -> Z -> list Z -> list Z.
  (* C11: the filters are inverses on byte strings and produce byte strings *)
  Hypothesis fdec_fenc : forall k p x, bytes_ok x = true -> fdec k p (fenc k p x) = x.
  Hypothesis fenc_bytes : forall k p x, bytes_ok x = true -> bytes_ok (fenc k p x) = true.

  Notation penc := (l2_penc lc lp pb ch).
  Notation bdec := (blockdec lzma2_payload_dec fdec).

  Lemma chain_enc_bytes fs : forall x, bytes_ok x = true -> bytes_ok (chain_enc fenc fs x) = true.
  Proof.
    unfold chain_enc. induction fs as [|f fs IH]; intros x Hx; cbn [fold_left]; [exact Hx|].
    apply IH. apply fenc_bytes. exact Hx.
  Qed.

  Lemma chain_dec_enc_b fs : forall x, bytes_ok x = true -> chain_dec fdec fs (chain_enc fenc fs x) = x.
  Proof.
    unfold chain_enc, chain_dec. induction fs as [|f fs IH]; intros x Hx; cbn [fold_left fold_right]; [reflexivity|].
    rewrite IH by (apply fenc_bytes; exact Hx). apply fdec_fenc. exact Hx.
  Qed.

  Lemma l2_bdec_ok : forall o c dd tail, l2_bgood o c -> xo_dict o <= dd ->
    bdec (xo_filters o ++ [(FLZMA2, dd)]) (payload_of penc fenc o c ++ tail) = Ok (c, tail).
  Proof.
    intros o c dd tail (Hb & Hd) Hdd. unfold blockdec, xz_chain_dict, payload_of.
    rewrite frev_rev, rev_app_distr. cbn [rev app].
    rewrite (l2_pdec_penc lc lp pb ch Hpar Hch (xo_dict o) dd _ tail Hd (chain_enc_bytes _ _ Hb) Hdd).
    cbn [obind fst snd]. rewrite removelast_last, chain_dec_enc_b by exact Hb. reflexivity.
  Qed.

  (* C02 (XZ), closed over the LZMA2 models *)
  Theorem C02_xz_lzma2_thm : forall o0 parts f multi, stream_ok o0 ->
    4096 <= xo_dict o0 <= 2147483648 -> bytes_ok (concat parts) = true ->
    xz_encode penc fenc xz_fixed o0 parts = Ok f ->
    xz_decode xz_check_bytes bdec xz_fixed multi f = Ok (concat parts, []).
  Proof.
    intros o0 parts f multi Hok Hd Hb E.
    exact (C02_xz_cond penc fenc bdec l2_bgood l2_bdec_ok o0 parts f multi Hok (l2_stream_good o0 parts Hd Hb) E).
  Qed.

  (* a stream as the writer produced it with LZMA2 payloads *)
  Definition st_ok_l2 (s : xzstream) : Prop :=
    st_ok penc fenc s /\ 4096 <= xo_dict (st_opts s) <= 2147483648 /\ bytes_ok (concat (st_parts s)) = true.

  Lemma st_ok_l2_c s : st_ok_l2 s -> st_ok_c penc fenc l2_bgood s.
  Proof. intros (H1 & H2 & H3). split; [exact H1 | apply l2_stream_good; assumption]. Qed.

  Lemma Forall_st_ok_l2_c ss : Forall st_ok_l2 ss -> Forall (st_ok_c penc fenc l2_bgood) ss.
  Proof. intros H. eapply Forall_impl; [|exact H]. exact st_ok_l2_c. Qed.

  (* C12 (XZ) *)
  Theorem C12_xz_multi_lzma2_thm : forall s t, Forall st_ok_l2 (s :: t) ->
    Forall (fun x => st_pad x mod 4 = 0) (s :: t) ->
    xz_decode xz_check_bytes bdec xz_fixed true (xz_file (s :: t)) = Ok (xz_content (s :: t), []).
  Proof.
    intros s t Hok Hp.
    exact (xz_multi_cond penc fenc bdec l2_bgood l2_bdec_ok s t (Forall_st_ok_l2_c _ Hok) Hp).
  Qed.

  Theorem C12_xz_bad_padding_lzma2_thm : forall s rest, st_ok_l2 s -> st_pad s mod 4 <> 0 ->
    (rest = [] \/ exists ct X, check_known ct = true /\ rest = xz_stream_header ct ++ X) ->
    xz_decode xz_check_bytes bdec xz_fixed true (st_bytes s ++ rest) = Err E_INVALID_DATA.
  Proof.
    intros s rest Hs Hp Hr.
    exact (xz_multi_bad_padding_cond penc fenc bdec l2_bgood l2_bdec_ok s rest (st_ok_l2_c s Hs) Hp Hr).
  Qed.

  Theorem C12_xz_garbage_lzma2_thm : forall s b X, st_ok_l2 s -> b <> 0 -> b <> 253 ->
    xz_decode xz_check_bytes bdec xz_fixed true (st_bytes s ++ b :: X) = Err E_INVALID_DATA.
  Proof.
    intros s b X Hs H0 H253.
    exact (xz_multi_garbage_cond penc fenc bdec l2_bgood l2_bdec_ok s b X (st_ok_l2_c s Hs) H0 H253).
  Qed.

  (* C12 / C16: single-stream decoding stops behind the stream footer *)
  Theorem C16_xz_single_stream_lzma2_thm : forall o0 parts f rest, stream_ok o0 ->
    4096 <= xo_dict o0 <= 2147483648 -> bytes_ok (concat parts) = true ->
    xz_encode penc fenc xz_fixed o0 parts = Ok f ->
    xz_decode xz_check_bytes bdec xz_fixed false (f ++ rest) = Ok (concat parts, rest).
  Proof.
    intros o0 parts f rest Hok Hd Hb E.
    exact (xz_single_stops_cond penc fenc bdec l2_bgood l2_bdec_ok o0 parts f rest Hok (l2_stream_good o0 parts Hd Hb) E).
  Qed.
End XzLzma2.

(* --------------------------------------------------------------------------------------------- *)
(* the Delta model as pre-filter codec, and the executable reader chain xz_blockdec (xz_decode_c) *)

Definition delta_fenc (k : fkind) (p : Z) (x : list Z) : list Z :=
  match k with
  | FDelta => match delta_encode_bytes p x with Some o => o | None => [] end
  | _ => x
  end.
Definition delta_fdec (k : fkind) (p : Z) (y : list Z) : list Z :=
  match k with
  | FDelta => match delta_decode_bytes p y with Some o => o | None => [] end
  | _ => y
  end.

Definition only_delta (fs : list (fkind * Z)) : Prop := Forall (fun f => fst f = FDelta) fs.

Lemma delta_encode_out_bytes : forall l d d' o, delta_encode d l = Some (d', o) -> bytes_ok o = true.
Proof.
  unfold delta_encode. induction l as [|x t IH]; intros d d' o H; cbn [delta_run] in H.
  - inversion H. reflexivity.
  - destruct (delta_enc_byte d x) as [[d1 y]|] eqn:E; [|discriminate].
    destruct (delta_run delta_enc_byte d1 t) as [[d2 ys]|] eqn:E2; [|discriminate].
    inversion H; subst. cbn [bytes_ok forallb]. fold (bytes_ok ys). rewrite (IH d1 d' ys E2), andb_true_r.
    unfold delta_enc_byte in E. destruct (zth (d_hist d) (delta_idx d)) as [h|]; [|discriminate].
    inversion E; subst. unfold is_byte.
    pose proof (Z.mod_pos_bound (x - h) 256 ltac:(lia)) as Hm.
    destruct (Z.leb_spec 0 ((x - h) mod 256)); [|lia]. destruct (Z.ltb_spec ((x - h) mod 256) 256); [reflexivity | lia].
Qed.

Lemma delta_fdec_fenc : forall k p x, bytes_ok x = true -> delta_fdec k p (delta_fenc k p x) = x.
Proof.
  intros k p x Hb. destruct k; try reflexivity. cbn [delta_fenc delta_fdec].
  destruct (delta_inverse p x Hb) as (o & E1 & E2 & _). rewrite E1, E2. reflexivity.
Qed.

Lemma delta_fenc_bytes : forall k p x, bytes_ok x = true -> bytes_ok (delta_fenc k p x) = true.
Proof.
  intros k p x Hb. destruct k; try exact Hb. cbn [delta_fenc]. unfold delta_encode_bytes.
  destruct (delta_encode (delta_new p) x) as [[d' o]|] eqn:E; [|reflexivity].
  exact (delta_encode_out_bytes _ _ _ _ E).
Qed.

Lemma delta_dec_byte_inv d y d' x : delta_inv d -> delta_dec_byte d y = Some (d', x) -> delta_inv d'.
Proof.
  intros [Hl Hp] H. unfold delta_dec_byte in H.
  destruct (zth (d_hist d) (delta_idx d)) as [h|]; [|discriminate].
  inversion H; subst; clear H. unfold delta_inv; cbn [d_hist d_pos].
  rewrite zupd_length. split; [assumption|]. apply Z.mod_pos_bound; lia.
Qed.

Lemma delta_decode_total : forall l d, delta_inv d -> exists d' o, delta_decode d l = Some (d', o) /\ delta_inv d'.
Proof.
  induction l as [|y t IH]; intros d Hd.
  - exists d, []. split; [reflexivity | assumption].
  - unfold delta_decode in *. cbn [delta_run].
    destruct (delta_hist_lookup d Hd) as [h Hh].
    destruct (delta_dec_byte d y) as [[d1 x]|] eqn:E.
    2:{ unfold delta_dec_byte in E. rewrite Hh in E. discriminate. }
    destruct (IH d1 (delta_dec_byte_inv _ _ _ _ Hd E)) as (d2 & o & E2 & I2).
    rewrite E2. exists d2, (x :: o). split; [reflexivity | assumption].
Qed.

(* prepare_next_block for a chain of Delta filters: one DeltaReader per filter *)
Lemma chain_deltas_delta dd : forall fs, only_delta fs ->
  xz_chain_deltas (fs ++ [(FLZMA2, dd)]) = Ok (map (fun f => delta_new (snd f)) fs).
Proof.
  induction fs as [|[k p] fs IH]; intros Hfs; [reflexivity|].
  inversion Hfs as [|x l Hk Hfs']; subst x l. cbn [fst] in Hk. subst k.
  cbn [app xz_chain_deltas]. rewrite (IH Hfs'). cbn [obind map snd].
  destruct (fs ++ [(FLZMA2, dd)]); reflexivity.
Qed.

(* the Delta readers around the LZMA2 reader compute the chain of whole-buffer decoders *)
Lemma deltas_decode_chain : forall fs, only_delta fs -> forall raw,
  exists ds', xz_deltas_decode (map (fun f => delta_new (snd f)) fs) raw = Ok (ds', chain_dec delta_fdec fs raw).
Proof.
  induction fs as [|[k p] fs IH]; intros Hfs raw.
  - exists []. reflexivity.
  - inversion Hfs as [|x l Hk Hfs']; subst x l. cbn [fst] in Hk. subst k.
    destruct (IH Hfs' raw) as (ds' & E). cbn [map snd xz_deltas_decode]. rewrite E. cbn [obind].
    unfold chain_dec. cbn [fold_right fst snd]. fold (chain_dec delta_fdec fs raw).
    destruct (delta_decode_total (chain_dec delta_fdec fs raw) (delta_new p) (delta_new_inv p)) as (d' & o & Ed & _).
    rewrite Ed. cbn [delta_fdec]. unfold delta_decode_bytes. rewrite Ed. eexists. reflexivity.
Qed.

Lemma xz_blockdec_delta fs dd src : only_delta fs ->
  xz_blockdec (fs ++ [(FLZMA2, dd)]) src = blockdec lzma2_payload_dec delta_fdec (fs ++ [(FLZMA2, dd)]) src.
Proof.
  intros Hfs. unfold xz_blockdec, xz_blockdec_gen, blockdec. rewrite (chain_deltas_delta dd fs Hfs). cbn [obind].
  destruct (lzma2_payload_dec (xz_chain_dict (fs ++ [(FLZMA2, dd)])) src) as [[raw rest]| | |]; cbn [obind fst snd];
    try reflexivity.
  rewrite removelast_last. destruct (deltas_decode_chain fs Hfs raw) as (ds' & E). rewrite E. reflexivity.
Qed.

Definition d_bgood (o : xzopts) (c : list Z) : Prop := l2_bgood o c /\ only_delta (xo_filters o).

Lemma d_stream_good o0 parts : only_delta (xo_filters o0) -> 4096 <= xo_dict o0 <= 2147483648 ->
  bytes_ok (concat parts) = true -> stream_good d_bgood o0 parts.
Proof.
  intros Hfs Hd Hb o blocks Eo Ebl.
  destruct (xz_blocks_cover o0 o parts blocks ltac:(lia) Eo Ebl) as (_ & Ef & _).
  pose proof (l2_stream_good o0 parts Hd Hb o blocks Eo Ebl) as Hg.
  eapply Forall_impl; [|exact Hg]. intros c Hc. split; [exact Hc | rewrite Ef; exact Hfs].
Qed.

Section XzLzma2Delta.
  Variables lc lp pb : Z.
  Variable ch : Z -> list Z -> list l2ev.
  Hypothesis Hpar : l2_params_ok lc lp pb.
  Hypothesis Hch : l2_codec_ok lc lp pb ch.
  Notation penc := (l2_penc lc lp pb ch).

  Lemma d_bdec_ok : forall o c dd tail, d_bgood o c -> xo_dict o <= dd ->
    xz_blockdec (xo_filters o ++ [(FLZMA2, dd)]) (payload_of penc delta_fenc o c ++ tail) = Ok (c, tail).
  Proof.
    intros o c dd tail (Hg & Hfs) Hdd. rewrite (xz_blockdec_delta _ dd _ Hfs).
    exact (l2_bdec_ok lc lp pb ch Hpar Hch delta_fenc delta_fdec delta_fdec_fenc delta_fenc_bytes o c dd tail Hg Hdd).
  Qed.

  (* C02 (XZ) for the executable whole-file reader model xz_decode_c: Delta pre-filters (or none),
     LZMA2 payloads *)
  Theorem C02_xz_lzma2_delta_thm : forall o0 parts f multi, stream_ok o0 -> only_delta (xo_filters o0) ->
    4096 <= xo_dict o0 <= 2147483648 -> bytes_ok (concat parts) = true ->
    xz_encode penc delta_fenc xz_fixed o0 parts = Ok f ->
    xz_decode_c xz_fixed multi f = Ok (concat parts, []).
  Proof.
    intros o0 parts f multi Hok Hfs Hd Hb E. unfold xz_decode_c.
    exact (C02_xz_cond penc delta_fenc xz_blockdec d_bgood d_bdec_ok o0 parts f multi Hok (d_stream_good o0 parts Hfs Hd Hb) E).
  Qed.

  Definition st_ok_l2d (s : xzstream) : Prop :=
    st_ok penc delta_fenc s /\ only_delta (xo_filters (st_opts s)) /\
    4096 <= xo_dict (st_opts s) <= 2147483648 /\ bytes_ok (concat (st_parts s)) = true.

  Theorem C12_xz_multi_lzma2_delta_thm : forall s t, Forall st_ok_l2d (s :: t) ->
    Forall (fun x => st_pad x mod 4 = 0) (s :: t) ->
    xz_decode_c xz_fixed true (xz_file (s :: t)) = Ok (xz_content (s :: t), []).
  Proof.
    intros s t Hok Hp. unfold xz_decode_c.
    apply (xz_multi_cond penc delta_fenc xz_blockdec d_bgood d_bdec_ok s t); [|exact Hp].
    eapply Forall_impl; [|exact Hok]. intros x (H1 & H2 & H3 & H4). split; [exact H1 | apply d_stream_good; assumption].
  Qed.

  Theorem C16_xz_single_stream_lzma2_delta_thm : forall o0 parts f rest, stream_ok o0 -> only_delta (xo_filters o0) ->
    4096 <= xo_dict o0 <= 2147483648 -> bytes_ok (concat parts) = true ->
    xz_encode penc delta_fenc xz_fixed o0 parts = Ok f ->
    xz_decode_c xz_fixed false (f ++ rest) = Ok (concat parts, rest).
  Proof.
    intros o0 parts f rest Hok Hfs Hd Hb E. unfold xz_decode_c.
    exact (xz_single_stops_cond penc delta_fenc xz_blockdec d_bgood d_bdec_ok o0 parts f rest Hok
             (d_stream_good o0 parts Hfs Hd Hb) E).
  Qed.
End XzLzma2Delta.

(* ============================================================================================= *)
(* LZMA (raw stream, end marker, lc=3 lp=0 pb=2) as the payload codec of LZIP *)

(* what is asked of the encoder's choices for one member: the writer model accepts them, no end
   marker among them (finish() adds it), and the number of coded bits stays within the range of the
   range encoder's u32 counter of pending bytes (RangeProofs.v; about 2^32 bits) *)
Definition l1_member_ok (ch : Z -> list Z -> list sym) (d : Z) (x : list Z) : Prop :=
  no_end (ch d x) /\
  (exists s, lzma1_write 3 0 2 d [] x (ch d x) false true None = Ok s) /\
  (forall E c' h', enc_syms (coder_new 3 0 2) (ehist_new d [] x) (ch d x ++ end_syms true) = Ok (E, c', h') ->
     events_bits E <= RC_MAX_BITS).

Definition l1_penc (ch : Z -> list Z -> list sym) (d : Z) (x : list Z) : list Z :=
  match lzma1_write 3 0 2 d [] x (ch d x) false true None with Ok s => s | _ => [] end.

Lemma l1_pdec_penc ch calls : forall d dd x tail,
  4096 <= d -> l1_member_ok ch d x -> zlen x / 4096 + 2 <= Z.of_nat calls -> bytes_ok x = true -> d <= dd ->
  LZIP_MIN_DICT <= dd <= LZIP_MAX_DICT ->
  lzip_payload_dec_n calls dd (l1_penc ch d x ++ tail) = Ok (x, tail).
Proof.
  intros d dd x tail Hd4 (Hne & (s & Hw) & Hbits) Hcalls Hb Hdd Hr. unfold l1_penc. rewrite Hw.
  unfold LZIP_MIN_DICT, LZIP_MAX_DICT in Hr.
  exact (lzip_payload_dec_n_rt d dd x (ch d x) s tail calls Hd4 Hdd ltac:(lia) Hb Hne Hw Hbits Hcalls).
Qed.

Lemma lzw_new_dict_range o0 : LZIP_MIN_DICT <= lo_dict (lzw_new o0) <= LZIP_MAX_DICT.
Proof.
  unfold lzw_new; cbn [lo_dict]. unfold lzip_clamp_dict, LZIP_MIN_DICT, LZIP_MAX_DICT.
  destruct (Z.ltb_spec (lo_dict o0) 4096); [lia|]. destruct (Z.ltb_spec 536870912 (lo_dict o0)); lia.
Qed.

Section LzipLzma1.
  Variable ch : Z -> list Z -> list sym.
  Variable calls : nat.         (* the number of 4096-byte read() calls the payload decoder may make *)
  Notation penc := (l1_penc ch).
  Notation pdec := (lzip_payload_dec_n calls).

  Definition l1_good (d : Z) (x : list Z) : Prop :=
    4096 <= d /\ l1_member_ok ch d x /\ zlen x / 4096 + 2 <= Z.of_nat calls.

  Lemma l1_good_pdec : forall d dd x tail, l1_good d x -> bytes_ok x = true -> d <= dd ->
    LZIP_MIN_DICT <= dd <= LZIP_MAX_DICT -> pdec dd (penc d x ++ tail) = Ok (x, tail).
  Proof. intros d dd x tail (H1 & H2 & H3) Hb Hdd Hr. apply l1_pdec_penc; assumption. Qed.

  (* C02 (LZIP), closed over the LZMA models *)
  Theorem C02_lzip_lzma1_thm : forall o0 parts f,
    bytes_ok (concat parts) = true ->
    (forall members, lz_members_of (lo_member_size (lzw_new o0)) parts = Ok members ->
       lz_sizes_ok penc (lo_dict (lzw_new o0)) members /\
       Forall (fun c => l1_member_ok ch (lo_dict (lzw_new o0)) c /\ zlen c / 4096 + 2 <= Z.of_nat calls) members) ->
    match lo_member_size o0 with Some m => 1 <= m | None => True end ->
    lz_encode penc o0 parts = Ok f ->
    lz_decode pdec lz_fixed f = Ok (concat parts, []).
  Proof.
    intros o0 parts f Hb Hm Hms E.
    apply (C02_lzip_cond penc pdec l1_good l1_good_pdec o0 parts f Hb); [|exact Hms | exact E].
    intros members Em. destruct (Hm members Em) as (Hs & Hg). split; [exact Hs|].
    eapply Forall_impl; [|exact Hg]. intros c (H1 & H2).
    pose proof (lzw_new_dict_range o0) as Hr. unfold LZIP_MIN_DICT in Hr. split; [lia|]. split; assumption.
  Qed.

  (* a member as data (header byte, dictionary, content) with its LZMA payload *)
  Definition lm_ok_l1 (m : lzm) : Prop :=
    lm_ok penc m /\ 4096 <= lm_dict m /\ l1_member_ok ch (lm_dict m) (lm_content m) /\
    zlen (lm_content m) / 4096 + 2 <= Z.of_nat calls.

  Lemma Forall_lm_ok_l1_c ms : Forall lm_ok_l1 ms -> Forall (lm_ok_c penc l1_good) ms.
  Proof.
    intros H. eapply Forall_impl; [|exact H]. intros m (H1 & H2 & H3 & H4). split; [exact H1|]. split; [exact H2|].
    split; assumption.
  Qed.

  (* C12 (LZIP) *)
  Theorem C12_lzip_multi_lzma1_thm : forall m ms, Forall lm_ok_l1 (m :: ms) ->
    lz_decode pdec lz_fixed (lm_file penc (m :: ms)) = Ok (lm_data (m :: ms), []).
  Proof.
    intros m ms Hok. exact (lzip_multi_cond penc pdec l1_good l1_good_pdec m ms (Forall_lm_ok_l1_c _ Hok)).
  Qed.

  Theorem C12_lzip_trailing_lzma1_thm : forall m ms t, Forall lm_ok_l1 (m :: ms) -> t <> [] ->
    lz_bytes_eqb (firstn 4 t) (firstn (length (firstn 4 t)) LZIP_MAGIC) = false ->
    lz_decode pdec lz_fixed (lm_file penc (m :: ms) ++ t) = Ok (lm_data (m :: ms), skipn 4 t).
  Proof.
    intros m ms t Hok Ht Hnm.
    exact (lzip_trailing_cond penc pdec l1_good l1_good_pdec m ms t (Forall_lm_ok_l1_c _ Hok) Ht Hnm).
  Qed.
End LzipLzma1.

(* the executable whole-file reader model lz_decode_c allows itself 64 + 16 per source byte read()
   calls per member (LzipFormat.v); that suffices when a member is not compressed by more than
   a factor of 65536 *)
Section LzipLzma1C.
  Variable ch : Z -> list Z -> list sym.
  Notation penc := (l1_penc ch).

  Definition l1_good_c (d : Z) (x : list Z) : Prop :=
    4096 <= d /\ l1_member_ok ch d x /\ zlen x / 4096 <= 62 + 16 * zlen (penc d x).

  Lemma l1_good_c_pdec : forall d dd x tail, l1_good_c d x -> bytes_ok x = true -> d <= dd ->
    LZIP_MIN_DICT <= dd <= LZIP_MAX_DICT -> lzip_payload_dec dd (penc d x ++ tail) = Ok (x, tail).
  Proof.
    intros d dd x tail (H1 & H2 & H3) Hb Hdd Hr. unfold lzip_payload_dec.
    apply l1_pdec_penc; try assumption.
    rewrite Nat2Z.inj_add, Nat2Z.inj_mul, app_length, Nat2Z.inj_add. fold (zlen (penc d x)). fold (zlen tail).
    change (Z.of_nat 64) with 64. change (Z.of_nat 16) with 16.
    assert (0 <= zlen tail) by (unfold zlen; lia). lia.
  Qed.

  Theorem C02_lzip_lzma1_c_thm : forall o0 parts f,
    bytes_ok (concat parts) = true ->
    (forall members, lz_members_of (lo_member_size (lzw_new o0)) parts = Ok members ->
       lz_sizes_ok penc (lo_dict (lzw_new o0)) members /\
       Forall (fun c => l1_member_ok ch (lo_dict (lzw_new o0)) c /\
                        zlen c / 4096 <= 62 + 16 * zlen (penc (lo_dict (lzw_new o0)) c)) members) ->
    match lo_member_size o0 with Some m => 1 <= m | None => True end ->
    lz_encode penc o0 parts = Ok f ->
    lz_decode_c lz_fixed f = Ok (concat parts, []).
  Proof.
    intros o0 parts f Hb Hm Hms E. unfold lz_decode_c.
    apply (C02_lzip_cond penc lzip_payload_dec l1_good_c l1_good_c_pdec o0 parts f Hb); [|exact Hms | exact E].
    intros members Em. destruct (Hm members Em) as (Hs & Hg). split; [exact Hs|].
    eapply Forall_impl; [|exact Hg]. intros c (H1 & H2).
    pose proof (lzw_new_dict_range o0) as Hr. unfold LZIP_MIN_DICT in Hr. split; [lia|]. split; assumption.
  Qed.
End LzipLzma1C.

(* ============================================================================================= *)
(* non-vacuity: an encoder exists for EVERY input - the one that stores everything *)

Definition l2_stored (d : Z) (x : list Z) : list l2ev :=
  match x with [] => [] | _ => [L2Unc (zlen x)] end.

Lemma l2_stored_ok lc lp pb : l2_codec_ok lc lp pb l2_stored.
Proof.
  intros d x Hd Hb. split.
  - intros ev Hin. unfold l2_stored in Hin. destruct x; [contradiction|]. destruct Hin as [<-|[]]. discriminate.
  - unfold l2_stored, lzma2_write. cbv zeta. unfold ehist_new. rewrite preset_kept_nil. cbn [app].
    change (zlen (@nil Z)) with 0.
    destruct x as [|b x'].
    + cbn [l2_steps obind w_enc es_hist h_pos h_total w_chunk_start]. change (zlen (@nil Z)) with 0.
      cbn [Z.add Z.eqb andb negb]. eexists. reflexivity.
    + set (x := b :: x'). assert (Hx : 1 <= zlen x) by (unfold x, zlen; cbn [length]; lia).
      cbn [l2_steps l2_step w_enc es_hist h_total h_pos w_chunk_start].
      destruct (Z.ltb_spec (zlen x) 1) as [?|_]; [lia|].
      destruct (Z.ltb_spec (0 + zlen x) (0 + zlen x)) as [?|_]; [lia|].
      destruct (Z.ltb_spec (0 + zlen x) 0) as [?|_]; [lia|].
      cbn [orb obind w_enc es_hist h_pos h_total w_chunk_start].
      rewrite !Z.eqb_refl. cbn [andb negb]. eexists. reflexivity.
Qed.

Print Assumptions C02_xz_lzma2_thm.
Print Assumptions C02_xz_lzma2_delta_thm.
Print Assumptions C02_lzip_lzma1_thm.
