(* Format/ContainerRefutations.v — the defects of the unchanged tree (DESIGN §7 F4, F5, F6, F11, F13,
   F16, F20) established on the faithful models of the historical code ([xz_orig], [lz_orig]) by
   computed witnesses; each witness was replayed on the real code (see docs/design-notes/xz.md).
   The same inputs on the repaired models ([xz_fixed], [lz_fixed]) behave as the properties demand. *)
From LzVerif Require Import Base.Bytes Format.XzFormat Format.LzipFormat Format.XzSpec Format.XzSpecExec.

Definition w_content : list Z := [104; 101; 108; 108; 111; 32; 119; 111; 114; 108; 100].       (* "hello world" *)
Definition w_payload : list Z := [1; 0; 10; 104; 101; 108; 108; 111; 32; 119; 111; 114; 108; 100; 0].       (* its LZMA2 payload: one stored chunk *)
Definition w_opts : xzopts := mkXzopts 1 None [] 262144.   (* CRC32, no block size, dict 256 KiB *)
Definition w_hello : list Z := [253; 55; 122; 88; 90; 0; 0; 1; 105; 34; 222; 54; 2; 0; 33; 1; 12; 0; 0; 0; 143; 152; 65; 156; 1; 0; 10; 104; 101; 108; 108; 111; 32; 119; 111; 114; 108; 100; 0; 0; 133; 17; 74; 13; 0; 1; 31; 11; 61; 98; 14; 122; 144; 66; 153; 13; 1; 0; 0; 0; 0; 1; 89; 90].           (* the file the repaired writer produces for it *)

Lemma w_hello_is_written : xz_write xz_fixed w_opts [w_content] [w_payload] = Ok w_hello.
Proof. vm_compute. reflexivity. Qed.

(* F4 (C02): finish() with no block open.  The historical writer's output for EMPTY input is
   rejected by the crate's own reader (index CRC32 mismatch) and by the format specification. *)
Theorem xz_finish_empty_refuted :
  exists f, xz_write xz_orig w_opts [] [] = Ok f /\
            xz_decode_c xz_orig false f = Err E_INVALID_DATA /\
            xz_spec_decode_c true f = None.
Proof. eexists. split; [vm_compute; reflexivity|]. split; vm_compute; reflexivity. Qed.

Lemma xz_finish_empty_fixed :
  exists f, xz_write xz_fixed w_opts [] [] = Ok f /\ xz_decode_c xz_fixed false f = Ok ([], []) /\
            xz_spec_decode_c true f = Some [].
Proof. eexists. split; [vm_compute; reflexivity|]. split; vm_compute; reflexivity. Qed.

(* F5 (C03): the index record's Unpadded Size omitted the Block Header.  The crate's reader does not
   compare it and accepts; the specification (and liblzma) reject every non-empty file. *)
Theorem xz_unpadded_size_refuted :
  exists f, xz_write xz_orig w_opts [w_content] [w_payload] = Ok f /\
            xz_decode_c xz_orig false f = Ok (w_content, []) /\
            xz_spec_decode_c true f = None.
Proof. eexists. split; [vm_compute; reflexivity|]. split; vm_compute; reflexivity. Qed.

Lemma xz_unpadded_size_fixed : xz_spec_decode_c true w_hello = Some w_content.
Proof. vm_compute. reflexivity. Qed.

(* F11 (C06): Index::parse pre-allocated for the record count read from the file. *)
Definition w_huge_index : list Z := [253; 55; 122; 88; 90; 0; 0; 1; 105; 34; 222; 54; 0; 255; 255; 255; 255; 255; 255; 255; 255; 127; 0; 0; 0; 0; 0; 0; 0; 0].
Theorem xz_index_alloc_refuted : xz_decode_c xz_orig false w_huge_index = Panic 62.
Proof. vm_compute. reflexivity. Qed.
Lemma xz_index_alloc_fixed : xz_decode_c xz_fixed false w_huge_index = Err E_INVALID_DATA.
Proof. vm_compute. reflexivity. Qed.

(* F13 (C07): a zero-length destination buffer was taken for the end of the block: reads of
   4, 0, 4, ... bytes fail after the first four bytes on a valid file. *)
Definition read_history (fx : xzfix) (f : list Z) (sizes : list Z) : outcome (list Z * Z) :=
  match xzr_read_all 200 fx (xzr_new f false) sizes sizes [] with
  | Ok (b, st, _) => Ok (b, st) | Err e => Err e | Panic e => Panic e | Fuel => Fuel
  end.
Theorem xz_empty_buffer_refuted : read_history xz_orig w_hello [4; 0; 4] = Ok ([104; 101; 108; 108], E_INVALID_DATA).
Proof. vm_compute. reflexivity. Qed.
Lemma xz_empty_buffer_fixed : read_history xz_fixed w_hello [4; 0; 4] = Ok (w_content, 0).
Proof. vm_compute. reflexivity. Qed.

(* F16 (C12): two concatenated streams were rejected (inverted test of the first magic byte); and
   stream padding that is not a multiple of four bytes was accepted at the end of the input. *)
Theorem xz_concat_refuted : xz_decode_c xz_orig true (w_hello ++ w_hello) = Err E_INVALID_DATA.
Proof. vm_compute. reflexivity. Qed.
Lemma xz_concat_fixed : xz_decode_c xz_fixed true (w_hello ++ [0; 0; 0; 0] ++ w_hello) = Ok (w_content ++ w_content, []).
Proof. vm_compute. reflexivity. Qed.
Theorem xz_trailing_padding_refuted : xz_decode_c xz_orig true (w_hello ++ [0; 0; 0]) = Ok (w_content, []).
Proof. vm_compute. reflexivity. Qed.
Lemma xz_trailing_padding_fixed : xz_decode_c xz_fixed true (w_hello ++ [0; 0; 0]) = Err E_INVALID_DATA.
Proof. vm_compute. reflexivity. Qed.

(* F6 (C04): LZIPReader took every member header error for a clean end of stream: input that is not
   LZIP at all decoded successfully to nothing. *)
Definition w_not_lzip : list Z := [116; 104; 105; 115; 32; 105; 115; 32; 110; 111; 116; 32; 108; 122; 105; 112].      (* "this is not lzip" *)
Theorem lzip_garbage_refuted : exists rest, lz_decode_c lz_orig w_not_lzip = Ok ([], rest).
Proof. eexists. vm_compute. reflexivity. Qed.
Lemma lzip_garbage_fixed : lz_decode_c lz_fixed w_not_lzip = Err E_INVALID_DATA.
Proof. vm_compute. reflexivity. Qed.
