(* Format/XzReaderProofs.v — the call-by-call reader models of XzFormat.v / LzipFormat.v
   (xzr_read = XZReader::read, lzr_read = LZIPReader::read) under histories of destination sizes. *)
From LzVerif Require Import Base.Bytes Codec.Store Codec.Range Codec.LzWindow Codec.LzmaDec Codec.LzmaEnc
  Codec.LzmaWriters Codec.Lzma2Dec Codec.Lzma2SpecProofs Codec.Lzma2FrameSyncProofs Codec.Lzma2LoopProofs Codec.Lzma2ReadProofs
  Filter.Delta Filter.DeltaProofs
  Format.Crc Format.CrcProofs Format.Vli Format.XzFormat Format.LzipFormat
  Format.XzSplitProofs Format.XzHeaderProofs Format.XzBlockHeaderProofs Format.XzIndexProofs Format.XzProofs
  Format.PayloadLzma2Proofs Format.ContainerCondProofs Format.ComposeProofs.
Ltac Zify.zify_post_hook ::= Z.div_mod_to_equations.

(* a destination of length 0 reads nothing and changes nothing, in every state (XZ: since the F13
   fix; before it the empty read was mistaken for the end of the block, see xz_empty_buffer_refuted) *)
Lemma xzr_read_zero s n : n <= 0 -> xzr_read xz_fixed s n = Ok ([], s).
Proof. intros Hn. unfold xzr_read. cbn [fx13 xz_fixed andb]. destruct (Z.leb_spec n 0); [reflexivity | lia]. Qed.

Lemma lzr_read_zero fx s n : n <= 0 -> lzr_read fx s n = Ok ([], s).
Proof. intros Hn. unfold lzr_read. destruct (Z.leb_spec n 0); [reflexivity | lia]. Qed.

(* ============================================================================================= *)
(* XZReader call by call on a file the writer produced (LZMA2 payloads, Delta pre-filters or none):
   for EVERY history of positive destination sizes the calls return, piece by piece, exactly the
   bytes written, then Ok(0); the source is left behind the stream footer.  Together with
   C02_xz_lzma2_delta: the call-by-call model and the whole-file function xz_decode_c agree on
   these files, whatever the sizes. *)

(* ---- the Delta readers of a block, call by call ------------------------------------------------ *)
Lemma deltas_decode_app : forall ds a b dsf o, xz_deltas_decode ds (a ++ b) = Ok (dsf, o) ->
  exists ds1 oa ob, xz_deltas_decode ds a = Ok (ds1, oa) /\ xz_deltas_decode ds1 b = Ok (dsf, ob) /\ o = oa ++ ob.
Proof.
  induction ds as [|d t IH]; intros a b dsf o H.
  - cbn [xz_deltas_decode] in *. inversion H; subst. exists [], a, b. auto.
  - cbn [xz_deltas_decode] in H.
    destruct (xz_deltas_decode t (a ++ b)) as [[t1 b1]| | |] eqn:Ei; try discriminate. cbn [obind] in H.
    destruct (IH a b t1 b1 Ei) as (t' & ia & ib & Ea & Eb & ->).
    unfold delta_decode in H. rewrite delta_run_app in H.
    destruct (delta_run delta_dec_byte d ia) as [[d' oa]|] eqn:Eda; [|discriminate].
    destruct (delta_run delta_dec_byte d' ib) as [[d'' ob]|] eqn:Edb; [|discriminate].
    inversion H; subst dsf o; clear H.
    exists (d' :: t'), oa, ob. cbn [xz_deltas_decode]. rewrite Ea, Eb. cbn [obind]. unfold delta_decode.
    rewrite Eda, Edb. auto.
Qed.

Lemma delta_run_len step : forall l d d' o, delta_run step d l = Some (d', o) -> length o = length l.
Proof.
  induction l as [|x t IH]; intros d d' o H; cbn [delta_run] in H.
  - inversion H. reflexivity.
  - destruct (step d x) as [[d1 y]|]; [|discriminate].
    destruct (delta_run step d1 t) as [[d2 ys]|] eqn:E2; [|discriminate].
    inversion H; subst. cbn [length]. f_equal. eapply IH. exact E2.
Qed.

Lemma deltas_decode_len : forall ds raw ds' o, xz_deltas_decode ds raw = Ok (ds', o) -> length o = length raw.
Proof.
  induction ds as [|d t IH]; intros raw ds' o H; cbn [xz_deltas_decode] in H.
  - inversion H. reflexivity.
  - destruct (xz_deltas_decode t raw) as [[t1 b1]| | |] eqn:Ei; try discriminate. cbn [obind] in H.
    destruct (delta_decode d b1) as [[d1 b2]|] eqn:Ed; [|discriminate]. inversion H; subst.
    rewrite (delta_run_len _ _ _ _ _ Ed). eapply IH. exact Ei.
Qed.

(* ---- the layout of a written stream ------------------------------------------------------------ *)
Section Stream.
  Variables lc lp pb : Z.
  Variable ch : Z -> list Z -> list l2ev.
  Hypothesis Hpar : l2_params_ok lc lp pb.
  Hypothesis Hch : l2_codec_ok lc lp pb ch.
  Variable o : xzopts.
  Hypothesis Hopts : opts_ok o.
  Hypothesis Hfs : only_delta (xo_filters o).
  Hypothesis Hd : 4096 <= xo_dict o <= 2147483648.
  Variable h : list Z.                 (* the block header (the same for every block) *)
  Variable recs : list (Z * Z).
  Variable idx : list Z.
  Hypothesis Rk : recs_ok recs.
  Hypothesis Ei : xz_index recs = Ok idx.
  Variable rest : list Z.              (* what follows the stream in the source *)
  Variable multi : bool.
  Hypothesis Hmulti : multi = true -> rest = [].
  Variable total : Z.                  (* length of the whole source *)

  Notation penc := (l2_penc lc lp pb ch).
  Notation ct := (xo_check o).
  Definition pay (c : list Z) : list Z := payload_of penc delta_fenc o c.
  Definition raw_of (c : list Z) : list Z := chain_enc delta_fenc (xo_filters o) c.
  Definition blk_tail (c : list Z) (follow : list Z) : list Z :=
    repeatn 0 (Z.to_nat (pad4 (zlen (pay c)))) ++ xz_check_bytes ct c ++ follow.
  Definition blk (c : list Z) : list Z := h ++ pay c ++ blk_tail c [].
  Definition after (todo : list (list Z)) : list Z :=
    concat (map blk todo) ++ idx ++ xz_stream_footer ct recs ++ rest.

  Lemma Hk : check_known ct = true.
  Proof. destruct Hopts as [H1 _]. exact H1. Qed.

  Lemma after_cons c todo : after (c :: todo) = h ++ pay c ++ blk_tail c (after todo).
  Proof. unfold after, blk, blk_tail. cbn [map concat]. rewrite <- !app_assoc. cbn [app]. reflexivity. Qed.

  Definition cgood (c : list Z) : Prop := 1 <= zlen c /\ bytes_ok c = true.

  (* between two blocks, inside one read() call *)
  Definition Between (s : xzr) (todo : list (list Z)) : Prop :=
    r_block s = None /\ r_src s = after todo /\ r_total s = total /\ r_multi s = multi /\
    r_blocks s + zlen todo = zlen recs /\ (total - zlen (after todo)) mod 4 = 0 /\
    (todo <> [] -> xz_block_header o = Ok h).

  (* inside block c, [rem_c] of its content still to deliver, [todo] the blocks after it *)
  Definition InBlock (s : xzr) (c : list Z) (todo : list (list Z)) (rem_c : list Z) : Prop :=
    exists bk rem_raw dd,
      r_block s = Some bk /\ r_check s = Some ct /\ r_finished s = false /\ r_total s = total /\ r_multi s = multi /\
      r_blocks s + zlen todo = zlen recs /\ xo_dict o <= dd /\ bytes_ok c = true /\
      l2_rs lc lp pb (xo_dict o) dd (raw_of c) (blk_tail c (after todo)) (bk_lz bk) rem_raw /\
      (exists dsf, xz_deltas_decode (bk_deltas bk) rem_raw = Ok (dsf, rem_c)) /\
      c = rev (bk_content bk) ++ rem_c /\
      (total - zlen (blk_tail c (after todo)) - zlen (pay c)) mod 4 = 0 /\
      (todo <> [] -> xz_block_header o = Ok h).

  Definition Fin (s : xzr) : Prop := r_finished s = true /\ r_block s = None /\ r_src s = rest.

  Lemma raw_bytes c : bytes_ok c = true -> bytes_ok (raw_of c) = true.
  Proof. intros Hb. apply (chain_enc_bytes delta_fenc delta_fenc_bytes). exact Hb. Qed.

  Lemma pay_stream c : bytes_ok c = true ->
    l2_no_end (ch (xo_dict o) (raw_of c)) /\ lzma2_write lc lp pb (xo_dict o) None (raw_of c) (ch (xo_dict o) (raw_of c)) = Ok (pay c).
  Proof.
    intros Hb. destruct (Hch (xo_dict o) (raw_of c) Hd (raw_bytes c Hb)) as (Hne & s & Hw).
    split; [exact Hne|]. unfold pay, payload_of, l2_penc. fold (raw_of c). rewrite Hw. reflexivity.
  Qed.

  (* the end of the stream: index, footer, and - with multi-stream decoding - the end of the input *)
  Lemma L_end s f sz : Between s [] ->
    exists s', xzr_read_loop (S f) xz_fixed s ct sz = Ok ([], s') /\ Fin s'.
  Proof.
    intros (Hb & Hsrc & Ht & Hm & Hn & _ & _). cbn [xzr_read_loop]. rewrite Hb, Hsrc.
    unfold after. cbn [map concat app].
    destruct (xz_index_and_footer_rt ct recs idx rest Hk Rk Ei) as (t & Et & _ & IF).
    rewrite Et. cbn [app xz_parse_block_header]. change (0 =? 0) with true. cbv iota. cbn [obind].
    change (zlen (@nil (list Z))) with 0 in Hn. replace (r_blocks s) with (zlen recs) by lia.
    rewrite IF. cbn [obind]. rewrite Hm. destruct multi eqn:Em.
    - rewrite (Hmulti eq_refl). pose proof (tn_end 0 ltac:(lia)) as Te. cbn [Z.to_nat repeatn] in Te.
      rewrite Te. cbn [Z.modulo Z.div_eucl Z.eqb obind]. eexists. split; [reflexivity|].
      unfold Fin, xzr_set. cbn [r_finished r_block r_src]. rewrite (Hmulti eq_refl). auto.
    - eexists. split; [reflexivity|]. unfold Fin, xzr_set. cbn [r_finished r_block r_src]. auto.
  Qed.

  (* a block starts: header, reader chain *)
  Lemma L_start s c todo f sz : Between s (c :: todo) -> bytes_ok c = true ->
    exists s1, xzr_read_loop (S f) xz_fixed s ct sz = xzr_read_loop f xz_fixed s1 ct sz /\ InBlock s1 c todo c.
  Proof.
    intros (Hb & Hsrc & Ht & Hm & Hn & Hal & Hh) Hbc. specialize (Hh ltac:(discriminate)).
    cbn [xzr_read_loop]. rewrite Hb, Hsrc, after_cons.
    destruct (xz_block_header_rt o h (pay c ++ blk_tail c (after todo)) Hopts Hh) as (dd & Hdd & Ph & Hh4 & _).
    rewrite Ph. cbn [obind bh_filters]. rewrite (chain_deltas_delta dd _ Hfs). cbn [obind].
    assert (Edict : xz_chain_dict (xo_filters o ++ [(FLZMA2, dd)]) = dd).
    { unfold xz_chain_dict. rewrite frev_rev, rev_app_distr. reflexivity. }
    rewrite Edict.
    destruct Hpar as (Hlc & Hlp & Hs & Hpb). destruct (pay_stream c Hbc) as (Hne & Hw).
    destruct (l2_rs_new lc lp pb (xo_dict o) dd (raw_of c) _ (pay c) (blk_tail c (after todo)) Hlc Hlp Hs Hpb
                ltac:(lia) Hdd (raw_bytes c Hbc) Hne Hw) as (s0 & Enew & HR).
    rewrite Enew. cbn [obind]. eexists. split; [reflexivity|].
    exists (mkXzblock s0 (map (fun f => delta_new (snd f)) (xo_filters o)) []), (raw_of c), dd.
    unfold xzr_set. cbn [r_block r_check r_finished r_total r_multi r_blocks bk_lz bk_deltas bk_content rev app].
    split; [reflexivity|]. split; [reflexivity|]. split; [reflexivity|]. split; [exact Ht|]. split; [exact Hm|].
    split; [unfold zlen in Hn |- *; cbn [length] in Hn; lia|]. split; [exact Hdd|]. split; [exact Hbc|]. split; [exact HR|].
    split.
    { destruct (deltas_decode_chain _ Hfs (raw_of c)) as (ds' & E). exists ds'. rewrite E. f_equal. f_equal.
      unfold raw_of. apply (chain_dec_enc_b delta_fenc delta_fdec delta_fdec_fenc delta_fenc_bytes). exact Hbc. }
    split; [reflexivity|].
    split.
    { rewrite after_cons, !zlen_app in Hal. lia. }
    intros Hne'. exact Hh.
  Qed.

  (* inside a block with content left: one LZMA2 read, the Delta readers *)
  Lemma L_in s c todo rem_c f sz : InBlock s c todo rem_c -> rem_c <> [] -> 0 < sz ->
    exists out s' rem', xzr_read_loop (S f) xz_fixed s ct sz = Ok (out, s') /\ rem_c = out ++ rem' /\ out <> [] /\
      InBlock s' c todo rem'.
  Proof.
    intros (bk & rem_raw & dd & Hb & Hc & Hfin & Ht & Hm & Hn & Hdd & Hbc & HR & (dsf & Hde) & Hcont & Hal & Hh) Hne Hsz.
    destruct Hpar as (Hlc & Hlp & Hs & Hpb).
    cbn [xzr_read_loop]. rewrite Hb.
    destruct (l2_rs_read lc lp pb (xo_dict o) dd (raw_of c) _ (bk_lz bk) rem_raw sz Hlc Hlp Hs Hpb ltac:(lia) Hdd
                (raw_bytes c Hbc) HR Hsz) as (raw & lz1 & rem_raw' & Hrd & Hrr & HR' & _ & Hnonempty).
    rewrite Hrd. cbn [obind].
    assert (Hrawne : raw <> []).
    { apply Hnonempty. intros X. rewrite X in Hde. apply deltas_decode_len in Hde. destruct rem_c; [congruence | cbn [length] in Hde; discriminate Hde]. }
    rewrite Hrr in Hde. destruct (deltas_decode_app _ _ _ _ _ Hde) as (ds1 & oa & ob & Ea & Eb & Eo).
    destruct raw as [|r0 raw']; [congruence|]. rewrite Ea. cbn [obind].
    exists oa. eexists. exists ob. split; [reflexivity|]. split; [exact Eo|].
    split; [apply deltas_decode_len in Ea; destruct oa; [cbn [length] in Ea; discriminate Ea | congruence]|].
    exists (mkXzblock lz1 ds1 (rev_append oa (bk_content bk))), rem_raw', dd.
    unfold xzr_set. cbn [r_block r_check r_finished r_total r_multi r_blocks bk_lz bk_deltas bk_content].
    split; [reflexivity|]. split; [reflexivity|]. split; [reflexivity|]. split; [exact Ht|]. split; [exact Hm|].
    split; [exact Hn|]. split; [exact Hdd|]. split; [exact Hbc|]. split; [exact HR'|].
    split; [exists dsf; exact Eb|].
    split; [rewrite rev_append_rev, rev_app_distr, rev_involutive, <- app_assoc, <- Eo; exact Hcont|].
    split; [exact Hal | exact Hh].
  Qed.

  (* a block is exhausted: end of the LZMA2 stream, block padding, check *)
  Lemma L_in_done s c todo f sz : InBlock s c todo [] -> 0 < sz ->
    exists s1, xzr_read_loop (S f) xz_fixed s ct sz = xzr_read_loop f xz_fixed s1 ct sz /\ Between s1 todo.
  Proof.
    intros (bk & rem_raw & dd & Hb & Hc & Hfin & Ht & Hm & Hn & Hdd & Hbc & HR & (dsf & Hde) & Hcont & Hal & Hh) Hsz.
    destruct Hpar as (Hlc & Hlp & Hs & Hpb).
    assert (rem_raw = []) by (apply deltas_decode_len in Hde; destruct rem_raw; [reflexivity | cbn [length] in Hde; discriminate Hde]). subst rem_raw.
    cbn [xzr_read_loop]. rewrite Hb.
    destruct (l2_rs_read lc lp pb (xo_dict o) dd (raw_of c) _ (bk_lz bk) [] sz Hlc Hlp Hs Hpb ltac:(lia) Hdd
                (raw_bytes c Hbc) HR Hsz) as (raw & lz1 & rem_raw' & Hrd & Hrr & _ & Hempty & _).
    symmetry in Hrr. apply app_eq_nil in Hrr as [-> ->]. destruct (Hempty eq_refl) as (_ & Hin).
    rewrite Hrd. cbn [obind]. rewrite Hin, Ht.
    set (T := blk_tail c (after todo)) in *.
    assert (Ppos : pad4 (total - zlen T) = pad4 (zlen (pay c))).
    { replace (total - zlen T) with ((total - zlen T - zlen (pay c)) + zlen (pay c)) by lia. apply pad4_add. exact Hal. }
    unfold T at 2. unfold blk_tail. rewrite (xz_consume_padding_ok _ _ _ Ppos). cbn [obind].
    rewrite app_nil_r in Hcont. rewrite frev_rev, <- Hcont.
    rewrite (xz_verify_check_ok ct c _ Hk). cbn [obind].
    eexists. split; [reflexivity|].
    unfold Between, xzr_set. cbn [r_block r_src r_total r_multi r_blocks].
    split; [reflexivity|]. split; [reflexivity|]. split; [exact Ht|]. split; [exact Hm|]. split; [exact Hn|].
    split; [|exact Hh].
    unfold T, blk_tail in Hal. rewrite !zlen_app, zlen_repeatn in Hal.
    pose proof (pad4_sum (zlen (pay c))) as Hsum. pose proof (pad4_range (zlen (pay c))) as Hpr.
    destruct (check_size_mod4 _ Hk) as [Hc4 _]. rewrite (zlen_check_bytes ct c Hk) in Hal. lia.
  Qed.

  (* from between two blocks to the next bytes, or to the end *)
  Lemma L_between s todo f sz : Between s todo -> Forall cgood todo -> 0 < sz ->
    exists out s', xzr_read_loop (S (S f)) xz_fixed s ct sz = Ok (out, s') /\
      match todo with
      | [] => out = [] /\ Fin s'
      | c :: todo' => exists rem', c = out ++ rem' /\ out <> [] /\ InBlock s' c todo' rem'
      end.
  Proof.
    intros HB Hg Hsz. destruct todo as [|c todo'].
    - destruct (L_end s (S f) sz HB) as (s' & E & HF). exists [], s'. auto.
    - inversion Hg as [|x l (Hc1 & Hcb) _]; subst x l.
      destruct (L_start s c todo' (S f) sz HB Hcb) as (s1 & E1 & HI).
      assert (Hne : c <> []) by (intros X; subst c; cbn in Hc1; lia).
      destruct (L_in s1 c todo' c f sz HI Hne Hsz) as (out & s' & rem' & E2 & Hr & Ho & HI').
      exists out, s'. rewrite E1, E2. split; [reflexivity|]. exists rem'. auto.
  Qed.

  (* ---- the state between two read() calls, and one call --------------------------------------- *)
  Definition SI (s : xzr) (R : list Z) : Prop :=
    (exists todo, s = mkXzr (xz_stream_header ct ++ after todo) total None None false multi 0 /\
                  zlen todo = zlen recs /\ (todo <> [] -> xz_block_header o = Ok h) /\
                  Forall cgood todo /\ (total - zlen (after todo)) mod 4 = 0 /\ R = concat todo) \/
    (exists c todo rem_c, InBlock s c todo rem_c /\ Forall cgood todo /\ R = rem_c ++ concat todo) \/
    (Fin s /\ R = []).

  Hypothesis Htotal : 0 <= total.

  Lemma concat_cgood_nonempty c todo : cgood c -> c ++ concat todo <> [].
  Proof. intros (H1 & _) X. apply app_eq_nil in X as [-> _]. cbn in H1. lia. Qed.

  Lemma read_step s R sz : SI s R -> 0 < sz ->
    exists out s' R', xzr_read xz_fixed s sz = Ok (out, s') /\ R = out ++ R' /\ SI s' R' /\
      (R <> [] -> out <> []) /\ (out = [] -> Fin s').
  Proof.
    intros HS Hsz. unfold xzr_read. cbn [fx13 xz_fixed andb].
    destruct (Z.leb_spec sz 0) as [?|_]; [lia|].
    assert (Hfuel : exists f, (Z.to_nat (r_total s) + 4)%nat = S (S (S f))) by (exists (Z.to_nat (r_total s) + 1)%nat; lia).
    destruct Hfuel as (f & Hfuel).
    destruct HS as [(todo & -> & Hlen & Hh & Hg & Hinit & ->) | [(c & todo & rem_c & HI & Hg & ->) | ((Hf & Hb & Hsrc) & ->)]].
    - (* first call: stream header *)
      cbn [r_finished r_check r_src]. rewrite (xz_parse_stream_header_ok ct _ Hk). cbn [obind fst snd].
      cbn [r_total] in Hfuel. cbn [r_total]. rewrite Hfuel.
      set (s1 := xzr_set _ _ _ _ _ _).
      assert (HB : Between s1 todo).
      { unfold Between, s1, xzr_set. cbn [r_block r_src r_total r_multi r_blocks].
        split; [reflexivity|]. split; [reflexivity|]. split; [reflexivity|]. split; [reflexivity|].
        split; [lia|]. split; [exact Hinit | exact Hh]. }
      destruct (L_between s1 todo (S f) sz HB Hg Hsz) as (out & s' & E & Hcase). rewrite E.
      destruct todo as [|c todo'].
      + destruct Hcase as (-> & HF). exists [], s', []. split; [reflexivity|]. split; [reflexivity|].
        split; [right; right; split; [exact HF | reflexivity]|]. split; [intros X; exact X | intros _; exact HF].
      + destruct Hcase as (rem' & Hc & Ho & HI'). inversion Hg as [|x l Hgc Hgt]; subst x l.
        exists out, s', (rem' ++ concat todo'). split; [reflexivity|].
        split; [cbn [concat]; rewrite Hc, <- app_assoc; reflexivity|].
        split; [right; left; exists c, todo', rem'; auto|]. split; [intros _; exact Ho | intros X; congruence].
    - (* inside a block *)
      pose proof HI as (bk & rem_raw & dd & Hb & Hc & Hfin & Ht & _).
      rewrite Hfin, Hc. cbn [obind]. rewrite Hfuel.
      destruct rem_c as [|r0 rem_c'].
      + destruct (L_in_done s c todo (S (S f)) sz HI Hsz) as (s1 & E1 & HB). rewrite E1.
        destruct (L_between s1 todo f sz HB Hg Hsz) as (out & s' & E & Hcase). rewrite E. cbn [app].
        destruct todo as [|c' todo'].
        * destruct Hcase as (-> & HF). exists [], s', []. split; [reflexivity|]. split; [reflexivity|].
          split; [right; right; split; [exact HF | reflexivity]|]. split; [intros X; exact X | intros _; exact HF].
        * destruct Hcase as (rem' & Hc' & Ho & HI'). inversion Hg as [|x l Hgc Hgt]; subst x l.
          exists out, s', (rem' ++ concat todo'). split; [reflexivity|].
          split; [cbn [concat]; rewrite Hc', <- app_assoc; reflexivity|].
          split; [right; left; exists c', todo', rem'; auto|]. split; [intros _; exact Ho | intros X; congruence].
      + destruct (L_in s c todo (r0 :: rem_c') (S (S f)) sz HI ltac:(discriminate) Hsz) as (out & s' & rem' & E & Hr & Ho & HI').
        rewrite E. exists out, s', (rem' ++ concat todo). split; [reflexivity|].
        split; [rewrite Hr, <- app_assoc; reflexivity|].
        split; [right; left; exists c, todo, rem'; auto|]. split; [intros _; exact Ho | intros X; congruence].
    - (* after the end *)
      rewrite Hf. exists [], s, []. split; [reflexivity|]. split; [reflexivity|].
      split; [right; right; split; [split; [exact Hf | split; assumption] | reflexivity]|].
      split; [intros X; exact X | intros _; split; [exact Hf | split; assumption]].
  Qed.

  (* ---- a whole history of positive destination sizes ------------------------------------------- *)
  Lemma xzr_read_all_step f s sizes all acc :
    xzr_read_all (S f) xz_fixed s sizes all acc =
    match xzr_read xz_fixed s (fst (l2_next sizes all)) with
    | Ok (out, s1) =>
        if (0 <? fst (l2_next sizes all)) && (zlen out =? 0) then Ok (frev acc, 0, s1)
        else xzr_read_all f xz_fixed s1
               (match snd (l2_next sizes all) with [] => all | _ => snd (l2_next sizes all) end)
               all (rev_append out acc)
    | Err e => Ok (frev acc, e, s)
    | Panic e => Panic e
    | Fuel => Fuel
    end.
  Proof. cbn [xzr_read_all]. destruct sizes as [|x r]; reflexivity. Qed.

  Theorem read_all_ok : forall fuel s R sizes all acc,
    SI s R -> Forall (fun z => 0 < z) sizes -> Forall (fun z => 0 < z) all -> (length R + 2 <= fuel)%nat ->
    exists st, xzr_read_all fuel xz_fixed s sizes all acc = Ok (rev acc ++ R, 0, st) /\ Fin st.
  Proof.
    induction fuel as [|f IH]; intros s R sizes all acc HS Hs Ha Hfuel; [lia|].
    destruct (l2_next_pos sizes all Hs Ha) as (Hsz & Hnext).
    rewrite xzr_read_all_step.
    destruct (read_step s R _ HS Hsz) as (out & s1 & R1 & Hrd & HR & HS1 & Hne & Hfin).
    rewrite Hrd. destruct (Z.ltb_spec 0 (fst (l2_next sizes all))) as [_|?]; [|lia]. cbn [andb].
    destruct (Z.eqb_spec (zlen out) 0) as [Hz|Hnz].
    - apply l2_zlen_zero in Hz. subst out. cbn [app] in HR. subst R1.
      assert (R = []) by (destruct R; [reflexivity | exfalso; apply Hne; [discriminate | reflexivity]]). subst R.
      exists s1. rewrite frev_rev, app_nil_r. split; [reflexivity | apply Hfin; reflexivity].
    - assert (Hon : out <> []) by (intros X; subst out; apply Hnz; reflexivity).
      pose proof (l2_length_pos out Hon) as Hlo.
      assert (Hlen : length R = (length out + length R1)%nat) by (rewrite HR; apply app_length).
      destruct (IH s1 R1 _ all (rev_append out acc) HS1 Hnext Ha ltac:(lia)) as (st & Hall & HF).
      exists st. rewrite Hall, l2_rev_rev_append, <- app_assoc, HR. split; [reflexivity | exact HF].
  Qed.
End Stream.

(* ---- from the writer's file to the reader's history -------------------------------------------- *)
Lemma blocks_bytes_blk lc lp pb ch o : forall blocks bytes recs,
  xz_blocks_bytes xz_fixed o blocks (map (payload_of (l2_penc lc lp pb ch) delta_fenc o) blocks) = Ok (bytes, recs) ->
  exists h, (blocks <> [] -> xz_block_header o = Ok h) /\ bytes = concat (map (blk lc lp pb ch o h) blocks).
Proof.
  induction blocks as [|c cs IH]; intros bytes recs E; cbn [xz_blocks_bytes map] in E.
  - inversion E; subst. exists []. split; [congruence | reflexivity].
  - destruct (xz_block xz_fixed o c (payload_of (l2_penc lc lp pb ch) delta_fenc o c)) as [[bb rec]| | |] eqn:Eb;
      try discriminate. cbn [obind] in E.
    destruct (xz_blocks_bytes xz_fixed o cs (map (payload_of (l2_penc lc lp pb ch) delta_fenc o) cs)) as [[bs rs]| | |] eqn:Ecs;
      try discriminate. cbn [obind fst snd] in E. inversion E; subst bytes recs; clear E.
    unfold xz_block in Eb. destruct (xz_block_header o) as [h| | |] eqn:Eh; try discriminate. cbn [obind] in Eb.
    inversion Eb; subst bb rec; clear Eb.
    destruct (IH bs rs eq_refl) as (h' & Hh' & Hbs). exists h. split; [intros _; reflexivity|].
    cbn [map concat]. unfold blk at 1, blk_tail, pay. rewrite app_nil_r, <- !app_assoc. do 4 f_equal.
    destruct cs as [|c2 cs']; [cbn [map concat] in *; exact Hbs|].
    specialize (Hh' ltac:(discriminate)). assert (h' = h) by congruence. subst h'. exact Hbs.
Qed.

Lemma xz_blocks_nonempty o0 o parts blocks : 1 <= xo_dict o0 ->
  xzw_new o0 = Ok o -> xz_blocks_of xz_fixed (xo_block_size o) parts = Ok blocks ->
  Forall (fun c => 1 <= zlen c) blocks.
Proof.
  intros Hd Eo Ebl. unfold xzw_new in Eo. destruct (3 <? zlen (xo_filters o0)); [discriminate|].
  inversion Eo; subst o; clear Eo. cbn [xo_block_size] in Ebl.
  destruct (xo_block_size o0) as [b|].
  - destruct (xz_blocks_fixed_some (Z.max b (xo_dict o0)) parts ltac:(lia)) as (bl & E1 & _ & F1 & _).
    rewrite E1 in Ebl. inversion Ebl; subst. eapply Forall_impl; [|exact F1]. intros c Hc. cbv beta in Hc. lia.
  - rewrite xz_blocks_none in Ebl. inversion Ebl; subst blocks. destruct (concat parts) as [|x l]; [constructor|].
    constructor; [|constructor]. unfold zlen. cbn [length]. lia.
Qed.

(* XZReader::read under EVERY history of positive destination sizes (cycled): the bytes written,
   then end of stream; the source is left behind the stream.  [multi] = true (allow multiple
   streams) is covered when nothing follows the stream; [multi] = false for any following bytes. *)
Theorem xzr_read_all_rt : forall lc lp pb ch, l2_params_ok lc lp pb -> l2_codec_ok lc lp pb ch ->
  forall o0 parts f rest multi sizes, stream_ok o0 -> only_delta (xo_filters o0) ->
    4096 <= xo_dict o0 <= 2147483648 -> bytes_ok (concat parts) = true ->
    xz_encode (l2_penc lc lp pb ch) delta_fenc xz_fixed o0 parts = Ok f ->
    (multi = true -> rest = []) -> Forall (fun z => 0 < z) sizes ->
    forall fuel, (length (concat parts) + 2 <= fuel)%nat ->
    exists st, xzr_read_all fuel xz_fixed (xzr_new (f ++ rest) multi) sizes sizes [] = Ok (concat parts, 0, st) /\
               xzr_unconsumed st = rest.
Proof.
  intros lc lp pb ch Hpar Hch o0 parts f rest multi sizes Hok Hfs Hd Hb E Hmulti Hsizes fuel Hfuel.
  pose proof Hok as [[Hk Hfok] Hbs]. unfold xz_encode in E.
  destruct (xzw_new o0) as [o| | |] eqn:Eo; try discriminate. cbn [obind] in E.
  destruct (xz_blocks_of xz_fixed (xo_block_size o) parts) as [blocks| | |] eqn:Ebl; try discriminate. cbn [obind] in E.
  destruct (xz_blocks_cover o0 o parts blocks ltac:(lia) Eo Ebl) as (Ed & Ef & Hcat).
  assert (Hoc : xo_check o = xo_check o0).
  { unfold xzw_new in Eo. destruct (3 <? zlen (xo_filters o0)); [discriminate|]. inversion Eo. reflexivity. }
  assert (Hopts : opts_ok o) by (split; [rewrite Hoc; exact Hk | rewrite Ef; exact Hfok]).
  pose proof (d_stream_good o0 parts Hfs Hd Hb o blocks Eo Ebl) as Hg.
  pose proof (xz_blocks_nonempty o0 o parts blocks ltac:(lia) Eo Ebl) as Hne.
  unfold xz_container in E.
  destruct (xz_blocks_bytes xz_fixed o blocks (map (payload_of (l2_penc lc lp pb ch) delta_fenc o) blocks))
    as [[bytes recs]| | |] eqn:Ebb; try discriminate.
  cbn [obind fx4 xz_fixed] in E.
  assert (E' : (do idx <- xz_index recs;
                Ok (xz_stream_header (xo_check o) ++ bytes ++ idx ++ xz_stream_footer (xo_check o) recs)) = Ok f)
    by (destruct blocks; exact E).
  clear E. destruct (xz_index recs) as [idx| | |] eqn:Ei; try discriminate. cbn [obind] in E'.
  inversion E'; subst f; clear E'.
  destruct (xzd_blocks_rt_c (l2_penc lc lp pb ch) delta_fenc xz_blockdec d_bgood (d_bdec_ok lc lp pb ch Hpar Hch)
              o Hopts blocks bytes recs Hg Ebb) as (_ & Rk & Lr & _ & _).
  destruct (blocks_bytes_blk lc lp pb ch o blocks bytes recs Ebb) as (h & Hh & Hbytes).
  assert (Hcg : Forall cgood blocks).
  { pose proof Hb as Hb'. rewrite <- Hcat in Hb'. apply Forall_bytes_concat in Hb'.
    clear - Hne Hb'. induction blocks as [|c cs IH]; [constructor|].
    inversion Hne; subst. inversion Hb'; subst. constructor; [split; assumption | apply IH; assumption]. }
  set (src := (xz_stream_header (xo_check o) ++ bytes ++ idx ++ xz_stream_footer (xo_check o) recs) ++ rest).
  assert (Esrc : src = xz_stream_header (xo_check o) ++ after lc lp pb ch o h recs idx rest blocks).
  { unfold src, after. rewrite Hbytes, <- !app_assoc. reflexivity. }
  assert (Hfs' : only_delta (xo_filters o)) by (rewrite Ef; exact Hfs).
  assert (Hd' : 4096 <= xo_dict o <= 2147483648) by (rewrite Ed; exact Hd).
  destruct (read_all_ok lc lp pb ch Hpar Hch o Hopts Hfs' Hd' h recs idx Rk Ei rest multi Hmulti (zlen src) fuel
              (xzr_new src multi) (concat blocks) sizes sizes []) as (st & Hra & (_ & Hbk & Hsrc)).
  - left. exists blocks. unfold xzr_new. split; [rewrite Esrc at 1; reflexivity|].
    split; [lia|]. split; [exact Hh|]. split; [exact Hcg|]. split; [|reflexivity].
    rewrite Esrc, zlen_app, zlen_stream_header. lia.
  - exact Hsizes.
  - exact Hsizes.
  - rewrite Hcat. exact Hfuel.
  - exists st. cbn [rev app] in Hra. rewrite Hcat in Hra. split; [exact Hra|].
    unfold xzr_unconsumed. rewrite Hbk. exact Hsrc.
Qed.

Print Assumptions xzr_read_all_rt.

(* the call-by-call model and the whole-file function agree on these files *)
Theorem xzr_read_all_is_decode : forall lc lp pb ch, l2_params_ok lc lp pb -> l2_codec_ok lc lp pb ch ->
  forall o0 parts f multi sizes, stream_ok o0 -> only_delta (xo_filters o0) ->
    4096 <= xo_dict o0 <= 2147483648 -> bytes_ok (concat parts) = true ->
    xz_encode (l2_penc lc lp pb ch) delta_fenc xz_fixed o0 parts = Ok f ->
    Forall (fun z => 0 < z) sizes ->
    forall fuel, (length (concat parts) + 2 <= fuel)%nat ->
    exists content left st,
      xz_decode_c xz_fixed multi f = Ok (content, left) /\
      xzr_read_all fuel xz_fixed (xzr_new f multi) sizes sizes [] = Ok (content, 0, st) /\
      xzr_unconsumed st = left.
Proof.
  intros lc lp pb ch Hpar Hch o0 parts f multi sizes Hok Hfs Hd Hb E Hsizes fuel Hfuel.
  destruct (xzr_read_all_rt lc lp pb ch Hpar Hch o0 parts f [] multi sizes Hok Hfs Hd Hb E ltac:(reflexivity) Hsizes fuel Hfuel)
    as (st & Hra & Hun).
  rewrite app_nil_r in Hra.
  exists (concat parts), [], st. split; [|split; assumption].
  exact (C02_xz_lzma2_delta_thm lc lp pb ch Hpar Hch o0 parts f multi Hok Hfs Hd Hb E).
Qed.
