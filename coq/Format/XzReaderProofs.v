(* Format/XzReaderProofs.v — the call-by-call reader models of XzFormat.v / LzipFormat.v
   (xzr_read = XZReader::read, lzr_read = LZIPReader::read) under histories of destination sizes. *)
From LzVerif Require Import Base.Bytes Format.XzFormat Format.LzipFormat.
Ltac Zify.zify_post_hook ::= Z.div_mod_to_equations.

(* a destination of length 0 reads nothing and changes nothing, in every state (XZ: since the F13
   fix; before it the empty read was mistaken for the end of the block, see xz_empty_buffer_refuted) *)
Lemma xzr_read_zero s n : n <= 0 -> xzr_read xz_fixed s n = Ok ([], s).
Proof. intros Hn. unfold xzr_read. cbn [fx13 xz_fixed andb]. destruct (Z.leb_spec n 0); [reflexivity | lia]. Qed.

Lemma lzr_read_zero fx s n : n <= 0 -> lzr_read fx s n = Ok ([], s).
Proof. intros Hn. unfold lzr_read. destruct (Z.leb_spec n 0); [reflexivity | lia]. Qed.
