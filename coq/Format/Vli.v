(* Format/Vli.v — the XZ multibyte integers of src/xz.rs: parse_multibyte_integer (slice),
   count_multibyte_integer_size (slice), parse_multibyte_integer_from_reader,
   count_multibyte_integer_size_for_value, encode_multibyte_integer.  Definitions only. *)
From LzVerif Require Export Base.Bytes.

Definition U63_MAX : Z := 9223372036854775807.   (* u64::MAX / 2 *)

(* fn encode_multibyte_integer(value, buf: &mut [u8; 10]): the loop body runs while value >= 0x80
   and i < buf.len(); [room] = buf.len() - i *)
Fixpoint vli_encode_loop (room : nat) (v : Z) : list Z :=
  match room with
  | O => []
  | S r => if 128 <=? v then (Z.lor (v mod 256) 128) :: vli_encode_loop r (v / 128) else [v mod 256]
  end.

Definition vli_encode (v : Z) : outcome (list Z) :=
  if U63_MAX <? v then Err E_INVALID_DATA else Ok (vli_encode_loop 10 v).

(* fn parse_multibyte_integer(data: &[u8]) -> Result<u64> *)
Fixpoint vli_parse_slice_loop (data : list Z) (result shift : Z) : outcome Z :=
  match data with
  | [] => Err E_INVALID_DATA                         (* "incomplete XZ multibyte integer" *)
  | b :: t =>
      if 63 <=? shift then Err E_INVALID_DATA else  (* "too large" *)
      let result1 := Z.lor result (Z.shiftl (Z.land b 127) shift) in
      if Z.land b 128 =? 0 then Ok result1 else vli_parse_slice_loop t result1 (shift + 7)
  end.
Definition vli_parse_slice (data : list Z) : outcome Z := vli_parse_slice_loop data 0 0.

(* fn count_multibyte_integer_size(data: &[u8]) -> usize *)
Fixpoint vli_size_slice (data : list Z) : Z :=
  match data with
  | [] => 0
  | b :: t => if Z.land b 128 =? 0 then 1 else 1 + vli_size_slice t
  end.

(* fn parse_multibyte_integer_from_reader: at most 9 bytes, read one at a time *)
Fixpoint vli_parse_reader_loop (n : nat) (input : list Z) (result shift : Z) : outcome (Z * list Z) :=
  match n with
  | O => Err E_INVALID_DATA                          (* "XZ multibyte integer too long" *)
  | S k =>
      match input with
      | [] => Err E_UNEXPECTED_EOF
      | b :: t =>
          if 63 <=? shift then Err E_INVALID_DATA else
          let result1 := Z.lor result (Z.shiftl (Z.land b 127) shift) in
          if Z.land b 128 =? 0 then Ok (result1, t) else vli_parse_reader_loop k t result1 (shift + 7)
      end
  end.
Definition vli_parse_reader (input : list Z) : outcome (Z * list Z) := vli_parse_reader_loop 9 input 0 0.

(* fn count_multibyte_integer_size_for_value(value: u64) -> usize; a u64 has at most 10 groups *)
Fixpoint vli_size_value_loop (n : nat) (v : Z) : Z :=
  match n with
  | O => 0
  | S k => if 0 <? v then 1 + vli_size_value_loop k (v / 128) else 0
  end.
Definition vli_size_value (v : Z) : Z := if v =? 0 then 1 else vli_size_value_loop 10 v.
