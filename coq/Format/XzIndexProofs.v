(* Format/XzIndexProofs.v — Index::parse and StreamFooter::parse read back what write_index and
   write_stream_footer wrote: the same records, record count, flags; the rest of the input is
   untouched; the index length is a multiple of four. *)
From LzVerif Require Import Base.Bytes Format.Crc Format.CrcProofs Format.Vli Format.VliProofs
  Format.XzFormat Format.XzSplitProofs Format.XzHeaderProofs.
Ltac Zify.zify_post_hook ::= Z.div_mod_to_equations.

(* sizes as the writer produces them: positive unpadded size, non-negative uncompressed size *)
Definition recs_ok (rs : list (Z * Z)) : Prop := Forall (fun r => 1 <= fst r /\ 0 <= snd r) rs.

Lemma index_records_rt : forall rs r, recs_ok rs -> xz_index_records rs = Ok r ->
  bytes_ok r = true /\ zlen r = xz_index_vli_sizes rs /\ 2 * zlen rs <= zlen r /\
  forall fuel tail acc, (length rs < fuel)%nat ->
    xz_index_records_loop fuel (zlen rs) (r ++ tail) acc = Ok (rev acc ++ rs, tail).
Proof.
  induction rs as [|[u c] rs IH]; intros r Hok H.
  - cbn [xz_index_records] in H. inversion H; subst r. split; [reflexivity|]. split; [reflexivity|]. split; [cbn; lia|].
    intros fuel tail acc Hf. destruct fuel; cbn [xz_index_records_loop zlen length Z.of_nat Z.leb Z.compare app];
      rewrite frev_rev, app_nil_r; reflexivity.
  - inversion Hok as [|x l [Hu Hc] Hrs]; subst x l. cbn [fst snd] in Hu, Hc.
    cbn [xz_index_records] in H.
    destruct (vli_encode u) as [a| | |] eqn:Ea; try discriminate. cbn [obind] in H.
    destruct (vli_encode c) as [b| | |] eqn:Eb; try discriminate. cbn [obind] in H.
    destruct (xz_index_records rs) as [r'| | |] eqn:Er; try discriminate. cbn [obind] in H.
    inversion H; subst r; clear H.
    apply vli_encode_inv in Ea as [Ea Hu2]; [|lia]. apply vli_encode_inv in Eb as [Eb Hc2]; [|lia]. subst a b.
    destruct (IH r' Hrs eq_refl) as (B' & L' & M' & Loop').
    destruct (vli_roundtrip u [] ltac:(lia)) as (_ & _ & _ & _ & Su & Lu & Bu).
    destruct (vli_roundtrip c [] ltac:(lia)) as (_ & _ & _ & _ & Sc & Lc & Bc).
    split; [rewrite !bytes_ok_app, Bu, Bc, B'; reflexivity|].
    split; [rewrite !zlen_app; cbn [xz_index_vli_sizes]; lia|].
    split; [rewrite !zlen_app, zlen_cons; lia|].
    intros fuel tail acc Hf. destruct fuel as [|fuel]; [cbn in Hf; lia|].
    cbn [xz_index_records_loop]. rewrite zlen_cons.
    destruct (Z.leb_spec (1 + zlen rs) 0); [pose proof (zlen_nonneg rs); lia|].
    rewrite <- !app_assoc.
    destruct (vli_roundtrip u (vli_bytes c ++ r' ++ tail) ltac:(lia)) as (Ru & _). rewrite Ru. cbn [obind].
    destruct (vli_roundtrip c (r' ++ tail) ltac:(lia)) as (Rc & _). rewrite Rc. cbn [obind].
    destruct (Z.eqb_spec u 0); [lia|].
    replace (1 + zlen rs - 1) with (zlen rs) by lia.
    rewrite Loop' by (cbn [length] in Hf; lia). cbn [rev]. rewrite <- app_assoc. reflexivity.
Qed.

Lemma zlen_length_lt {A} (l : list A) n : zlen l < Z.of_nat n -> (length l < n)%nat.
Proof. unfold zlen. lia. Qed.

(* the written index, read back after its indicator byte *)
Theorem xz_index_rt rs idx rest : recs_ok rs -> xz_index rs = Ok idx ->
  exists t, idx = 0 :: t /\ zlen idx mod 4 = 0 /\ 8 <= zlen idx /\
    xz_parse_index xz_fixed (t ++ rest) = Ok (zlen rs, rs, rest).
Proof.
  intros Hok H. unfold xz_index in H.
  destruct (vli_encode (zlen rs)) as [nb| | |] eqn:En; try discriminate. cbn [obind] in H.
  destruct (xz_index_records rs) as [r| | |] eqn:Er; try discriminate. cbn [obind] in H.
  apply vli_encode_inv in En as [En Hn]; [|apply zlen_nonneg]. subst nb.
  destruct (index_records_rt rs r Hok Er) as (Br & Lr & Mr & Loop).
  destruct (vli_roundtrip (zlen rs) [] ltac:(pose proof (zlen_nonneg rs); lia)) as (_ & _ & _ & _ & Sn & Ln & Bn).
  set (body := 0 :: vli_bytes (zlen rs) ++ r) in *.
  set (pn := pad4 (zlen body)) in *.
  assert (Ei : idx = (body ++ repeatn 0 (Z.to_nat pn)) ++ crc32_bytes (body ++ repeatn 0 (Z.to_nat pn))) by congruence.
  clear H. pose proof (pad4_range (zlen body)) as Hpn. fold pn in Hpn.
  assert (Lb : zlen body = 1 + zlen (vli_bytes (zlen rs)) + zlen r) by (unfold body; rewrite zlen_cons, zlen_app; lia).
  exists ((vli_bytes (zlen rs) ++ r) ++ repeatn 0 (Z.to_nat pn) ++ crc32_bytes (body ++ repeatn 0 (Z.to_nat pn))).
  split; [rewrite Ei; unfold body; cbn [app]; rewrite <- !app_assoc; reflexivity|].
  assert (Li : zlen idx = zlen body + pn + 4).
  { rewrite Ei, !zlen_app, zlen_repeatn, zlen_crc32_bytes. lia. }
  assert (Hsum : (zlen body + pn) mod 4 = 0) by (unfold pn; apply pad4_sum).
  split; [rewrite Li; lia|].
  split; [rewrite Li; pose proof (zlen_nonneg r); lia|].
  unfold xz_parse_index. rewrite <- !app_assoc.
  destruct (vli_roundtrip (zlen rs) (r ++ repeatn 0 (Z.to_nat pn) ++ crc32_bytes (body ++ repeatn 0 (Z.to_nat pn)) ++ rest)
              ltac:(pose proof (zlen_nonneg rs); lia)) as (Rn & _).
  rewrite Rn. cbn [obind fx11 xz_fixed negb andb].
  rewrite Loop.
  2:{ apply zlen_length_lt. rewrite Nat2Z.inj_succ. fold (zlen (r ++ repeatn 0 (Z.to_nat pn) ++ crc32_bytes (body ++ repeatn 0 (Z.to_nat pn)) ++ rest)).
      rewrite zlen_app. pose proof (zlen_nonneg (repeatn 0 (Z.to_nat pn) ++ crc32_bytes (body ++ repeatn 0 (Z.to_nat pn)) ++ rest)).
      pose proof (zlen_nonneg rs). lia. }
  cbn [obind rev app].
  replace (1 + vli_size_value (zlen rs) + xz_index_vli_sizes rs) with (zlen body) by lia. fold pn.
  rewrite (xz_take_app_n pn) by (rewrite zlen_repeatn; lia). cbn [obind]. rewrite forallb_zeros. cbn [negb].
  rewrite (xz_take_app_n 4) by apply zlen_crc32_bytes. cbn [obind].
  rewrite (vli_encode_ok (zlen rs)) by (pose proof (zlen_nonneg rs); lia). cbn [obind]. rewrite Er. cbn [obind].
  replace (0 :: vli_bytes (zlen rs) ++ r ++ repeatn 0 (Z.to_nat pn)) with (body ++ repeatn 0 (Z.to_nat pn))
    by (unfold body; cbn [app]; rewrite <- app_assoc; reflexivity).
  rewrite le_value_crc32_bytes.
  2:{ unfold body. rewrite bytes_ok_app, bytes_ok_zeros. cbn [bytes_ok forallb]. fold (bytes_ok (vli_bytes (zlen rs) ++ r)).
      rewrite bytes_ok_app, Bn, Br. reflexivity. }
  rewrite Z.eqb_refl. cbn [negb]. reflexivity.
Qed.

(* parse_index_and_footer on what finish() writes after the last block *)
Theorem xz_index_and_footer_rt ct rs idx rest : check_known ct = true -> recs_ok rs -> xz_index rs = Ok idx ->
  exists t, idx = 0 :: t /\ zlen idx mod 4 = 0 /\
    xz_index_and_footer xz_fixed ct (zlen rs) (t ++ xz_stream_footer ct rs ++ rest) = Ok rest.
Proof.
  intros Hk Hok H. destruct (xz_index_rt rs idx (xz_stream_footer ct rs ++ rest) Hok H) as (t & Et & Lm & _ & P).
  exists t. split; [exact Et|]. split; [exact Lm|].
  unfold xz_index_and_footer. rewrite P. cbn [obind]. rewrite Z.eqb_refl. cbn [negb].
  rewrite xz_parse_footer_ok by exact Hk. cbn [obind]. rewrite bytes_eqb_refl. reflexivity.
Qed.
