(* Format/XzSpecIn3Proofs.v — C03_in (XZ), part 3: Blocks (payload, Block Padding, Check), Index,
   Stream Footer, Stream Padding and concatenated Streams: every byte string the independent
   specification (Format/XzSpec.v, strict mode) accepts is decoded by the reader model
   (xz_decode of Format/XzFormat.v, repaired code) to the content the specification assigns to it.
   The block decoders are Section variables: the crate's chain decoder must decode what the
   specification's does, and the specification's decoder only consumes input. *)
From LzVerif Require Import Base.Bytes Format.Crc Format.CrcProofs Format.Vli Format.VliProofs
  Format.XzFormat Format.XzSpec Format.XzSplitProofs Format.XzHeaderProofs Format.XzIndexProofs Format.BitflipProofs
  Format.XzSoundProofs Format.XzSpecProofs Format.XzSpecInProofs Format.XzSpecIn2Proofs.
Ltac Zify.zify_post_hook ::= Z.div_mod_to_equations.

Lemma skipn_app_exact {A} (a b : list A) n : length a = n -> skipn n (a ++ b) = b.
Proof. intros <-. rewrite skipn_app, skipn_all, Nat.sub_diag. reflexivity. Qed.

Lemma check_size_mod4 ct : check_size ct mod 4 = 0 /\ 0 <= check_size ct.
Proof. unfold check_size. repeat (destruct (_ =? _)); split; try reflexivity; lia. Qed.

(* Block Padding: the crate derives it from the stream position, the specification from the size of
   the Compressed Data; they agree when the Compressed Data starts at a multiple of four *)
Lemma s_padding_crate pos csize r2 pad r3 : pos mod 4 = 0 ->
  s_take (s_pad4 csize) r2 = Some (pad, r3) -> s_all_zero pad = true ->
  xz_consume_padding (pos + csize) r2 = Ok r3 /\ zlen r2 - zlen r3 = pad4 csize.
Proof.
  intros Hpos Ht Hz. apply s_take_inv in Ht as [E L]. rewrite s_pad4_eq in L.
  assert (Ep : pad4 (pos + csize) = pad4 csize) by (unfold pad4; lia).
  split; [|rewrite E, zlen_app; lia].
  unfold xz_consume_padding. rewrite Ep. destruct (Z.eqb_spec (pad4 csize) 0) as [E0|Hne].
  - rewrite E0 in L. apply zlen_zero_nil in L. subst pad. rewrite E. reflexivity.
  - assert (Lp : length pad = Z.to_nat (pad4 csize)) by (unfold zlen in L; lia).
    rewrite E, (firstn_app_exact pad r3 _ Lp), L, Z.eqb_refl. cbn [negb].
    unfold s_all_zero in Hz. rewrite Hz. cbn [negb]. rewrite (skipn_app_exact pad r3 _ Lp). reflexivity.
Qed.

(* the Check field *)
Lemma s_check_crate ct data r3 chk r4 : check_known ct = true ->
  s_take (s_check_size ct) r3 = Some (chk, r4) ->
  negb (s_check_supported ct) || s_eqb chk (s_check_value ct data) = true ->
  xz_verify_check ct (xz_check_bytes ct data) r3 = Ok r4 /\ zlen r3 - zlen r4 = check_size ct.
Proof.
  intros Hk Ht Hc. destruct (s_check_value_eq ct data Hk) as (Ecv & Ecs & Esup).
  rewrite Esup in Hc. cbn [negb orb] in Hc. apply s_eqb_eq in Hc. rewrite Ecv in Hc. subst chk.
  rewrite Ecs in Ht. apply s_take_inv in Ht as [E L].
  split; [|rewrite E, zlen_app; lia].
  unfold xz_verify_check. destruct (Z.eqb_spec ct 0) as [E0|Hne].
  - subst ct. change (check_size 0) with 0 in L. apply zlen_zero_nil in L. rewrite L in E. rewrite E. reflexivity.
  - rewrite E, (xz_take_app_n _ _ _ L). cbn [obind]. rewrite bytes_eqb_refl. reflexivity.
Qed.

(* stream header: the accepted bytes are the ones the writer emits *)
Lemma s_stream_header_inv l ct r : bytes_ok l = true -> s_stream_header false l = Some (ct, r) ->
  l = xz_stream_header ct ++ r /\ check_known ct = true.
Proof.
  unfold s_stream_header. intros Hb H.
  destruct (s_take 6 l) as [[magic r1]|] eqn:E1; [|discriminate]. cbn [olet] in H.
  destruct (s_eqb magic S_HEADER_MAGIC) eqn:Em; [|discriminate]. cbn [guard olet] in H.
  destruct (s_take 2 r1) as [[flags r2]|] eqn:E2; [|discriminate]. cbn [olet] in H.
  destruct (s_take 4 r2) as [[crc r3]|] eqn:E3; [|discriminate]. cbn [olet] in H.
  destruct (Z.eqb_spec (le_value crc) (crc32 flags)) as [V|]; [|discriminate]. cbn [guard olet] in H.
  destruct flags as [|f0 [|f1 [|? ?]]]; try discriminate.
  destruct ((f0 =? 0) && (f1 <? 16)) eqn:Ef; [|discriminate]. cbn [guard olet] in H.
  destruct (s_check_supported f1) eqn:Es; [|discriminate]. cbn [orb guard olet] in H. inversion H; subst ct r3.
  apply andb_true_iff in Ef as [Ef0 _]. apply Z.eqb_eq in Ef0. subst f0.
  apply s_take_inv in E1 as [E1 L1]. apply s_take_inv in E2 as [E2 L2]. apply s_take_inv in E3 as [E3 L3].
  apply s_eqb_eq in Em. change S_HEADER_MAGIC with XZ_MAGIC in Em. subst magic.
  assert (Hk : check_known f1 = true) by exact Es. split; [|exact Hk].
  assert (Hbc : bytes_ok crc = true).
  { rewrite E1, E2, E3 in Hb. apply bok_app in Hb as [_ Hb]. apply bok_app in Hb as [_ Hb]. apply bok_app in Hb as [Hb _]. exact Hb. }
  assert (Ec : crc = crc32_bytes (xz_stream_flags f1)).
  { apply le_value_inj.
    - pose proof (zlen_crc32_bytes (xz_stream_flags f1)) as Z4. unfold zlen in *. lia.
    - exact Hbc.
    - apply bytes_ok_le_bytes.
    - rewrite le_value_crc32_bytes by (apply bytes_ok_flags; exact Hk). exact V. }
  rewrite E1, E2, E3, Ec. unfold xz_stream_header. rewrite <- !app_assoc. reflexivity.
Qed.

Lemma s_footer_len ct isz l r : s_footer ct isz l = Some r -> l = firstn 12 l ++ r /\ zlen l - zlen r = 12.
Proof.
  unfold s_footer. intros H.
  destruct (s_take 4 l) as [[crc r1]|] eqn:E1; [|discriminate]. cbn [olet] in H.
  destruct (s_take 4 r1) as [[bwb r2]|] eqn:E2; [|discriminate]. cbn [olet] in H.
  destruct (s_take 2 r2) as [[fl r3]|] eqn:E3; [|discriminate]. cbn [olet] in H.
  destruct (s_take 2 r3) as [[mg r4]|] eqn:E4; [|discriminate]. cbn [olet] in H.
  destruct (le_value crc =? crc32 (bwb ++ fl)); [|discriminate]. cbn [guard olet] in H.
  destruct ((le_value bwb + 1) * 4 =? isz); [|discriminate]. cbn [guard olet] in H.
  destruct (s_eqb fl [0; ct]); [|discriminate]. cbn [guard olet] in H.
  destruct (s_eqb mg S_FOOTER_MAGIC); [|discriminate]. cbn [guard olet] in H. inversion H; subst r4.
  apply s_take_inv in E1 as [E1 L1]. apply s_take_inv in E2 as [E2 L2]. apply s_take_inv in E3 as [E3 L3].
  apply s_take_inv in E4 as [E4 L4].
  assert (E : l = (crc ++ bwb ++ fl ++ mg) ++ r) by (rewrite E1, E2, E3, E4, <- !app_assoc; reflexivity).
  assert (L : zlen (crc ++ bwb ++ fl ++ mg) = 12) by (rewrite !zlen_app; lia).
  split.
  - rewrite E at 2. rewrite (firstn_app_exact _ r 12%nat) by (unfold zlen in L; lia). exact E.
  - rewrite E, zlen_app. lia.
Qed.

Lemma s_strip_zeros_facts : forall l k n r, s_strip_zeros l k = (n, r) ->
  n = k + (zlen l - zlen r) /\ suffix r l /\ xz_skip_zeros l k = (n, r).
Proof.
  induction l as [|b t IH]; intros k n r H.
  - cbn [s_strip_zeros] in H. inversion H; subst. split; [lia|]. split; [apply suffix_refl | reflexivity].
  - cbn [s_strip_zeros] in H. cbn [xz_skip_zeros]. destruct (b =? 0).
    + destruct (IH _ _ _ H) as (E & S & X). split; [rewrite zlen_cons; lia|]. split; [|exact X].
      eapply suffix_trans; [exact S | apply suffix_cons].
    + inversion H; subst. split; [lia|]. split; [apply suffix_refl | reflexivity].
Qed.

(* the index: the accepted bytes are the ones write_index emits for the records *)
Lemma s_index_records_canon : forall recs l r, bytes_ok l = true -> s_index_records recs l = Some r ->
  exists re, xz_index_records recs = Ok re /\ l = re ++ r.
Proof.
  induction recs as [|[u c] t IH]; intros l r Hb H.
  - cbn [s_index_records] in H. inversion H; subst. exists []. split; reflexivity.
  - cbn [s_index_records] in H.
    destruct (s_vli l) as [[a r1]|] eqn:E1; [|discriminate]. cbn [olet] in H.
    destruct (s_vli r1) as [[b r2]|] eqn:E2; [|discriminate]. cbn [olet] in H.
    destruct ((a =? u) && (b =? c)) eqn:Eab; [|discriminate]. cbn [guard olet] in H.
    apply andb_true_iff in Eab as [Ea Eb]. apply Z.eqb_eq in Ea. apply Z.eqb_eq in Eb. subst a b.
    destruct (s_vli_canon l u r1 Hb E1) as (Hu & El & _ & _).
    assert (Hb1 : bytes_ok r1 = true) by (rewrite El in Hb; apply bok_app in Hb; apply Hb).
    destruct (s_vli_canon r1 c r2 Hb1 E2) as (Hc & Er1 & _ & _).
    assert (Hb2 : bytes_ok r2 = true) by (rewrite Er1 in Hb1; apply bok_app in Hb1; apply Hb1).
    destruct (IH r2 r Hb2 H) as (re & Ere & Er2).
    exists (vli_bytes u ++ vli_bytes c ++ re). split.
    + cbn [xz_index_records]. rewrite (vli_encode_ok u Hu), (vli_encode_ok c Hc). cbn [obind]. rewrite Ere. reflexivity.
    + rewrite El at 1. rewrite Er1 at 1. rewrite Er2 at 1. rewrite <- !app_assoc. reflexivity.
Qed.

Theorem s_index_crate recs l isz r : bytes_ok l = true -> recs_ok recs -> s_index recs l = Some (isz, r) ->
  exists t, l = 0 :: t /\ xz_parse_index xz_fixed t = Ok (zlen recs, recs, r) /\
            isz = zlen l - zlen r /\ isz mod 4 = 0 /\ suffix r l.
Proof.
  intros Hb Hok H. unfold s_index in H. destruct l as [|z r0]; [discriminate|]. destruct z; try discriminate.
  destruct (s_vli r0) as [[n r1]|] eqn:En; [|discriminate]. cbn [olet] in H.
  destruct (Z.eqb_spec n (zlen recs)) as [->|]; [|discriminate]. cbn [guard olet] in H.
  destruct (s_index_records recs r1) as [r2|] eqn:Er; [|discriminate]. cbn [olet] in H.
  set (used := zlen (0 :: r0) - zlen r2) in *.
  destruct (s_take (s_pad4 used) r2) as [[pad r3]|] eqn:Ep; [|discriminate]. cbn [olet] in H.
  destruct (s_all_zero pad) eqn:Ez; [|discriminate]. cbn [guard olet] in H.
  destruct (s_take 4 r3) as [[crc r4]|] eqn:Ec; [|discriminate]. cbn [olet] in H.
  destruct (Z.eqb_spec (le_value crc) (crc32 (firstn (Z.to_nat (used + s_pad4 used)) (0 :: r0)))) as [V|]; [|discriminate].
  cbn [guard olet] in H. inversion H; subst isz r4. clear H.
  apply bok_cons in Hb as [_ Hb0].
  destruct (s_vli_canon r0 (zlen recs) r1 Hb0 En) as (Hn & E0 & _ & _).
  assert (Hb1 : bytes_ok r1 = true) by (rewrite E0 in Hb0; apply bok_app in Hb0; apply Hb0).
  destruct (s_index_records_canon recs r1 r2 Hb1 Er) as (re & Ere & E1).
  apply s_take_inv in Ep as [E2 Lp]. apply s_take_inv in Ec as [E3 Lc]. rewrite s_pad4_eq in Lp.
  set (body := 0 :: vli_bytes (zlen recs) ++ re) in *.
  assert (El : 0 :: r0 = body ++ pad ++ crc ++ r).
  { unfold body. cbn [app]. f_equal. rewrite E0 at 1. rewrite E1 at 1. rewrite E2 at 1. rewrite E3 at 1.
    rewrite <- !app_assoc. reflexivity. }
  assert (Lu : used = zlen body).
  { unfold used. rewrite El, E2, E3, !zlen_app. lia. }
  rewrite Lu in *. rewrite s_pad4_eq in V.
  assert (Epad : pad = repeatn 0 (Z.to_nat (pad4 (zlen body)))).
  { unfold s_all_zero in Ez. rewrite (forallb_zero_repeat pad Ez). f_equal. unfold zlen in *. lia. }
  assert (Ecov : firstn (Z.to_nat (zlen body + pad4 (zlen body))) (0 :: r0) = body ++ pad).
  { rewrite El, app_assoc. apply firstn_app_exact. pose proof (zlen_app body pad) as Za. unfold zlen in *. lia. }
  rewrite Ecov in V.
  assert (Hbb : bytes_ok (body ++ pad) = true /\ bytes_ok crc = true).
  { assert (Hall : bytes_ok (0 :: r0) = true) by (cbn [bytes_ok forallb]; fold (bytes_ok r0); rewrite Hb0; reflexivity).
    rewrite El, app_assoc in Hall. apply bok_app in Hall as [H1 H2]. apply bok_app in H2 as [H2 _]. split; assumption. }
  destruct Hbb as [Hbbp Hbcrc].
  assert (Ecrc : crc = crc32_bytes (body ++ pad)).
  { apply le_value_inj.
    - pose proof (zlen_crc32_bytes (body ++ pad)) as Z4. unfold zlen in *. lia.
    - exact Hbcrc.
    - apply bytes_ok_le_bytes.
    - rewrite le_value_crc32_bytes by exact Hbbp. exact V. }
  set (idx := (body ++ pad) ++ crc32_bytes (body ++ pad)).
  assert (Eidx : xz_index recs = Ok idx).
  { unfold xz_index. rewrite (vli_encode_ok _ Hn). cbn [obind]. rewrite Ere. cbn [obind].
    fold body. rewrite <- Epad. reflexivity. }
  destruct (xz_index_rt recs idx r Hok Eidx) as (t & Et & M4 & _ & P).
  assert (El2 : 0 :: r0 = idx ++ r) by (unfold idx; rewrite El, Ecrc, <- !app_assoc; reflexivity).
  exists (t ++ r). split; [rewrite El2, Et; reflexivity|]. split; [exact P|].
  assert (Li : zlen idx = zlen body + pad4 (zlen body) + 4).
  { unfold idx. rewrite !zlen_app, zlen_crc32_bytes. lia. }
  rewrite s_pad4_eq. split; [rewrite El2, zlen_app; lia|]. split; [rewrite <- Li; exact M4 | rewrite El2; apply sfx_app].
Qed.

Section SpecIn.
  (* the specification's decoding of a block's Compressed Data through its filter chain *)
  Variable sdec : list sfilter -> list Z -> option (list Z * list Z).
  (* the crate's decoder of a block's Compressed Data for a parsed filter chain *)
  Variable blockdec : list (fkind * Z) -> list Z -> outcome (list Z * list Z).
  Hypothesis sdec_blockdec : forall fs src r, sdec (map spec_filter fs) src = Some r -> blockdec fs src = Ok r.
  (* the specification's decoder only consumes input (implied by: its rest is a suffix of its source) *)
  Hypothesis sdec_shrinks : forall fs src x r, bytes_ok src = true -> sdec fs src = Some (x, r) ->
    zlen r <= zlen src /\ bytes_ok r = true.

  Lemma s_blocks_S fuel check b t acc recs :
    s_blocks sdec (S fuel) check (b :: t) acc recs =
    if b =? 0 then Some (acc, frev recs, b :: t) else
    olet! (h, r1) <- s_block_header (b :: t);
    olet! (data, r2) <- sdec (sb_filters h) r1;
    let csize := zlen r1 - zlen r2 in
    olet! _ <- guard (match sb_csize h with Some v => v =? csize | None => true end);
    olet! _ <- guard (match sb_usize h with Some v => v =? zlen data | None => true end);
    olet! (pad, r3) <- s_take (s_pad4 csize) r2;
    olet! _ <- guard (s_all_zero pad);
    olet! (chk, r4) <- s_take (s_check_size check) r3;
    olet! _ <- guard (negb (s_check_supported check) || s_eqb chk (s_check_value check data));
    s_blocks sdec fuel check r4 (rev_append data acc)
             ((sb_size h + csize + s_check_size check, zlen data) :: recs).
  Proof. reflexivity. Qed.

  (* the Blocks of one Stream *)
  Lemma s_blocks_crate : forall fuel ct l acc recs pos n acc1 recs1 l1,
    check_known ct = true -> bytes_ok l = true -> pos mod 4 = 0 ->
    s_blocks sdec fuel ct l acc recs = Some (acc1, recs1, l1) ->
    exists r0 news, l1 = 0 :: r0 /\
      xzd_blocks xz_check_bytes blockdec fuel ct l pos n acc = Ok (acc1, r0, pos + (zlen l - zlen r0), n + zlen news) /\
      recs1 = rev recs ++ news /\ recs_ok news /\ (zlen l - zlen l1) mod 4 = 0 /\ bytes_ok l1 = true.
  Proof.
    induction fuel as [|fuel IH]; intros ct l acc recs pos n acc1 recs1 l1 Hk Hb Hpos H; [discriminate|].
    destruct l as [|b t]; [discriminate|]. rewrite s_blocks_S in H.
    destruct (Z.eqb_spec b 0) as [->|Hne].
    - inversion H; subst acc1 recs1 l1. exists t, []. split; [reflexivity|]. split.
      + cbn [xzd_blocks xz_parse_block_header Z.eqb obind]. change (zlen (@nil (Z * Z))) with 0. rewrite Z.add_0_r. reflexivity.
      + split; [rewrite frev_rev, app_nil_r; reflexivity|]. split; [constructor|]. split; [rewrite Z.sub_diag; reflexivity | exact Hb].
    - destruct (s_block_header (b :: t)) as [[h r1]|] eqn:Eh; [|discriminate]. cbn [olet] in H.
      destruct (sdec (sb_filters h) r1) as [[data r2]|] eqn:Ed; [|discriminate]. cbn [olet] in H. cbv zeta in H.
      destruct (match sb_csize h with Some v => v =? zlen r1 - zlen r2 | None => true end); [|discriminate]. cbn [guard olet] in H.
      destruct (match sb_usize h with Some v => v =? zlen data | None => true end); [|discriminate]. cbn [guard olet] in H.
      destruct (s_take (s_pad4 (zlen r1 - zlen r2)) r2) as [[pad r3]|] eqn:Ep; [|discriminate]. cbn [olet] in H.
      destruct (s_all_zero pad) eqn:Ez; [|discriminate]. cbn [guard olet] in H.
      destruct (s_take (s_check_size ct) r3) as [[chk r4]|] eqn:Ec; [|discriminate]. cbn [olet] in H.
      destruct (negb (s_check_supported ct) || s_eqb chk (s_check_value ct data)) eqn:Ev; [|discriminate]. cbn [guard olet] in H.
      destruct (s_block_header_crate (b :: t) h r1 Hb Hne Eh) as (fs & Ph & Efs & Lh & Hh8 & Hh4 & Sh).
      rewrite <- Efs in Ed. pose proof (sfx_bytes_ok _ _ Sh Hb) as Hb1.
      destruct (sdec_shrinks _ _ _ _ Hb1 Ed) as [Ld Hb2]. pose proof (sdec_blockdec _ _ _ Ed) as Pd.
      assert (Hpos1 : (pos + (zlen (b :: t) - zlen r1)) mod 4 = 0) by (rewrite Lh; lia).
      destruct (s_padding_crate _ (zlen r1 - zlen r2) r2 pad r3 Hpos1 Ep Ez) as [Pp Lp].
      destruct (s_check_crate ct data r3 chk r4 Hk Ec Ev) as [Pc Lc].
      destruct (s_check_value_eq ct data Hk) as (_ & Ecs & _).
      destruct (check_size_mod4 ct) as [Hc4 Hc0].
      pose proof (pad4_sum (zlen r1 - zlen r2)) as Hps.
      (* the rest of the input *)
      assert (S3 : suffix r3 r2) by (apply s_take_inv in Ep as [-> _]; apply sfx_app).
      assert (S4 : suffix r4 r3) by (apply s_take_inv in Ec as [-> _]; apply sfx_app).
      assert (S42 : suffix r4 r2) by (eapply suffix_trans; [exact S4 | exact S3]).
      pose proof (sfx_bytes_ok _ _ S42 Hb2) as Hb4.
      set (pos4 := pos + (zlen (b :: t) - zlen r1) + (zlen r1 - zlen r2) + (zlen r2 - zlen r4)).
      assert (Hpos4 : pos4 mod 4 = 0) by (unfold pos4; lia).
      destruct (IH ct r4 (rev_append data acc) ((sb_size h + (zlen r1 - zlen r2) + s_check_size ct, zlen data) :: recs) pos4 (n + 1)
                   acc1 recs1 l1 Hk Hb4 Hpos4 H) as (r0 & news & El1 & Px & Er & Rok & M4 & Sx).
      exists r0, ((sb_size h + (zlen r1 - zlen r2) + s_check_size ct, zlen data) :: news).
      split; [exact El1|]. split.
      + cbn [xzd_blocks]. rewrite Ph. cbn [obind bh_filters]. rewrite Pd. cbn [obind]. rewrite Pp. cbn [obind]. rewrite Pc. cbn [obind].
        fold pos4. rewrite Px. f_equal. f_equal; [f_equal|]; [unfold pos4; lia | rewrite zlen_cons; lia].
      + split; [rewrite Er; cbn [rev]; rewrite <- app_assoc; reflexivity|]. split.
        * constructor; [|exact Rok]. cbn [fst snd]. pose proof (zlen_nonneg data). rewrite Ecs. lia.
        * split; [|exact Sx].
          replace (zlen (b :: t) - zlen l1) with ((zlen (b :: t) - zlen r1) + (zlen r1 - zlen r2) + (zlen r2 - zlen r3) + (zlen r3 - zlen r4) + (zlen r4 - zlen l1))
            by lia.
          rewrite Lh, Lp, Lc. lia.
  Qed.

  (* one Stream after its header: blocks, index, footer *)
  Lemma s_stream_crate l acc acc1 r4 ct r1 pos :
    bytes_ok l = true -> s_stream sdec false l acc = Some (acc1, r4) ->
    s_stream_header false l = Some (ct, r1) -> pos mod 4 = 0 ->
    exists n r1' pos1,
      xzd_blocks xz_check_bytes blockdec (S (length r1)) ct r1 pos 0 acc = Ok (acc1, r1', pos1, n) /\
      xz_index_and_footer xz_fixed ct n r1' = Ok r4 /\
      (pos1 + (zlen r1' - zlen r4)) mod 4 = 0 /\ bytes_ok r4 = true /\ check_known ct = true.
  Proof.
    intros Hb H Hh Hpos. unfold s_stream in H. rewrite Hh in H. cbn [olet] in H.
    destruct (s_blocks sdec (S (length r1)) ct r1 acc []) as [[[acc1' recs] r2]|] eqn:Eb; [|discriminate]. cbn [olet] in H.
    destruct (s_index recs r2) as [[isz r3]|] eqn:Ei; [|discriminate]. cbn [olet] in H.
    destruct (s_footer ct isz r3) as [r4'|] eqn:Ef; [|discriminate]. cbn [olet] in H. inversion H; subst acc1' r4'. clear H.
    destruct (s_stream_header_inv l ct r1 Hb Hh) as [El Hk].
    assert (S1 : suffix r1 l) by (rewrite El; apply sfx_app). pose proof (sfx_bytes_ok _ _ S1 Hb) as Hb1.
    destruct (s_blocks_crate _ ct r1 acc [] pos 0 acc1 recs r2 Hk Hb1 Hpos Eb) as (r0 & news & E2 & Px & Er & Rok & M4 & S2).
    cbn [rev app] in Er. subst recs.
    pose proof S2 as Hb2.
    destruct (s_index_crate news r2 isz r3 Hb2 Rok Ei) as (t & E2' & Pi & Li & Mi & S3).
    assert (t = r0) by (rewrite E2 in E2'; inversion E2'; reflexivity). subst t.
    destruct (s_footer_crate ct isz r3 r4 Ef) as (bw & Pf). destruct (s_footer_len ct isz r3 r4 Ef) as [E3 Lf].
    exists (zlen news), r0, (pos + (zlen r1 - zlen r0)). split; [exact Px|]. split.
    - unfold xz_index_and_footer. rewrite Pi. cbn [obind]. rewrite Z.eqb_refl. cbn [negb]. rewrite Pf. cbn [obind].
      rewrite bytes_eqb_refl. reflexivity.
    - split.
      + rewrite E2, zlen_cons in M4, Li. lia.
      + split; [|exact Hk].
        apply (sfx_bytes_ok r4 r2); [|exact Hb2]. eapply suffix_trans; [|exact S3]. rewrite E3. apply sfx_app.
  Qed.
  Lemma s_streams_S fuel l acc :
    s_streams sdec (S fuel) false l acc =
    olet! (acc1, r1) <- s_stream sdec false l acc;
    let '(n, r2) := s_strip_zeros r1 0 in
    olet! _ <- guard (n mod 4 =? 0);
    match r2 with [] => Some (frev acc1) | _ => s_streams sdec fuel false r2 acc1 end.
  Proof. reflexivity. Qed.

  Lemma s_stream_has_header l acc res : s_stream sdec false l acc = Some res ->
    exists ct r1, s_stream_header false l = Some (ct, r1).
  Proof. unfold s_stream. destruct (s_stream_header false l) as [[ct r1]|]; [eauto | discriminate]. Qed.

  Lemma s_streams_has_header fuel l acc d : s_streams sdec fuel false l acc = Some d ->
    exists ct r1, s_stream_header false l = Some (ct, r1).
  Proof.
    destruct fuel as [|fuel]; [discriminate|]. rewrite s_streams_S.
    destruct (s_stream sdec false l acc) as [res|] eqn:Es; [|discriminate]. intros _. exact (s_stream_has_header _ _ _ Es).
  Qed.

  (* Streams with Stream Padding between them, multi-stream decoding *)
  Lemma s_streams_crate : forall fuel l acc d ct r1 pos,
    bytes_ok l = true -> s_streams sdec fuel false l acc = Some d ->
    s_stream_header false l = Some (ct, r1) -> pos mod 4 = 0 ->
    xzd_streams xz_check_bytes blockdec fuel xz_fixed true ct r1 pos acc = Ok (d, []).
  Proof.
    induction fuel as [|fuel IH]; intros l acc d ct r1 pos Hb H Hh Hpos; [discriminate|].
    rewrite s_streams_S in H.
    destruct (s_stream sdec false l acc) as [[acc1 r4]|] eqn:Es; [|discriminate]. cbn [olet] in H.
    destruct (s_strip_zeros r4 0) as [n r2] eqn:Ez.
    destruct (Z.eqb_spec (n mod 4) 0) as [Hn|]; [|discriminate]. cbn [guard olet] in H.
    destruct (s_stream_crate l acc acc1 r4 ct r1 pos Hb Es Hh Hpos) as (nb & r1' & pos1 & Px & Pif & M4 & Hb4 & Hk).
    destruct (s_strip_zeros_facts r4 0 n r2 Ez) as (En & S2 & Ex).
    cbn [xzd_streams]. rewrite Px. cbn [obind]. rewrite Pif. cbn [obind].
    unfold xz_try_next_stream. rewrite Ex.
    destruct r2 as [|b r2t] eqn:Er2.
    - inversion H; subst d. cbn [fx16b xz_fixed andb]. rewrite Hn. reflexivity.
    - pose proof (sfx_bytes_ok _ _ S2 Hb4) as Hb2.
      destruct (s_streams_has_header _ _ _ _ H) as (ct2 & r12 & Hh2).
      destruct (s_stream_header_inv _ ct2 r12 Hb2 Hh2) as [E Hk2].
      assert (Eb : b = 253 /\ r2t = [55; 122; 88; 90; 0] ++ xz_stream_flags ct2 ++ crc32_bytes (xz_stream_flags ct2) ++ r12).
      { unfold xz_stream_header, XZ_MAGIC in E. cbn [app] in E. inversion E. split; reflexivity. }
      destruct Eb as [Eb1 Eb2].
      assert (Hpos2 : (pos1 + (zlen r1' - zlen r12)) mod 4 = 0).
      { assert (L2 : zlen (b :: r2t) = 12 + zlen r12) by (rewrite E, zlen_app, zlen_stream_header; reflexivity). lia. }
      pose proof (IH (b :: r2t) acc1 d ct2 r12 _ Hb2 H Hh2 Hpos2) as Pn.
      rewrite Eb1, Eb2. cbn [fx16 xz_fixed Z.eqb Pos.eqb negb app].
      rewrite !zlen_cons. pose proof (zlen_nonneg (xz_stream_flags ct2 ++ crc32_bytes (xz_stream_flags ct2) ++ r12)).
      destruct (Z.ltb_spec (1 + (1 + (1 + (1 + (1 + zlen (xz_stream_flags ct2 ++ crc32_bytes (xz_stream_flags ct2) ++ r12)))))) 5); [lia|].
      cbn [firstn skipn]. change (bytes_eqb [253; 55; 122; 88; 90; 0] XZ_MAGIC) with true. cbn [negb].
      rewrite Hn. cbn [Z.eqb negb]. rewrite (xz_parse_flags_crc_ok ct2 r12 Hk2). cbn [obind fst snd]. exact Pn.
  Qed.

  (* C03_in (XZ): multi-stream decoding of a valid file *)
  Theorem C03_in_xz_gen : forall f d, bytes_ok f = true ->
    xz_spec_decode sdec false f = Some d ->
    xz_decode xz_check_bytes blockdec xz_fixed true f = Ok (d, []).
  Proof.
    intros f d Hb H. unfold xz_spec_decode in H.
    destruct (s_streams_has_header _ _ _ _ H) as (ct & r1 & Hh).
    destruct (s_stream_header_inv f ct r1 Hb Hh) as [El Hk].
    unfold xz_decode. rewrite (s_stream_header_crate f ct r1 Hh). cbn [obind].
    apply (s_streams_crate _ f [] d ct r1 _ Hb H Hh).
    rewrite El at 1. rewrite zlen_app, zlen_stream_header. lia.
  Qed.

  (* single-stream decoding: the first Stream's content and what follows its footer *)
  Theorem C03_in_xz_first_gen : forall f d r, bytes_ok f = true ->
    xz_spec_decode_first sdec false f = Some (d, r) ->
    xz_decode xz_check_bytes blockdec xz_fixed false f = Ok (d, r).
  Proof.
    intros f d r Hb H. unfold xz_spec_decode_first in H.
    destruct (s_stream sdec false f []) as [[acc1 r4]|] eqn:Es; [|discriminate]. cbn [olet] in H. inversion H; subst d r. clear H.
    destruct (s_stream_has_header _ _ _ Es) as (ct & r1 & Hh).
    destruct (s_stream_header_inv f ct r1 Hb Hh) as [El Hk].
    assert (Hpos : (zlen f - zlen r1) mod 4 = 0) by (rewrite El at 1; rewrite zlen_app, zlen_stream_header; lia).
    destruct (s_stream_crate f [] acc1 r4 ct r1 _ Hb Es Hh Hpos) as (nb & r1' & pos1 & Px & Pif & _ & _ & _).
    unfold xz_decode. rewrite (s_stream_header_crate f ct r1 Hh). cbn [obind xzd_streams].
    assert (Efuel : S (length f) = S (length f)) by reflexivity.
    cbn [xzd_streams]. rewrite Px. cbn [obind]. rewrite Pif. reflexivity.
  Qed.
End SpecIn.

(* the hypothesis "only consumes input" in the form used for LZIP: the rest is a suffix of the source *)
Lemma suffix_shrinks (sdec : list sfilter -> list Z -> option (list Z * list Z)) :
  (forall fs src x r, sdec fs src = Some (x, r) -> suffix r src) ->
  forall fs src x r, bytes_ok src = true -> sdec fs src = Some (x, r) -> zlen r <= zlen src /\ bytes_ok r = true.
Proof. intros Hs fs src x r Hb H. pose proof (Hs _ _ _ _ H) as S. split; [apply sfx_zlen, S | exact (sfx_bytes_ok _ _ S Hb)]. Qed.

Theorem C03_in_xz_thm :
  forall (sdec : list sfilter -> list Z -> option (list Z * list Z))
         (blockdec : list (fkind * Z) -> list Z -> outcome (list Z * list Z)),
  (forall fs src r, sdec (map spec_filter fs) src = Some r -> blockdec fs src = Ok r) ->
  (forall fs src x r, sdec fs src = Some (x, r) -> suffix r src) ->
  forall f d, bytes_ok f = true ->
    xz_spec_decode sdec false f = Some d ->
    xz_decode xz_check_bytes blockdec xz_fixed true f = Ok (d, []).
Proof. intros sdec blockdec H1 H2. apply C03_in_xz_gen; [exact H1 | apply suffix_shrinks, H2]. Qed.

Theorem C03_in_xz_first_thm :
  forall (sdec : list sfilter -> list Z -> option (list Z * list Z))
         (blockdec : list (fkind * Z) -> list Z -> outcome (list Z * list Z)),
  (forall fs src r, sdec (map spec_filter fs) src = Some r -> blockdec fs src = Ok r) ->
  (forall fs src x r, sdec fs src = Some (x, r) -> suffix r src) ->
  forall f d r, bytes_ok f = true ->
    xz_spec_decode_first sdec false f = Some (d, r) ->
    xz_decode xz_check_bytes blockdec xz_fixed false f = Ok (d, r).
Proof. intros sdec blockdec H1 H2. apply C03_in_xz_first_gen; [exact H1 | apply suffix_shrinks, H2]. Qed.
