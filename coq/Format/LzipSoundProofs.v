(* Format/LzipSoundProofs.v — C04_sound_lzip and C04_magic (LZIP): whenever LZIPReader (repaired
   code) reports success, the input is a sequence of members, each with the magic, version 1 and a
   valid dictionary-size byte, an LZMA stream decoded to exactly the bytes returned for it, and a
   trailer whose CRC-32, data size and member size equal the values computed from those bytes and
   from the bytes consumed; followed by nothing, or (only after a complete member) by trailing data
   that is not (a prefix of) the member magic.  An input that is not empty and does not begin with
   a valid member header is never accepted; one damaged byte in a member trailer is never
   accepted. *)
From LzVerif Require Import Base.Bytes Format.Crc Format.CrcProofs Format.LzipDict Format.XzFormat Format.LzipFormat
  Format.XzSplitProofs Format.XzHeaderProofs Format.BitflipProofs Format.XzSoundProofs.
Ltac Zify.zify_post_hook ::= Z.div_mod_to_equations.

Lemma lz_take_inv n src a b : 0 <= n -> lz_take n src = Ok (a, b) -> src = a ++ b /\ zlen a = n.
Proof. intros Hn H. exact (xz_take_inv n src a b Hn H). Qed.

Lemma lz_bytes_eqb_eq a b : lz_bytes_eqb a b = true -> a = b.
Proof. exact (bytes_eqb_eq a b). Qed.

(* the repaired header parse: a member header, or the end of the stream *)
Lemma lz_parse_header_some_inv first src dd rest : lz_parse_header lz_fixed first src = Ok (Some dd, rest) ->
  exists d, src = LZIP_MAGIC ++ [1; d] ++ rest /\ lzip_decode_dict_size d = Ok dd.
Proof.
  unfold lz_parse_header. cbn [fz6 lz_fixed]. unfold lz_parse_header_fixed. intros H.
  destruct (firstn 4 src) as [|m0 ms] eqn:E4; [discriminate|].
  destruct (lz_bytes_eqb (m0 :: ms) (firstn (length (m0 :: ms)) LZIP_MAGIC)) eqn:Em; cbn [negb] in H.
  2:{ destruct first; discriminate. }
  destruct (length (m0 :: ms) <? 4)%nat eqn:El; [discriminate|].
  destruct (skipn 4 src) as [|v r2] eqn:Es; [discriminate|].
  destruct (Z.eqb_spec v 1) as [->|]; [|discriminate]. cbn [negb] in H.
  destruct r2 as [|d r3]; [discriminate|].
  destruct (lzip_decode_dict_size d) as [ds| | |] eqn:Ed; try discriminate. cbn [obind] in H. inversion H; subst dd rest.
  exists d. split; [|exact Ed].
  apply Nat.ltb_ge in El. apply lz_bytes_eqb_eq in Em.
  assert (L4 : length (m0 :: ms) = 4%nat).
  { pose proof (firstn_le_length 4 src) as Hle. rewrite E4 in Hle. pose proof (firstn_length 4 src) as Hf. rewrite E4 in Hf. lia. }
  rewrite L4 in Em. change (firstn 4 LZIP_MAGIC) with LZIP_MAGIC in Em.
  rewrite <- (firstn_skipn 4 src), E4, Es, Em. reflexivity.
Qed.

Lemma lz_parse_header_none_inv first src rest : lz_parse_header lz_fixed first src = Ok (None, rest) ->
  (src = [] /\ rest = []) \/
  (first = false /\ src <> [] /\ rest = skipn 4 src /\
   lz_bytes_eqb (firstn 4 src) (firstn (length (firstn 4 src)) LZIP_MAGIC) = false).
Proof.
  unfold lz_parse_header. cbn [fz6 lz_fixed]. unfold lz_parse_header_fixed. intros H.
  destruct (firstn 4 src) as [|m0 ms] eqn:E4.
  - inversion H; subst. left. destruct src; [auto | discriminate].
  - right. destruct (lz_bytes_eqb (m0 :: ms) (firstn (length (m0 :: ms)) LZIP_MAGIC)) eqn:Em; cbn [negb] in H.
    + destruct (length (m0 :: ms) <? 4)%nat; [discriminate|].
      destruct (skipn 4 src) as [|v r2]; [discriminate|]. destruct (negb (v =? 1)); [discriminate|].
      destruct r2 as [|d r3]; [discriminate|]. destruct (lzip_decode_dict_size d); discriminate.
    + destruct first; [discriminate|]. inversion H; subst. repeat split; auto. destruct src; discriminate.
Qed.

(* the trailer comparison *)
Lemma lz_check_trailer_inv crc ds cs src rest : lz_check_trailer crc ds cs src = Ok rest ->
  exists cb db mb, src = cb ++ db ++ mb ++ rest /\ zlen cb = 4 /\ zlen db = 8 /\ zlen mb = 8 /\
    le_value cb = crc /\ le_value db = ds /\ le_value mb = LZIP_HEADER_SIZE + cs + LZIP_TRAILER_SIZE.
Proof.
  unfold lz_check_trailer. intros H.
  destruct (lz_take 4 src) as [[cb r1]| | |] eqn:E1; try discriminate. cbn [obind] in H.
  destruct (lz_take 8 r1) as [[db r2]| | |] eqn:E2; try discriminate. cbn [obind] in H.
  destruct (lz_take 8 r2) as [[mb r3]| | |] eqn:E3; try discriminate. cbn [obind] in H.
  destruct (Z.eqb_spec (le_value cb) crc); [|discriminate]. cbn [negb] in H.
  destruct (Z.eqb_spec (le_value db) ds); [|discriminate]. cbn [negb] in H.
  destruct (Z.eqb_spec (le_value mb) (LZIP_HEADER_SIZE + cs + LZIP_TRAILER_SIZE)); [|discriminate]. cbn [negb] in H.
  inversion H; subst r3.
  apply lz_take_inv in E1 as [-> L1]; [|lia]. apply lz_take_inv in E2 as [-> L2]; [|lia]. apply lz_take_inv in E3 as [-> L3]; [|lia].
  exists cb, db, mb. repeat split; auto.
Qed.

(* C04_bitflip (LZIP trailer): two 20-byte trailers that are both accepted for the same decoded
   data and the same number of consumed bytes are equal - any damage inside the trailer is detected *)
Theorem bitflip_lzip_trailer crc ds cs t t' rest rest' r r' :
  zlen t = 20 -> zlen t' = 20 -> bytes_ok t = true -> bytes_ok t' = true ->
  lz_check_trailer crc ds cs (t ++ rest) = Ok r -> lz_check_trailer crc ds cs (t' ++ rest') = Ok r' -> t = t'.
Proof.
  intros L L' B B' P P'.
  apply lz_check_trailer_inv in P as (cb & db & mb & E & L1 & L2 & L3 & V1 & V2 & V3).
  apply lz_check_trailer_inv in P' as (cb' & db' & mb' & E' & L1' & L2' & L3' & V1' & V2' & V3').
  assert (Et : t = cb ++ db ++ mb).
  { assert (E2 : t ++ rest = (cb ++ db ++ mb) ++ r) by (rewrite E, <- !app_assoc; reflexivity).
    apply app_eq_length in E2 as [E2 _]; [exact E2|]. rewrite !app_length. unfold zlen in *. lia. }
  assert (Et' : t' = cb' ++ db' ++ mb').
  { assert (E2 : t' ++ rest' = (cb' ++ db' ++ mb') ++ r') by (rewrite E', <- !app_assoc; reflexivity).
    apply app_eq_length in E2 as [E2 _]; [exact E2|]. rewrite !app_length. unfold zlen in *. lia. }
  subst t t'. rewrite !bytes_ok_app in B, B'.
  apply andb_true_iff in B as [B1 B]. apply andb_true_iff in B as [B2 B3].
  apply andb_true_iff in B' as [B1' B']. apply andb_true_iff in B' as [B2' B3'].
  f_equal; [|f_equal]; apply le_value_inj; try assumption; try congruence; unfold zlen in *; lia.
Qed.

Section Sound.
  Variable pdec : Z -> list Z -> outcome (list Z * list Z).

  Inductive lz_members_ok : bool -> list Z -> list (list Z) -> list Z -> Prop :=
  | lmo_empty : forall first, lz_members_ok first [] [] []
  | lmo_trailing : forall t, t <> [] ->
      lz_bytes_eqb (firstn 4 t) (firstn (length (firstn 4 t)) LZIP_MAGIC) = false ->
      lz_members_ok false t [] (skipn 4 t)
  | lmo_member : forall first d dd tail1 content tail2 cb db mb src' cs rest,
      lzip_decode_dict_size d = Ok dd ->
      pdec dd tail1 = Ok (content, tail2) ->
      tail2 = cb ++ db ++ mb ++ src' -> zlen cb = 4 -> zlen db = 8 -> zlen mb = 8 ->
      le_value cb = crc32 content -> le_value db = zlen content ->
      le_value mb = LZIP_HEADER_SIZE + (zlen tail1 - zlen tail2) + LZIP_TRAILER_SIZE ->
      lz_members_ok false src' cs rest ->
      lz_members_ok first (LZIP_MAGIC ++ [1; d] ++ tail1) (content :: cs) rest.

  Theorem lzd_members_sound : forall fuel first src acc d rest,
    lzd_members pdec fuel lz_fixed first src acc = Ok (d, rest) ->
    exists cs, lz_members_ok first src cs rest /\ d = rev acc ++ concat cs.
  Proof.
    induction fuel as [|fuel IH]; intros first src acc d rest E; [discriminate|].
    cbn [lzd_members] in E.
    destruct (lz_parse_header lz_fixed first src) as [[h r1]| | |] eqn:Eh; try discriminate. cbn [obind] in E.
    destruct h as [dd|].
    - apply lz_parse_header_some_inv in Eh as (dbyte & Es & Ed).
      destruct (pdec dd r1) as [[content r2]| | |] eqn:Ep; try discriminate. cbn [obind] in E.
      destruct (lz_check_trailer _ _ _ r2) as [r3| | |] eqn:Et; try discriminate. cbn [obind] in E.
      apply lz_check_trailer_inv in Et as (cb & db & mb & E2 & L1 & L2 & L3 & V1 & V2 & V3).
      apply IH in E as (cs & Mk & Ed'). exists (content :: cs). split.
      + subst src. eapply lmo_member; eauto.
      + rewrite Ed', rev_append_rev, rev_app_distr, rev_involutive. cbn [concat]. rewrite <- app_assoc. reflexivity.
    - inversion E; subst d rest. exists []. rewrite frev_rev. cbn [concat]. rewrite app_nil_r. split; [|reflexivity].
      apply lz_parse_header_none_inv in Eh as [[-> ->]|(-> & Hne & -> & Hm)]; [constructor | constructor; assumption].
  Qed.

  (* C04_sound_lzip *)
  Theorem C04_sound_lzip_thm src d rest : lz_decode pdec lz_fixed src = Ok (d, rest) ->
    exists cs, lz_members_ok true src cs rest /\ d = concat cs.
  Proof. unfold lz_decode. intros E. apply lzd_members_sound in E as (cs & Mk & Ed). exists cs. auto. Qed.

  (* C04_magic (LZIP): accepted input is empty or begins with a valid member header - input that
     is not LZIP is an error, never an empty result *)
  Theorem C04_magic_lzip_thm src d rest : lz_decode pdec lz_fixed src = Ok (d, rest) ->
    src = [] \/ exists dbyte dd tl, src = LZIP_MAGIC ++ [1; dbyte] ++ tl /\ lzip_decode_dict_size dbyte = Ok dd.
  Proof.
    intros E. apply C04_sound_lzip_thm in E as (cs & Mk & _). inversion Mk; subst; [left; reflexivity|].
    right. eauto.
  Qed.

  (* the one accepted input without a member: the empty input (known finding lzip-empty-input) *)
  Theorem lz_decode_empty_known : lz_decode pdec lz_fixed [] = Ok ([], []).
  Proof. reflexivity. Qed.
End Sound.
