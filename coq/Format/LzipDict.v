(* Format/LzipDict.v — model of src/lzip.rs decode_dict_size / encode_dict_size (u32/u8 arithmetic).
   Definitions only. *)
From LzVerif Require Export Base.Bytes.

Definition LZIP_MIN_DICT : Z := 4096.
Definition LZIP_MAX_DICT : Z := 536870912.

(* fn decode_dict_size(encoded: u8) -> Result<u32> *)
Definition lzip_decode_dict_size (encoded : Z) : outcome Z :=
  let base_log2 := Z.land encoded 31 in
  let fraction_num := Z.shiftr encoded 5 in
  if (base_log2 <? 12) || (29 <? base_log2) then Err E_INVALID_DATA else
  if 7 <? fraction_num then Err E_INVALID_DATA else
  let base_size := Z.shiftl 1 base_log2 in
  let fraction_size := (Z.shiftr base_size 4) * fraction_num in
  let dict_size := base_size - fraction_size in
  if (dict_size <? LZIP_MIN_DICT) || (LZIP_MAX_DICT <? dict_size) then Err E_INVALID_DATA
  else Ok dict_size.

(* fn encode_dict_size(dict_size: u32) -> Result<u8>.
   [round_up] selects the historical behaviour (fraction rounded up: diff.div_ceil(unit)) or the
   repaired one (fraction rounded down: diff / unit). The code under /repo uses [false] after the
   "fix:" commit; the [true] variant is kept so the refutation of the old behaviour stays checked. *)
Definition lzip_encode_dict_size_gen (round_up : bool) (dict_size : Z) : outcome Z :=
  if (dict_size <? LZIP_MIN_DICT) || (LZIP_MAX_DICT <? dict_size) then Err E_INVALID_INPUT else
  let b0 := Z.log2 dict_size in                      (* 32 - leading_zeros - 1 *)
  let b1 := if Z.shiftl 1 b0 <? dict_size then b0 + 1 else b0 in
  let b2 := if b1 <? 12 then 12 else b1 in
  if 29 <? b2 then Err E_INVALID_INPUT else
  let base_size := Z.shiftl 1 b2 in
  if dict_size <? base_size then
    let diff := base_size - dict_size in
    let fraction_unit := Z.shiftr base_size 4 in
    if 0 <? fraction_unit then
      let f := if round_up then (diff + fraction_unit - 1) / fraction_unit else diff / fraction_unit in
      if 7 <? f then
        (if 29 <? b2 + 1 then Err E_INVALID_INPUT
         else Ok (wrap8 (Z.lor (Z.shiftl 0 5) (Z.land (b2 + 1) 31))))
      else Ok (wrap8 (Z.lor (Z.shiftl f 5) (Z.land b2 31)))
    else Ok (wrap8 (Z.land b2 31))
  else Ok (wrap8 (Z.land b2 31)).

Definition lzip_encode_dict_size := lzip_encode_dict_size_gen false.
Definition lzip_encode_dict_size_old := lzip_encode_dict_size_gen true.

(* LZIPWriter::new clamps the requested dictionary size into [4 KiB, 512 MiB] first. *)
Definition lzip_clamp_dict (d : Z) : Z :=
  if d <? LZIP_MIN_DICT then LZIP_MIN_DICT else if LZIP_MAX_DICT <? d then LZIP_MAX_DICT else d.

(* what the header byte written by the writer means to the reader *)
Definition lzip_header_dict (requested : Z) : outcome Z :=
  do b <- lzip_encode_dict_size (lzip_clamp_dict requested); lzip_decode_dict_size b.
