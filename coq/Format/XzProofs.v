(* Format/XzProofs.v — C02 (XZ) and C12 (XZ): what XZWriter writes, XZReader (whole-file function
   xz_decode of XzFormat.v) reads back, for every check type, block partition, pre-filter chain and
   dictionary size; concatenated streams with stream padding decode to the concatenation.
   The LZMA2 payload codec and the pre-filter codecs are Section variables: the hypotheses are the
   round-trip statements of C01/C16 (payload, with an arbitrary tail left untouched, decoder
   dictionary at least the encoder's) and C11 (filters).  The block check function is the concrete
   one of the model; the proof uses nothing but the length of its output. *)
From LzVerif Require Import Base.Bytes Format.Crc Format.CrcProofs Format.Sha256 Format.Vli Format.VliProofs
  Format.XzFormat Format.XzSplitProofs Format.XzHeaderProofs Format.XzBlockHeaderProofs Format.XzIndexProofs.
Ltac Zify.zify_post_hook ::= Z.div_mod_to_equations.

(* ------------------------------------------------------------------------------------------- *)
(* the check field has the length the format prescribes *)

Lemma length_be_bytes n : forall v acc, length (be_bytes n v acc) = (n + length acc)%nat.
Proof. induction n as [|n IH]; intros v acc; cbn [be_bytes]; [reflexivity|]. rewrite IH. cbn [length]. lia. Qed.

Lemma zlen_sha256 l : zlen (sha256 l) = 32.
Proof.
  unfold sha256. destruct (sha_blocks _ _ _) as [[[[[[[a b] c] d] e] f] g] h].
  unfold zlen. rewrite !length_be_bytes. reflexivity.
Qed.

Lemma zlen_check_bytes ct c : check_known ct = true -> zlen (xz_check_bytes ct c) = check_size ct.
Proof.
  unfold check_known. intros H. repeat (apply orb_true_iff in H as [H|H]); apply Z.eqb_eq in H; subst ct;
    unfold xz_check_bytes, check_size; cbn [Z.eqb Pos.eqb].
  - reflexivity.
  - apply zlen_crc32_bytes.
  - unfold crc64_bytes. apply zlen_le_bytes.
  - apply zlen_sha256.
Qed.

Lemma check_size_mod4 ct : check_known ct = true -> check_size ct mod 4 = 0 /\ 0 <= check_size ct.
Proof.
  unfold check_known. intros H. repeat (apply orb_true_iff in H as [H|H]); apply Z.eqb_eq in H; subst ct; cbn; lia.
Qed.

Lemma pad4_add a b : a mod 4 = 0 -> pad4 (a + b) = pad4 b.
Proof. unfold pad4. intros. lia. Qed.

Lemma xz_consume_padding_ok pos n rest : pad4 pos = n ->
  xz_consume_padding pos (repeatn 0 (Z.to_nat n) ++ rest) = Ok rest.
Proof.
  intros Hn. pose proof (pad4_range pos) as Hr. unfold xz_consume_padding. rewrite Hn.
  destruct (Z.eqb_spec n 0) as [->|Hne]; [reflexivity|].
  assert (E : firstn (Z.to_nat n) (repeatn 0 (Z.to_nat n) ++ rest) = repeatn 0 (Z.to_nat n)).
  { rewrite firstn_app. replace (length (repeatn 0 (Z.to_nat n))) with (Z.to_nat n) by (pose proof (zlen_repeatn 0 (Z.to_nat n)); unfold zlen in *; lia).
    rewrite Nat.sub_diag. cbn [firstn]. rewrite app_nil_r. apply firstn_all2.
    pose proof (zlen_repeatn 0 (Z.to_nat n)); unfold zlen in *; lia. }
  rewrite E, zlen_repeatn. destruct (Z.eqb_spec (Z.of_nat (Z.to_nat n)) n); [|lia]. cbn [negb].
  rewrite forallb_zeros. cbn [negb].
  rewrite skipn_app. replace (length (repeatn 0 (Z.to_nat n))) with (Z.to_nat n) by (pose proof (zlen_repeatn 0 (Z.to_nat n)); unfold zlen in *; lia).
  rewrite Nat.sub_diag. cbn [skipn]. rewrite skipn_all2; [reflexivity|].
  pose proof (zlen_repeatn 0 (Z.to_nat n)); unfold zlen in *; lia.
Qed.

Lemma xz_verify_check_ok ct c rest : check_known ct = true ->
  xz_verify_check ct (xz_check_bytes ct c) (xz_check_bytes ct c ++ rest) = Ok rest.
Proof.
  intros Hk. unfold xz_verify_check. destruct (Z.eqb_spec ct 0) as [->|Hne]; [reflexivity|].
  rewrite (xz_take_app_n (check_size ct)) by (apply zlen_check_bytes; exact Hk). cbn [obind].
  rewrite bytes_eqb_refl. reflexivity.
Qed.

Section RoundTrip.
  (* LZMA2 payload codec: encoder for a dictionary size, decoder for an announced dictionary size *)
  Variable penc : Z -> list Z -> list Z.
  Variable pdec : Z -> list Z -> outcome (list Z * list Z).
  (* C01 + C16: the decoder returns the data and leaves what follows the payload untouched, whenever
     its dictionary is at least the encoder's *)
  Hypothesis pdec_penc : forall d dd x tail, d <= dd -> pdec dd (penc d x ++ tail) = Ok (x, tail).
  (* pre-filter codecs (C11): kind, property, data *)
  Variables fenc fdec : fkind -> Z -> list Z -> list Z.
  Hypothesis fdec_fenc : forall k p x, fdec k p (fenc k p x) = x.

  (* the writer's chain: the first configured filter sees the data first *)
  Definition chain_enc (fs : list (fkind * Z)) (x : list Z) : list Z :=
    fold_left (fun acc f => fenc (fst f) (snd f) acc) fs x.
  Definition chain_dec (fs : list (fkind * Z)) (y : list Z) : list Z :=
    fold_right (fun f acc => fdec (fst f) (snd f) acc) y fs.

  Lemma chain_dec_enc fs : forall x, chain_dec fs (chain_enc fs x) = x.
  Proof.
    induction fs as [|f fs IH]; intros x; [reflexivity|].
    cbn [chain_enc chain_dec fold_left fold_right]. fold (chain_enc fs (fenc (fst f) (snd f) x)).
    fold (chain_dec fs (chain_enc fs (fenc (fst f) (snd f) x))). rewrite IH. apply fdec_fenc.
  Qed.

  (* the reader's chain for a parsed block header: LZMA2 innermost, the pre-filters around it *)
  Definition blockdec (fs : list (fkind * Z)) (src : list Z) : outcome (list Z * list Z) :=
    do pr <- pdec (xz_chain_dict fs) src;
    Ok (chain_dec (removelast fs) (fst pr), snd pr).

  Definition payload_of (o : xzopts) (content : list Z) : list Z :=
    penc (xo_dict o) (chain_enc (xo_filters o) content).

  (* XZWriter as a function of options and write() calls *)
  Definition xz_encode (fx : xzfix) (o0 : xzopts) (parts : list (list Z)) : outcome (list Z) :=
    do o <- xzw_new o0;
    do blocks <- xz_blocks_of fx (xo_block_size o) parts;
    xz_container fx o blocks (map (payload_of o) blocks).

  Lemma xz_encode_is_write fx o0 parts :
    xz_encode fx o0 parts =
    (do o <- xzw_new o0; do blocks <- xz_blocks_of fx (xo_block_size o) parts;
     xz_write fx o0 parts (map (payload_of o) blocks)).
  Proof.
    unfold xz_encode, xz_write. destruct (xzw_new o0) as [o| | |]; cbn [obind]; try reflexivity.
    destruct (xz_blocks_of fx (xo_block_size o) parts); reflexivity.
  Qed.

  Notation xzd_blocks' := (xzd_blocks xz_check_bytes blockdec).
  Notation xzd_streams' := (xzd_streams xz_check_bytes blockdec).
  Notation xz_decode' := (xz_decode xz_check_bytes blockdec).

  Lemma blockdec_ok fs dict dd content tail : dict <= dd ->
    blockdec (fs ++ [(FLZMA2, dd)]) (penc dict (chain_enc fs content) ++ tail) = Ok (content, tail).
  Proof.
    intros Hd. unfold blockdec, xz_chain_dict. rewrite frev_rev, rev_app_distr. cbn [rev app].
    rewrite pdec_penc by exact Hd. cbn [obind fst snd]. rewrite removelast_last, chain_dec_enc. reflexivity.
  Qed.

  (* the blocks of one stream *)
  Lemma xzd_blocks_rt o : opts_ok o -> forall blocks bytes recs,
    xz_blocks_bytes xz_fixed o blocks (map (payload_of o) blocks) = Ok (bytes, recs) ->
    zlen bytes mod 4 = 0 /\ recs_ok recs /\ zlen recs = zlen blocks /\ zlen blocks <= zlen bytes /\
    forall fuel rest pos n acc, pos mod 4 = 0 -> (length blocks < fuel)%nat ->
      exists pos', pos' mod 4 = 0 /\
        xzd_blocks' fuel (xo_check o) (bytes ++ 0 :: rest) pos n acc
        = Ok (rev_append (concat blocks) acc, rest, pos' + 1, n + zlen blocks).
  Proof.
    intros Hopts. pose proof Hopts as [Hk Hfs]. induction blocks as [|c cs IH]; intros bytes recs E.
    - cbn [xz_blocks_bytes map] in E. inversion E; subst bytes recs.
      split; [reflexivity|]. split; [constructor|]. split; [reflexivity|]. split; [cbn; lia|].
      intros fuel rest pos n acc Hpos Hf. destruct fuel as [|fuel]; [cbn in Hf; lia|].
      exists pos. split; [exact Hpos|]. cbn [app xzd_blocks xz_parse_block_header]. cbn [Z.eqb obind].
      cbn [concat rev_append]. rewrite zlen_cons. f_equal. f_equal; [f_equal; lia | cbn; lia].
    - cbn [xz_blocks_bytes map] in E.
      destruct (xz_block xz_fixed o c (payload_of o c)) as [[bb rec]| | |] eqn:Eb; try discriminate. cbn [obind] in E.
      destruct (xz_blocks_bytes xz_fixed o cs (map (payload_of o) cs)) as [[bs rs]| | |] eqn:Ecs; try discriminate.
      cbn [obind fst snd] in E. inversion E; subst bytes recs; clear E.
      destruct (IH bs rs eq_refl) as (Mb & Rk & Lr & Lb & Loop).
      unfold xz_block in Eb. destruct (xz_block_header o) as [h| | |] eqn:Eh; try discriminate. cbn [obind] in Eb.
      inversion Eb; subst bb rec; clear Eb. cbn [fx5 xz_fixed].
      set (payload := payload_of o c) in *.
      set (chk := xz_check_bytes (xo_check o) c) in *.
      set (pn := pad4 (zlen payload)) in *.
      destruct (check_size_mod4 _ Hk) as [Hc4 Hc0].
      assert (Lchk : zlen chk = check_size (xo_check o)) by (apply zlen_check_bytes; exact Hk).
      pose proof (pad4_range (zlen payload)) as Hpn. fold pn in Hpn.
      assert (Hsum : (zlen payload + pn) mod 4 = 0) by (unfold pn; apply pad4_sum).
      destruct (xz_block_header_rt o h [] Hopts Eh) as (dd0 & _ & _ & Hh4 & Hh12).
      assert (Lbb : zlen (h ++ payload ++ repeatn 0 (Z.to_nat pn) ++ chk) = zlen h + zlen payload + pn + zlen chk).
      { rewrite !zlen_app, zlen_repeatn. lia. }
      pose proof (zlen_nonneg payload) as Hp0.
      split; [rewrite zlen_app, Lbb; lia|].
      split; [constructor; [cbn [fst snd]; pose proof (zlen_nonneg c); lia | exact Rk]|].
      split; [rewrite !zlen_cons; lia|].
      split; [rewrite zlen_app, Lbb, zlen_cons; lia|].
      intros fuel rest pos n acc Hpos Hf. destruct fuel as [|fuel]; [cbn in Hf; lia|].
      cbn [xzd_blocks].
      (* header *)
      set (tail1 := payload ++ repeatn 0 (Z.to_nat pn) ++ chk ++ bs ++ 0 :: rest).
      assert (Esrc : (h ++ payload ++ repeatn 0 (Z.to_nat pn) ++ chk) ++ bs ++ 0 :: rest = h ++ tail1)
        by (unfold tail1; rewrite <- !app_assoc; reflexivity).
      rewrite <- app_assoc, Esrc.
      destruct (xz_block_header_rt o h tail1 Hopts Eh) as (dd & Hdd & Ph & _ & _).
      rewrite Ph. cbn [obind bh_filters].
      (* payload through the chain *)
      unfold tail1 at 1. unfold payload at 1, payload_of.
      rewrite blockdec_ok by exact Hdd. cbn [obind].
      (* block padding; the position is the header and payload further *)
      set (tail2 := repeatn 0 (Z.to_nat pn) ++ chk ++ bs ++ 0 :: rest).
      assert (Z1 : zlen (h ++ tail1) - zlen tail1 = zlen h) by (rewrite zlen_app; lia).
      assert (Z2 : zlen tail1 - zlen tail2 = zlen payload).
      { assert (E12 : tail1 = payload ++ tail2) by reflexivity. rewrite E12, zlen_app. lia. }
      assert (Z3 : zlen tail2 - zlen (bs ++ 0 :: rest) = pn + zlen chk).
      { assert (E23 : tail2 = repeatn 0 (Z.to_nat pn) ++ chk ++ (bs ++ 0 :: rest)) by reflexivity.
        rewrite E23, !zlen_app, zlen_repeatn. lia. }
      assert (Ppos : pad4 (pos + (zlen (h ++ tail1) - zlen tail1) + (zlen tail1 - zlen tail2)) = pn).
      { rewrite Z1, Z2. unfold pn. apply pad4_add. lia. }
      assert (CP : xz_consume_padding (pos + (zlen (h ++ tail1) - zlen tail1) + (zlen tail1 - zlen tail2)) tail2
                   = Ok (chk ++ bs ++ 0 :: rest)) by (apply (xz_consume_padding_ok _ pn); exact Ppos).
      rewrite CP. cbn [obind]. fold chk.
      assert (VC : xz_verify_check (xo_check o) chk (chk ++ bs ++ 0 :: rest) = Ok (bs ++ 0 :: rest))
        by (apply xz_verify_check_ok; exact Hk).
      rewrite VC. cbn [obind].
      (* the remaining blocks *)
      set (pos3 := pos + (zlen (h ++ tail1) - zlen tail1) + (zlen tail1 - zlen tail2) + (zlen tail2 - zlen (bs ++ 0 :: rest))).
      assert (Hpos3 : pos3 mod 4 = 0) by (unfold pos3; rewrite Z1, Z2, Z3; lia).
      destruct (Loop fuel rest pos3 (n + 1) (rev_append c acc) Hpos3 ltac:(cbn [length] in Hf; lia)) as (pos' & Hp' & EL).
      exists pos'. split; [exact Hp'|]. rewrite EL. cbn [concat]. rewrite rev_append_rev, rev_append_rev, rev_append_rev.
      rewrite rev_app_distr, <- app_assoc, zlen_cons. f_equal. f_equal. lia.
  Qed.

  Definition stream_ok (o0 : xzopts) : Prop :=
    opts_ok o0 /\ match xo_block_size o0 with Some b => 1 <= b | None => True end.

  (* one whole stream followed by anything: the body after the 12-byte header, as xzd_streams
     sees it *)
  Lemma xzd_stream_rt o0 parts f : stream_ok o0 -> xz_encode xz_fixed o0 parts = Ok f ->
    exists body, f = xz_stream_header (xo_check o0) ++ body /\ zlen body mod 4 = 0 /\ (20 <= zlen body) /\
      forall fuel multi rest pos acc, pos mod 4 = 0 ->
        exists pos1, pos1 mod 4 = 0 /\
        xzd_streams' (S fuel) xz_fixed multi (xo_check o0) (body ++ rest) pos acc =
        (if multi then
           do nx <- xz_try_next_stream xz_fixed rest;
           match fst nx with
           | Some ct2 => xzd_streams' fuel xz_fixed multi ct2 (snd nx) (pos1 + (zlen rest - zlen (snd nx))) (rev_append (concat parts) acc)
           | None => Ok (frev (rev_append (concat parts) acc), snd nx)
           end
         else Ok (frev (rev_append (concat parts) acc), rest)).
  Proof.
    intros [[Hk Hfs] Hbs] E. unfold xz_encode in E.
    destruct (xzw_new o0) as [o| | |] eqn:Eo; try discriminate. cbn [obind] in E.
    assert (Ho : xo_check o = xo_check o0 /\ xo_filters o = xo_filters o0 /\ xo_dict o = xo_dict o0 /\
                 xo_block_size o = match xo_block_size o0 with Some b => Some (Z.max b (xo_dict o0)) | None => None end).
    { unfold xzw_new in Eo. destruct (3 <? zlen (xo_filters o0)); [discriminate|]. inversion Eo. cbn. auto. }
    destruct Ho as (Hoc & Hof & Hod & Hob).
    assert (Hopts : opts_ok o) by (split; [rewrite Hoc; exact Hk | rewrite Hof; exact Hfs]).
    destruct (xz_blocks_of xz_fixed (xo_block_size o) parts) as [blocks| | |] eqn:Ebl; try discriminate. cbn [obind] in E.
    assert (Hcat : concat blocks = concat parts).
    { rewrite Hob in Ebl. destruct (xo_block_size o0) as [b|].
      - destruct (xz_blocks_fixed_some (Z.max b (xo_dict o0)) parts ltac:(lia)) as (bl & E1 & C1 & _).
        rewrite E1 in Ebl. inversion Ebl; subst. exact C1.
      - rewrite xz_blocks_none in Ebl. inversion Ebl; subst blocks. destruct (concat parts); cbn; [reflexivity|].
        rewrite app_nil_r. reflexivity. }
    unfold xz_container in E.
    destruct (xz_blocks_bytes xz_fixed o blocks (map (payload_of o) blocks)) as [[bytes recs]| | |] eqn:Ebb; try discriminate.
    cbn [obind fx4 xz_fixed] in E.
    assert (E' : (do idx <- xz_index recs;
                  Ok (xz_stream_header (xo_check o) ++ bytes ++ idx ++ xz_stream_footer (xo_check o) recs)) = Ok f).
    { destruct blocks; exact E. }
    clear E. destruct (xz_index recs) as [idx| | |] eqn:Ei; try discriminate. cbn [obind] in E'.
    destruct (xzd_blocks_rt o Hopts blocks bytes recs Ebb) as (Mb & Rk & Lr & Lb & Loop).
    rewrite Hoc in *.
    exists (bytes ++ idx ++ xz_stream_footer (xo_check o0) recs).
    split; [congruence|].
    destruct (xz_index_and_footer_rt (xo_check o0) recs idx [] Hk Rk Ei) as (t0 & Et0 & Mi & _).
    destruct (xz_index_rt recs idx [] Rk Ei) as (_ & _ & _ & Li8 & _).
    split; [rewrite !zlen_app, zlen_stream_footer; lia|].
    split; [rewrite !zlen_app, zlen_stream_footer; pose proof (zlen_nonneg bytes); lia|].
    intros fuel multi rest pos acc Hpos.
    destruct (xz_index_and_footer_rt (xo_check o0) recs idx rest Hk Rk Ei) as (t & Et & _ & IF).
    set (src := (bytes ++ idx ++ xz_stream_footer (xo_check o0) recs) ++ rest).
    assert (Esrc : src = bytes ++ 0 :: (t ++ xz_stream_footer (xo_check o0) recs ++ rest)).
    { unfold src. rewrite Et. rewrite <- !app_assoc. cbn [app]. reflexivity. }
    destruct (Loop (S (length src)) (t ++ xz_stream_footer (xo_check o0) recs ++ rest) pos 0 acc Hpos) as (pos' & Hp' & EB).
    { apply zlen_length_lt. rewrite Nat2Z.inj_succ. fold (zlen src). rewrite Esrc, zlen_app.
      pose proof (zlen_nonneg (0 :: t ++ xz_stream_footer (xo_check o0) recs ++ rest)). lia. }
    exists (pos' + 1 + zlen t + 12). split.
    { assert (zlen idx = 1 + zlen t) by (rewrite Et, zlen_cons; reflexivity). lia. }
    cbn [xzd_streams]. fold src. rewrite Esrc at 2. rewrite EB. cbn [obind]. rewrite Hcat.
    replace (0 + zlen blocks) with (zlen recs) by lia. rewrite IF. cbn [obind].
    destruct multi; [|reflexivity].
    destruct (xz_try_next_stream xz_fixed rest) as [[nct r3]| | |]; cbn [obind fst snd]; try reflexivity.
    destruct nct as [ct2|]; [|reflexivity].
    f_equal. rewrite !zlen_app, zlen_stream_footer. lia.
  Qed.

  (* C02 (XZ): for every options vector a caller may legally configure and every partition of the
     data into write() calls, whatever file the writer returns is decoded by the reader to exactly
     the bytes written, the whole file is consumed - with multi-stream decoding on or off. *)
  Theorem C02_xz_thm : forall o0 parts f multi, stream_ok o0 ->
    xz_encode xz_fixed o0 parts = Ok f ->
    xz_decode' xz_fixed multi f = Ok (concat parts, []).
  Proof.
    intros o0 parts f multi Hok E. pose proof Hok as [[Hk _] _].
    destruct (xzd_stream_rt o0 parts f Hok E) as (body & Ef & Mb & Lb & S).
    unfold xz_decode. rewrite Ef. rewrite xz_parse_stream_header_ok by exact Hk. cbn [obind].
    rewrite zlen_app, zlen_stream_header.
    destruct (S (length (xz_stream_header (xo_check o0) ++ body)) multi [] (12 + zlen body - zlen body) []
                ltac:(lia)) as (pos1 & _ & ES).
    rewrite app_nil_r in ES. rewrite ES. destruct multi.
    - cbn [xz_try_next_stream xz_skip_zeros fx16b xz_fixed andb]. cbn [Z.modulo Z.div_eucl Z.eqb negb obind fst snd].
      rewrite frev_rev, rev_append_rev, rev_app_distr, rev_involutive. cbn [rev app]. reflexivity.
    - rewrite frev_rev, rev_append_rev, rev_app_distr, rev_involutive. cbn [rev app]. reflexivity.
  Qed.

  (* ----------------------------------------------------------------------------------------- *)
  (* C12: concatenated streams and stream padding *)

  Lemma xz_skip_zeros_app k : forall l n, xz_skip_zeros (repeatn 0 k ++ l) n = xz_skip_zeros l (n + Z.of_nat k).
  Proof.
    induction k as [|k IH]; intros l n.
    - cbn [repeatn app]. f_equal. lia.
    - cbn [repeatn app xz_skip_zeros Z.eqb]. rewrite IH. f_equal. lia.
  Qed.

  Lemma try_next_end p : 0 <= p ->
    xz_try_next_stream xz_fixed (repeatn 0 (Z.to_nat p)) =
    if p mod 4 =? 0 then Ok (None, []) else Err E_INVALID_DATA.
  Proof.
    intros Hp. unfold xz_try_next_stream.
    replace (repeatn 0 (Z.to_nat p)) with (repeatn 0 (Z.to_nat p) ++ []) by apply app_nil_r.
    rewrite xz_skip_zeros_app. cbn [xz_skip_zeros fx16b xz_fixed andb]. rewrite Z2Nat.id by lia. cbn [Z.add].
    destruct (p mod 4 =? 0); reflexivity.
  Qed.

  Lemma try_next_stream_header p ct X : 0 <= p -> check_known ct = true ->
    xz_try_next_stream xz_fixed (repeatn 0 (Z.to_nat p) ++ xz_stream_header ct ++ X) =
    if p mod 4 =? 0 then Ok (Some ct, X) else Err E_INVALID_DATA.
  Proof.
    intros Hp Hk. set (Y := xz_stream_flags ct ++ crc32_bytes (xz_stream_flags ct) ++ X).
    assert (EY : xz_stream_header ct ++ X = 253 :: 55 :: 122 :: 88 :: 90 :: 0 :: Y).
    { unfold xz_stream_header, XZ_MAGIC, Y. rewrite <- !app_assoc. reflexivity. }
    rewrite EY. unfold xz_try_next_stream. rewrite xz_skip_zeros_app, Z2Nat.id by lia.
    cbn [xz_skip_zeros]. change (253 =? 0) with false. cbv iota. cbn [fx16 xz_fixed].
    change (253 =? 253) with true. cbn [negb].
    rewrite !zlen_cons. pose proof (zlen_nonneg Y).
    destruct (Z.ltb_spec (1 + (1 + (1 + (1 + (1 + zlen Y))))) 5); [lia|].
    cbn [firstn skipn]. change (bytes_eqb [253; 55; 122; 88; 90; 0] XZ_MAGIC) with true. cbn [negb].
    replace (0 + p) with p by lia.
    destruct (p mod 4 =? 0); cbn [negb]; [|reflexivity].
    unfold Y. rewrite xz_parse_flags_crc_ok by exact Hk. reflexivity.
  Qed.

  Lemma try_next_garbage p b X : 0 <= p -> b <> 0 -> b <> 253 ->
    xz_try_next_stream xz_fixed (repeatn 0 (Z.to_nat p) ++ b :: X) = Err E_INVALID_DATA.
  Proof.
    intros Hp H0 H253. unfold xz_try_next_stream. rewrite xz_skip_zeros_app.
    cbn [xz_skip_zeros]. destruct (Z.eqb_spec b 0); [contradiction|].
    cbn [fx16 xz_fixed]. destruct (Z.eqb_spec b 253); [contradiction | reflexivity].
  Qed.

  (* a stream as the writer produced it, and the padding that follows it in the file *)
  Record xzstream := mkXzstream { st_opts : xzopts; st_parts : list (list Z); st_file : list Z; st_pad : Z }.
  Definition st_ok (s : xzstream) : Prop :=
    stream_ok (st_opts s) /\ xz_encode xz_fixed (st_opts s) (st_parts s) = Ok (st_file s) /\ 0 <= st_pad s.
  Definition st_bytes (s : xzstream) : list Z := st_file s ++ repeatn 0 (Z.to_nat (st_pad s)).
  Definition xz_file (ss : list xzstream) : list Z := concat (map st_bytes ss).
  Definition xz_content (ss : list xzstream) : list Z := concat (map (fun s => concat (st_parts s)) ss).

  Lemma xz_file_len ss : Forall st_ok ss -> zlen ss <= zlen (xz_file ss).
  Proof.
    induction ss as [|s t IH]; intros Hok; [cbn; lia|]. inversion Hok as [|x l Hs Ht]; subst x l.
    unfold xz_file. cbn [map concat]. fold (xz_file t). rewrite zlen_cons, zlen_app. specialize (IH Ht).
    destruct Hs as (Hso & He & Hp). destruct (xzd_stream_rt _ _ _ Hso He) as (body & Ef & _ & Lb & _).
    unfold st_bytes. rewrite zlen_app, Ef, zlen_app, zlen_stream_header.
    pose proof (zlen_nonneg (repeatn 0 (Z.to_nat (st_pad s)))). lia.
  Qed.

  (* the reader positioned after the header of stream s; what follows is the rest of the file *)
  Lemma xz_multi_run : forall t s body fuel pos acc,
    st_ok s -> Forall st_ok t -> Forall (fun x => st_pad x mod 4 = 0) (s :: t) ->
    st_file s = xz_stream_header (xo_check (st_opts s)) ++ body ->
    pos mod 4 = 0 -> (length t < fuel)%nat ->
    xzd_streams' fuel xz_fixed true (xo_check (st_opts s))
       (body ++ repeatn 0 (Z.to_nat (st_pad s)) ++ xz_file t) pos acc
    = Ok (frev (rev_append (xz_content (s :: t)) acc), []).
  Proof.
    induction t as [|s2 t IH]; intros s body fuel pos acc Hs Ht Hpads Ef Hpos Hf.
    - destruct Hs as (Hso & He & Hp). inversion Hpads as [|x l Hp4 _]; subst x l.
      destruct (xzd_stream_rt _ _ _ Hso He) as (body' & Ef' & _ & _ & S).
      assert (body' = body) by (rewrite Ef' in Ef; apply app_inv_head in Ef; exact Ef). subst body'.
      destruct fuel as [|fuel]; [cbn in Hf; lia|].
      destruct (S fuel true (repeatn 0 (Z.to_nat (st_pad s)) ++ xz_file []) pos acc Hpos) as (pos1 & _ & ES).
      rewrite ES. unfold xz_file. cbn [map concat]. rewrite app_nil_r.
      rewrite try_next_end by exact Hp. rewrite Hp4. cbn [Z.eqb obind fst snd].
      unfold xz_content. cbn [map concat]. rewrite app_nil_r. reflexivity.
    - destruct Hs as (Hso & He & Hp). inversion Hpads as [|x l Hp4 Hpads']; subst x l.
      inversion Ht as [|x l Hs2 Ht']; subst x l.
      destruct (xzd_stream_rt _ _ _ Hso He) as (body' & Ef' & _ & _ & S).
      assert (body' = body) by (rewrite Ef' in Ef; apply app_inv_head in Ef; exact Ef). subst body'.
      destruct fuel as [|fuel]; [cbn in Hf; lia|].
      destruct (S fuel true (repeatn 0 (Z.to_nat (st_pad s)) ++ xz_file (s2 :: t)) pos acc Hpos) as (pos1 & Hp1 & ES).
      rewrite ES. clear ES S.
      pose proof Hs2 as (Hso2 & He2 & Hp2).
      destruct (xzd_stream_rt _ _ _ Hso2 He2) as (body2 & Ef2 & Mb2 & _ & _).
      assert (Efile : xz_file (s2 :: t) = xz_stream_header (xo_check (st_opts s2)) ++
                                          (body2 ++ repeatn 0 (Z.to_nat (st_pad s2)) ++ xz_file t)).
      { unfold xz_file. cbn [map concat]. unfold st_bytes. rewrite Ef2, <- !app_assoc. reflexivity. }
      rewrite Efile. destruct Hso2 as [[Hk2 _] _].
      rewrite try_next_stream_header by assumption. rewrite Hp4. cbn [Z.eqb obind fst snd].
      rewrite IH; try assumption.
      + unfold xz_content. cbn [map concat]. rewrite !frev_rev, !rev_append_rev.
        repeat rewrite ?rev_app_distr, ?rev_involutive, <- ?app_assoc. reflexivity.
      + rewrite !zlen_app, zlen_repeatn, zlen_stream_header. lia.
      + cbn [length] in Hf. lia.
  Qed.

  (* C12 (XZ): with multi-stream decoding enabled, any number of complete streams, each followed by
     stream padding of any multiple of four null bytes, decodes to the concatenation of the contents *)
  Theorem xz_multi_thm : forall s t, Forall st_ok (s :: t) -> Forall (fun x => st_pad x mod 4 = 0) (s :: t) ->
    xz_decode' xz_fixed true (xz_file (s :: t)) = Ok (xz_content (s :: t), []).
  Proof.
    intros s t Hok Hpads. inversion Hok as [|x l Hs Ht]; subst x l.
    pose proof Hs as (Hso & He & Hp). pose proof Hso as [[Hk _] _].
    destruct (xzd_stream_rt _ _ _ Hso He) as (body & Ef & Mb & _ & _).
    assert (Efile : xz_file (s :: t) = xz_stream_header (xo_check (st_opts s)) ++
                                       (body ++ repeatn 0 (Z.to_nat (st_pad s)) ++ xz_file t)).
    { unfold xz_file. cbn [map concat]. unfold st_bytes. rewrite Ef, <- !app_assoc. reflexivity. }
    unfold xz_decode. rewrite Efile, xz_parse_stream_header_ok by exact Hk. cbn [obind].
    rewrite xz_multi_run with (body := body); try assumption.
    - rewrite frev_rev, rev_append_rev, rev_app_distr, rev_involutive. cbn [rev app]. reflexivity.
    - rewrite zlen_app, zlen_stream_header. lia.
    - apply zlen_length_lt. rewrite Nat2Z.inj_succ. rewrite <- Efile. fold (zlen (xz_file (s :: t))).
      pose proof (xz_file_len (s :: t) Hok). rewrite zlen_cons in H. lia.
  Qed.

  (* malformed stream padding (not a multiple of four bytes) after a stream is rejected, whether the
     file ends there or another stream follows; so is anything that is neither padding nor a stream *)
  Theorem xz_multi_bad_padding : forall s rest, st_ok s -> st_pad s mod 4 <> 0 ->
    (rest = [] \/ exists ct X, check_known ct = true /\ rest = xz_stream_header ct ++ X) ->
    xz_decode' xz_fixed true (st_bytes s ++ rest) = Err E_INVALID_DATA.
  Proof.
    intros s rest (Hso & He & Hp) Hbad Hrest. pose proof Hso as [[Hk _] _].
    destruct (xzd_stream_rt _ _ _ Hso He) as (body & Ef & Mb & _ & S).
    unfold xz_decode, st_bytes. rewrite Ef, <- !app_assoc, xz_parse_stream_header_ok by exact Hk. cbn [obind].
    set (src := xz_stream_header (xo_check (st_opts s)) ++ body ++ repeatn 0 (Z.to_nat (st_pad s)) ++ rest).
    destruct (S (length src) true (repeatn 0 (Z.to_nat (st_pad s)) ++ rest)
                (zlen src - zlen (body ++ repeatn 0 (Z.to_nat (st_pad s)) ++ rest)) []) as (pos1 & _ & ES).
    { unfold src. rewrite zlen_app, zlen_stream_header. lia. }
    rewrite ES. destruct Hrest as [->|(ct & X & Hkc & ->)].
    - rewrite app_nil_r, try_next_end by exact Hp. destruct (Z.eqb_spec (st_pad s mod 4) 0); [contradiction | reflexivity].
    - rewrite try_next_stream_header by assumption. destruct (Z.eqb_spec (st_pad s mod 4) 0); [contradiction | reflexivity].
  Qed.

  Theorem xz_multi_garbage : forall s b X, st_ok s -> b <> 0 -> b <> 253 ->
    xz_decode' xz_fixed true (st_bytes s ++ b :: X) = Err E_INVALID_DATA.
  Proof.
    intros s b X (Hso & He & Hp) H0 H253. pose proof Hso as [[Hk _] _].
    destruct (xzd_stream_rt _ _ _ Hso He) as (body & Ef & Mb & _ & S).
    unfold xz_decode, st_bytes. rewrite Ef, <- !app_assoc, xz_parse_stream_header_ok by exact Hk. cbn [obind].
    set (src := xz_stream_header (xo_check (st_opts s)) ++ body ++ repeatn 0 (Z.to_nat (st_pad s)) ++ b :: X).
    destruct (S (length src) true (repeatn 0 (Z.to_nat (st_pad s)) ++ b :: X)
                (zlen src - zlen (body ++ repeatn 0 (Z.to_nat (st_pad s)) ++ b :: X)) []) as (pos1 & _ & ES).
    { unfold src. rewrite zlen_app, zlen_stream_header. lia. }
    rewrite ES, try_next_garbage by assumption. reflexivity.
  Qed.

  (* with multi-stream decoding disabled the reader returns the first stream's content and leaves
     the source at the first byte after that stream (C12, C16) *)
  Theorem xz_single_stops : forall o0 parts f rest, stream_ok o0 -> xz_encode xz_fixed o0 parts = Ok f ->
    xz_decode' xz_fixed false (f ++ rest) = Ok (concat parts, rest).
  Proof.
    intros o0 parts f rest Hso He. pose proof Hso as [[Hk _] _].
    destruct (xzd_stream_rt _ _ _ Hso He) as (body & Ef & Mb & _ & S).
    unfold xz_decode. rewrite Ef, <- app_assoc, xz_parse_stream_header_ok by exact Hk. cbn [obind].
    set (src := xz_stream_header (xo_check o0) ++ body ++ rest).
    destruct (S (length src) false rest (zlen src - zlen (body ++ rest)) []) as (pos1 & _ & ES).
    { unfold src. rewrite zlen_app, zlen_stream_header. lia. }
    rewrite ES. rewrite frev_rev, rev_append_rev, rev_app_distr, rev_involutive. cbn [rev app]. reflexivity.
  Qed.
End RoundTrip.
