(* Format/TotalChainProofs.v — the reader chains of one block (XzProofs.v: blockdec pdec fdec;
   XzFormat.v: xz_blockdec_gen pdec = Delta readers around the payload decoder) satisfy the
   hypothesis of Format/TotalProofs.v whenever the payload decoder does: Ok or Err only, the rest
   no longer than the input.  Panic 65 (a Delta history index out of range) is unreachable: the
   history always has 256 entries. *)
From LzVerif Require Import Base.Bytes Filter.Delta Filter.DeltaProofs Format.XzFormat Format.LzipFormat Format.XzProofs
  Format.TotalProofs Format.ComposeProofs.
Ltac Zify.zify_post_hook ::= Z.div_mod_to_equations.

Lemma xz_chain_deltas_inv : forall fs,
  match xz_chain_deltas fs with Ok ds => Forall delta_inv ds | Err _ => True | _ => False end.
Proof.
  induction fs as [|[k p] t IH]; [constructor|].
  destruct k; cbn [xz_chain_deltas]; try exact I.
  - destruct (xz_chain_deltas t) as [r| | |]; cbn [obind]; try contradiction; [|exact I].
    constructor; [apply delta_new_inv | exact IH].
  - destruct t; [constructor | exact I].
Qed.

Lemma xz_deltas_decode_total : forall ds raw, Forall delta_inv ds -> total (xz_deltas_decode ds raw).
Proof.
  induction ds as [|d t IH]; intros raw Hds; [exact I|].
  inversion Hds as [|x l Hd Ht]; subst x l. cbn [xz_deltas_decode].
  specialize (IH raw Ht). destruct (xz_deltas_decode t raw) as [[t1 b1]| | |]; cbn [total] in IH; try contradiction;
    cbn [obind]; [|exact I].
  destruct (delta_decode_total b1 d Hd) as (d' & o & E & _). rewrite E. exact I.
Qed.

Lemma xz_blockdec_gen_shr pdec : (forall d s, shrk 0 s (pdec d s)) ->
  forall fs s, shrk 0 s (xz_blockdec_gen pdec fs s).
Proof.
  intros Hp fs s. unfold xz_blockdec_gen.
  pose proof (xz_chain_deltas_inv fs) as Hc.
  destruct (xz_chain_deltas fs) as [ds| | |]; try contradiction; cbn [obind]; [|exact I].
  pose proof (Hp (xz_chain_dict fs) s) as S1.
  destruct (pdec (xz_chain_dict fs) s) as [[raw rest]| | |]; cbn [shrk] in S1; try contradiction; cbn [obind]; [|exact I].
  pose proof (xz_deltas_decode_total ds raw Hc) as T.
  destruct (xz_deltas_decode ds raw) as [dr| | |]; cbn [total] in T; try contradiction; cbn [obind]; [|exact I].
  cbn [shrk]. exact S1.
Qed.

Lemma blockdec_shr pdec fdec : (forall d s, shrk 0 s (pdec d s)) ->
  forall fs s, shrk 0 s (blockdec pdec fdec fs s).
Proof.
  intros Hp fs s. unfold blockdec. pose proof (Hp (xz_chain_dict fs) s) as S1.
  destruct (pdec (xz_chain_dict fs) s) as [[raw rest]| | |]; cbn [shrk] in S1; try contradiction; cbn [obind]; [|exact I].
  cbn [shrk snd]. exact S1.
Qed.

Theorem xz_decode_chain_total pdec fx multi src : (forall d s, shrk 0 s (pdec d s)) -> fx11 fx = true ->
  total (xz_decode xz_check_bytes (xz_blockdec_gen pdec) fx multi src).
Proof. intros Hp H11. apply xz_decode_total; [apply xz_blockdec_gen_shr; exact Hp | exact H11]. Qed.

(* the hypothesis on the payload decoder is needed: a "decoder" that returns more input than it
   was given (here: a trailer and a member header in front of it) keeps the LZIP reader model
   busy until its fuel is gone *)
Definition greedy_pdec (d : Z) (s : list Z) : outcome (list Z * list Z) :=
  Ok ([], repeatn 0 20 ++ [76; 90; 73; 80; 1; 12] ++ s).
Lemma lz_decode_growing_rest_fuel : lz_decode greedy_pdec lz_fixed [76; 90; 73; 80; 1; 12] = Fuel.
Proof. vm_compute. reflexivity. Qed.

Lemma shr_decoder_exists : exists pdec : Z -> list Z -> outcome (list Z * list Z), forall d s, shrk 0 s (pdec d s).
Proof. exists (fun _ s => Ok ([], s)). intros d s. cbn [shrk]. lia. Qed.
