(* Format/PayloadLzma1Proofs.v — the LZMA payload decoder of the LZIP reader model
   (lzip_payload_dec_n of LzipFormat.v: LZMAReader::new(_, u64::MAX, 3, 0, 2, dd, None), 4096-byte
   read() calls until Ok(0)) on what the LZMA writer model wrote without header, with end marker
   and dictionary size d <= dd (LZMAWriter::new_no_header(_, {lc 3, lp 0, pb 2, dict d}, true)):
   the decoder returns exactly the data and leaves exactly what followed the stream, as soon as the
   number of read() calls it may make is at least |data| / 4096 + 2.
   This is lzma1_roundtrip_raw of Codec/Lzma1ReadProofs.v with a reader dictionary that may be
   larger than the writer's, and with the number of calls counted in buffers, not in bytes. *)
From LzVerif Require Import Base.Bytes Codec.Store Codec.Range Codec.ProbProofs Codec.RangeArithProofs
  Codec.LzWindow Codec.LzmaDec Codec.LzmaEnc Codec.LzmaAbs Codec.LzWindowProofs Codec.ProgProofs Codec.LzmaAbsProofs
  Codec.RangeEncProofs Codec.RangeDecProofs Codec.RangeProofs Codec.LzmaSymProofs Codec.LzmaRoundtrip
  Codec.LzmaChunkProofs Codec.LzmaReadProofs Codec.LzmaWriters Codec.Lzma1 Codec.Lzma1LoopProofs Codec.Lzma1ReadProofs
  Format.LzipFormat.
Ltac Zify.zify_post_hook ::= Z.div_mod_to_equations.

(* ---- the drain loop ---------------------------------------------------------------------------- *)
Section Drain.
  Variable E : list event.
  Variable tail : list Z.
  Variable W : Z.
  Variable data : list Z.
  Variable hist0 : list Z.
  Variable marker : bool.
  Hypothesis Hsmall : zlen data <= U64_HALF.
  Notation N := (length data).

  Lemma drain1_ended f s acc : Ended tail s -> lzma1_drain (S f) s acc = Ok (frev acc, tail).
  Proof.
    intros (He & Hin). cbn [lzma1_drain]. rewrite (read_ended s 4096 He). cbn [obind].
    unfold lzma1_unconsumed. rewrite Hin. reflexivity.
  Qed.

  Lemma drain1_ok : forall fuel strict k s acc, InvG E tail W data hist0 marker strict k s ->
    Z.of_nat (N - k) / 4096 + 2 <= Z.of_nat fuel ->
    lzma1_drain fuel s acc = Ok (rev acc ++ seg data k (N - k), tail).
  Proof.
    induction fuel as [|f IH]; intros strict k s acc HI Hf; [lia|].
    cbn [lzma1_drain].
    destruct (read_steps E tail W data hist0 marker Hsmall strict k s 4096 HI ltac:(lia)) as (m & s1 & Hrd & Hk & Hcase).
    rewrite Hrd. cbn [obind].
    assert (Hlen : length (seg data k m) = m) by (apply seg_length; lia).
    destruct Hcase as [(He & HkN)|(HI1 & Hm)].
    - replace (N - k)%nat with m by lia.
      destruct (seg data k m) as [|b out'] eqn:Eout.
      + destruct He as (He & Hin). unfold lzma1_unconsumed. rewrite Hin, frev_rev, app_nil_r. reflexivity.
      + destruct f as [|f']; [lia|]. rewrite (drain1_ended f' s1 _ He).
        rewrite frev_rev, rev_rev_append. reflexivity.
    - destruct (seg data k m) as [|b out'] eqn:Eout; [cbn [length] in Hlen; lia|].
      rewrite (IH true (k + m)%nat s1 _ HI1) by lia.
      rewrite rev_rev_append, <- app_assoc, <- Eout, seg_app.
      replace (m + (N - (k + m)))%nat with (N - k)%nat by lia. reflexivity.
  Qed.
End Drain.

(* ---- LZMA writer model (raw, end marker), then the payload decoder of the LZIP reader model ---- *)
Theorem lzip_payload_dec_n_rt : forall d dd data syms stream tail calls,
  4096 <= d -> d <= dd -> dd <= 2147483648 ->
  bytes_ok data = true -> no_end syms ->
  lzma1_write 3 0 2 d [] data syms false true None = Ok stream ->
  (forall E c' h', enc_syms (coder_new 3 0 2) (ehist_new d [] data) (syms ++ end_syms true) = Ok (E, c', h') ->
     events_bits E <= RC_MAX_BITS) ->
  zlen data / 4096 + 2 <= Z.of_nat calls ->
  lzip_payload_dec_n calls dd (stream ++ tail) = Ok (data, tail).
Proof.
  intros d dd data syms stream tail calls Hd4 Hdd Hdd31 Hbd Hne Hw Hbits Hcalls.
  assert (Hdict : 4096 <= d <= 2147483648) by lia.
  assert (Hlc : 0 <= 3 <= 8) by lia. assert (Hlp : 0 <= 0 <= 4) by lia. assert (Hpb : 0 <= 2 <= 4) by lia.
  destruct (lzma1_write_inv _ _ _ _ _ _ _ _ _ _ _ Hw) as (E1 & c1 & h1 & E2 & cE & hE & Hsyms & Hall & Hend & Hfull & ->).
  specialize (Hbits _ _ _ Hfull). cbn [app].
  set (body := renc_bytes (renc_finish (fst (renc_events renc_init PLeaf (E1 ++ E2))))).
  assert (Hok : forallb RangeEncProofs.ev_ok (E1 ++ E2) = true).
  { rewrite forallb_ev_ok_same. eapply enc_syms_events_ok; [|exact Hfull]. cbn [ehist_new h_dict]. lia. }
  destruct (rc_sim_init (E1 ++ E2) PLeaf tail probs_ok_empty Hok Hbits) as (d0 & Hinit & Hsim).
  fold body in Hinit.
  destruct (construct2_ok (body ++ tail) d0 U64_MAX 3 0 2 dd None Hlc Hlp Hpb ltac:(lia) Hinit ltac:(unfold U64_MAX; lia))
    as (W & Hc2 & HWr & HW16 & HWd).
  assert (HdW : d <= W).
  { destruct HWd as [HWd|(Hh & _)]; [lia|]. unfold U64_MAX, U64_HALF in Hh. lia. }
  unfold lzip_payload_dec_n. rewrite Hc2. cbn [obind].
  destruct (lzwin_new_start W d None ltac:(lia) HW16 ltac:(cbn [preset_list]; change (zlen (@nil Z)) with 0; lia)) as (R0 & Hst0 & Hsz0 & Hpl0 & Hpd0).
  cbn [preset_list] in R0.
  destruct (stream_facts 3 0 2 d [] data syms true W E1 c1 h1 E2 Hdict eq_refl Hbd Hne ltac:(left; exact HdW) ltac:(lia)
              Hsyms Hall Hend) as (sN & Hrun & Hfin & Hpos1).
  assert (Hsmall : zlen data <= U64_HALF).
  { pose proof (enc_syms_adv _ _ _ _ _ _ Hsyms) as Hadv. rewrite Hpos1 in Hadv. cbn [ehist_new h_pos] in Hadv.
    rewrite events_bits_app in Hbits. pose proof (events_bits_nonneg E2).
    unfold RC_MAX_BITS in Hbits. unfold U64_HALF. lia. }
  set (p := preset_kept d []) in *.
  set (s0 := mkLzma1 (coder_new 3 0 2) (lzwin_new W None) d0 PLeaf false U64_MAX).
  assert (HI : InvG (E1 ++ E2) tail W data (rev p) true false 0 s0).
  { split; [lia|]. exists (rev p), [], (E1 ++ E2), sN, E2.
    unfold s0; cbn [l_coder l_win l_rc l_probs l_end_reached l_remaining].
    split; [reflexivity|]. split; [exact Hsim|]. split; [exact R0|]. split; [exact Hst0|].
    split; [intros; discriminate|].
    split; [exact Hsz0|]. split; [apply coder_new_ok; assumption|]. split; [intros; lia|].
    split; [rewrite Nat.sub_0_r, Hsz0, Hpl0, Hpd0; exact Hrun|]. split; [exact Hfin|]. split; reflexivity. }
  rewrite (drain1_ok (E1 ++ E2) tail W data (rev p) true Hsmall calls false 0 s0 [] HI).
  - cbn [rev app]. rewrite Nat.sub_0_r, seg_all. reflexivity.
  - rewrite Nat.sub_0_r. exact Hcalls.
Qed.

(* ---- the same reader, call by call (for the call-by-call container model lzr_read) -------------- *)
(* [l1_rs data tail s k]: the LZMAReader state s has delivered the first k bytes of [data] (or is
   behind the end marker), and [tail] follows the stream in the source *)
Definition l1_rs (data tail : list Z) (s : lzma1) (k : nat) : Prop :=
  zlen data <= U64_HALF /\
  exists E W hist0 strict,
    InvG E tail W data hist0 true strict k s \/ (k = length data /\ Lzma1LoopProofs.Ended tail s).

Lemma l1_rs_new : forall d dd data syms stream tail,
  4096 <= d -> d <= dd -> dd <= 2147483648 ->
  bytes_ok data = true -> no_end syms ->
  lzma1_write 3 0 2 d [] data syms false true None = Ok stream ->
  (forall E c' h', enc_syms (coder_new 3 0 2) (ehist_new d [] data) (syms ++ end_syms true) = Ok (E, c', h') ->
     events_bits E <= RC_MAX_BITS) ->
  exists s0, lzma1_construct2 (stream ++ tail) U64_MAX 3 0 2 dd None = Ok s0 /\ l1_rs data tail s0 0.
Proof.
  intros d dd data syms stream tail Hd4 Hdd Hdd31 Hbd Hne Hw Hbits.
  assert (Hdict : 4096 <= d <= 2147483648) by lia.
  assert (Hlc : 0 <= 3 <= 8) by lia. assert (Hlp : 0 <= 0 <= 4) by lia. assert (Hpb : 0 <= 2 <= 4) by lia.
  destruct (lzma1_write_inv _ _ _ _ _ _ _ _ _ _ _ Hw) as (E1 & c1 & h1 & E2 & cE & hE & Hsyms & Hall & Hend & Hfull & ->).
  specialize (Hbits _ _ _ Hfull). cbn [app].
  set (body := renc_bytes (renc_finish (fst (renc_events renc_init PLeaf (E1 ++ E2))))).
  assert (Hok : forallb RangeEncProofs.ev_ok (E1 ++ E2) = true).
  { rewrite forallb_ev_ok_same. eapply enc_syms_events_ok; [|exact Hfull]. cbn [ehist_new h_dict]. lia. }
  destruct (rc_sim_init (E1 ++ E2) PLeaf tail probs_ok_empty Hok Hbits) as (d0 & Hinit & Hsim).
  fold body in Hinit.
  destruct (construct2_ok (body ++ tail) d0 U64_MAX 3 0 2 dd None Hlc Hlp Hpb ltac:(lia) Hinit ltac:(unfold U64_MAX; lia))
    as (W & Hc2 & HWr & HW16 & HWd).
  assert (HdW : d <= W).
  { destruct HWd as [HWd|(Hh & _)]; [lia|]. unfold U64_MAX, U64_HALF in Hh. lia. }
  eexists. split; [exact Hc2|].
  destruct (lzwin_new_start W d None ltac:(lia) HW16 ltac:(cbn [preset_list]; change (zlen (@nil Z)) with 0; lia))
    as (R0 & Hst0 & Hsz0 & Hpl0 & Hpd0).
  cbn [preset_list] in R0.
  destruct (stream_facts 3 0 2 d [] data syms true W E1 c1 h1 E2 Hdict eq_refl Hbd Hne ltac:(left; exact HdW) ltac:(lia)
              Hsyms Hall Hend) as (sN & Hrun & Hfin & Hpos1).
  assert (Hsmall : zlen data <= U64_HALF).
  { pose proof (enc_syms_adv _ _ _ _ _ _ Hsyms) as Hadv. rewrite Hpos1 in Hadv. cbn [ehist_new h_pos] in Hadv.
    rewrite events_bits_app in Hbits. pose proof (events_bits_nonneg E2).
    unfold RC_MAX_BITS in Hbits. unfold U64_HALF. lia. }
  split; [exact Hsmall|].
  set (p := preset_kept d []) in *.
  exists (E1 ++ E2), W, (rev p), false. left.
  split; [lia|]. exists (rev p), [], (E1 ++ E2), sN, E2.
  cbn [l_coder l_win l_rc l_probs l_end_reached l_remaining].
  split; [reflexivity|]. split; [exact Hsim|]. split; [exact R0|]. split; [exact Hst0|].
  split; [intros; discriminate|].
  split; [exact Hsz0|]. split; [apply coder_new_ok; assumption|]. split; [intros; lia|].
  split; [rewrite Nat.sub_0_r, Hsz0, Hpl0, Hpd0; exact Hrun|]. split; [exact Hfin|]. split; reflexivity.
Qed.

(* one read() with a non-empty destination: the next m bytes *)
Lemma l1_rs_read : forall data tail s k sz, l1_rs data tail s k -> 0 < sz ->
  exists m s', lzma1_read s sz = Ok (seg data k m, s') /\ (k + m <= length data)%nat /\
    l1_rs data tail s' (k + m) /\
    (m = 0%nat -> k = length data /\ lzma1_unconsumed s' = tail) /\ ((k < length data)%nat -> (0 < m)%nat).
Proof.
  intros data tail s k sz (Hsmall & E & W & hist0 & strict & HR) Hsz.
  destruct HR as [HI | (-> & HE)].
  - destruct (read_steps E tail W data hist0 true Hsmall strict k s sz HI Hsz) as (m & s' & Hrd & Hk & Hcase).
    exists m, s'. split; [exact Hrd|]. split; [exact Hk|].
    destruct Hcase as [(HE & HkN) | (HI' & Hm)].
    + split; [split; [exact Hsmall|]; exists E, W, hist0, strict; right; split; [lia | exact HE]|].
      split; [|intros; lia]. intros ->. split; [lia|]. destruct HE as (_ & Hin). exact Hin.
    + split; [split; [exact Hsmall|]; exists E, W, hist0, true; left; exact HI'|].
      split; [intros ->; lia | intros; lia].
  - exists 0%nat, s. destruct HE as (He & Hin). rewrite (read_ended s sz He), seg_nil, Nat.add_0_r.
    split; [reflexivity|]. split; [lia|].
    split; [split; [exact Hsmall|]; exists E, W, hist0, strict; right; split; [reflexivity | split; assumption]|].
    split; [intros _; split; [reflexivity | exact Hin] | intros; lia].
Qed.

Print Assumptions lzip_payload_dec_n_rt.

