(* Format/TotalProofs.v — C06 for the container reader models: on EVERY input (any list of
   integers, in particular any byte string) the whole-file reader functions of XzFormat.v and
   LzipFormat.v return Ok or Err - never Panic, never Fuel - whenever the payload decoder they are
   given does so and never returns more unread input than it received.

   Panic sites of the models: Panic 63 (stream flags not two bytes) and Panic 64 (empty block
   header) are unreachable because the preceding read_exact fixes the length; Panic 62 (index
   allocation) is the repaired F11 (needs fx11).  Fuel: the loops are started with
   fuel = S (length of the source); every iteration consumes at least one byte (a block header is
   at least 8 bytes, an index record at least 2, a stream at least 13, an LZIP member at least 26). *)
From LzVerif Require Import Base.Bytes Format.Crc Format.Vli Format.XzFormat Format.LzipFormat Format.LzipDict.
Ltac Zify.zify_post_hook ::= Z.div_mod_to_equations.

Definition total {A} (o : outcome A) : Prop :=
  match o with Ok _ | Err _ => True | _ => False end.

(* a parser result: Ok or Err, and the rest is at least k bytes shorter than the source *)
Definition shrk {A} (k : nat) (src : list Z) (o : outcome (A * list Z)) : Prop :=
  match o with Ok (_, r) => (length r + k <= length src)%nat | Err _ => True | _ => False end.

Lemma total_bind {A B} (x : outcome A) (f : A -> outcome B) :
  total x -> (forall a, x = Ok a -> total (f a)) -> total (obind x f).
Proof. destruct x; cbn [total obind]; intros H1 H2; auto. Qed.

Lemma shrk_bind {A B} k src (x : outcome A) (f : A -> outcome (B * list Z)) :
  total x -> (forall a, x = Ok a -> shrk k src (f a)) -> shrk k src (obind x f).
Proof. destruct x; cbn [total obind shrk]; intros H1 H2; auto. Qed.

Lemma shrk_total {A} k src (o : outcome (A * list Z)) : shrk k src o -> total o.
Proof. destruct o as [[a r]| | |]; cbn; auto. Qed.

Lemma shrk_weaken {A} k k' src (o : outcome (A * list Z)) : (k' <= k)%nat -> shrk k src o -> shrk k' src o.
Proof. destruct o as [[a r]| | |]; cbn; auto. intros. lia. Qed.

Lemma shrk_trans {A} k src src' (o : outcome (A * list Z)) :
  (length src' <= length src)%nat -> shrk k src' o -> shrk k src o.
Proof. destruct o as [[a r]| | |]; cbn; auto. intros. lia. Qed.

(* ---- read_exact ------------------------------------------------------------------------------- *)
Lemma xz_take_total n src : total (xz_take n src).
Proof. unfold xz_take. destruct (zlen src <? n); exact I. Qed.

Lemma xz_take_ok n src a b : xz_take n src = Ok (a, b) ->
  length a = Z.to_nat n /\ (length b + Z.to_nat n = length src)%nat.
Proof.
  unfold xz_take. destruct (Z.ltb_spec (zlen src) n) as [Hlt|Hge]; [discriminate|].
  intros H. inversion H; subst a b. unfold zlen in Hge. rewrite firstn_length, skipn_length. lia.
Qed.

Lemma lz_take_total n src : total (lz_take n src).
Proof. unfold lz_take. destruct (zlen src <? n); exact I. Qed.

Lemma lz_take_ok n src a b : lz_take n src = Ok (a, b) ->
  length a = Z.to_nat n /\ (length b + Z.to_nat n = length src)%nat.
Proof. exact (xz_take_ok n src a b). Qed.


Tactic Notation "xztake" constr(n) constr(s) "as" ident(a) ident(b) ident(E) :=
  let T := fresh "T" in pose proof (xz_take_total n s) as T;
  destruct (xz_take n s) as [[a b]| | |] eqn:E; cbn [total] in T; try contradiction; clear T; cbn [obind]; [|exact I].
Tactic Notation "lztake" constr(n) constr(s) "as" ident(a) ident(b) ident(E) :=
  let T := fresh "T" in pose proof (lz_take_total n s) as T;
  destruct (lz_take n s) as [[a b]| | |] eqn:E; cbn [total] in T; try contradiction; clear T; cbn [obind]; [|exact I].

(* ---- multibyte integers ----------------------------------------------------------------------- *)
Lemma vli_parse_slice_loop_total : forall data r s, total (vli_parse_slice_loop data r s).
Proof.
  induction data as [|b t IH]; intros r s; cbn [vli_parse_slice_loop]; [exact I|].
  destruct (63 <=? s); [exact I|]. destruct (Z.land b 128 =? 0); [exact I | apply IH].
Qed.

Lemma vli_parse_slice_total data : total (vli_parse_slice data).
Proof. apply vli_parse_slice_loop_total. Qed.

Lemma vli_parse_reader_loop_shr : forall n input r s, shrk 1 input (vli_parse_reader_loop n input r s).
Proof.
  induction n as [|k IH]; intros input r s; cbn [vli_parse_reader_loop]; [exact I|].
  destruct input as [|b t]; [exact I|]. destruct (63 <=? s); [exact I|].
  destruct (Z.land b 128 =? 0).
  - cbn [shrk length]. lia.
  - eapply shrk_trans; [|apply IH]. cbn [length]. lia.
Qed.

Lemma vli_parse_reader_shr input : shrk 1 input (vli_parse_reader input).
Proof. apply vli_parse_reader_loop_shr. Qed.

Lemma vli_encode_total v : total (vli_encode v).
Proof. unfold vli_encode. destruct (U63_MAX <? v); exact I. Qed.

Lemma vli_skip_len s : (length (vli_skip s) <= length s)%nat.
Proof. unfold vli_skip. rewrite skipn_length. lia. Qed.

Lemma bh_vli_total s : total (bh_vli s).
Proof. unfold bh_vli. apply total_bind; [apply vli_parse_slice_total | intros; exact I]. Qed.

(* ---- stream header ---------------------------------------------------------------------------- *)
Lemma xz_parse_flags_crc_shr src : shrk 0 src (xz_parse_flags_crc src).
Proof.
  unfold xz_parse_flags_crc.
  xztake 2 src as flags r1 E1.
  destruct (xz_take_ok _ _ _ _ E1) as (L1 & L2).
  destruct flags as [|f0 [|f1 [|f2 fl]]]; try (cbn [length] in L1; change (Z.to_nat 2) with 2%nat in L1; lia).
  destruct (negb (f0 =? 0)); [exact I|]. destruct (negb (check_known f1)); [exact I|].
  xztake 4 r1 as crc r2 E2.
  destruct (xz_take_ok _ _ _ _ E2) as (_ & L4).
  destruct (negb (le_value crc =? crc32 [f0; f1])); [exact I|]. cbn [shrk]. lia.
Qed.

Lemma xz_parse_stream_header_shr src : shrk 0 src (xz_parse_stream_header src).
Proof.
  unfold xz_parse_stream_header.
  xztake 6 src as magic r1 E1.
  destruct (xz_take_ok _ _ _ _ E1) as (_ & L2).
  destruct (negb (bytes_eqb magic XZ_MAGIC)); [exact I|].
  eapply shrk_trans; [|apply xz_parse_flags_crc_shr]. lia.
Qed.

(* ---- block header ----------------------------------------------------------------------------- *)
Lemma xz_decode_dict_total p : total (xz_decode_dict p).
Proof. unfold xz_decode_dict. destruct (40 <? p); [exact I|]. destruct (p =? 40); exact I. Qed.

Lemma bh_filter_props_total k s : total (bh_filter_props k s).
Proof.
  assert (Hd : forall s, total (match s with [] => Err E_INVALID_DATA | _ :: _ =>
                do pr <- bh_vli s; let '(psize, s1) := pr in
                if negb (psize =? 1) then Err E_INVALID_DATA else
                match s1 with [] => Err E_INVALID_DATA | b :: s2 => Ok (b + 1, s2) end end)).
  { intros s'. destruct s' as [|x s']; [exact I|]. apply total_bind; [apply bh_vli_total|].
    intros [psize s1] _. destruct (negb (psize =? 1)); [exact I|]. destruct s1; exact I. }
  assert (Hl : forall s, total (match s with [] => Err E_INVALID_DATA | _ :: _ =>
                do pr <- bh_vli s; let '(psize, s1) := pr in
                if negb (psize =? 1) then Err E_INVALID_DATA else
                match s1 with [] => Err E_INVALID_DATA | b :: s2 => do d <- xz_decode_dict b; Ok (d, s2) end end)).
  { intros s'. destruct s' as [|x s']; [exact I|]. apply total_bind; [apply bh_vli_total|].
    intros [psize s1] _. destruct (negb (psize =? 1)); [exact I|]. destruct s1 as [|b s2]; [exact I|].
    apply total_bind; [apply xz_decode_dict_total | intros; exact I]. }
  assert (Hb : forall k s, total (match s with [] => Err E_INVALID_DATA | _ :: _ =>
                do pr <- bh_vli s; let '(psize, s1) := pr in
                if psize =? 0 then Ok (0, s1)
                else if psize =? 4 then
                  match s1 with
                  | b0 :: b1 :: b2 :: b3 :: s2 =>
                      let v := le_value [b0; b1; b2; b3] in
                      if negb (v mod bcj_alignment k =? 0) then Err E_INVALID_DATA else Ok (v, s2)
                  | _ => Err E_INVALID_DATA
                  end
                else Err E_INVALID_DATA end)).
  { intros k' s'. destruct s' as [|x s']; [exact I|]. apply total_bind; [apply bh_vli_total|].
    intros [psize s1] _. destruct (psize =? 0); [exact I|]. destruct (psize =? 4); [|exact I].
    destruct s1 as [|b0 [|b1 [|b2 [|b3 s2]]]]; try exact I. cbv zeta.
    destruct (negb (le_value [b0; b1; b2; b3] mod bcj_alignment k' =? 0)); exact I. }
  destruct k; cbn [bh_filter_props]; first [apply Hd | apply Hl | apply Hb].
Qed.

Lemma bh_filters_loop_total : forall n s acc, total (bh_filters_loop n s acc).
Proof.
  induction n as [|k IH]; intros s acc; cbn [bh_filters_loop]; [exact I|].
  destruct s as [|x s']; [exact I|].
  apply total_bind; [apply vli_parse_slice_total|]. intros id _.
  destruct (fkind_of_id id) as [fk|]; [|exact I].
  apply total_bind; [apply bh_filter_props_total|]. intros [prop s1] _. apply IH.
Qed.

Lemma bh_padding_total : forall s, total (bh_padding s).
Proof.
  induction s as [|b t IH]; cbn [bh_padding]; [exact I|].
  destruct (4 <? zlen (b :: t)); [|exact I]. destruct (b =? 0); [exact IH | exact I].
Qed.

(* an index indicator consumes one byte, a block header at least eight *)
Lemma xz_parse_block_header_shr src : shrk 1 src (xz_parse_block_header src).
Proof.
  unfold xz_parse_block_header. destruct src as [|enc r0]; [exact I|].
  destruct (enc =? 0); [cbn [shrk length]; lia|]. cbv zeta.
  destruct ((enc + 1) * 4 <? 8) eqn:Hlo; [exact I|]. destruct (1024 <? (enc + 1) * 4); [exact I|]. cbn [orb].
  xztake ((enc + 1) * 4 - 1) r0 as hd rest E1.
  destruct (xz_take_ok _ _ _ _ E1) as (L1 & L2). apply Z.ltb_ge in Hlo.
  destruct hd as [|flags s0]; [cbn [length] in L1; lia|].
  apply shrk_bind.
  { destruct (negb (Z.land flags 64 =? 0)); [|exact I]. destruct (zlen s0 <? 8); [exact I|].
    apply total_bind; [apply bh_vli_total | intros; exact I]. }
  intros [csize s1] _.
  apply shrk_bind.
  { destruct (negb (Z.land flags 128 =? 0)); [|exact I]. destruct s1; [exact I|].
    apply total_bind; [apply bh_vli_total | intros; exact I]. }
  intros [usize s2] _.
  apply shrk_bind; [apply bh_filters_loop_total|]. intros [filters s3] _.
  destruct (negb (last_is_lzma2 filters)); [exact I|].
  apply shrk_bind; [apply bh_padding_total|]. intros s4 _.
  destruct (negb (zlen s4 =? 4)); [exact I|].
  match goal with |- shrk _ _ (if ?c then _ else _) => destruct c; [exact I|] end.
  cbn [shrk length]. lia.
Qed.

(* ---- block trailer ---------------------------------------------------------------------------- *)
Lemma xz_consume_padding_spec pos src :
  match xz_consume_padding pos src with Ok r => (length r <= length src)%nat | Err _ => True | _ => False end.
Proof.
  unfold xz_consume_padding. cbv zeta. destruct (pad4 pos =? 0); [lia|].
  match goal with |- context [if negb ?c then _ else _] => destruct c; cbn [negb]; [|exact I] end.
  match goal with |- context [if negb ?c then _ else _] => destruct c; cbn [negb]; [|exact I] end.
  rewrite skipn_length. lia.
Qed.

Lemma xz_verify_check_spec ct computed src :
  match xz_verify_check ct computed src with Ok r => (length r <= length src)%nat | Err _ => True | _ => False end.
Proof.
  unfold xz_verify_check. destruct (ct =? 0); [lia|].
  xztake (check_size ct) src as stored rest E1.
  destruct (xz_take_ok _ _ _ _ E1) as (_ & L2). destruct (bytes_eqb stored computed); [lia | exact I].
Qed.

(* ---- index and footer ------------------------------------------------------------------------- *)
Lemma xz_index_records_loop_shr : forall fuel count src acc, (length src < fuel)%nat ->
  shrk 0 src (xz_index_records_loop fuel count src acc).
Proof.
  induction fuel as [|f IH]; intros count src acc Hf; [lia|].
  cbn [xz_index_records_loop]. destruct (count <=? 0); [cbn [shrk]; lia|].
  pose proof (vli_parse_reader_shr src) as S1.
  destruct (vli_parse_reader src) as [[unpadded r1]| | |]; cbn [shrk] in S1; try contradiction; cbn [obind]; [|exact I].
  pose proof (vli_parse_reader_shr r1) as S2.
  destruct (vli_parse_reader r1) as [[uncompressed r2]| | |]; cbn [shrk] in S2; try contradiction; cbn [obind]; [|exact I].
  destruct (unpadded =? 0); [exact I|].
  eapply shrk_trans; [|apply IH]; lia.
Qed.

Lemma xz_index_records_total : forall rs, total (xz_index_records rs).
Proof.
  induction rs as [|[u c] t IH]; cbn [xz_index_records]; [exact I|].
  apply total_bind; [apply vli_encode_total|]. intros a _.
  apply total_bind; [apply vli_encode_total|]. intros b _.
  apply total_bind; [exact IH | intros; exact I].
Qed.

Lemma xz_parse_index_shr fx src : fx11 fx = true -> shrk 0 src (xz_parse_index fx src).
Proof.
  intros H11. unfold xz_parse_index.
  pose proof (vli_parse_reader_shr src) as S1.
  destruct (vli_parse_reader src) as [[count r1]| | |]; cbn [shrk] in S1; try contradiction; cbn [obind]; [|exact I].
  rewrite H11. cbn [negb andb].
  pose proof (xz_index_records_loop_shr (S (length r1)) count r1 [] ltac:(lia)) as S2.
  destruct (xz_index_records_loop (S (length r1)) count r1 []) as [[recs r2]| | |]; cbn [shrk] in S2; try contradiction;
    cbn [obind]; [|exact I].
  cbv zeta.
  match goal with |- context [xz_take ?n r2] =>
    xztake n r2 as padding r3 E3 end.
  destruct (xz_take_ok _ _ _ _ E3) as (_ & L3).
  match goal with |- context [if negb ?c then _ else _] => destruct c; cbn [negb]; [|exact I] end.
  xztake 4 r3 as crc r4 E4.
  destruct (xz_take_ok _ _ _ _ E4) as (_ & L4).
  apply shrk_bind; [apply vli_encode_total|]. intros ne _.
  apply shrk_bind; [apply xz_index_records_total|]. intros re _.
  match goal with |- shrk _ _ (if ?c then _ else _) => destruct c; [exact I|] end.
  cbn [shrk]. lia.
Qed.

Lemma xz_parse_footer_shr src : shrk 0 src (xz_parse_footer src).
Proof.
  unfold xz_parse_footer.
  xztake 4 src as crc r1 E1.
  destruct (xz_take_ok _ _ _ _ E1) as (_ & L1).
  xztake 4 r1 as bw r2 E2.
  destruct (xz_take_ok _ _ _ _ E2) as (_ & L2).
  xztake 2 r2 as flags r3 E3.
  destruct (xz_take_ok _ _ _ _ E3) as (_ & L3).
  match goal with |- shrk _ _ (if ?c then _ else _) => destruct c; [exact I|] end.
  xztake 2 r3 as magic r4 E4.
  destruct (xz_take_ok _ _ _ _ E4) as (_ & L4).
  match goal with |- shrk _ _ (if ?c then _ else _) => destruct c; [exact I|] end.
  cbn [shrk]. lia.
Qed.

Lemma xz_index_and_footer_spec fx ct blocks src : fx11 fx = true ->
  match xz_index_and_footer fx ct blocks src with Ok r => (length r <= length src)%nat | Err _ => True | _ => False end.
Proof.
  intros H11. unfold xz_index_and_footer.
  pose proof (xz_parse_index_shr fx src H11) as S1.
  destruct (xz_parse_index fx src) as [[[count recs] r1]| | |]; cbn [shrk] in S1; try contradiction; cbn [obind]; [|exact I].
  destruct (negb (count =? blocks)); [exact I|].
  pose proof (xz_parse_footer_shr r1) as S2.
  destruct (xz_parse_footer r1) as [[[bw flags] r2]| | |]; cbn [shrk] in S2; try contradiction; cbn [obind]; [|exact I].
  destruct (negb (bytes_eqb flags (xz_stream_flags ct))); [exact I | lia].
Qed.

Lemma xz_skip_zeros_len : forall src n, (length (snd (xz_skip_zeros src n)) <= length src)%nat.
Proof.
  induction src as [|b t IH]; intros n; cbn [xz_skip_zeros]; [cbn; lia|].
  destruct (b =? 0); [specialize (IH (n + 1)); cbn [length]; lia | cbn [snd length]; lia].
Qed.

Lemma xz_try_next_stream_shr fx src : shrk 0 src (xz_try_next_stream fx src).
Proof.
  unfold xz_try_next_stream. pose proof (xz_skip_zeros_len src 0) as L0.
  destruct (xz_skip_zeros src 0) as [padding r0]. cbn [snd] in L0.
  destruct r0 as [|b r1].
  - destruct (fx16b fx && negb (padding mod 4 =? 0)); [exact I | cbn [shrk length]; lia].
  - match goal with |- shrk _ _ (if ?c then _ else _) => destruct c; [exact I|] end.
    destruct (zlen r1 <? 5); [exact I|].
    match goal with |- shrk _ _ (if ?c then _ else _) => destruct c; [exact I|] end.
    match goal with |- shrk _ _ (if ?c then _ else _) => destruct c; [exact I|] end.
    pose proof (xz_parse_flags_crc_shr (skipn 5 r1)) as S1.
    destruct (xz_parse_flags_crc (skipn 5 r1)) as [[ct r2]| | |]; cbn [shrk] in S1; try contradiction; cbn [obind]; [|exact I].
    cbn [shrk fst snd]. rewrite skipn_length in S1. cbn [length] in L0. lia.
Qed.

(* ---- the whole-file reader -------------------------------------------------------------------- *)
Section XzTotal.
  Variable H : Z -> list Z -> list Z.
  Variable blockdec : list (fkind * Z) -> list Z -> outcome (list Z * list Z).
  (* the payload decoder returns Ok or Err, and never more unread input than it was given *)
  Hypothesis blockdec_shr : forall fs s, shrk 0 s (blockdec fs s).

  Lemma xzd_blocks_total : forall fuel ct src pos n acc, (length src < fuel)%nat ->
    match xzd_blocks H blockdec fuel ct src pos n acc with
    | Ok (_, r, _, _) => (length r < length src)%nat
    | Err _ => True
    | _ => False
    end.
  Proof.
    induction fuel as [|f IH]; intros ct src pos n acc Hf; [lia|].
    cbn [xzd_blocks].
    pose proof (xz_parse_block_header_shr src) as S1.
    destruct (xz_parse_block_header src) as [[h r1]| | |]; cbn [shrk] in S1; try contradiction; cbn [obind]; [|exact I].
    destruct h as [bh|]; [|lia].
    pose proof (blockdec_shr (bh_filters bh) r1) as S2.
    destruct (blockdec (bh_filters bh) r1) as [[content r2]| | |]; cbn [shrk] in S2; try contradiction; cbn [obind]; [|exact I].
    match goal with |- context [xz_consume_padding ?p r2] => pose proof (xz_consume_padding_spec p r2) as S3;
      destruct (xz_consume_padding p r2) as [r3| | |]; try contradiction; cbn [obind]; [|exact I] end.
    pose proof (xz_verify_check_spec ct (H ct content) r3) as S4.
    destruct (xz_verify_check ct (H ct content) r3) as [r4| | |]; try contradiction; cbn [obind]; [|exact I].
    match goal with |- match xzd_blocks H blockdec f ct r4 ?p ?m ?a with _ => _ end =>
      specialize (IH ct r4 p m a ltac:(lia)); destruct (xzd_blocks H blockdec f ct r4 p m a) as [[[[a1 r5] p5] n5]| | |];
        try contradiction; [lia | exact I] end.
  Qed.

  Lemma xzd_streams_total fx multi : fx11 fx = true -> forall fuel ct src pos acc, (length src < fuel)%nat ->
    total (xzd_streams H blockdec fuel fx multi ct src pos acc).
  Proof.
    intros H11. induction fuel as [|f IH]; intros ct src pos acc Hf; [lia|].
    cbn [xzd_streams].
    pose proof (xzd_blocks_total (S (length src)) ct src pos 0 acc ltac:(lia)) as S1.
    destruct (xzd_blocks H blockdec (S (length src)) ct src pos 0 acc) as [[[[acc1 r1] pos1] n]| | |]; try contradiction;
      cbn [obind]; [|exact I].
    pose proof (xz_index_and_footer_spec fx ct n r1 H11) as S2.
    destruct (xz_index_and_footer fx ct n r1) as [r2| | |]; try contradiction; cbn [obind]; [|exact I].
    destruct multi; [|exact I].
    pose proof (xz_try_next_stream_shr fx r2) as S3.
    destruct (xz_try_next_stream fx r2) as [[nct r3]| | |]; cbn [shrk] in S3; try contradiction; cbn [obind]; [|exact I].
    destruct nct as [ct2|]; [|exact I]. apply IH. lia.
  Qed.

  (* XZReader (whole-file function): total on every input, with the fuel the model uses *)
  Theorem xz_decode_total fx multi src : fx11 fx = true -> total (xz_decode H blockdec fx multi src).
  Proof.
    intros H11. unfold xz_decode.
    pose proof (xz_parse_stream_header_shr src) as S1.
    destruct (xz_parse_stream_header src) as [[ct r1]| | |]; cbn [shrk] in S1; try contradiction; cbn [obind]; [|exact I].
    apply xzd_streams_total; [exact H11 | lia].
  Qed.
End XzTotal.

(* F11: without the fix the allocation for a hostile record count panics (ContainerRefutations.v:
   xz_index_alloc_refuted).  And the hypothesis on the payload decoder cannot be dropped: a
   "decoder" that hands back more input than it got makes the model loop until its fuel is gone. *)

(* ---- LZIP ------------------------------------------------------------------------------------- *)
Lemma lzip_decode_dict_size_total d : total (lzip_decode_dict_size d).
Proof.
  unfold lzip_decode_dict_size. cbv zeta.
  destruct ((Z.land d 31 <? 12) || (29 <? Z.land d 31)); [exact I|].
  destruct (7 <? Z.shiftr d 5); [exact I|].
  match goal with |- total (if ?c then _ else _) => destruct c; exact I end.
Qed.

Lemma lz_parse_header_shr fx first src : shrk 0 src (lz_parse_header fx first src).
Proof.
  unfold lz_parse_header. destruct (fz6 fx).
  - unfold lz_parse_header_fixed. cbv zeta.
    assert (L4 : (length (skipn 4 src) <= length src)%nat) by (rewrite skipn_length; lia).
    destruct (firstn 4 src) as [|m0 ms] eqn:Em; [cbn [shrk]; lia|].
    match goal with |- shrk _ _ (if ?c then _ else _) => destruct c end.
    { destruct first; [exact I | cbn [shrk]; lia]. }
    match goal with |- shrk _ _ (if ?c then _ else _) => destruct c; [exact I|] end.
    destruct (skipn 4 src) as [|v r2] eqn:E4; [exact I|].
    destruct (negb (v =? 1)); [exact I|]. destruct r2 as [|d r3]; [exact I|].
    apply shrk_bind; [apply lzip_decode_dict_size_total|]. intros ds _. cbn [shrk length] in *. lia.
  - unfold lz_parse_header_orig.
    assert (L4 : (length (skipn 4 src) <= length src)%nat) by (rewrite skipn_length; lia).
    destruct (zlen src <? 4); [cbn [shrk length]; lia|].
    destruct (negb (lz_bytes_eqb (firstn 4 src) LZIP_MAGIC)); [cbn [shrk]; lia|].
    destruct (skipn 4 src) as [|v r2]; [cbn [shrk length]; lia|].
    destruct (negb (v =? 1)); [cbn [shrk length] in *; lia|].
    destruct r2 as [|d r3]; [cbn [shrk length]; lia|].
    destruct (lzip_decode_dict_size d); cbn [shrk length] in *; lia.
Qed.

(* a member header that announces a member consumes six bytes *)
Lemma lz_parse_header_some fx first src ds r : lz_parse_header fx first src = Ok (Some ds, r) ->
  (length r < length src)%nat.
Proof.
  unfold lz_parse_header. destruct (fz6 fx).
  - unfold lz_parse_header_fixed. cbv zeta.
    assert (L4 : (length (skipn 4 src) <= length src)%nat) by (rewrite skipn_length; lia).
    destruct (firstn 4 src) as [|m0 ms] eqn:Em; [discriminate|].
    match goal with |- (if ?c then _ else _) = _ -> _ => destruct c end.
    { destruct first; discriminate. }
    match goal with |- (if ?c then _ else _) = _ -> _ => destruct c; [discriminate|] end.
    destruct (skipn 4 src) as [|v r2] eqn:E4; [discriminate|].
    destruct (negb (v =? 1)); [discriminate|]. destruct r2 as [|d r3]; [discriminate|].
    destruct (lzip_decode_dict_size d); cbn [obind]; try discriminate.
    intros E. inversion E; subst. cbn [length] in *. lia.
  - unfold lz_parse_header_orig.
    assert (L4 : (length (skipn 4 src) <= length src)%nat) by (rewrite skipn_length; lia).
    destruct (zlen src <? 4); [discriminate|].
    destruct (negb (lz_bytes_eqb (firstn 4 src) LZIP_MAGIC)); [discriminate|].
    destruct (skipn 4 src) as [|v r2]; [discriminate|].
    destruct (negb (v =? 1)); [discriminate|].
    destruct r2 as [|d r3]; [discriminate|].
    destruct (lzip_decode_dict_size d); try discriminate.
    intros E. inversion E; subst. cbn [length] in *. lia.
Qed.

Lemma lz_check_trailer_spec a b c src :
  match lz_check_trailer a b c src with Ok r => (length r <= length src)%nat | Err _ => True | _ => False end.
Proof.
  unfold lz_check_trailer.
  lztake 4 src as crc r1 E1.
  destruct (lz_take_ok _ _ _ _ E1) as (_ & L1).
  lztake 8 r1 as ds r2 E2.
  destruct (lz_take_ok _ _ _ _ E2) as (_ & L2).
  lztake 8 r2 as msz r3 E3.
  destruct (lz_take_ok _ _ _ _ E3) as (_ & L3).
  repeat match goal with |- match (if ?c then _ else _) with _ => _ end => destruct c; [exact I|] end.
  lia.
Qed.

Section LzTotal.
  Variable pdec : Z -> list Z -> outcome (list Z * list Z).
  Hypothesis pdec_shr : forall d s, shrk 0 s (pdec d s).

  Lemma lzd_members_total fx : forall fuel first src acc, (length src < fuel)%nat ->
    total (lzd_members pdec fuel fx first src acc).
  Proof.
    induction fuel as [|f IH]; intros first src acc Hf; [lia|].
    cbn [lzd_members].
    pose proof (lz_parse_header_shr fx first src) as S1.
    destruct (lz_parse_header fx first src) as [[h r1]| | |] eqn:Eh; cbn [shrk] in S1; try contradiction; cbn [obind]; [|exact I].
    destruct h as [ds|]; [|exact I].
    pose proof (lz_parse_header_some _ _ _ _ _ Eh) as L1.
    pose proof (pdec_shr ds r1) as S2.
    destruct (pdec ds r1) as [[content r2]| | |]; cbn [shrk] in S2; try contradiction; cbn [obind]; [|exact I].
    match goal with |- context [lz_check_trailer ?a ?b ?c r2] => pose proof (lz_check_trailer_spec a b c r2) as S3;
      destruct (lz_check_trailer a b c r2) as [r3| | |]; try contradiction; cbn [obind]; [|exact I] end.
    apply IH. lia.
  Qed.

  (* LZIPReader (whole-file function), repaired or original header handling *)
  Theorem lz_decode_total fx src : total (lz_decode pdec fx src).
  Proof. unfold lz_decode. apply lzd_members_total. lia. Qed.
End LzTotal.

Print Assumptions xz_decode_total.
Print Assumptions lz_decode_total.
