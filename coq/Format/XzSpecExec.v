(* Format/XzSpecExec.v — the executable instances of the format specification (XzSpec.v): the
   payload decoders are the LZMA2 / LZMA decoder models of Codec/, the Delta filter is
   Filter/Delta.v.  BCJ chains are an EXTENSION POINT (Filter/Bcj*.v): they are answered [None]
   here and the checks route such files to the implementation oracles only.  Definitions only. *)
From LzVerif Require Export Format.XzSpec Format.XzFormat Format.LzipFormat.

Fixpoint s_chain_deltas (fs : list sfilter) : option (list Z * Z) :=
  match fs with
  | [SLzma2 d] => Some ([], d)
  | SDelta dist :: t => olet! (ds, d) <- s_chain_deltas t; Some (dist :: ds, d)
  | _ => None
  end.

(* data passes the Delta decoders from the innermost (last in the header) to the outermost *)
Fixpoint s_undelta (ds : list Z) (data : list Z) : option (list Z) :=
  match ds with
  | [] => Some data
  | d :: t => olet! x <- s_undelta t data; delta_decode_bytes d x
  end.

Definition xz_sdec_gen (pdec : Z -> list Z -> outcome (list Z * list Z)) (fs : list sfilter) (src : list Z)
  : option (list Z * list Z) :=
  olet! (ds, dict) <- s_chain_deltas fs;
  match pdec dict src with
  | Ok (raw, rest) => olet! data <- s_undelta ds raw; Some (data, rest)
  | _ => None
  end.

Definition xz_sdec_exec := xz_sdec_gen lzma2_payload_dec.

(* The LZMA stream of an lzip member for the specification: decoded by the LZMAReader model, and -
   as the LZMA specification allows a decoder to verify, and liblzma / lzip do - the range decoder
   must end with code = 0 after the end marker (the crate's reader does not look at the final code:
   it accepts, with the same data, streams whose last range-coder bytes were altered). *)
Fixpoint lzma1_drain_strict (fuel : nat) (s : lzma1) (acc : list Z) : outcome (list Z * list Z) :=
  match fuel with
  | O => Fuel
  | S f =>
      do r <- lzma1_read s 4096;
      let '(out, s1) := r in
      match out with
      | [] => if rd_code (l_rc s1) =? 0 then Ok (frev acc, lzma1_unconsumed s1) else Err E_INVALID_DATA
      | _ => lzma1_drain_strict f s1 (rev_append out acc)
      end
  end.

Definition lzip_payload_dec_strict_n (calls : nat) (dict : Z) (src : list Z) : outcome (list Z * list Z) :=
  do s <- lzma1_construct2 src U64_MAX 3 0 2 dict None;
  lzma1_drain_strict calls s [].

Definition lz_sdec_gen (pdec : Z -> list Z -> outcome (list Z * list Z)) (dict : Z) (src : list Z)
  : option (list Z * list Z) :=
  match pdec dict src with Ok r => Some r | _ => None end.

Definition lz_sdec_exec := lz_sdec_gen (fun d src => lzip_payload_dec_strict_n (64 + 16 * length src) d src).

Definition xz_spec_decode_c (lenient : bool) (l : list Z) : option (list Z) :=
  xz_spec_decode xz_sdec_exec lenient l.
Definition lz_spec_decode_c (l : list Z) : option (list Z * list Z) :=
  lz_spec_decode lz_sdec_exec l.

(* with an output budget of [cap] bytes per block / member (exceeding it = not accepted; the
   correspondence run only feeds files whose reference decoding stays below the budget) *)
Definition xz_spec_decode_capped (lenient : bool) (cap : Z) (l : list Z) : option (list Z) :=
  xz_spec_decode (xz_sdec_gen (lzma2_payload_dec_n (Z.to_nat (cap / 4096 + 3)))) lenient l.
Definition lz_spec_decode_capped (cap : Z) (l : list Z) : option (list Z * list Z) :=
  lz_spec_decode (lz_sdec_gen (lzip_payload_dec_strict_n (Z.to_nat (cap / 4096 + 3)))) l.
