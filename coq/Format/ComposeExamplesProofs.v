(* Format/ComposeExamplesProofs.v — the hypotheses of the composed theorems (ComposeProofs.v) are
   satisfiable, and their conclusions computed on concrete instances:
     - an LZMA2 encoder in the sense of l2_codec_ok exists for every input (l2_stored_ok, in
       ComposeProofs.v) and one that emits real LZMA chunks, stored chunks and an independent
       restart on a sample input (ch_ex);
     - XZ files written with it, with and without a Delta pre-filter, decoded by xz_decode_c;
     - an LZMA encoder choice for an LZIP member (literals and a match), the member hypotheses,
       the file decoded by lz_decode_c. *)
From LzVerif Require Import Base.Bytes Codec.Store Codec.Range Codec.LzWindow Codec.LzmaDec Codec.LzmaEnc
  Codec.LzmaWriters Codec.Lzma1 Codec.Lzma2Dec Codec.LzmaRoundtrip Codec.ProbProofs Codec.RangeEncProofs Codec.RangeProofs
  Codec.Lzma1ReadProofs Codec.Lzma2SpecProofs Codec.Lzma2FrameSyncProofs Codec.Lzma2ReadProofs Codec.Lzma2ExamplesProofs
  Filter.Delta Filter.DeltaProofs
  Format.Crc Format.CrcProofs Format.Vli Format.XzFormat Format.LzipFormat Format.LzipDict Format.LzipDictProofs
  Format.XzSplitProofs Format.LzipSplitProofs Format.XzHeaderProofs Format.XzBlockHeaderProofs Format.XzProofs
  Format.LzipProofs Format.PayloadLzma2Proofs Format.PayloadLzma1Proofs Format.ContainerCondProofs Format.ComposeProofs.
Ltac Zify.zify_post_hook ::= Z.div_mod_to_equations.

(* ---- XZ / LZMA2 ------------------------------------------------------------------------------- *)
Definition x_data : list Z := Lzma2ExamplesProofs.ex_data.

(* on the sample input with a 4 KiB dictionary: two LZMA chunks, a stored chunk, an independent
   restart (Lzma2ExamplesProofs.ex_evs); everything else is stored *)
Definition ch_ex (d : Z) (x : list Z) : list l2ev :=
  if (d =? 4096) then (if list_eq_dec Z.eq_dec x x_data then Lzma2ExamplesProofs.ex_evs else l2_stored d x)
  else l2_stored d x.

Lemma ch_ex_ok : l2_codec_ok 3 0 2 ch_ex.
Proof.
  intros d x Hd Hb. unfold ch_ex. destruct (Z.eqb_spec d 4096) as [->|Hne]; [|apply l2_stored_ok; assumption].
  destruct (list_eq_dec Z.eq_dec x x_data) as [->|Hx]; [|apply l2_stored_ok; assumption].
  destruct lzma2_roundtrip_hyps as (_ & H1 & H2). split; [exact H1|]. eexists. exact H2.
Qed.

Lemma params_302 : l2_params_ok 3 0 2.
Proof. unfold l2_params_ok. lia. Qed.

(* CRC64, no block size, no pre-filter, dictionary 4 KiB; three write() calls, one of them empty *)
Definition x_opts : xzopts := mkXzopts 4 None [] 4096.
(* SHA-256, blocks of (at least) the dictionary size, two Delta pre-filters *)
Definition x_opts_delta : xzopts := mkXzopts 10 (Some 1) [(FDelta, 1); (FDelta, 256)] 4096.
Definition x_parts : list (list Z) := [firstn 3 x_data; []; skipn 3 x_data].
Definition x_parts_big : list (list Z) := [repeatn 7 3000; []; ProbProofs.zrange 0 200; repeatn 9 2000; [10]].

Lemma x_opts_ok : stream_ok x_opts /\ only_delta (xo_filters x_opts) /\ 4096 <= xo_dict x_opts <= 2147483648 /\
  bytes_ok (concat x_parts) = true.
Proof.
  split; [split; [split; [reflexivity | constructor] | exact I]|].
  split; [constructor|]. split; [cbn; lia | reflexivity].
Qed.

Lemma x_opts_delta_ok : stream_ok x_opts_delta /\ only_delta (xo_filters x_opts_delta) /\
  4096 <= xo_dict x_opts_delta <= 2147483648 /\ bytes_ok (concat x_parts_big) = true.
Proof.
  split.
  { split; [split; [reflexivity|]|cbn; lia].
    constructor; [unfold filter_ok; cbn; lia|]. constructor; [unfold filter_ok; cbn; lia | constructor]. }
  split; [repeat constructor|]. split; [cbn; lia | vm_compute; reflexivity].
Qed.

(* the file holds the LZMA2 stream with LZMA chunks (not the stored fallback), and is decoded *)
Lemma x_roundtrip :
  exists f, xz_encode (l2_penc 3 0 2 ch_ex) delta_fenc xz_fixed x_opts x_parts = Ok f /\
            xz_decode_c xz_fixed true f = Ok (x_data, []) /\
            l2_penc 3 0 2 ch_ex 4096 x_data = Lzma2ExamplesProofs.ex_stream /\
            exists a b, f = a ++ Lzma2ExamplesProofs.ex_stream ++ b.
Proof.
  eexists. split; [vm_compute; reflexivity|]. split; [vm_compute; reflexivity|]. split; [vm_compute; reflexivity|].
  exists (firstn 24 (match xz_encode (l2_penc 3 0 2 ch_ex) delta_fenc xz_fixed x_opts x_parts with Ok f => f | _ => [] end)).
  eexists. vm_compute. reflexivity.
Qed.

Lemma x_roundtrip_delta :
  exists f, xz_encode (l2_penc 3 0 2 l2_stored) delta_fenc xz_fixed x_opts_delta x_parts_big = Ok f /\
            xz_decode_c xz_fixed false (f ++ [1; 2; 3]) = Ok (concat x_parts_big, [1; 2; 3]) /\
            xz_blocks_of xz_fixed (Some 4096) x_parts_big
              = Ok [repeatn 7 3000 ++ ProbProofs.zrange 0 200 ++ repeatn 9 896; repeatn 9 1104 ++ [10]].
Proof. eexists. split; [vm_compute; reflexivity|]. split; vm_compute; reflexivity. Qed.

(* ---- LZIP / LZMA ------------------------------------------------------------------------------ *)
Definition z_data : list Z := Lzma1ReadProofs.ex_data.

(* literals and one match on the sample member, literals only otherwise *)
Definition ch1_ex (d : Z) (x : list Z) : list sym :=
  if list_eq_dec Z.eq_dec x z_data then Lzma1ReadProofs.ex_syms else map SLit x.

Definition z_opts : lzopts := mkLzopts 5000 None.
Definition z_parts : list (list Z) := [firstn 3 z_data; []; skipn 3 z_data].

Lemma z_member_ok : l1_member_ok ch1_ex 5000 z_data.
Proof.
  unfold l1_member_ok. change (ch1_ex 5000 z_data) with Lzma1ReadProofs.ex_syms.
  split; [exact ex_no_end|]. split; [eexists; vm_compute; reflexivity|].
  intros E c' h' H.
  assert (Hb : match enc_syms (coder_new 3 0 2) (ehist_new 5000 [] z_data) (Lzma1ReadProofs.ex_syms ++ end_syms true) with
               | Ok (E, _, _) => events_bits E <= RC_MAX_BITS
               | _ => True
               end) by (vm_compute; discriminate).
  rewrite H in Hb. exact Hb.
Qed.

Lemma z_hyps :
  bytes_ok (concat z_parts) = true /\
  (forall members, lz_members_of (lo_member_size (lzw_new z_opts)) z_parts = Ok members ->
     lz_sizes_ok (l1_penc ch1_ex) (lo_dict (lzw_new z_opts)) members /\
     Forall (fun c => l1_member_ok ch1_ex (lo_dict (lzw_new z_opts)) c /\
                      zlen c / 4096 + 2 <= Z.of_nat 2 /\
                      zlen c / 4096 <= 62 + 16 * zlen (l1_penc ch1_ex (lo_dict (lzw_new z_opts)) c)) members) /\
  match lo_member_size z_opts with Some m => 1 <= m | None => True end.
Proof.
  split; [reflexivity|]. split; [|exact I].
  intros members Hm.
  assert (Em : lz_members_of (lo_member_size (lzw_new z_opts)) z_parts = Ok [z_data]) by (vm_compute; reflexivity).
  rewrite Em in Hm. inversion Hm; subst members. change (lo_dict (lzw_new z_opts)) with 5000.
  split.
  - constructor; [|constructor]. split; vm_compute; reflexivity.
  - constructor; [|constructor]. split; [exact z_member_ok|]. split; vm_compute; discriminate.
Qed.

Lemma z_roundtrip :
  exists f, lz_encode (l1_penc ch1_ex) z_opts z_parts = Ok f /\
            lz_decode_c lz_fixed f = Ok (z_data, []) /\
            lz_decode (lzip_payload_dec_n 2) lz_fixed (f ++ f) = Ok (z_data ++ z_data, []).
Proof. eexists. split; [vm_compute; reflexivity|]. split; vm_compute; reflexivity. Qed.
