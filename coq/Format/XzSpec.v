(* Format/XzSpec.v — an INDEPENDENT, strict specification of the .xz file format, written from
   "The .xz File Format" 1.x (sections quoted below), and of the .lz (lzip) format, written from
   the lzip manual's "File format" chapter.  It is a decoder into [option]: [None] = not a valid
   file.  It does not use any definition of XzFormat.v / LzipFormat.v (only the checksum functions,
   which the format documents define by reference).  It stands for the reference implementation in
   C03 and is itself tied to liblzma by a correspondence check.  Definitions only.

   Stricter than the crate's reader: reserved bits, minimal multibyte integers, optional sizes in
   the Block Header verified against the data, LZMA2 only (and always) last in the chain, Index
   Records equal to the real Unpadded/Uncompressed Sizes of the Blocks, Backward Size equal to the
   real Index size, Stream Padding a multiple of four bytes, nothing but Streams and padding. *)
From LzVerif Require Export Base.Bytes Format.Crc Format.Sha256.

Definition olet {A B} (x : option A) (f : A -> option B) : option B :=
  match x with Some a => f a | None => None end.
Notation "'olet!' x <- e ; f" := (olet e (fun x => f))
  (at level 200, x pattern, e at level 100, f at level 200, right associativity).
Definition guard (b : bool) : option unit := if b then Some tt else None.

Definition s_take (n : Z) (l : list Z) : option (list Z * list Z) :=
  if (n <? 0) || (zlen l <? n) then None else Some (firstn (Z.to_nat n) l, skipn (Z.to_nat n) l).

Definition s_eqb (a b : list Z) : bool :=
  (zlen a =? zlen b) && forallb (fun p => fst p =? snd p) (combine a b).
Definition s_all_zero (l : list Z) : bool := forallb (fun b => b =? 0) l.

(* 1.2 Multibyte Integers: 1-9 bytes, seven bits per byte, least significant group first, the
   high bit set on all but the last byte; the encoding must be the shortest one (a last byte of
   0x00 is allowed only for the one-byte encoding of 0).  [size_max] bounds the bytes available. *)
Fixpoint s_vli_loop (n : nat) (l : list Z) (i : Z) (num : Z) : option (Z * list Z) :=
  match n with
  | O => None
  | S k =>
      match l with
      | [] => None
      | b :: t =>
          if (0 <? i) && (b =? 0) then None else
          let num1 := num + (b mod 128) * 2 ^ (7 * i) in
          if b <? 128 then Some (num1, t) else s_vli_loop k t (i + 1) num1
      end
  end.
Definition s_vli (l : list Z) : option (Z * list Z) := s_vli_loop 9 l 0 0.

(* 2.1.1.2 Stream Flags: first byte null; second byte: bits 0-3 Check ID, bits 4-7 reserved (0) *)
Definition s_check_size (id : Z) : Z :=
  if id =? 0 then 0 else if id <=? 3 then 4 else if id <=? 6 then 8 else if id <=? 9 then 16
  else if id <=? 12 then 32 else 64.
Definition s_check_supported (id : Z) : bool := (id =? 0) || (id =? 1) || (id =? 4) || (id =? 10).
Definition s_check_value (id : Z) (data : list Z) : list Z :=
  if id =? 1 then le_bytes 4 (crc32 data)
  else if id =? 4 then le_bytes 8 (crc64 data)
  else if id =? 10 then sha256 data
  else [].

Definition S_HEADER_MAGIC : list Z := [253; 55; 122; 88; 90; 0].
Definition S_FOOTER_MAGIC : list Z := [89; 90].

(* 2.1.1 Stream Header: magic, flags, CRC32 of the flags.  Result: check id. *)
Definition s_stream_header (lenient : bool) (l : list Z) : option (Z * list Z) :=
  olet! (magic, r1) <- s_take 6 l;
  olet! _ <- guard (s_eqb magic S_HEADER_MAGIC);
  olet! (flags, r2) <- s_take 2 r1;
  olet! (crc, r3) <- s_take 4 r2;
  olet! _ <- guard (le_value crc =? crc32 flags);
  match flags with
  | [f0; f1] =>
      olet! _ <- guard ((f0 =? 0) && (f1 <? 16));
      olet! _ <- guard (lenient || s_check_supported f1);
      Some (f1, r3)
  | _ => None
  end.

(* 5.3 Filters.  LZMA2 (0x21): one property byte, bits 0-5 dictionary size (0..40), bits 6-7
   reserved; only as the last filter.  Delta (0x03): one byte, distance - 1; BCJ (0x04-0x0B):
   no properties or a four-byte start offset that is a multiple of the filter's alignment; both
   only as non-last filters. *)
Inductive sfilter := SDelta (dist : Z) | SBcj (id start : Z) | SLzma2 (dict : Z).

Definition s_bcj_align (id : Z) : Z :=
  if id =? 4 then 1 else if id =? 5 then 4 else if id =? 6 then 16 else if id =? 7 then 4
  else if id =? 8 then 2 else if id =? 9 then 4 else if id =? 10 then 4 else 2.

Definition s_lzma2_dict (bits : Z) : Z :=
  if bits =? 40 then 4294967295 else (2 + bits mod 2) * 2 ^ (bits / 2 + 11).

Definition s_filter (id : Z) (props : list Z) : option sfilter :=
  if id =? 33 then
    match props with [p] => if p <=? 40 then Some (SLzma2 (s_lzma2_dict p)) else None | _ => None end
  else if id =? 3 then
    match props with [p] => Some (SDelta (p + 1)) | _ => None end
  else if (4 <=? id) && (id <=? 11) then
    match props with
    | [] => Some (SBcj id 0)
    | [_; _; _; _] => let v := le_value props in if v mod s_bcj_align id =? 0 then Some (SBcj id v) else None
    | _ => None
    end
  else None.

Definition s_is_lzma2 (f : sfilter) : bool := match f with SLzma2 _ => true | _ => false end.

Fixpoint s_filter_flags (n : nat) (l : list Z) : option (list sfilter * list Z) :=
  match n with
  | O => Some ([], l)
  | S k =>
      olet! (id, r1) <- s_vli l;
      olet! (psize, r2) <- s_vli r1;
      olet! (props, r3) <- s_take psize r2;
      olet! f <- s_filter id props;
      (* LZMA2 exactly in the last position *)
      olet! _ <- guard (Bool.eqb (s_is_lzma2 f) (match k with O => true | _ => false end));
      olet! (fs, r4) <- s_filter_flags k r3;
      Some (f :: fs, r4)
  end.

Record sblockhdr := mkSblockhdr { sb_size : Z; sb_csize : option Z; sb_usize : option Z; sb_filters : list sfilter }.

(* 3.1 Block Header.  [l] starts at the Block Header Size byte, which is not 0x00. *)
Definition s_block_header (l : list Z) : option (sblockhdr * list Z) :=
  match l with
  | [] => None
  | enc :: _ =>
      let size := (enc + 1) * 4 in                      (* 3.1.1: real size, 8..1024 *)
      olet! (hdr, rest) <- s_take size l;
      olet! (body, crc) <- s_take (size - 4) hdr;
      olet! _ <- guard (le_value crc =? crc32 body);    (* 3.1.7 *)
      match body with
      | _ :: flags :: f0 =>
          (* 3.1.2 Block Flags: bits 0-1 filters - 1, bits 2-5 reserved, 6/7 optional sizes *)
          olet! _ <- guard ((flags / 4) mod 16 =? 0);
          let nf := flags mod 4 + 1 in
          olet! (cs, f1) <- (if 64 <=? flags mod 128
                             then olet! (v, r) <- s_vli f0; olet! _ <- guard (0 <? v); Some (Some v, r)
                             else Some (None, f0));
          olet! (us, f2) <- (if 128 <=? flags
                             then olet! (v, r) <- s_vli f1; Some (Some v, r)
                             else Some (None, f1));
          olet! (fs, f3) <- s_filter_flags (Z.to_nat nf) f2;
          olet! _ <- guard (s_all_zero f3);              (* 3.1.6 Header Padding *)
          Some (mkSblockhdr size cs us fs, rest)
      | _ => None
      end
  end.

Definition s_pad4 (n : Z) : Z := (4 - n mod 4) mod 4.

Section Spec.
  (* decoding of a Block's Compressed Data through its filter chain: (uncompressed data, rest) *)
  Variable sdec : list sfilter -> list Z -> option (list Z * list Z).

  (* 3. Blocks of one Stream, up to the Index Indicator; collects the data (newest first) and the
     (Unpadded Size, Uncompressed Size) of each Block *)
  Fixpoint s_blocks (fuel : nat) (check : Z) (l : list Z) (acc : list Z) (recs : list (Z * Z))
    : option (list Z * list (Z * Z) * list Z) :=
    match fuel with
    | O => None
    | S f =>
        match l with
        | [] => None
        | b :: _ =>
            if b =? 0 then Some (acc, frev recs, l) else
            olet! (h, r1) <- s_block_header l;
            olet! (data, r2) <- sdec (sb_filters h) r1;
            let csize := zlen r1 - zlen r2 in
            olet! _ <- guard (match sb_csize h with Some v => v =? csize | None => true end);
            olet! _ <- guard (match sb_usize h with Some v => v =? zlen data | None => true end);
            olet! (pad, r3) <- s_take (s_pad4 csize) r2;        (* 3.3 Block Padding *)
            olet! _ <- guard (s_all_zero pad);
            olet! (chk, r4) <- s_take (s_check_size check) r3;  (* 3.4 Check *)
            olet! _ <- guard (negb (s_check_supported check) || s_eqb chk (s_check_value check data));
            s_blocks f check r4 (rev_append data acc)
                     ((sb_size h + csize + s_check_size check, zlen data) :: recs)
        end
    end.

  (* 4.3 List of Records: must describe the Blocks, in order *)
  Fixpoint s_index_records (recs : list (Z * Z)) (l : list Z) : option (list Z) :=
    match recs with
    | [] => Some l
    | (unpadded, uncompressed) :: t =>
        olet! (a, r1) <- s_vli l;
        olet! (b, r2) <- s_vli r1;
        olet! _ <- guard ((a =? unpadded) && (b =? uncompressed));
        s_index_records t r2
    end.

  (* 4. Index: indicator, number of records, records, padding, CRC32.  Result: size of the Index *)
  Definition s_index (recs : list (Z * Z)) (l : list Z) : option (Z * list Z) :=
    match l with
    | 0 :: r0 =>
        olet! (n, r1) <- s_vli r0;
        olet! _ <- guard (n =? zlen recs);
        olet! r2 <- s_index_records recs r1;
        let used := zlen l - zlen r2 in
        olet! (pad, r3) <- s_take (s_pad4 used) r2;
        olet! _ <- guard (s_all_zero pad);
        olet! (crc, r4) <- s_take 4 r3;
        olet! _ <- guard (le_value crc =? crc32 (firstn (Z.to_nat (used + s_pad4 used)) l));
        Some (used + s_pad4 used + 4, r4)
    | _ => None
    end.

  (* 2.1.2 Stream Footer *)
  Definition s_footer (check index_size : Z) (l : list Z) : option (list Z) :=
    olet! (crc, r1) <- s_take 4 l;
    olet! (bw, r2) <- s_take 4 r1;
    olet! (flags, r3) <- s_take 2 r2;
    olet! (magic, r4) <- s_take 2 r3;
    olet! _ <- guard (le_value crc =? crc32 (bw ++ flags));
    olet! _ <- guard ((le_value bw + 1) * 4 =? index_size);
    olet! _ <- guard (s_eqb flags [0; check]);
    olet! _ <- guard (s_eqb magic S_FOOTER_MAGIC);
    Some r4.

  (* 2. one Stream: (data newest first, rest) *)
  Definition s_stream (lenient : bool) (l : list Z) (acc : list Z) : option (list Z * list Z) :=
    olet! (check, r1) <- s_stream_header lenient l;
    olet! (acc1, recs, r2) <- s_blocks (S (length r1)) check r1 acc [];
    olet! (isize, r3) <- s_index recs r2;
    olet! r4 <- s_footer check isize r3;
    Some (acc1, r4).

  (* 2.2 Stream Padding: null bytes, a multiple of four *)
  Fixpoint s_strip_zeros (l : list Z) (n : Z) : Z * list Z :=
    match l with
    | b :: t => if b =? 0 then s_strip_zeros t (n + 1) else (n, l)
    | [] => (n, [])
    end.

  (* a file: one or more Streams, each possibly followed by Stream Padding; nothing else *)
  Fixpoint s_streams (fuel : nat) (lenient : bool) (l : list Z) (acc : list Z) : option (list Z) :=
    match fuel with
    | O => None
    | S f =>
        olet! (acc1, r1) <- s_stream lenient l acc;
        let '(n, r2) := s_strip_zeros r1 0 in
        olet! _ <- guard (n mod 4 =? 0);
        match r2 with
        | [] => Some (frev acc1)
        | _ => s_streams f lenient r2 acc1
        end
    end.

  (* [lenient] = also accept the reserved-but-sized Check IDs, skipping their verification, as a
     decoder "MAY" do (liblzma does); with [false] only None/CRC32/CRC64/SHA-256 are accepted *)
  Definition xz_spec_decode (lenient : bool) (l : list Z) : option (list Z) :=
    s_streams (S (length l)) lenient l [].

  (* only the first Stream; returns the data and what follows the Stream Footer *)
  Definition xz_spec_decode_first (lenient : bool) (l : list Z) : option (list Z * list Z) :=
    olet! (acc, r) <- s_stream lenient l []; Some (frev acc, r).
End Spec.

(* ------------------------------------------------------------------------------------------- *)
(* lzip: "File format" of the lzip manual.  Member = ID string "LZIP", VN (1), DS (coded
   dictionary size: bits 4-0 log2 of the base size 12..29, bits 7-5 number of sixteenths of the base
   size to subtract, valid sizes 4 KiB..512 MiB), LZMA stream (lc=3, lp=0, pb=2) terminated by an
   End Of Stream marker, CRC32 / Data size / Member size (little endian).  Members are simply
   concatenated; after the last member there may be trailing data, which does not begin with the
   ID string. *)
Definition LZ_ID : list Z := [76; 90; 73; 80].

Definition s_lz_dict (ds : Z) : option Z :=
  let log := ds mod 32 in
  let frac := ds / 32 in
  if (log <? 12) || (29 <? log) then None else
  let size := 2 ^ log - frac * 2 ^ (log - 4) in
  if (size <? 4096) || (536870912 <? size) then None else Some size.

Section LzSpec.
  (* decoding of an LZMA stream with end marker for a dictionary size: (data, rest) *)
  Variable sdec1 : Z -> list Z -> option (list Z * list Z).

  Definition s_lz_member (l : list Z) : option (list Z * list Z) :=
    olet! (id, r1) <- s_take 4 l;
    olet! _ <- guard (s_eqb id LZ_ID);
    match r1 with
    | vn :: ds :: r2 =>
        olet! _ <- guard (vn =? 1);
        olet! dict <- s_lz_dict ds;
        olet! (data, r3) <- sdec1 dict r2;
        olet! (crc, r4) <- s_take 4 r3;
        olet! (dsize, r5) <- s_take 8 r4;
        olet! (msize, r6) <- s_take 8 r5;
        olet! _ <- guard (le_value crc =? crc32 data);
        olet! _ <- guard (le_value dsize =? zlen data);
        olet! _ <- guard (le_value msize =? zlen l - zlen r6);
        Some (data, r6)
    | _ => None
    end.

  Definition s_lz_has_id (l : list Z) : bool :=
    match s_take 4 l with Some (id, _) => s_eqb id LZ_ID | None => false end.

  (* (data, trailing data) *)
  Fixpoint s_lz_members (fuel : nat) (l : list Z) (acc : list Z) : option (list Z * list Z) :=
    match fuel with
    | O => None
    | S f =>
        olet! (data, r) <- s_lz_member l;
        let acc1 := rev_append data acc in
        if s_lz_has_id r then s_lz_members f r acc1 else Some (frev acc1, r)
    end.

  Definition lz_spec_decode (l : list Z) : option (list Z * list Z) :=
    s_lz_members (S (length l)) l [].
End LzSpec.
