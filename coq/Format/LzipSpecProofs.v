(* Format/LzipSpecProofs.v — C03 for LZIP against the independent format specification
   (Format/XzSpec.v, section lzip):
   C03_out: every file the LZIP writer model produces is valid per the specification and the
            specification decodes it to the data written;
   C03_in:  every file the specification accepts (version 1 members; trailing data that is not a
            proper prefix of the member magic - lzip(1) calls that a truncated header) is accepted by
            the crate's reader model with the same data. *)
From LzVerif Require Import Base.Bytes Format.Crc Format.CrcProofs Format.LzipDict Format.LzipDictProofs
  Format.XzFormat Format.LzipFormat Format.XzSpec Format.XzSplitProofs Format.XzHeaderProofs
  Format.VliProofs Format.LzipSplitProofs Format.LzipProofs Format.XzSpecProofs Format.BitflipProofs Format.XzSoundProofs.
Ltac Zify.zify_post_hook ::= Z.div_mod_to_equations.

(* the dictionary-size byte: specification and crate agree on all 256 values *)
Lemma lz_dict_byte_agree : forall b, 0 <= b < 256 ->
  match lzip_decode_dict_size b, s_lz_dict b with
  | Ok d, Some d' => d = d'
  | Err _, None => True
  | _, _ => False
  end.
Proof.
  intros b Hb.
  assert (S : forallb (fun q => match lzip_decode_dict_size q, s_lz_dict q with
                                | Ok d, Some d' => d =? d' | Err _, None => true | _, _ => false end) bytes256 = true)
    by (vm_compute; reflexivity).
  pose proof (byte_sweep _ S b Hb) as X. cbv beta in X.
  destruct (lzip_decode_dict_size b), (s_lz_dict b); try discriminate; try exact I. apply Z.eqb_eq. exact X.
Qed.

Section LzSpecProofs.
  Variable penc : Z -> list Z -> list Z.
  Variable pdec : Z -> list Z -> outcome (list Z * list Z).
  (* the specification's LZMA-stream decoder *)
  Variable sdec1 : Z -> list Z -> option (list Z * list Z).
  Hypothesis sdec_penc : forall d dd x tail, d <= dd -> sdec1 dd (penc d x ++ tail) = Some (x, tail).
  (* what the specification decodes, the crate's payload decoder decodes *)
  Hypothesis sdec_pdec : forall dd src r, sdec1 dd src = Some r -> pdec dd src = Ok r.
  (* decoding only consumes input *)
  Hypothesis sdec_suffix : forall dd src x r, sdec1 dd src = Some (x, r) -> suffix r src.

  Definition lm_ok_spec (m : lzm) : Prop := lm_ok penc m /\ 0 <= lm_byte m < 256.

  Lemma s_lz_member_rt m rest : lm_ok_spec m ->
    s_lz_member sdec1 (lm_bytes penc m ++ rest) = Some (lm_content m, rest).
  Proof.
    intros [((dd & Hd & Hle) & Hb & Hc64 & Hp64) Hbyte]. unfold lm_bytes, lz_member, s_lz_member. rewrite <- !app_assoc.
    rewrite (s_take_app_n 4 LZIP_MAGIC) by reflexivity. cbn [olet]. change (s_eqb LZIP_MAGIC LZ_ID) with true. cbn [guard olet app].
    cbn [Z.eqb Pos.eqb guard olet].
    pose proof (lz_dict_byte_agree (lm_byte m) Hbyte) as A. rewrite Hd in A.
    destruct (s_lz_dict (lm_byte m)) as [d'|]; [|contradiction]. subst d'. cbn [olet].
    rewrite sdec_penc by exact Hle. cbn [olet].
    set (payload := penc (lm_dict m) (lm_content m)) in *. set (c := lm_content m) in *.
    rewrite (s_take_app_n 4) by apply zlen_le_bytes. cbn [olet].
    rewrite (s_take_app_n 8) by apply zlen_le_bytes. cbn [olet].
    rewrite (s_take_app_n 8) by apply zlen_le_bytes. cbn [olet].
    pose proof (crc32_range c Hb) as Hcr. pose proof (zlen_nonneg c). pose proof (zlen_nonneg payload).
    change (2 ^ 64) with 18446744073709551616 in Hc64, Hp64. change (2 ^ 32) with 4294967296 in Hcr.
    unfold LZIP_HEADER_SIZE, LZIP_TRAILER_SIZE in *.
    rewrite !le_value_bytes;
      try (change (256 ^ Z.of_nat 8) with 18446744073709551616; change (256 ^ Z.of_nat 4) with 4294967296; lia).
    rewrite !Z.eqb_refl. cbn [guard olet].
    assert (Lm : zlen (LZIP_MAGIC ++ 1 :: lm_byte m :: payload ++ le_bytes 4 (crc32 c) ++ le_bytes 8 (zlen c) ++ le_bytes 8 (6 + zlen payload + 20) ++ rest)
                 - zlen rest = 6 + zlen payload + 20).
    { rewrite zlen_app, !zlen_cons, !zlen_app, !zlen_le_bytes. change (zlen LZIP_MAGIC) with 4. lia. }
    rewrite Lm, Z.eqb_refl. cbn [guard olet]. reflexivity.
  Qed.

  Lemma s_lz_has_id_member m rest : s_lz_has_id (lm_bytes penc m ++ rest) = true.
  Proof.
    unfold s_lz_has_id, lm_bytes, lz_member. rewrite <- !app_assoc. rewrite (s_take_app_n 4 LZIP_MAGIC) by reflexivity. reflexivity.
  Qed.

  (* C03_out (LZIP): a sequence of members as the writer produces them is valid per the
     specification, which returns their contents and no trailing data *)
  Theorem C03_out_lzip_members : forall m ms, Forall lm_ok_spec (m :: ms) ->
    lz_spec_decode sdec1 (lm_file penc (m :: ms)) = Some (lm_data (m :: ms), []).
  Proof.
    intros m ms Hok. unfold lz_spec_decode.
    assert (G : forall ms0 m0 fuel acc, Forall lm_ok_spec (m0 :: ms0) -> (length ms0 < fuel)%nat ->
              s_lz_members sdec1 fuel (lm_file penc (m0 :: ms0)) acc = Some (frev (rev_append (lm_data (m0 :: ms0)) acc), [])).
    { induction ms0 as [|m1 ms1 IH]; intros m0 fuel acc Hk Hf; destruct fuel as [|fuel]; try (cbn in Hf; lia);
        inversion Hk as [|x l Hm0 Hrest]; subst x l.
      - unfold lm_file, lm_data. cbn [map concat s_lz_members]. rewrite (s_lz_member_rt m0 [] Hm0). cbn [olet s_lz_has_id s_take].
        rewrite !app_nil_r. reflexivity.
      - unfold lm_file, lm_data. cbn [map concat s_lz_members]. fold (lm_file penc (m1 :: ms1)). fold (lm_data (m1 :: ms1)).
        rewrite (s_lz_member_rt m0 _ Hm0). cbn [olet].
        rewrite s_lz_has_id_member.
        change (lm_bytes penc m1 ++ concat (map (lm_bytes penc) ms1)) with (lm_file penc (m1 :: ms1)).
        change (lm_content m1 :: map lm_content ms1) with (map lm_content (m1 :: ms1)).
        fold (lm_data (m1 :: ms1)).
        rewrite IH; [|exact Hrest | cbn [length] in Hf; lia].
        rewrite !frev_rev, !rev_append_rev. repeat rewrite ?rev_app_distr, ?rev_involutive, <- ?app_assoc. reflexivity. }
    rewrite G; [|exact Hok|].
    - rewrite frev_rev, rev_append_rev, rev_app_distr, rev_involutive. cbn [rev app]. reflexivity.
    - pose proof (lm_file_len penc (m :: ms)) as Hl. rewrite zlen_cons in Hl. unfold zlen in Hl. lia.
  Qed.

  (* C03_out (LZIP), at the level of the writer *)
  Theorem C03_out_lzip_thm : forall o0 parts f,
    bytes_ok (concat parts) = true ->
    (forall members, lz_members_of (lo_member_size (lzw_new o0)) parts = Ok members ->
                     lz_sizes_ok penc (lo_dict (lzw_new o0)) members) ->
    match lo_member_size o0 with Some m => 1 <= m | None => True end ->
    lz_encode penc o0 parts = Ok f ->
    lz_spec_decode sdec1 f = Some (concat parts, []).
  Proof.
    intros o0 parts f Hb Hsz Hms E.
    assert (PP : forall d dd x tail, d <= dd -> pdec dd (penc d x ++ tail) = Ok (x, tail))
      by (intros d dd x tail Hd; apply sdec_pdec, sdec_penc, Hd).
    destruct (lz_encode_shape penc pdec PP o0 parts f Hb Hsz Hms E) as (byte & c & cs & Hbyte & Ef & Hok & Hcat).
    subst f. cbn [map] in *. rewrite C03_out_lzip_members.
    - change (mkLzm byte (lo_dict (lzw_new o0)) c :: map (fun c0 => mkLzm byte (lo_dict (lzw_new o0)) c0) cs)
        with (map (fun c0 => mkLzm byte (lo_dict (lzw_new o0)) c0) (c :: cs)).
      rewrite concat_map_content, Hcat. reflexivity.
    - clear - Hok Hbyte. inversion Hok as [|x l H1 H2]; subst. constructor; [split; [exact H1 | exact Hbyte]|].
      clear - H2 Hbyte. induction cs as [|c0 cs0 IH]; [constructor|]. cbn [map] in *. inversion H2; subst.
      constructor; [split; [assumption | exact Hbyte] | apply IH; assumption].
  Qed.

  (* C03_in (LZIP): lockstep of the specification's member loop and the reader's *)
  Lemma s_lz_member_inv l data r : s_lz_member sdec1 l = Some (data, r) ->
    exists ds dict r2 cb db mb, l = LZIP_MAGIC ++ [1; ds] ++ r2 /\ s_lz_dict ds = Some dict /\
      sdec1 dict r2 = Some (data, cb ++ db ++ mb ++ r) /\ zlen cb = 4 /\ zlen db = 8 /\ zlen mb = 8 /\
      le_value cb = crc32 data /\ le_value db = zlen data /\ le_value mb = zlen l - zlen r.
  Proof.
    unfold s_lz_member. intros H.
    destruct (s_take 4 l) as [[id r1]|] eqn:E1; [|discriminate]. cbn [olet] in H.
    destruct (s_eqb id LZ_ID) eqn:Eid; [|discriminate]. cbn [guard olet] in H.
    destruct r1 as [|vn [|ds r2]]; try discriminate.
    destruct (Z.eqb_spec vn 1) as [->|]; [|discriminate]. cbn [guard olet] in H.
    destruct (s_lz_dict ds) as [dict|] eqn:Ed; [|discriminate]. cbn [olet] in H.
    destruct (sdec1 dict r2) as [[dt r3]|] eqn:Es; [|discriminate]. cbn [olet] in H.
    destruct (s_take 4 r3) as [[cb r4]|] eqn:E4; [|discriminate]. cbn [olet] in H.
    destruct (s_take 8 r4) as [[db r5]|] eqn:E5; [|discriminate]. cbn [olet] in H.
    destruct (s_take 8 r5) as [[mb r6]|] eqn:E6; [|discriminate]. cbn [olet] in H.
    destruct (Z.eqb_spec (le_value cb) (crc32 dt)); [|discriminate]. cbn [guard olet] in H.
    destruct (Z.eqb_spec (le_value db) (zlen dt)); [|discriminate]. cbn [guard olet] in H.
    destruct (Z.eqb_spec (le_value mb) (zlen l - zlen r6)); [|discriminate]. cbn [guard olet] in H.
    inversion H; subst dt r6.
    assert (T : forall n src a b, s_take n src = Some (a, b) -> src = a ++ b /\ zlen a = n).
    { intros n src a b Ht. unfold s_take in Ht. destruct (Z.ltb_spec n 0); [discriminate|].
      destruct (Z.ltb_spec (zlen src) n); [discriminate|]. cbn [orb] in Ht. inversion Ht; subst.
      split; [symmetry; apply firstn_skipn | apply zlen_firstn; lia]. }
    apply T in E1 as [E1 L1]. apply T in E4 as [E4 L4]. apply T in E5 as [E5 L5]. apply T in E6 as [E6 L6].
    assert (id = LZ_ID).
    { unfold s_eqb in Eid. apply andb_true_iff in Eid as [El Ef]. apply Z.eqb_eq in El.
      apply bytes_eqb_eq. unfold bytes_eqb. rewrite Ef. unfold zlen in El. replace (length id =? length LZ_ID)%nat with true; [reflexivity|].
      symmetry. apply Nat.eqb_eq. lia. }
    subst id. exists ds, dict, r2, cb, db, mb. subst r3 r4 r5.
    split; [rewrite E1; reflexivity|]. auto 10.
  Qed.

  Lemma suffix_zlen a b : suffix a b -> zlen a <= zlen b.
  Proof. intros (p & ->). rewrite zlen_app. pose proof (zlen_nonneg p). lia. Qed.

  Lemma bytes_ok_suffix a b : suffix a b -> bytes_ok b = true -> bytes_ok a = true.
  Proof. intros (p & ->) Hb. rewrite bytes_ok_app in Hb. apply andb_true_iff in Hb as [_ Ha]. exact Ha. Qed.

  (* C03_in (LZIP) *)
  Theorem C03_in_lzip_thm : forall l d t, bytes_ok l = true ->
    lz_spec_decode sdec1 l = Some (d, t) ->
    (t = [] \/ lz_bytes_eqb (firstn 4 t) (firstn (length (firstn 4 t)) LZIP_MAGIC) = false) ->
    lz_decode pdec lz_fixed l = Ok (d, skipn 4 t).
  Proof.
    intros l d t Hbl H Ht. unfold lz_spec_decode in H. unfold lz_decode.
    assert (G : forall fs l0 acc first fc, bytes_ok l0 = true -> s_lz_members sdec1 fs l0 acc = Some (d, t) -> (length l0 < fc)%nat ->
              lzd_members pdec fc lz_fixed first l0 acc = Ok (d, skipn 4 t)).
    { induction fs as [|fs IH]; intros l0 acc first fc Hb0 Hs Hf; [discriminate|]. cbn [s_lz_members] in Hs.
      destruct (s_lz_member sdec1 l0) as [[data r]|] eqn:Em; [|discriminate]. cbn [olet] in Hs.
      apply s_lz_member_inv in Em as (ds & dict & r2 & cb & db & mb & El & Ed & Es & L1 & L2 & L3 & V1 & V2 & V3).
      destruct fc as [|fc]; [lia|]. cbn [lzd_members]. rewrite El.
      assert (Hds : lzip_decode_dict_size ds = Ok dict).
      { assert (Hbyte : 0 <= ds < 256).
        { rewrite El in Hb0. unfold LZIP_MAGIC in Hb0. cbn [app] in Hb0.
          do 5 (apply bok_cons in Hb0 as [_ Hb0]). apply bok_cons in Hb0 as [Hd _]. exact Hd. }
        pose proof (lz_dict_byte_agree ds Hbyte) as A. rewrite Ed in A.
        destruct (lzip_decode_dict_size ds); try contradiction. subst. reflexivity. }
      rewrite (lz_header_ok first ds dict) by exact Hds. cbn [obind].
      rewrite (sdec_pdec _ _ _ Es). cbn [obind].
      assert (Ll0 : zlen l0 = 6 + zlen r2).
      { rewrite El, !zlen_app. change (zlen LZIP_MAGIC) with 4. change (zlen [1; ds]) with 2. lia. }
      assert (Lt : zlen (cb ++ db ++ mb ++ r) = 20 + zlen r) by (rewrite !zlen_app; lia).
      unfold lz_check_trailer.
      rewrite (lz_take_app_n 4) by exact L1. cbn [obind]. rewrite (lz_take_app_n 8) by exact L2. cbn [obind].
      rewrite (lz_take_app_n 8) by exact L3. cbn [obind].
      rewrite V1, V2, V3, Lt, Ll0. rewrite !Z.eqb_refl. cbn [negb].
      unfold LZIP_HEADER_SIZE, LZIP_TRAILER_SIZE.
      destruct (Z.eqb_spec (6 + zlen r2 - zlen r) (6 + (zlen r2 - (20 + zlen r)) + 20)); [|lia]. cbn [negb obind].
      (* the rest of the input is shorter *)
      apply sdec_suffix in Es.
      assert (Hbr : bytes_ok r = true).
      { apply (bytes_ok_suffix r l0); [|exact Hb0]. rewrite El.
        eapply suffix_trans; [|exists (LZIP_MAGIC ++ [1; ds]); rewrite <- app_assoc; reflexivity].
        eapply suffix_trans; [|exact Es]. exists (cb ++ db ++ mb). rewrite <- !app_assoc. reflexivity. }
      apply suffix_zlen in Es. rewrite Lt in Es.
      assert (Hfr : (length r < fc)%nat) by (unfold zlen in *; lia).
      destruct (s_lz_has_id r) eqn:Eid.
      - apply IH; assumption.
      - inversion Hs; subst d t. clear IH.
        destruct fc as [|fc]; [lia|]. cbn [lzd_members lz_parse_header fz6 lz_fixed]. unfold lz_parse_header_fixed.
        destruct (firstn 4 r) as [|m0 ms] eqn:E4.
        + cbn [obind]. destruct r; [reflexivity | discriminate].
        + destruct Ht as [Ht|Hm]; [subst; discriminate|]. try rewrite E4 in Hm. rewrite Hm. cbn [negb obind]. reflexivity. }
    apply (G _ _ _ _ _ Hbl H). lia.
  Qed.
End LzSpecProofs.
