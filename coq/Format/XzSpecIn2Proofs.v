(* Format/XzSpecIn2Proofs.v — C03_in (XZ), part 2: multibyte integers accepted by the specification
   are the canonical encodings; the Block Header accepted by the specification (Format/XzSpec.v) is
   parsed by BlockHeader::parse of the crate (xz_parse_block_header) to the same sizes and to the
   filter chain the specification sees ([map spec_filter]). *)
From LzVerif Require Import Base.Bytes Format.Crc Format.CrcProofs Format.Vli Format.VliProofs
  Format.XzFormat Format.XzSpec Format.XzSplitProofs Format.XzHeaderProofs Format.BitflipProofs
  Format.XzSoundProofs Format.XzSpecProofs Format.XzSpecInProofs.
Ltac Zify.zify_post_hook ::= Z.div_mod_to_equations.

Lemma sfx_zlen a b : suffix a b -> zlen a <= zlen b.
Proof. intros (p & ->). rewrite zlen_app. pose proof (zlen_nonneg p). lia. Qed.

Lemma sfx_bytes_ok a b : suffix a b -> bytes_ok b = true -> bytes_ok a = true.
Proof. intros (p & ->) Hb. rewrite bytes_ok_app in Hb. apply andb_true_iff in Hb as [_ Ha]. exact Ha. Qed.

Lemma sfx_app p a : suffix a (p ++ a).
Proof. exists p. reflexivity. Qed.

Lemma bok_app a b : bytes_ok (a ++ b) = true -> bytes_ok a = true /\ bytes_ok b = true.
Proof. rewrite bytes_ok_app. intros H. apply andb_true_iff in H. exact H. Qed.

(* ------------------------------------------------------------------------------------------- *)
(* multibyte integers *)

(* more input behind the integer changes nothing *)
Lemma s_vli_loop_app : forall n l i num v r x,
  s_vli_loop n l i num = Some (v, r) -> s_vli_loop n (l ++ x) i num = Some (v, r ++ x).
Proof.
  induction n as [|n IH]; intros l i num v r x H; [discriminate|].
  destruct l as [|b t]; [discriminate|]. rewrite s_vli_loop_S in H. cbn [app]. rewrite s_vli_loop_S.
  destruct ((0 <? i) && (b =? 0)); [discriminate|].
  destruct (b <? 128).
  - inversion H; subst. reflexivity.
  - apply IH. exact H.
Qed.

Lemma s_vli_app l v r x : s_vli l = Some (v, r) -> s_vli (l ++ x) = Some (v, r ++ x).
Proof. apply s_vli_loop_app. Qed.

(* the accepted encoding is the one encode_multibyte_integer writes *)
Lemma s_vli_loop_canon : forall n l i num v r room,
  bytes_ok l = true -> 0 <= i -> (n <= room)%nat ->
  s_vli_loop n l i num = Some (v, r) ->
  exists w, v = num + w * 2 ^ (7 * i) /\ l = vli_encode_loop room w ++ r /\
            0 <= w < 128 ^ Z.of_nat n /\ (0 < i -> 0 < w).
Proof.
  induction n as [|n IH]; intros l i num v r room Hb Hi Hr H; [discriminate|].
  destruct l as [|b t]; [discriminate|]. rewrite s_vli_loop_S in H.
  apply bok_cons in Hb as [Hbb Hbt].
  destruct room as [|room]; [lia|].
  destruct ((0 <? i) && (b =? 0)) eqn:Enm; [discriminate|].
  rewrite pow128_succ.
  assert (Hp : 0 < 128 ^ Z.of_nat n) by (apply Z.pow_pos_nonneg; lia).
  destruct (Z.ltb_spec b 128) as [Hlt|Hge].
  - inversion H; subst v r. exists b. rewrite Z.mod_small by lia.
    split; [reflexivity|]. split.
    + cbn [vli_encode_loop]. destruct (Z.leb_spec 128 b); [lia|]. rewrite Z.mod_small by lia. reflexivity.
    + split; [nia|]. intros Hi0. destruct (Z.ltb_spec 0 i); [|lia]. destruct (Z.eqb_spec b 0); [discriminate|]. lia.
  - destruct (IH t (i + 1) (num + b mod 128 * 2 ^ (7 * i)) v r room Hbt ltac:(lia) ltac:(lia) H) as (w' & Ev & Et & Hw' & Hpos).
    specialize (Hpos ltac:(lia)).
    exists (b mod 128 + 128 * w').
    assert (P7 : 2 ^ (7 * (i + 1)) = 128 * 2 ^ (7 * i)).
    { replace (7 * (i + 1)) with (7 * i + 7) by lia. apply pow2_plus7. lia. }
    split; [rewrite Ev, P7; ring|]. split.
    + cbn [vli_encode_loop]. destruct (Z.leb_spec 128 (b mod 128 + 128 * w')); [|lia].
      replace ((b mod 128 + 128 * w') / 128) with w' by lia.
      destruct (cont_byte_spec (b mod 128 + 128 * w') ltac:(lia)) as (C1 & C3). cbv zeta in C1, C3.
      set (b' := Z.lor ((b mod 128 + 128 * w') mod 256) 128) in *.
      assert (Eb : b' = b).
      { assert (b' mod 128 = b mod 128) by (rewrite C1; lia). lia. }
      rewrite Eb, Et. reflexivity.
    + split; [nia | lia].
Qed.

Theorem s_vli_canon l v r : bytes_ok l = true -> s_vli l = Some (v, r) ->
  0 <= v <= U63_MAX /\ l = vli_bytes v ++ r /\ vli_size_value v = zlen l - zlen r /\ 1 <= zlen l - zlen r <= 9.
Proof.
  intros Hb H. unfold s_vli in H.
  destruct (s_vli_loop_canon 9 l 0 0 v r 10 Hb ltac:(lia) ltac:(lia) H) as (w & Ev & El & Hw & _).
  change (2 ^ (7 * 0)) with 1 in Ev. assert (v = w) by lia. subst w.
  assert (Hv : 0 <= v <= U63_MAX) by (pose proof u63_pow; lia).
  split; [exact Hv|]. fold (vli_bytes v) in El. split; [exact El|].
  destruct (vli_roundtrip v [] Hv) as (_ & _ & _ & _ & Sv & Lv & _).
  assert (Ll : zlen l = zlen (vli_bytes v) + zlen r) by (rewrite El at 1; apply zlen_app). lia.
Qed.

(* ------------------------------------------------------------------------------------------- *)
(* one entry of the List of Filter Flags *)

Lemma byte_flag_facts : forall b, 0 <= b < 256 ->
  ((Z.land b 3 =? b mod 4) && (Bool.eqb (negb (Z.land b 64 =? 0)) (64 <=? b mod 128)) &&
   (Bool.eqb (negb (Z.land b 128 =? 0)) (128 <=? b))) = true.
Proof. apply byte_sweep. vm_compute. reflexivity. Qed.

Lemma xz_decode_dict_spec p : 0 <= p <= 40 -> xz_decode_dict p = Ok (s_lzma2_dict p).
Proof.
  intros Hp. assert (E : exists dd, xz_decode_dict p = Ok dd).
  { unfold xz_decode_dict. destruct (Z.ltb_spec 40 p); [lia|]. destruct (p =? 40); eexists; reflexivity. }
  destruct E as (dd & E). rewrite E. f_equal. symmetry. apply s_lzma2_dict_eq; assumption.
Qed.

Lemma s_filter_id_cases id props f : s_filter id props = Some f ->
  id = 33 \/ id = 3 \/ id = 4 \/ id = 5 \/ id = 6 \/ id = 7 \/ id = 8 \/ id = 9 \/ id = 10 \/ id = 11.
Proof.
  unfold s_filter. intros H. destruct (Z.eqb_spec id 33); [lia|]. destruct (Z.eqb_spec id 3); [lia|].
  destruct (Z.leb_spec 4 id); destruct (Z.leb_spec id 11); cbn [andb] in H; try discriminate. lia.
Qed.

(* [l] = rest of the header body at a filter; [x] = what follows the body (the CRC32 field) *)
Lemma s_filter_crate l x id r1 psize r2 props r3 f :
  bytes_ok l = true ->
  s_vli l = Some (id, r1) -> s_vli r1 = Some (psize, r2) -> s_take psize r2 = Some (props, r3) ->
  s_filter id props = Some f ->
  exists fk prop, vli_parse_slice (l ++ x) = Ok id /\ fkind_of_id id = Some fk /\
    bh_filter_props fk (vli_skip (l ++ x)) = Ok (prop, r3 ++ x) /\ spec_filter (fk, prop) = f /\
    fkind_is_lzma2 fk = s_is_lzma2 f /\ bytes_ok r3 = true /\ zlen r3 + 2 <= zlen l.
Proof.
  intros Hb Hid Hps Htk Hf.
  destruct (s_vli_crate l id r1 Hb Hid) as (_ & _ & _ & _ & Sf1).
  pose proof (sfx_bytes_ok _ _ Sf1 Hb) as Hb1.
  destruct (s_vli_crate r1 psize r2 Hb1 Hps) as (_ & _ & _ & _ & Sf2).
  pose proof (sfx_bytes_ok _ _ Sf2 Hb1) as Hb2.
  destruct (s_vli_canon l id r1 Hb Hid) as (_ & _ & _ & Ln1).
  destruct (s_vli_canon r1 psize r2 Hb1 Hps) as (_ & _ & _ & Ln2).
  apply s_take_inv in Htk as [Er2 Lp].
  assert (Hb3 : bytes_ok r3 = true) by (rewrite Er2 in Hb2; apply bok_app in Hb2; apply Hb2).
  assert (Hbp : bytes_ok props = true) by (rewrite Er2 in Hb2; apply bok_app in Hb2; apply Hb2).
  assert (Ll : zlen r3 + 2 <= zlen l).
  { rewrite Er2, zlen_app in Ln2. pose proof (zlen_nonneg props). lia. }
  assert (Hbx : forall y, bytes_ok y = true -> bytes_ok (y ++ x) = true -> True) by auto.
  (* the crate's slice parsers on body ++ crc *)
  pose proof (s_vli_app l id r1 x Hid) as Hid'.
  pose proof (s_vli_app r1 psize r2 x Hps) as Hps'.
  assert (P1 : forall y v r, bytes_ok y = true -> s_vli y = Some (v, r) ->
               vli_parse_slice (y ++ x) = Ok v /\ vli_skip (y ++ x) = r ++ x).
  { intros y v r Hy Hs. unfold vli_parse_slice, vli_skip.
    destruct (s_vli_canon y v r Hy Hs) as (Hv & Ey & _ & _).
    rewrite Ey, <- app_assoc. destruct (vli_roundtrip v (r ++ x) Hv) as (_ & R2 & _ & R4 & _).
    split; [exact R2 | exact R4]. }
  destruct (P1 l id r1 Hb Hid) as [Q1 Q2]. destruct (P1 r1 psize r2 Hb1 Hps) as [Q3 Q4].
  assert (Hbv : bh_vli (r1 ++ x) = Ok (psize, r2 ++ x)) by (unfold bh_vli; rewrite Q3, Q4; reflexivity).
  assert (Hne : r1 ++ x <> []).
  { destruct r1; [discriminate|]. discriminate. }
  rewrite Q2.
  assert (Hprops : forall fk, bh_filter_props fk (r1 ++ x) =
            match fk with
            | FDelta => if negb (psize =? 1) then Err E_INVALID_DATA else
                        match r2 ++ x with [] => Err E_INVALID_DATA | b :: s2 => Ok (b + 1, s2) end
            | FLZMA2 => if negb (psize =? 1) then Err E_INVALID_DATA else
                        match r2 ++ x with [] => Err E_INVALID_DATA | b :: s2 => do d <- xz_decode_dict b; Ok (d, s2) end
            | k => if psize =? 0 then Ok (0, r2 ++ x)
                   else if psize =? 4 then
                     match r2 ++ x with
                     | b0 :: b1 :: b2 :: b3 :: s2 =>
                         let v := le_value [b0; b1; b2; b3] in
                         if negb (v mod bcj_alignment k =? 0) then Err E_INVALID_DATA else Ok (v, s2)
                     | _ => Err E_INVALID_DATA
                     end
                   else Err E_INVALID_DATA
            end).
  { intros fk. destruct (r1 ++ x) as [|y0 ys] eqn:Ey; [contradiction|].
    destruct fk; cbn [bh_filter_props]; rewrite Hbv; cbn [obind]; reflexivity. }
  pose proof (s_filter_id_cases id props f Hf) as Hc.
  unfold s_filter in Hf.
  destruct Hc as [->|[->|Hc]].
  - (* LZMA2 *)
    cbn [Z.eqb Pos.eqb] in Hf. destruct props as [|p [|? ?]]; try discriminate.
    destruct (Z.leb_spec p 40) as [Hp|]; [|discriminate]. inversion Hf; subst f. clear Hf.
    apply bok_cons in Hbp as [Hpb _]. change (zlen [p]) with 1 in Lp. subst psize.
    exists FLZMA2, (s_lzma2_dict p). split; [exact Q1|]. split; [reflexivity|]. split.
    + rewrite Hprops. rewrite Er2. cbn [Z.eqb Pos.eqb negb app]. rewrite xz_decode_dict_spec by lia. reflexivity.
    + split; [reflexivity|]. split; [reflexivity|]. split; assumption.
  - (* Delta *)
    cbn [Z.eqb Pos.eqb] in Hf. destruct props as [|p [|? ?]]; try discriminate. inversion Hf; subst f. clear Hf.
    change (zlen [p]) with 1 in Lp. subst psize.
    exists FDelta, (p + 1). split; [exact Q1|]. split; [reflexivity|]. split.
    + rewrite Hprops. rewrite Er2. cbn [Z.eqb Pos.eqb negb app]. reflexivity.
    + split; [reflexivity|]. split; [reflexivity|]. split; assumption.
  - (* BCJ *)
    assert (Hbcj : exists fk, fkind_of_id id = Some fk /\ fkind_id fk = id /\ fkind_is_bcj fk = true /\
                              bcj_alignment fk = s_bcj_align id).
    { destruct Hc as [->|[->|[->|[->|[->|[->|[->| ->]]]]]]];
        [exists FX86 | exists FPPC | exists FIA64 | exists FARM | exists FARMT | exists FSPARC | exists FARM64 | exists FRISCV];
        repeat split; reflexivity. }
    destruct Hbcj as (fk & Efk & Eid & Ebcj & Eal).
    assert (Hf' : match props with
                  | [] => Some (SBcj id 0)
                  | [_; _; _; _] => let v := le_value props in if v mod s_bcj_align id =? 0 then Some (SBcj id v) else None
                  | _ => None
                  end = Some f).
    { destruct Hc as [->|[->|[->|[->|[->|[->|[->| ->]]]]]]]; exact Hf. }
    clear Hf.
    assert (Hprops' : bh_filter_props fk (r1 ++ x) =
               if psize =? 0 then Ok (0, r2 ++ x)
               else if psize =? 4 then
                 match r2 ++ x with
                 | b0 :: b1 :: b2 :: b3 :: s2 =>
                     let v := le_value [b0; b1; b2; b3] in
                     if negb (v mod bcj_alignment fk =? 0) then Err E_INVALID_DATA else Ok (v, s2)
                 | _ => Err E_INVALID_DATA
                 end
               else Err E_INVALID_DATA).
    { rewrite Hprops. destruct fk; try discriminate; reflexivity. }
    assert (Hsf : forall v, spec_filter (fk, v) = SBcj id v).
    { intros v. unfold spec_filter. cbn [fst snd]. rewrite <- Eid. destruct fk; try discriminate; reflexivity. }
    assert (Hl2 : fkind_is_lzma2 fk = false) by (destruct fk; try discriminate; reflexivity).
    destruct props as [|p0 [|p1 [|p2 [|p3 [|? ?]]]]]; try discriminate.
    + inversion Hf'; subst f. change (zlen (@nil Z)) with 0 in Lp. subst psize.
      exists fk, 0. split; [exact Q1|]. split; [exact Efk|]. split.
      * rewrite Hprops'. rewrite Er2. reflexivity.
      * split; [apply Hsf|]. split; [exact Hl2|]. split; assumption.
    + cbv zeta in Hf'. destruct (Z.eqb_spec (le_value [p0; p1; p2; p3] mod s_bcj_align id) 0) as [Ea|]; [|discriminate].
      inversion Hf'; subst f. change (zlen [p0; p1; p2; p3]) with 4 in Lp. subst psize.
      exists fk, (le_value [p0; p1; p2; p3]). split; [exact Q1|]. split; [exact Efk|]. split.
      * rewrite Hprops'. rewrite Er2. cbn [Z.eqb Pos.eqb app]. cbv zeta. rewrite Eal, Ea. reflexivity.
      * split; [apply Hsf|]. split; [exact Hl2|]. split; assumption.
Qed.

(* ------------------------------------------------------------------------------------------- *)
(* the List of Filter Flags *)

Lemma s_filter_flags_S k l :
  s_filter_flags (S k) l =
  (olet! (id, r1) <- s_vli l;
   olet! (psize, r2) <- s_vli r1;
   olet! (props, r3) <- s_take psize r2;
   olet! f <- s_filter id props;
   olet! _ <- guard (Bool.eqb (s_is_lzma2 f) (match k with O => true | _ => false end));
   olet! (fs, r4) <- s_filter_flags k r3;
   Some (f :: fs, r4)).
Proof. reflexivity. Qed.

Lemma s_filter_flags_crate : forall n l fs r x acc,
  bytes_ok l = true -> x <> [] ->
  s_filter_flags n l = Some (fs, r) ->
  exists rfs, bh_filters_loop n (l ++ x) acc = Ok (rev acc ++ rfs, r ++ x) /\
    map spec_filter rfs = fs /\ bytes_ok r = true /\ zlen r + 2 * Z.of_nat n <= zlen l /\
    (n <> O -> exists pre d, rfs = pre ++ [(FLZMA2, d)]).
Proof.
  induction n as [|k IH]; intros l fs r x acc Hb Hx H.
  - cbn [s_filter_flags] in H. inversion H; subst fs r. exists []. cbn [bh_filters_loop].
    rewrite frev_rev, app_nil_r. split; [reflexivity|]. split; [reflexivity|]. split; [exact Hb|]. split; [lia|]. intros C; contradiction.
  - rewrite s_filter_flags_S in H.
    destruct (s_vli l) as [[id r1]|] eqn:E1; [|discriminate]. cbn [olet] in H.
    destruct (s_vli r1) as [[psize r2]|] eqn:E2; [|discriminate]. cbn [olet] in H.
    destruct (s_take psize r2) as [[props r3]|] eqn:E3; [|discriminate]. cbn [olet] in H.
    destruct (s_filter id props) as [f|] eqn:E4; [|discriminate]. cbn [olet] in H.
    destruct (Bool.eqb (s_is_lzma2 f) (match k with O => true | _ => false end)) eqn:E5; [|discriminate]. cbn [guard olet] in H.
    destruct (s_filter_flags k r3) as [[fs' r4]|] eqn:E6; [|discriminate]. cbn [olet] in H. inversion H; subst fs r; clear H.
    destruct (s_filter_crate l x id r1 psize r2 props r3 f Hb E1 E2 E3 E4) as (fk & prop & Q1 & Q2 & Q3 & Q4 & Q5 & Hb3 & Ll).
    destruct (IH r3 fs' r4 x ((fk, prop) :: acc) Hb3 Hx E6) as (rfs & L1 & L2 & L3 & L4 & L5).
    exists ((fk, prop) :: rfs).
    assert (Hne : l ++ x <> []) by (destruct l; [exact Hx | discriminate]).
    split.
    { destruct (l ++ x) as [|y0 ys] eqn:Ey; [contradiction|]. cbn [bh_filters_loop]. rewrite Q1. cbn [obind]. rewrite Q2, Q3. cbn [obind].
      rewrite L1. cbn [rev]. rewrite <- app_assoc. reflexivity. }
    split; [cbn [map]; rewrite Q4, L2; reflexivity|]. split; [exact L3|]. split; [lia|].
    intros _. destruct k as [|k'].
    + cbn [s_filter_flags] in E6. inversion E6; subst fs' r4. destruct rfs; [|discriminate].
      apply Bool.eqb_prop in E5. rewrite <- Q5 in E5. destruct fk; try discriminate. exists [], prop. reflexivity.
    + destruct (L5 ltac:(discriminate)) as (pre & d & Er). exists ((fk, prop) :: pre), d. rewrite Er. reflexivity.
Qed.

(* the Header Padding loop on zeros followed by the CRC32 field *)
Lemma bh_padding_zeros : forall z crc, s_all_zero z = true -> zlen crc = 4 -> bh_padding (z ++ crc) = Ok crc.
Proof.
  induction z as [|b t IH]; intros crc Hz Hc.
  - cbn [app]. destruct crc as [|c0 ct]; [reflexivity|]. cbn [bh_padding]. rewrite Hc. reflexivity.
  - cbn [s_all_zero forallb] in Hz. apply andb_true_iff in Hz as [Hb Ht]. cbn [app bh_padding].
    rewrite zlen_cons, zlen_app, Hc. pose proof (zlen_nonneg t). destruct (Z.ltb_spec 4 (1 + (zlen t + 4))); [|lia].
    rewrite Hb. apply IH; assumption.
Qed.

(* ------------------------------------------------------------------------------------------- *)
(* the Block Header *)

Theorem s_block_header_crate l h rest :
  bytes_ok l = true -> (match l with b :: _ => b <> 0 | [] => True end) ->
  s_block_header l = Some (h, rest) ->
  exists fs, xz_parse_block_header l = Ok (Some (mkBhdr (sb_csize h) (sb_usize h) fs), rest) /\
    map spec_filter fs = sb_filters h /\
    zlen l - zlen rest = sb_size h /\ 8 <= sb_size h /\ sb_size h mod 4 = 0 /\ suffix rest l.
Proof.
  intros Hb Hnz H. unfold s_block_header in H. destruct l as [|enc r0]; [discriminate|].
  pose proof Hb as Hb'. apply bok_cons in Hb' as [Henc Hb0].
  set (size := (enc + 1) * 4) in *.
  destruct (s_take size (enc :: r0)) as [[hdr rest']|] eqn:E1; [|discriminate]. cbn [olet] in H.
  destruct (s_take (size - 4) hdr) as [[body crc]|] eqn:E2; [|discriminate]. cbn [olet] in H.
  destruct (Z.eqb_spec (le_value crc) (crc32 body)) as [V|]; [|discriminate]. cbn [guard olet] in H.
  destruct body as [|e0 [|flags f0]]; try discriminate.
  destruct (Z.eqb_spec ((flags / 4) mod 16) 0) as [Hres|]; [|discriminate]. cbn [guard olet] in H.
  apply s_take_inv in E1 as [El Lh]. apply s_take_inv in E2 as [Eh Lb].
  assert (Lcrc : zlen crc = 4) by (rewrite Eh, zlen_app in Lh; lia).
  assert (Ee : e0 = enc) by (rewrite Eh in El; cbn [app] in El; inversion El; reflexivity). subst e0.
  assert (Er0 : r0 = (flags :: f0 ++ crc) ++ rest') by (rewrite Eh in El; cbn [app] in El; inversion El; reflexivity).
  assert (Hbh : bytes_ok (flags :: f0 ++ crc) = true) by (rewrite Er0 in Hb0; apply bok_app in Hb0; apply Hb0).
  pose proof Hbh as Hbh'. apply bok_cons in Hbh' as [Hfl Hbfc]. apply bok_app in Hbfc as [Hbf0 Hbcrc].
  destruct (if 64 <=? flags mod 128
            then olet! (v, r) <- s_vli f0; olet! _ <- guard (0 <? v); Some (Some v, r)
            else Some (None, f0)) as [[cs f1]|] eqn:Ec; [|discriminate]. cbn [olet] in H.
  destruct (if 128 <=? flags then olet! (v, r) <- s_vli f1; Some (Some v, r) else Some (None, f1)) as [[us f2]|] eqn:Eu; [|discriminate].
  cbn [olet] in H.
  destruct (s_filter_flags (Z.to_nat (flags mod 4 + 1)) f2) as [[sfs f3]|] eqn:Ef; [|discriminate]. cbn [olet] in H.
  destruct (s_all_zero f3) eqn:Ez; [|discriminate]. cbn [guard olet] in H. inversion H; subst h rest'. clear H.
  cbn [sb_csize sb_usize sb_filters sb_size].
  pose proof (byte_flag_facts flags Hfl) as F.
  apply andb_true_iff in F as [F F128]. apply andb_true_iff in F as [F3 F64].
  apply Z.eqb_eq in F3. apply Bool.eqb_prop in F64. apply Bool.eqb_prop in F128.
  assert (Hx : crc <> []) by (intro C; subst crc; discriminate).
  (* compressed size *)
  assert (C1 : bytes_ok f1 = true /\ zlen f1 <= zlen f0 /\
               (if negb (Z.land flags 64 =? 0)
                then do pr <- bh_vli (f0 ++ crc); Ok (Some (fst pr), snd pr)
                else Ok (None, f0 ++ crc)) = Ok (cs, f1 ++ crc)).
  { rewrite F64. destruct (64 <=? flags mod 128).
    - destruct (s_vli f0) as [[v r]|] eqn:Ev; [|discriminate]. cbn [olet] in Ec.
      destruct (0 <? v); [|discriminate]. cbn [guard olet] in Ec. inversion Ec; subst cs f1.
      destruct (s_vli_canon f0 v r Hbf0 Ev) as (Hv & Ey & _ & Ln).
      split; [rewrite Ey in Hbf0; apply bok_app in Hbf0; apply Hbf0|]. split; [lia|].
      unfold bh_vli, vli_skip. rewrite Ey, <- app_assoc.
      destruct (vli_roundtrip v (r ++ crc) Hv) as (_ & R2 & _ & R4 & _). rewrite R2. cbn [obind]. rewrite R4. reflexivity.
    - inversion Ec; subst cs f1. split; [exact Hbf0|]. split; [lia | reflexivity]. }
  destruct C1 as (Hbf1 & Lf1 & C1).
  assert (U1 : bytes_ok f2 = true /\ zlen f2 <= zlen f1 /\
               (if negb (Z.land flags 128 =? 0)
                then match f1 ++ crc with [] => Err E_INVALID_DATA | _ => do pr <- bh_vli (f1 ++ crc); Ok (Some (fst pr), snd pr) end
                else Ok (None, f1 ++ crc)) = Ok (us, f2 ++ crc)).
  { rewrite F128. destruct (128 <=? flags).
    - destruct (s_vli f1) as [[v r]|] eqn:Ev; [|discriminate]. cbn [olet] in Eu. inversion Eu; subst us f2.
      destruct (s_vli_canon f1 v r Hbf1 Ev) as (Hv & Ey & _ & Ln).
      split; [rewrite Ey in Hbf1; apply bok_app in Hbf1; apply Hbf1|]. split; [lia|].
      assert (Hne : f1 ++ crc <> []) by (destruct f1; [exact Hx | discriminate]).
      destruct (f1 ++ crc) as [|y0 ys] eqn:Ey0; [contradiction|]. rewrite <- Ey0.
      unfold bh_vli, vli_skip. rewrite Ey, <- app_assoc.
      destruct (vli_roundtrip v (r ++ crc) Hv) as (_ & R2 & _ & R4 & _). rewrite R2. cbn [obind]. rewrite R4. reflexivity.
    - inversion Eu; subst us f2. split; [exact Hbf1|]. split; [lia | reflexivity]. }
  destruct U1 as (Hbf2 & Lf2 & U1).
  assert (Hnf : (Z.to_nat (flags mod 4 + 1) <> 0)%nat) by lia.
  destruct (s_filter_flags_crate _ f2 sfs f3 crc [] Hbf2 Hx Ef) as (fs & L1 & L2 & L3 & L4 & L5).
  destruct (L5 Hnf) as (pre & d & Efs). cbn [rev app] in L1.
  exists fs. split.
  - unfold xz_parse_block_header. destruct (Z.eqb_spec enc 0) as [C|_]; [contradiction|]. fold size.
    assert (Hsz : 8 <= size <= 1024) by (unfold size; lia).
    destruct (Z.ltb_spec size 8); [lia|]. destruct (Z.ltb_spec 1024 size); [lia|]. cbn [orb].
    rewrite Er0. rewrite (xz_take_app_n (size - 1)).
    2:{ rewrite Eh in Lh. cbn [app] in Lh. rewrite zlen_cons in Lh. lia. }
    cbn [obind]. rewrite F3.
    (* with a Compressed Size field the body is long enough for the crate's test *)
    assert (Hlen8 : (if negb (Z.land flags 64 =? 0)
                     then if zlen (f0 ++ crc) <? 8 then Err E_INVALID_DATA
                          else do pr <- bh_vli (f0 ++ crc); Ok (Some (fst pr), snd pr)
                     else Ok (None, f0 ++ crc)) = Ok (cs, f1 ++ crc)).
    { rewrite <- C1. destruct (negb (Z.land flags 64 =? 0)) eqn:Ehc; [|reflexivity].
      rewrite <- F64 in Ec.
      destruct (s_vli f0) as [[v r]|] eqn:Ev; [|discriminate]. cbn [olet] in Ec.
      destruct (0 <? v); [|discriminate]. cbn [guard olet] in Ec. inversion Ec; subst cs f1.
      destruct (s_vli_canon f0 v r Hbf0 Ev) as (_ & _ & _ & Ln).
      rewrite zlen_app, Lcrc. rewrite !zlen_cons in Lb.
      destruct (Z.ltb_spec (zlen f0 + 4) 8); [|reflexivity]. exfalso.
      pose proof (zlen_nonneg f3). unfold size in Lb. lia. }
    rewrite Hlen8. cbn [obind]. rewrite U1. cbn [obind]. rewrite L1. cbn [obind].
    assert (Hlast : last_is_lzma2 fs = true).
    { unfold last_is_lzma2. rewrite frev_rev, Efs, rev_app_distr. reflexivity. }
    rewrite Hlast. cbn [negb]. rewrite (bh_padding_zeros f3 crc Ez Lcrc). cbn [obind]. rewrite Lcrc. cbn [Z.eqb Pos.eqb negb].
    assert (Ecov : enc :: firstn (Z.to_nat (zlen (flags :: f0 ++ crc) - 4)) (flags :: f0 ++ crc) = enc :: flags :: f0).
    { f_equal. change (flags :: f0 ++ crc) with ((flags :: f0) ++ crc). apply firstn_app_exact.
      rewrite zlen_app, Lcrc. unfold zlen. lia. }
    rewrite Ecov, V, Z.eqb_refl. reflexivity.
  - split; [exact L2|]. split.
    + rewrite El, zlen_app. lia.
    + split; [unfold size; lia|]. split; [unfold size; lia|]. rewrite El. apply sfx_app.
Qed.
