(* Format/LzipSplitProofs.v — member splitting of LZIPWriter::write (C18, C02): for every call
   partition the members concatenate to the data written, each holds at most the member size, all
   but the last exactly the member size; empty input gives one empty member; no Fuel. *)
From LzVerif Require Import Base.Bytes Format.XzFormat Format.LzipFormat Format.XzSplitProofs.
Ltac Zify.zify_post_hook ::= Z.div_mod_to_equations.

Definition ls_data (s : lzsplit) : list Z := concat (rev (ls_done s)) ++ rev (ls_cur s).

(* between loop iterations: an open member is consistent and within the limit; without an open
   member nothing has been written at all *)
Definition ls_inv (m : Z) (s : lzsplit) : Prop :=
  Forall (fun mb => zlen mb = m) (ls_done s) /\
  (ls_open s = true -> ls_size s = zlen (ls_cur s) /\ ls_size s <= m /\ (ls_done s <> [] -> 0 < ls_size s)) /\
  (ls_open s = false -> ls_cur s = [] /\ ls_done s = []).

Lemma ls_data_close s : ls_data (ls_close s) = ls_data s.
Proof.
  unfold ls_data, ls_close; cbn [ls_done ls_cur]. rewrite frev_rev. cbn [rev].
  rewrite concat_app. cbn [concat]. rewrite !app_nil_r. reflexivity.
Qed.

Lemma ls_data_push s buf : ls_data (ls_push s buf) = ls_data s ++ buf.
Proof.
  unfold ls_data, ls_push; cbn [ls_done ls_cur]. rewrite rev_append_rev, rev_app_distr, rev_involutive.
  rewrite app_assoc. reflexivity.
Qed.

Lemma lz_write_loop_nil fuel ms s : lz_write_loop fuel ms s [] = Ok s.
Proof. destruct fuel; reflexivity. Qed.

Lemma lz_write_loop_some m : 1 <= m -> forall fuel s rem,
  ls_inv m s -> (length rem < fuel)%nat ->
  exists s', lz_write_loop fuel (Some m) s rem = Ok s' /\ ls_inv m s' /\
             ls_data s' = ls_data s ++ rem /\ (rem <> [] -> ls_open s' = true /\ 0 < ls_size s').
Proof.
  intros Hm fuel. induction fuel as [|f IH]; intros s rem Hinv Hf; [lia|].
  destruct rem as [|x rem'] eqn:Erem.
  - exists s. cbn [lz_write_loop]. rewrite app_nil_r.
    split; [reflexivity|]. split; [exact Hinv|]. split; [reflexivity|]. congruence.
  - rewrite <- Erem in *. assert (Hne : rem <> []) by (rewrite Erem; discriminate).
    assert (Hlen : 1 <= zlen rem) by (rewrite Erem, zlen_cons; pose proof (zlen_nonneg rem'); lia).
    replace (lz_write_loop (S f) (Some m) s rem) with
      (let s1 := if ls_should_finish (Some m) s && ls_open s then ls_close s else s in
       let s2 := if ls_open s1 then s1 else ls_start s1 in
       let n := Z.min (zlen rem) (Z.max 0 (m - ls_size s2)) in
       if n =? 0 then lz_write_loop f (Some m) (ls_close s2) rem
       else lz_write_loop f (Some m) (ls_push s2 (firstn (Z.to_nat n) rem)) (skipn (Z.to_nat n) rem))
      by (rewrite Erem; reflexivity).
    cbv zeta.
    set (s1 := if ls_should_finish (Some m) s && ls_open s then ls_close s else s).
    set (s2 := if ls_open s1 then s1 else ls_start s1).
    set (n := Z.min (zlen rem) (Z.max 0 (m - ls_size s2))).
    destruct Hinv as (Hd & Ho & Hc).
    (* the state the bytes go into: open, below the limit, same data *)
    assert (H2 : ls_open s2 = true /\ ls_size s2 = zlen (ls_cur s2) /\ ls_size s2 < m /\
                 Forall (fun mb => zlen mb = m) (ls_done s2) /\ ls_data s2 = ls_data s).
    { unfold s2, s1, ls_should_finish.
      destruct (ls_open s) eqn:Eo.
      - destruct (Ho eq_refl) as (Hs & Hle & _).
        destruct (Z.leb_spec m (ls_size s)) as [Hge|Hlt]; cbn [andb]; cbv iota.
        + cbn [ls_close ls_open ls_start ls_size ls_cur ls_done]. cbv iota.
          cbn [ls_close ls_open ls_start ls_size ls_cur ls_done].
          split; [reflexivity|]. split; [reflexivity|]. split; [lia|]. split.
          * constructor; [|exact Hd]. rewrite frev_rev, zlen_rev. lia.
          * unfold ls_data, ls_start, ls_close; cbn [ls_done ls_cur]. rewrite frev_rev. cbn [rev].
            rewrite concat_app. cbn [concat]. rewrite !app_nil_r. reflexivity.
        + rewrite Eo. cbv iota. split; [exact Eo|]. split; [exact Hs|]. split; [lia|]. split; [exact Hd | reflexivity].
      - destruct (Hc eq_refl) as (Hcur & Hdone). rewrite andb_false_r. cbv iota. rewrite Eo.
        cbn [ls_start ls_open ls_size ls_cur ls_done].
        split; [reflexivity|]. split; [reflexivity|]. split; [lia|]. split; [exact Hd|].
        unfold ls_data, ls_start; cbn [ls_done ls_cur]. rewrite Hcur. reflexivity. }
    destruct H2 as (Ho2 & Hs2 & Hlt2 & Hd2 & Hdata2).
    assert (Hn : 1 <= n <= zlen rem) by (unfold n; lia).
    destruct (Z.eqb_spec n 0) as [Hn0|_]; [lia|].
    assert (Hinv3 : ls_inv m (ls_push s2 (firstn (Z.to_nat n) rem))).
    { unfold ls_inv, ls_push; cbn [ls_size ls_cur ls_done ls_open]. split; [exact Hd2|]. split.
      - intros _. rewrite zlen_rev_append, zlen_firstn by lia. pose proof (zlen_nonneg (ls_cur s2)).
        repeat split; [lia | unfold n; lia | intros _; lia].
      - rewrite Ho2. discriminate. }
    assert (Hf3 : (length (skipn (Z.to_nat n) rem) < f)%nat).
    { rewrite skipn_length. unfold zlen in Hn. lia. }
    destruct (IH _ _ Hinv3 Hf3) as (s' & E & Hinv' & Hdata' & Hpos').
    exists s'. split; [exact E|]. split; [exact Hinv'|]. split.
    + rewrite Hdata', ls_data_push, Hdata2, <- app_assoc, firstn_skipn. reflexivity.
    + intros _. destruct (skipn (Z.to_nat n) rem) as [|y t] eqn:Esk.
      * rewrite lz_write_loop_nil in E. inversion E; subst s'. unfold ls_push; cbn [ls_size ls_open].
        rewrite zlen_firstn by lia. pose proof (zlen_nonneg (ls_cur s2)). split; [exact Ho2 | lia].
      * apply Hpos'. discriminate.
Qed.

Lemma lz_write_calls_some m : 1 <= m -> forall parts s,
  ls_inv m s ->
  exists s', lz_write_calls (Some m) s parts = Ok s' /\ ls_inv m s' /\
             ls_data s' = ls_data s ++ concat parts.
Proof.
  intros Hm parts. induction parts as [|p ps IH]; intros s Hinv.
  - exists s. cbn [lz_write_calls concat]. rewrite app_nil_r. auto.
  - cbn [lz_write_calls concat]. unfold lz_write_call.
    destruct (lz_write_loop_some m Hm (S (S (2 * length p))) s p Hinv ltac:(lia)) as (s1 & E1 & I1 & D1 & _).
    rewrite E1. cbn [obind].
    destruct (IH s1 I1) as (s2 & E2 & I2 & D2).
    exists s2. split; [exact E2|]. split; [exact I2|]. rewrite D2, D1, app_assoc. reflexivity.
Qed.

(* without a member size: everything goes into the member that is open or gets opened *)
Lemma lz_write_loop_none fuel s rem :
  (ls_open s = true -> ls_size s = zlen (ls_cur s)) -> (ls_open s = false -> ls_cur s = []) ->
  (length rem < fuel)%nat ->
  exists s', lz_write_loop fuel None s rem = Ok s' /\ ls_done s' = ls_done s /\
             (ls_open s' = true -> ls_size s' = zlen (ls_cur s')) /\ (ls_open s' = false -> ls_cur s' = []) /\
             ls_data s' = ls_data s ++ rem.
Proof.
  intros Ho Hc Hf. destruct fuel as [|f]; [lia|]. destruct rem as [|x rem'] eqn:Erem.
  - exists s. cbn [lz_write_loop]. rewrite app_nil_r. auto.
  - rewrite <- Erem. assert (Hlen : 1 <= zlen rem) by (rewrite Erem, zlen_cons; pose proof (zlen_nonneg rem'); lia).
    replace (lz_write_loop (S f) None s rem) with
      (let s2 := if ls_open s then s else ls_start s in
       if zlen rem =? 0 then lz_write_loop f None (ls_close s2) rem
       else lz_write_loop f None (ls_push s2 (firstn (Z.to_nat (zlen rem)) rem)) (skipn (Z.to_nat (zlen rem)) rem))
      by (rewrite Erem; reflexivity).
    cbv zeta.
    set (s2 := if ls_open s then s else ls_start s).
    destruct (Z.eqb_spec (zlen rem) 0); [lia|].
    assert (Ez : Z.to_nat (zlen rem) = length rem) by (unfold zlen; lia).
    rewrite Ez, firstn_all, skipn_all, lz_write_loop_nil.
    exists (ls_push s2 rem). split; [reflexivity|]. unfold ls_push; cbn [ls_done ls_open ls_size ls_cur].
    assert (H2 : ls_done s2 = ls_done s /\ ls_open s2 = true /\ ls_size s2 = zlen (ls_cur s2) /\ ls_data s2 = ls_data s).
    { unfold s2. destruct (ls_open s) eqn:Eo.
      - repeat split; auto.
      - cbn [ls_start ls_done ls_open ls_size ls_cur]. repeat split; auto. unfold ls_data; cbn [ls_done ls_cur].
        rewrite (Hc eq_refl). reflexivity. }
    destruct H2 as (Hd2 & Ho2 & Hs2 & Hdata2).
    split; [exact Hd2|]. split; [intros _; rewrite zlen_rev_append; lia|]. split; [rewrite Ho2; discriminate|].
    change (ls_data (ls_push s2 rem) = ls_data s ++ rem). rewrite ls_data_push, Hdata2. reflexivity.
Qed.

Lemma lz_write_calls_none : forall parts s,
  (ls_open s = true -> ls_size s = zlen (ls_cur s)) -> (ls_open s = false -> ls_cur s = []) ->
  exists s', lz_write_calls None s parts = Ok s' /\ ls_done s' = ls_done s /\
             (ls_open s' = false -> ls_cur s' = []) /\ ls_data s' = ls_data s ++ concat parts.
Proof.
  induction parts as [|p ps IH]; intros s Ho Hc.
  - exists s. cbn [lz_write_calls concat]. rewrite app_nil_r. auto.
  - cbn [lz_write_calls concat]. unfold lz_write_call.
    destruct (lz_write_loop_none (S (S (2 * length p))) s p Ho Hc ltac:(lia)) as (s1 & E1 & Dn1 & O1 & C1 & D1).
    rewrite E1. cbn [obind].
    destruct (IH s1 O1 C1) as (s2 & E2 & Dn2 & C2 & D2).
    exists s2. repeat split; try assumption; [congruence|]. rewrite D2, D1, app_assoc. reflexivity.
Qed.

(* C18 / C02 (LZIP member splitting) *)
Theorem lz_members_some : forall m parts, 1 <= m ->
  exists members, lz_members_of (Some m) parts = Ok members /\
    concat members = concat parts /\
    Forall (fun mb => zlen mb <= m) members /\
    all_but_last (fun mb => zlen mb = m) members /\
    (members = [[]] \/ Forall (fun mb => 1 <= zlen mb) members).
Proof.
  intros m parts Hm. unfold lz_members_of.
  assert (I0 : ls_inv m lzsplit_init).
  { unfold ls_inv, lzsplit_init; cbn. split; [constructor|]. split; [discriminate | auto]. }
  destruct (lz_write_calls_some m Hm parts lzsplit_init I0) as (s & E & (Hd & Ho & Hc) & D).
  rewrite E. cbn [obind]. eexists. split; [reflexivity|].
  unfold ls_data in D. cbn [lzsplit_init ls_done ls_cur rev concat app] in D.
  rewrite frev_rev. destruct (ls_open s) eqn:Eo.
  - destruct (Ho eq_refl) as (Hs & Hle & Hpos). rewrite frev_rev. cbn [rev]. split; [|split; [|split]].
    + rewrite concat_app. cbn [concat]. rewrite app_nil_r. exact D.
    + apply Forall_app. split.
      * apply Forall_rev. eapply Forall_impl; [|exact Hd]. cbn. intros; lia.
      * constructor; [|constructor]. rewrite zlen_rev. lia.
    + intros a t Ea Ht. destruct t as [|y t'] using rev_ind; [congruence|]. clear IHt'.
      rewrite app_assoc in Ea. apply app_inj_tail in Ea as [Ea _].
      apply Forall_rev in Hd. rewrite Ea in Hd. apply Forall_app in Hd. apply Hd.
    + destruct (ls_done s) as [|d0 ds] eqn:Edone.
      * cbn [rev app]. destruct (ls_cur s) as [|c0 cs] eqn:Ecur; [left; reflexivity|].
        right. constructor; [|constructor]. rewrite zlen_rev, zlen_cons. pose proof (zlen_nonneg cs). lia.
      * right. apply Forall_app. split.
        -- apply Forall_rev. eapply Forall_impl; [|exact Hd]. cbn. intros; lia.
        -- constructor; [|constructor]. rewrite zlen_rev. specialize (Hpos ltac:(discriminate)). lia.
  - destruct (Hc eq_refl) as (Hcur & Hdone). unfold ls_start; cbn [ls_cur ls_done]. rewrite Hdone, Hcur in *.
    rewrite frev_rev. cbn [rev app concat] in *. split; [exact D|]. split; [repeat constructor; rewrite zlen_nil; lia|].
    split; [|left; reflexivity].
    intros a t Ea Ht. destruct a as [|a0 a']; [constructor|].
    cbn in Ea. inversion Ea as [[E1 E2]]. symmetry in E2. apply app_eq_nil in E2 as [_ Et]. congruence.
Qed.

Theorem lz_members_none : forall parts, lz_members_of None parts = Ok [concat parts].
Proof.
  intros parts. unfold lz_members_of.
  destruct (lz_write_calls_none parts lzsplit_init ltac:(discriminate) ltac:(reflexivity)) as (s & E & Hdn & Hc & D).
  rewrite E. cbn [obind]. unfold ls_data in D. rewrite Hdn in D.
  cbn [lzsplit_init ls_done ls_cur rev concat app] in D.
  destruct (ls_open s) eqn:Eo.
  - rewrite Hdn. cbn [lzsplit_init ls_done]. rewrite !frev_rev. cbn [rev app]. rewrite D. reflexivity.
  - cbn [ls_start ls_cur ls_done]. rewrite Hdn. cbn [lzsplit_init ls_done]. rewrite !frev_rev. cbn [rev app].
    rewrite (Hc eq_refl) in D. cbn in D. rewrite <- D. reflexivity.
Qed.

(* C18 in the property's words: every member holds at most max(member_size, dict) bytes, where
   dict is the dictionary size clamped into [4 KiB, 512 MiB] (LZIPWriter::new) *)
Theorem lzip_member_bound : forall dict ms parts, 1 <= ms ->
  let o := lzw_new (mkLzopts dict (Some ms)) in
  exists members, lz_members_of (lo_member_size o) parts = Ok members /\
    concat members = concat parts /\
    Forall (fun mb => zlen mb <= Z.max ms (lzip_clamp_dict dict)) members /\
    all_but_last (fun mb => zlen mb = Z.max ms (lzip_clamp_dict dict)) members.
Proof.
  intros dict ms parts Hms o. unfold o, lzw_new; cbn [lo_member_size lo_dict].
  destruct (lz_members_some (Z.max ms (lzip_clamp_dict dict)) parts ltac:(lia)) as (mbs & E & C & F & A & _).
  exists mbs. auto.
Qed.
