(* Format/VliProofs.v — the XZ multibyte integers round-trip for every value below 2^63: both
   parsers of the crate return the value and the rest of the input untouched, the size functions
   agree with the number of bytes written, and the bytes are bytes. *)
From LzVerif Require Import Base.Bytes Format.Vli Format.XzSplitProofs.
Ltac Zify.zify_post_hook ::= Z.div_mod_to_equations.

(* disjoint bits: lor is addition *)
Lemma lor_shiftl_add acc x s : 0 <= s -> 0 <= acc < 2 ^ s -> 0 <= x ->
  Z.lor acc (Z.shiftl x s) = acc + x * 2 ^ s.
Proof.
  intros Hs Ha Hx.
  assert (L : Z.land acc (Z.shiftl x s) = 0).
  { apply Z.bits_inj'. intros k Hk. rewrite Z.land_spec, Z.bits_0.
    destruct (Z_lt_le_dec k s) as [Hlt|Hge].
    - rewrite (Z.shiftl_spec_low x s k Hlt). apply andb_false_r.
    - assert (Z.testbit acc k = false) as ->; [|reflexivity].
      destruct (Z.eq_dec acc 0) as [->|]; [apply Z.bits_0|].
      apply Z.bits_above_log2; [lia|]. apply Z.lt_le_trans with s; [apply Z.log2_lt_pow2; lia | lia]. }
  rewrite <- Z.lxor_lor by exact L. rewrite <- Z.add_nocarry_lxor by exact L.
  rewrite Z.shiftl_mul_pow2 by lia. reflexivity.
Qed.

Definition bytes256 : list Z := map Z.of_nat (seq 0 256).
Lemma in_bytes256 b : 0 <= b < 256 -> In b bytes256.
Proof.
  intros H. unfold bytes256. replace b with (Z.of_nat (Z.to_nat b)) by lia.
  apply in_map. apply in_seq. lia.
Qed.
Lemma byte_sweep (P : Z -> bool) : forallb P bytes256 = true -> forall b, 0 <= b < 256 -> P b = true.
Proof. intros H b Hb. rewrite forallb_forall in H. apply H, in_bytes256, Hb. Qed.

Lemma low_byte_facts : forall b, 0 <= b < 256 ->
  ((Z.land b 127 =? b mod 128) && (Z.land b 128 =? (if b <? 128 then 0 else 128)) &&
   (Z.land (Z.lor b 128) 127 =? b mod 128) && (Z.land (Z.lor b 128) 128 =? 128) &&
   (128 <=? Z.lor b 128) && (Z.lor b 128 <? 256)) = true.
Proof. apply byte_sweep. vm_compute. reflexivity. Qed.

Lemma cont_byte v : 0 <= v ->
  let b := Z.lor (v mod 256) 128 in
  Z.land b 127 = v mod 128 /\ Z.land b 128 = 128 /\ 128 <= b < 256.
Proof.
  intros Hv b. pose proof (low_byte_facts (v mod 256) ltac:(lia)) as F.
  repeat (apply andb_true_iff in F as [F ?]).
  repeat match goal with H : (_ =? _) = true |- _ => apply Z.eqb_eq in H end.
  subst b. repeat split; try lia.
Qed.

Lemma last_byte v : 0 <= v < 128 -> Z.land v 127 = v /\ Z.land v 128 = 0.
Proof.
  intros Hv. pose proof (low_byte_facts v ltac:(lia)) as F.
  repeat (apply andb_true_iff in F as [F ?]).
  repeat match goal with H : (_ =? _) = true |- _ => apply Z.eqb_eq in H end.
  destruct (Z.ltb_spec v 128); [|lia]. split; lia.
Qed.

Lemma pow128_succ k : 128 ^ Z.of_nat (S k) = 128 * 128 ^ Z.of_nat k.
Proof. rewrite Nat2Z.inj_succ, Z.pow_succ_r by lia. reflexivity. Qed.

Lemma pow2_plus7 s : 0 <= s -> 2 ^ (s + 7) = 128 * 2 ^ s.
Proof. intros. rewrite Z.pow_add_r by lia. change (2 ^ 7) with 128. lia. Qed.

(* the reader-style parser on the encoder's bytes *)
Lemma vli_reader_rt : forall k v room n tail acc shift,
  0 <= v < 128 ^ Z.of_nat (S k) -> (S k <= room)%nat -> (S k <= n)%nat ->
  0 <= shift -> shift + 7 * Z.of_nat (S k) <= 63 -> 0 <= acc < 2 ^ shift ->
  vli_parse_reader_loop n (vli_encode_loop room v ++ tail) acc shift = Ok (acc + v * 2 ^ shift, tail).
Proof.
  induction k as [|k IH]; intros v room n tail acc shift Hv Hr Hn Hs Hb Ha;
    destruct room as [|room]; try lia; destruct n as [|n]; try lia; cbn [vli_encode_loop].
  - change (128 ^ Z.of_nat 1) with 128 in Hv. destruct (Z.leb_spec 128 v); [lia|].
    cbn [app vli_parse_reader_loop]. destruct (Z.leb_spec 63 shift); [lia|].
    rewrite (Z.mod_small v 256) by lia. destruct (last_byte v ltac:(lia)) as [L1 L2].
    rewrite L1, L2. cbn [Z.eqb]. rewrite lor_shiftl_add by lia. reflexivity.
  - rewrite pow128_succ in Hv. destruct (Z.leb_spec 128 v) as [Hge|Hlt].
    + cbn [app vli_parse_reader_loop]. destruct (Z.leb_spec 63 shift); [lia|].
      destruct (cont_byte v ltac:(lia)) as (C1 & C2 & C3). cbv zeta in C1, C2, C3.
      rewrite C1, C2. change (128 =? 0) with false. cbv iota.
      rewrite lor_shiftl_add by lia.
      rewrite IH; try lia.
      * f_equal. f_equal. rewrite pow2_plus7 by lia. lia.
      * rewrite pow2_plus7 by lia. nia.
    + cbn [app vli_parse_reader_loop]. destruct (Z.leb_spec 63 shift); [lia|].
      rewrite (Z.mod_small v 256) by lia. destruct (last_byte v ltac:(lia)) as [L1 L2].
      rewrite L1, L2. cbn [Z.eqb]. rewrite lor_shiftl_add by lia. reflexivity.
Qed.

(* the slice parser, the slice size function and the value size function *)
Lemma vli_slice_rt : forall k v room tail acc shift,
  0 <= v < 128 ^ Z.of_nat (S k) -> (S k <= room)%nat ->
  0 <= shift -> shift + 7 * Z.of_nat (S k) <= 63 -> 0 <= acc < 2 ^ shift ->
  vli_parse_slice_loop (vli_encode_loop room v ++ tail) acc shift = Ok (acc + v * 2 ^ shift) /\
  vli_size_slice (vli_encode_loop room v ++ tail) = zlen (vli_encode_loop room v) /\
  skipn (length (vli_encode_loop room v)) (vli_encode_loop room v ++ tail) = tail.
Proof.
  induction k as [|k IH]; intros v room tail acc shift Hv Hr Hs Hb Ha;
    destruct room as [|room]; try lia; cbn [vli_encode_loop].
  - change (128 ^ Z.of_nat 1) with 128 in Hv. destruct (Z.leb_spec 128 v); [lia|].
    cbn [app vli_parse_slice_loop vli_size_slice length skipn]. destruct (Z.leb_spec 63 shift); [lia|].
    rewrite (Z.mod_small v 256) by lia. destruct (last_byte v ltac:(lia)) as [L1 L2].
    rewrite L1, L2. cbn [Z.eqb]. rewrite lor_shiftl_add by lia. repeat split; reflexivity.
  - rewrite pow128_succ in Hv. destruct (Z.leb_spec 128 v) as [Hge|Hlt].
    + cbn [app vli_parse_slice_loop vli_size_slice length skipn]. destruct (Z.leb_spec 63 shift); [lia|].
      destruct (cont_byte v ltac:(lia)) as (C1 & C2 & C3). cbv zeta in C1, C2, C3.
      rewrite C1, C2. change (128 =? 0) with false. cbv iota.
      rewrite lor_shiftl_add by lia.
      destruct (IH (v / 128) room tail (acc + v mod 128 * 2 ^ shift) (shift + 7)) as (I1 & I2 & I3); try lia.
      * rewrite pow2_plus7 by lia. nia.
      * rewrite I1, I2, I3. split; [|split; [rewrite zlen_cons; reflexivity | reflexivity]].
        f_equal. rewrite pow2_plus7 by lia. lia.
    + cbn [app vli_parse_slice_loop vli_size_slice length skipn]. destruct (Z.leb_spec 63 shift); [lia|].
      rewrite (Z.mod_small v 256) by lia. destruct (last_byte v ltac:(lia)) as [L1 L2].
      rewrite L1, L2. cbn [Z.eqb]. rewrite lor_shiftl_add by lia. repeat split; reflexivity.
Qed.

Lemma vli_size_value_loop_enc : forall k v room fuel,
  0 < v < 128 ^ Z.of_nat (S k) -> (S k <= room)%nat -> (S k < fuel)%nat ->
  vli_size_value_loop fuel v = zlen (vli_encode_loop room v).
Proof.
  induction k as [|k IH]; intros v room fuel Hv Hr Hf;
    destruct room as [|room]; try lia; destruct fuel as [|fuel]; try lia; cbn [vli_encode_loop vli_size_value_loop].
  - change (128 ^ Z.of_nat 1) with 128 in Hv. destruct (Z.leb_spec 128 v); [lia|].
    destruct (Z.ltb_spec 0 v); [|lia]. destruct fuel as [|fuel]; [lia|]. cbn [vli_size_value_loop].
    replace (v / 128) with 0 by lia. cbn. reflexivity.
  - rewrite pow128_succ in Hv. destruct (Z.ltb_spec 0 v); [|lia]. destruct (Z.leb_spec 128 v) as [Hge|Hlt].
    + rewrite zlen_cons. f_equal. apply IH; lia.
    + destruct fuel as [|fuel]; [lia|]. cbn [vli_size_value_loop]. replace (v / 128) with 0 by lia. cbn. reflexivity.
Qed.

Lemma bytes_ok_vli_loop : forall room v, 0 <= v -> bytes_ok (vli_encode_loop room v) = true.
Proof.
  induction room as [|room IH]; intros v Hv; [reflexivity|]. cbn [vli_encode_loop].
  destruct (Z.leb_spec 128 v).
  - cbn [bytes_ok forallb]. fold (bytes_ok (vli_encode_loop room (v / 128))). rewrite IH by lia.
    destruct (cont_byte v Hv) as (_ & _ & C3). cbv zeta in C3. unfold is_byte.
    destruct (Z.leb_spec 0 (Z.lor (v mod 256) 128)); [|lia]. destruct (Z.ltb_spec (Z.lor (v mod 256) 128) 256); [|lia]. reflexivity.
  - cbn [bytes_ok forallb]. unfold is_byte. rewrite Z.mod_small by lia.
    destruct (Z.leb_spec 0 v); [|lia]. destruct (Z.ltb_spec v 256); [|lia]. reflexivity.
Qed.

(* ------------------------------------------------------------------------------------------- *)
(* the statements used by the container proofs *)

Definition vli_bytes (v : Z) : list Z := vli_encode_loop 10 v.

Lemma vli_encode_ok v : 0 <= v <= U63_MAX -> vli_encode v = Ok (vli_bytes v).
Proof. intros H. unfold vli_encode. destruct (Z.ltb_spec U63_MAX v); [lia | reflexivity]. Qed.

Lemma vli_encode_inv v l : 0 <= v -> vli_encode v = Ok l -> l = vli_bytes v /\ v <= U63_MAX.
Proof.
  unfold vli_encode. intros Hv H. destruct (Z.ltb_spec U63_MAX v); [discriminate|].
  inversion H. split; [reflexivity | lia].
Qed.

Lemma u63_pow : U63_MAX + 1 = 128 ^ Z.of_nat 9.
Proof. reflexivity. Qed.

(* vli_roundtrip (C02): every value below 2^63 is read back, by both parsers, with the rest of
   the input untouched; the size functions give the number of bytes written *)
Theorem vli_roundtrip : forall v tail, 0 <= v <= U63_MAX ->
  vli_parse_reader (vli_bytes v ++ tail) = Ok (v, tail) /\
  vli_parse_slice (vli_bytes v ++ tail) = Ok v /\
  vli_size_slice (vli_bytes v ++ tail) = zlen (vli_bytes v) /\
  skipn (Z.to_nat (vli_size_slice (vli_bytes v ++ tail))) (vli_bytes v ++ tail) = tail /\
  vli_size_value v = zlen (vli_bytes v) /\
  1 <= zlen (vli_bytes v) <= 9 /\
  bytes_ok (vli_bytes v) = true.
Proof.
  intros v tail Hv. unfold vli_bytes, vli_parse_reader, vli_parse_slice.
  assert (Hp : 0 <= v < 128 ^ Z.of_nat 9) by (rewrite <- u63_pow; lia).
  assert (Hb63 : 0 + 7 * Z.of_nat 9 <= 63) by (cbn; lia).
  assert (Ha0 : 0 <= 0 < 2 ^ 0) by (cbn; lia).
  pose proof (vli_reader_rt 8 v 10 9 tail 0 0 Hp ltac:(lia) ltac:(lia) ltac:(lia) Hb63 Ha0) as R.
  destruct (vli_slice_rt 8 v 10 tail 0 0 Hp ltac:(lia) ltac:(lia) Hb63 Ha0) as (S1 & S2 & S3).
  change (2 ^ 0) with 1 in R, S1. rewrite Z.mul_1_r, Z.add_0_l in R, S1.
  split; [exact R|]. split; [exact S1|]. split; [exact S2|].
  split; [rewrite S2; unfold zlen; rewrite Nat2Z.id; exact S3|].
  split; [|split].
  - unfold vli_size_value. destruct (Z.eqb_spec v 0) as [->|Hne]; [reflexivity|].
    apply (vli_size_value_loop_enc 8); lia.
  - assert (B : forall room v0, 0 <= v0 -> (1 <= room)%nat -> 1 <= zlen (vli_encode_loop room v0) <= Z.of_nat room).
    { induction room as [|room IH]; intros v0 H0 Hr; [lia|]. cbn [vli_encode_loop].
      destruct (Z.leb_spec 128 v0).
      - rewrite zlen_cons. destruct room as [|room']; [cbn; lia|]. specialize (IH (v0 / 128) ltac:(lia) ltac:(lia)). lia.
      - cbn. lia. }
    (* nine bytes suffice below 128^9: the tenth is never written *)
    pose proof (B 10%nat v ltac:(lia) ltac:(lia)) as B10. pose proof (B 9%nat v ltac:(lia) ltac:(lia)) as B9.
    assert (E : vli_encode_loop 10 v = vli_encode_loop 9 v).
    { clear - Hp. assert (G : forall k v0 r1 r2, 0 <= v0 < 128 ^ Z.of_nat (S k) -> (S k <= r1)%nat -> (S k <= r2)%nat ->
                        vli_encode_loop r1 v0 = vli_encode_loop r2 v0).
      { induction k as [|k IH]; intros v0 r1 r2 H0 H1 H2; destruct r1 as [|r1]; try lia; destruct r2 as [|r2]; try lia;
          cbn [vli_encode_loop].
        - change (128 ^ Z.of_nat 1) with 128 in H0. destruct (Z.leb_spec 128 v0); [lia | reflexivity].
        - rewrite pow128_succ in H0. destruct (Z.leb_spec 128 v0); [|reflexivity]. f_equal. apply IH; lia. }
      apply (G 8%nat); lia. }
    rewrite E. lia.
  - apply bytes_ok_vli_loop. lia.
Qed.
