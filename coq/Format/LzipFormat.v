(* Format/LzipFormat.v — byte-level models of src/lzip/writer.rs (LZIPWriter) and
   src/lzip/reader.rs (LZIPReader), with the header/trailer helpers of src/lzip.rs.
   Definitions only.  Conventions as in XzFormat.v: perfect in-memory source (a Cursor), byte
   counters as plain Z, the LZMA payload of each member is an input of the writer model. *)
From LzVerif Require Export Base.Bytes Format.Crc Format.LzipDict Codec.Lzma1.

Definition LZIP_MAGIC : list Z := [76; 90; 73; 80].
Definition LZIP_HEADER_SIZE : Z := 6.
Definition LZIP_TRAILER_SIZE : Z := 20.

(* F6: start_next_member mapped every header error to a clean end of stream *)
Record lzfix := mkLzfix { fz6 : bool }.
Definition lz_fixed : lzfix := mkLzfix true.
Definition lz_orig : lzfix := mkLzfix false.

(* ------------------------------------------------------------------------------------------- *)
(* WRITER *)

(* LZIPOptions after LZIPWriter::new: dictionary clamped into [4 KiB, 512 MiB], member size raised
   to the dictionary size *)
Record lzopts := mkLzopts { lo_dict : Z; lo_member_size : option Z }.
Definition lzw_new (o : lzopts) : lzopts :=
  let d := lzip_clamp_dict (lo_dict o) in
  mkLzopts d (match lo_member_size o with Some m => Some (Z.max m d) | None => None end).

(* Member splitting: finished members (newest first), content of the open member (reversed),
   current_member_uncompressed_size, header_written *)
Record lzsplit := mkLzsplit { ls_done : list (list Z); ls_cur : list Z; ls_size : Z; ls_open : bool }.
Definition lzsplit_init : lzsplit := mkLzsplit [] [] 0 false.

Definition ls_should_finish (ms : option Z) (s : lzsplit) : bool :=
  match ms with Some m => m <=? ls_size s | None => false end.
Definition ls_close (s : lzsplit) : lzsplit := mkLzsplit (frev (ls_cur s) :: ls_done s) [] (ls_size s) false.
Definition ls_start (s : lzsplit) : lzsplit := mkLzsplit (ls_done s) [] 0 true.
Definition ls_push (s : lzsplit) (buf : list Z) : lzsplit :=
  mkLzsplit (ls_done s) (rev_append buf (ls_cur s)) (ls_size s + zlen buf) (ls_open s).

(* the while loop of write(): the LZMA writer accepts everything it is given *)
Fixpoint lz_write_loop (fuel : nat) (ms : option Z) (s : lzsplit) (remaining : list Z) : outcome lzsplit :=
  match remaining with
  | [] => Ok s
  | _ =>
      match fuel with
      | O => Fuel
      | S f =>
          let s1 := if ls_should_finish ms s && ls_open s then ls_close s else s in
          let s2 := if ls_open s1 then s1 else ls_start s1 in
          let n := match ms with
                   | Some m => Z.min (zlen remaining) (Z.max 0 (m - ls_size s2))   (* saturating_sub *)
                   | None => zlen remaining
                   end in
          if n =? 0 then lz_write_loop f ms (ls_close s2) remaining
          else lz_write_loop f ms (ls_push s2 (firstn (Z.to_nat n) remaining)) (skipn (Z.to_nat n) remaining)
      end
  end.

Definition lz_write_call (ms : option Z) (s : lzsplit) (buf : list Z) : outcome lzsplit :=
  lz_write_loop (S (S (2 * length buf))) ms s buf.

Fixpoint lz_write_calls (ms : option Z) (s : lzsplit) (parts : list (list Z)) : outcome lzsplit :=
  match parts with
  | [] => Ok s
  | p :: ps => do s1 <- lz_write_call ms s p; lz_write_calls ms s1 ps
  end.

(* finish(): a member is started if none is open (empty input gives one empty member) *)
Definition lz_members_of (ms : option Z) (parts : list (list Z)) : outcome (list (list Z)) :=
  do s <- lz_write_calls ms lzsplit_init parts;
  let s1 := if ls_open s then s else ls_start s in
  Ok (frev (frev (ls_cur s1) :: ls_done s1)).

(* one member: header, LZMA payload (with end marker), trailer *)
Definition lz_member (dict_byte : Z) (content payload : list Z) : list Z :=
  LZIP_MAGIC ++ [1; dict_byte] ++ payload ++
  le_bytes 4 (crc32 content) ++ le_bytes 8 (zlen content) ++
  le_bytes 8 (LZIP_HEADER_SIZE + zlen payload + LZIP_TRAILER_SIZE).

Fixpoint lz_members_bytes (dict_byte : Z) (members payloads : list (list Z)) : outcome (list Z) :=
  match members, payloads with
  | [], _ => Ok []
  | c :: cs, p :: ps => do r <- lz_members_bytes dict_byte cs ps; Ok (lz_member dict_byte c p ++ r)
  | _ :: _, [] => Err E_OTHER
  end.

Definition lz_write (o0 : lzopts) (parts payloads : list (list Z)) : outcome (list Z) :=
  let o := lzw_new o0 in
  do b <- lzip_encode_dict_size (lo_dict o);
  do members <- lz_members_of (lo_member_size o) parts;
  lz_members_bytes b members payloads.

(* ------------------------------------------------------------------------------------------- *)
(* READER *)

Definition lz_take (n : Z) (src : list Z) : outcome (list Z * list Z) :=
  if zlen src <? n then Err E_UNEXPECTED_EOF
  else Ok (firstn (Z.to_nat n) src, skipn (Z.to_nat n) src).

Definition lz_bytes_eqb (a b : list Z) : bool :=
  (length a =? length b)%nat && forallb (fun p => fst p =? snd p) (combine a b).

(* LZIPHeader::parse as the original start_next_member used it (any failure = "no member");
   Cursor::read_exact leaves the cursor at the end of the data when it fails.
   Result: Some (dict_size, rest) or None with the unconsumed rest. *)
Definition lz_parse_header_orig (src : list Z) : option (Z * list Z) * list Z :=
  if zlen src <? 4 then (None, []) else
  let magic := firstn 4 src in
  let r1 := skipn 4 src in
  if negb (lz_bytes_eqb magic LZIP_MAGIC) then (None, r1) else
  match r1 with
  | [] => (None, [])
  | v :: r2 =>
      if negb (v =? 1) then (None, r2) else
      match r2 with
      | [] => (None, [])
      | d :: r3 =>
          match lzip_decode_dict_size d with
          | Ok ds => (Some (ds, r3), r3)
          | _ => (None, r3)
          end
      end
  end.

(* The repaired header parse (repo-patches: F6).  The magic bytes are fetched with read_fully (up
   to four bytes).  Nothing available = clean end of input; bytes that are not (a prefix of) the
   magic are an error for the first member and trailing data after a complete member; a proper
   prefix of the magic at the end of the input is a truncated header; everything after the magic
   must be a valid header.  Ok (Some dict, rest) | Ok (None, rest) = end of stream | Err. *)
Definition lz_parse_header_fixed (first_member : bool) (src : list Z) : outcome (option Z * list Z) :=
  let magic := firstn 4 src in
  let r1 := skipn 4 src in
  match magic with
  | [] => Ok (None, r1)
  | _ =>
      if negb (lz_bytes_eqb magic (firstn (length magic) LZIP_MAGIC)) then
        (if first_member then Err E_INVALID_DATA else Ok (None, r1))
      else if (length magic <? 4)%nat then Err E_UNEXPECTED_EOF
      else
      match r1 with
      | [] => Err E_UNEXPECTED_EOF
      | v :: r2 =>
          if negb (v =? 1) then Err E_INVALID_DATA else
          match r2 with
          | [] => Err E_UNEXPECTED_EOF
          | d :: r3 => do ds <- lzip_decode_dict_size d; Ok (Some ds, r3)
          end
      end
  end.

Definition lz_parse_header (fx : lzfix) (first_member : bool) (src : list Z) : outcome (option Z * list Z) :=
  if fz6 fx then lz_parse_header_fixed first_member src
  else match lz_parse_header_orig src with
       | (Some (ds, r), _) => Ok (Some ds, r)
       | (None, r) => Ok (None, r)
       end.

(* LZIPTrailer::parse + the three comparisons of finish_current_member; [compressed] = bytes the
   LZMA reader took from the source *)
Definition lz_check_trailer (content_crc data_size compressed : Z) (src : list Z) : outcome (list Z) :=
  do a <- lz_take 4 src;
  let '(crc, r1) := a in
  do b <- lz_take 8 r1;
  let '(ds, r2) := b in
  do c <- lz_take 8 r2;
  let '(msz, r3) := c in
  if negb (le_value crc =? content_crc) then Err E_INVALID_DATA else
  if negb (le_value ds =? data_size) then Err E_INVALID_DATA else
  if negb (le_value msz =? LZIP_HEADER_SIZE + compressed + LZIP_TRAILER_SIZE) then Err E_INVALID_DATA else
  Ok r3.

Record lzmember := mkLzmember {
  mb_lz : lzma1;
  mb_avail : Z;               (* bytes of the source left when the LZMA reader was created *)
  mb_content : list Z         (* newest first *)
}.

Record lzr := mkLzr {
  z_src : list Z;             (* unconsumed source while no member is active *)
  z_member : option lzmember;
  z_seen : bool;              (* current_header.is_some(): a member has been started before *)
  z_finished : bool
}.

Definition lzr_new (src : list Z) : lzr := mkLzr src None false false.

(* start_next_member: Ok (Some state with an active member) | Ok None = clean end *)
Definition lzr_start_member (fx : lzfix) (s : lzr) : outcome (bool * lzr) :=
  do hr <- lz_parse_header fx (negb (z_seen s)) (z_src s);
  let '(h, rest) := hr in
  match h with
  | None => Ok (false, mkLzr rest None (z_seen s) (z_finished s))
  | Some ds =>
      do lz <- lzma1_construct2 rest U64_MAX 3 0 2 ds None;
      Ok (true, mkLzr [] (Some (mkLzmember lz (zlen rest) [])) true (z_finished s))
  end.

Fixpoint lzr_read_loop (fuel : nat) (fx : lzfix) (s : lzr) (buflen : Z) : outcome (list Z * lzr) :=
  match fuel with
  | O => Fuel
  | S f =>
      match z_member s with
      | Some mb =>
          do r <- lzma1_read (mb_lz mb) buflen;
          let '(out, lz1) := r in
          match out with
          | _ :: _ =>
              Ok (out, mkLzr [] (Some (mkLzmember lz1 (mb_avail mb) (rev_append out (mb_content mb)))) (z_seen s) false)
          | [] =>
              (* finish_current_member *)
              let src := lzma1_unconsumed lz1 in
              let content := frev (mb_content mb) in
              do r1 <- lz_check_trailer (crc32 content) (zlen content) (mb_avail mb - zlen src) src;
              do st <- lzr_start_member fx (mkLzr r1 None (z_seen s) false);
              let '(started, s1) := st in
              if started then lzr_read_loop f fx s1 buflen
              else Ok ([], mkLzr (z_src s1) None (z_seen s1) true)
          end
      | None =>
          if z_finished s then Ok ([], s) else
          do st <- lzr_start_member fx s;
          let '(started, s1) := st in
          if started then lzr_read_loop f fx s1 buflen
          else Ok ([], mkLzr (z_src s1) None (z_seen s1) true)
      end
  end.

Definition lzr_source_len (s : lzr) : nat :=
  match z_member s with Some mb => Z.to_nat (mb_avail mb) | None => length (z_src s) end.

(* LZIPReader::read(buf) *)
Definition lzr_read (fx : lzfix) (s : lzr) (buflen : Z) : outcome (list Z * lzr) :=
  if buflen <=? 0 then Ok ([], s) else
  lzr_read_loop (lzr_source_len s + 4) fx s buflen.

Definition lzr_unconsumed (s : lzr) : list Z :=
  match z_member s with Some mb => lzma1_unconsumed (mb_lz mb) | None => z_src s end.

Fixpoint lzr_read_all (fuel : nat) (fx : lzfix) (s : lzr) (sizes all : list Z) (acc : list Z)
  : outcome (list Z * Z * lzr) :=
  match fuel with
  | O => Fuel
  | S f =>
      let '(sz, rest) := match sizes with [] => (4096, all) | x :: r => (x, r) end in
      match lzr_read fx s sz with
      | Ok (out, s1) =>
          if (0 <? sz) && (zlen out =? 0) then Ok (frev acc, 0, s1)
          else lzr_read_all f fx s1 (match rest with [] => all | _ => rest end) all (rev_append out acc)
      | Err e => Ok (frev acc, e, s)
      | Panic e => Panic e
      | Fuel => Fuel
      end
  end.

(* ------------------------------------------------------------------------------------------- *)
(* READER: the whole-file function over an abstract member-payload decoder *)
Section WholeFile.
  (* dictionary size -> source -> (content, rest of source) *)
  Variable pdec : Z -> list Z -> outcome (list Z * list Z).

  Fixpoint lzd_members (fuel : nat) (fx : lzfix) (first : bool) (src : list Z) (acc : list Z)
    : outcome (list Z * list Z) :=
    match fuel with
    | O => Fuel
    | S f =>
        do hr <- lz_parse_header fx first src;
        let '(h, r1) := hr in
        match h with
        | None => Ok (frev acc, r1)
        | Some ds =>
            do pr <- pdec ds r1;
            let '(content, r2) := pr in
            do r3 <- lz_check_trailer (crc32 content) (zlen content) (zlen r1 - zlen r2) r2;
            lzd_members f fx false r3 (rev_append content acc)
        end
    end.

  Definition lz_decode (fx : lzfix) (src : list Z) : outcome (list Z * list Z) :=
    lzd_members (S (length src)) fx true src [].
End WholeFile.

(* the concrete payload decoder: LZMAReader (lc=3, lp=0, pb=2, unknown size) read to its end *)
Fixpoint lzma1_drain (fuel : nat) (s : lzma1) (acc : list Z) : outcome (list Z * list Z) :=
  match fuel with
  | O => Fuel
  | S f =>
      do r <- lzma1_read s 4096;
      let '(out, s1) := r in
      match out with
      | [] => Ok (frev acc, lzma1_unconsumed s1)
      | _ => lzma1_drain f s1 (rev_append out acc)
      end
  end.

Definition lzip_payload_dec_n (calls : nat) (dict : Z) (src : list Z) : outcome (list Z * list Z) :=
  do s <- lzma1_construct2 src U64_MAX 3 0 2 dict None;
  lzma1_drain calls s [].

(* fuel: LZMA expands by at most a few thousand (a 273-byte match costs a fraction of a bit once
   the probabilities have adapted), i.e. a few 4096-byte calls per source byte; running out of it
   is reported as Fuel and no theorem depends on this constant *)
Definition lzip_payload_dec (dict : Z) (src : list Z) : outcome (list Z * list Z) :=
  lzip_payload_dec_n (64 + 16 * length src) dict src.

Definition lz_decode_c (fx : lzfix) (src : list Z) : outcome (list Z * list Z) :=
  lz_decode lzip_payload_dec fx src.

Definition lz_decode_capped (fx : lzfix) (cap : Z) (src : list Z) : outcome (list Z * list Z) :=
  lz_decode (lzip_payload_dec_n (Z.to_nat (cap / 4096 + 3))) fx src.

(* entry points for the driver *)
Definition lz_write_entry (dict : Z) (ms : option Z) (parts payloads : list (list Z)) : outcome (list Z) :=
  lz_write (mkLzopts dict ms) parts payloads.
Definition lz_member_sizes_entry (dict : Z) (ms : option Z) (parts : list (list Z)) : outcome (list Z) :=
  let o := lzw_new (mkLzopts dict ms) in
  do members <- lz_members_of (lo_member_size o) parts;
  Ok (map (fun b => zlen b) members).
