(* Format/LzipReaderProofs.v — LZIPReader call by call (lzr_read of LzipFormat.v) on a sequence of
   members with LZMA payloads (lm_file (l1_penc ch) ms): for EVERY history of positive destination
   sizes the calls return, piece by piece, the concatenated contents, then Ok(0), the whole input
   consumed - what the whole-file function lz_decode returns (C12_lzip_multi_lzma1).
   Members after the first must be non-empty (the writer produces either non-empty members or the
   single empty member of an empty input). *)
From LzVerif Require Import Base.Bytes Codec.Store Codec.Range Codec.LzWindow Codec.LzmaDec Codec.LzmaEnc
  Codec.LzmaWriters Codec.Lzma1 Codec.LzmaRoundtrip Codec.RangeEncProofs Codec.RangeProofs Codec.Lzma1LoopProofs
  Codec.Lzma1ReadProofs Codec.Lzma2LoopProofs
  Format.Crc Format.CrcProofs Format.LzipFormat Format.LzipDict Format.LzipDictProofs Format.XzHeaderProofs
  Format.XzSplitProofs Format.LzipSplitProofs Format.LzipProofs
  Format.PayloadLzma1Proofs Format.ContainerCondProofs Format.ComposeProofs.
Ltac Zify.zify_post_hook ::= Z.div_mod_to_equations.

Section LzStream.
  Variable ch : Z -> list Z -> list sym.
  Notation penc := (l1_penc ch).

  Definition mgood (m : lzm) : Prop :=
    lm_ok penc m /\ 4096 <= lm_dict m /\ l1_member_ok ch (lm_dict m) (lm_content m).

  Definition mpay (m : lzm) : list Z := penc (lm_dict m) (lm_content m).
  Definition mtail (m : lzm) (follow : list Z) : list Z :=
    le_bytes 4 (crc32 (lm_content m)) ++ le_bytes 8 (zlen (lm_content m)) ++
    le_bytes 8 (LZIP_HEADER_SIZE + zlen (mpay m) + LZIP_TRAILER_SIZE) ++ follow.

  Lemma lm_file_cons m todo :
    lm_file penc (m :: todo) = LZIP_MAGIC ++ [1; lm_byte m] ++ mpay m ++ mtail m (lm_file penc todo).
  Proof. unfold lm_file. cbn [map concat]. unfold lm_bytes, lz_member, mtail, mpay. rewrite <- !app_assoc. reflexivity. Qed.

  (* inside member m, k bytes of its content delivered, [todo] the members after it *)
  Definition InMember (s : lzr) (m : lzm) (todo : list lzm) (k : nat) : Prop :=
    exists mb, z_member s = Some mb /\ z_seen s = true /\ mgood m /\
      l1_rs (lm_content m) (mtail m (lm_file penc todo)) (mb_lz mb) k /\
      mb_content mb = rev (firstn k (lm_content m)) /\
      mb_avail mb = zlen (mpay m ++ mtail m (lm_file penc todo)).

  Definition Fin (s : lzr) : Prop := z_member s = None /\ z_finished s = true /\ z_src s = [].

  (* start_next_member on a member / at the end of the input *)
  Lemma start_member m todo seen fin : mgood m ->
    exists s1, lzr_start_member lz_fixed (mkLzr (lm_file penc (m :: todo)) None seen fin) = Ok (true, s1) /\
               InMember s1 m todo 0.
  Proof.
    intros Hg. pose proof Hg as (((dd & Hdd & Hle) & Hb & _) & Hd4 & (Hne & (st & Hw) & Hbits)).
    unfold lzr_start_member. cbn [z_src z_seen z_finished]. rewrite lm_file_cons.
    rewrite (lz_header_ok (negb seen) _ dd _ Hdd). cbn [obind].
    pose proof (lzip_decode_dict_range _ _ Hdd) as Hr. unfold LZIP_MIN_DICT, LZIP_MAX_DICT in Hr.
    assert (Ep : mpay m = st) by (unfold mpay, l1_penc; rewrite Hw; reflexivity).
    destruct (l1_rs_new (lm_dict m) dd (lm_content m) _ st (mtail m (lm_file penc todo)) Hd4 Hle ltac:(lia) Hb Hne Hw Hbits)
      as (s0 & Ec & HR).
    rewrite Ep, Ec. cbn [obind]. eexists. split; [reflexivity|].
    eexists. cbn [z_member z_seen mb_lz mb_content mb_avail firstn rev].
    split; [reflexivity|]. split; [reflexivity|]. split; [exact Hg|]. split; [exact HR|]. split; [reflexivity|].
    rewrite Ep. reflexivity.
  Qed.

  Lemma start_end seen fin :
    lzr_start_member lz_fixed (mkLzr [] None seen fin) = Ok (false, mkLzr [] None seen fin).
  Proof. reflexivity. Qed.

  (* read() inside a member with content left *)
  Lemma L_read_in s m todo k f sz : InMember s m todo k -> (k < length (lm_content m))%nat -> 0 < sz ->
    exists j s', lzr_read_loop (S f) lz_fixed s sz = Ok (seg (lm_content m) k j, s') /\ (0 < j)%nat /\
      (k + j <= length (lm_content m))%nat /\ InMember s' m todo (k + j).
  Proof.
    intros (mb & Hm & Hseen & Hg & HR & Hc & Ha) Hk Hsz. cbn [lzr_read_loop]. rewrite Hm.
    destruct (l1_rs_read _ _ _ _ sz HR Hsz) as (j & lz1 & Hrd & Hkj & HR' & _ & Hpos). specialize (Hpos Hk).
    rewrite Hrd. cbn [obind].
    assert (Hlen : length (seg (lm_content m) k j) = j) by (apply seg_length; lia).
    destruct (seg (lm_content m) k j) as [|b out'] eqn:Eo; [cbn [length] in Hlen; lia|].
    exists j. eexists. split; [rewrite Eo; reflexivity|]. split; [exact Hpos|]. split; [exact Hkj|].
    eexists. cbn [z_member z_seen mb_lz mb_content mb_avail].
    split; [reflexivity|]. split; [exact Hseen|]. split; [exact Hg|]. split; [exact HR'|]. split; [|exact Ha].
    rewrite rev_append_rev, Hc, <- rev_app_distr, <- Eo. unfold seg. rewrite firstn_skipn_add. reflexivity.
  Qed.

  (* read() when the member's content is exhausted: end marker, trailer, next member header *)
  Lemma L_finish s m todo f sz : InMember s m todo (length (lm_content m)) -> 0 < sz ->
    match todo with
    | [] => exists s', lzr_read_loop (S f) lz_fixed s sz = Ok ([], s') /\ Fin s'
    | m' :: todo' => mgood m' ->
        exists s1, lzr_read_loop (S f) lz_fixed s sz = lzr_read_loop f lz_fixed s1 sz /\ InMember s1 m' todo' 0
    end.
  Proof.
    intros (mb & Hm & Hseen & Hg & HR & Hc & Ha) Hsz.
    assert (Hread : exists lz1, lzma1_read (mb_lz mb) sz = Ok ([], lz1) /\ lzma1_unconsumed lz1 = mtail m (lm_file penc todo)).
    { destruct (l1_rs_read _ _ _ _ sz HR Hsz) as (j & lz1 & Hrd & Hkj & _ & Hzero & _).
      assert (j = 0%nat) by lia. subst j. rewrite seg_nil in Hrd. exists lz1. split; [exact Hrd|].
      apply Hzero. reflexivity. }
    destruct Hread as (lz1 & Hrd & Hun).
    (* the trailer check *)
    pose proof Hg as (((dd & Hdd & Hle) & Hb & Hc64 & Hp64) & _).
    assert (Hcont : frev (mb_content mb) = lm_content m).
    { rewrite frev_rev, Hc, rev_involutive. apply firstn_all. }
    assert (Htr : forall follow,
              lz_check_trailer (crc32 (lm_content m)) (zlen (lm_content m))
                (zlen (mpay m ++ mtail m follow) - zlen (mtail m follow)) (mtail m follow) = Ok follow).
    { intros follow. fold (mpay m) in Hp64. set (payload := mpay m) in *. set (c := lm_content m) in *.
      assert (Z1 : zlen (payload ++ mtail m follow) - zlen (mtail m follow) = zlen payload) by (rewrite zlen_app; lia).
      rewrite Z1. unfold lz_check_trailer, mtail. fold payload. fold c.
      rewrite (lz_take_app_n 4) by apply zlen_le_bytes. cbn [obind].
      rewrite (lz_take_app_n 8) by apply zlen_le_bytes. cbn [obind].
      rewrite (lz_take_app_n 8) by apply zlen_le_bytes. cbn [obind].
      pose proof (crc32_range c Hb) as Hcr. pose proof (zlen_nonneg c). pose proof (zlen_nonneg payload).
      change (2 ^ 64) with 18446744073709551616 in Hc64, Hp64. change (2 ^ 32) with 4294967296 in Hcr.
      unfold LZIP_HEADER_SIZE, LZIP_TRAILER_SIZE in *.
      rewrite !le_value_bytes;
        try (change (256 ^ Z.of_nat 8) with 18446744073709551616; change (256 ^ Z.of_nat 4) with 4294967296; lia).
      rewrite !Z.eqb_refl. cbn [negb]. reflexivity. }
    destruct todo as [|m' todo'].
    - cbn [lzr_read_loop]. rewrite Hm, Hrd. cbn [obind]. rewrite Hun, Hcont, Ha, Htr. cbn [obind].
      unfold lm_file. cbn [map concat]. rewrite start_end. cbn [obind z_src z_seen].
      eexists. split; [reflexivity|]. unfold Fin. cbn [z_member z_finished z_src]. auto.
    - intros Hg'. cbn [lzr_read_loop]. rewrite Hm, Hrd. cbn [obind]. rewrite Hun, Hcont, Ha, Htr. cbn [obind].
      destruct (start_member m' todo' (z_seen s) false Hg') as (s1 & Es & HI). rewrite Es. cbn [obind].
      exists s1. split; [reflexivity | exact HI].
  Qed.

  (* ---- the state between two read() calls ------------------------------------------------------ *)
  Definition nonempty_m (m : lzm) : Prop := lm_content m <> [].

  Definition SI (s : lzr) (R : list Z) : Prop :=
    (exists m todo, s = lzr_new (lm_file penc (m :: todo)) /\ Forall mgood (m :: todo) /\ Forall nonempty_m todo /\
                    R = lm_data (m :: todo)) \/
    (exists m todo k, InMember s m todo k /\ (k <= length (lm_content m))%nat /\ Forall mgood todo /\
                      Forall nonempty_m todo /\ R = skipn k (lm_content m) ++ lm_data todo) \/
    (Fin s /\ R = []).

  Lemma seg_rest {A} (l : list A) k j : seg l k j ++ skipn (k + j) l = skipn k l.
  Proof. unfold seg. rewrite <- skipn_add. apply firstn_skipn. Qed.

  (* from inside a member (k bytes delivered) to the next bytes or to the end; [fuel] >= 3 *)
  Lemma L_from_member s m todo k f sz : InMember s m todo k -> (k <= length (lm_content m))%nat ->
    Forall mgood todo -> Forall nonempty_m todo -> 0 < sz ->
    exists out s' R', lzr_read_loop (S (S f)) lz_fixed s sz = Ok (out, s') /\
      skipn k (lm_content m) ++ lm_data todo = out ++ R' /\ SI s' R' /\
      (skipn k (lm_content m) ++ lm_data todo <> [] -> out <> []) /\ (out = [] -> Fin s').
  Proof.
    intros HI Hk Hg Hne Hsz.
    destruct (Nat.eq_dec k (length (lm_content m))) as [->|Hlt].
    - (* content exhausted *)
      pose proof (L_finish s m todo (S f) sz HI Hsz) as HF.
      rewrite skipn_all. cbn [app].
      destruct todo as [|m' todo'].
      + destruct HF as (s' & E & HFin). exists [], s', []. rewrite E.
        split; [reflexivity|]. split; [reflexivity|]. split; [right; right; split; [exact HFin | reflexivity]|].
        split; [intros X; exact X | intros _; exact HFin].
      + inversion Hg as [|x l Hgm Hgt]; subst x l. inversion Hne as [|x l Hnm Hnt]; subst x l.
        destruct (HF Hgm) as (s1 & E1 & HI1). rewrite E1.
        assert (Hpos : (0 < length (lm_content m'))%nat) by (unfold nonempty_m in Hnm; destruct (lm_content m'); [congruence | cbn [length]; lia]).
        destruct (L_read_in s1 m' todo' 0 f sz HI1 Hpos Hsz) as (j & s' & E2 & Hj & Hkj & HI2). rewrite E2.
        exists (seg (lm_content m') 0 j), s', (skipn j (lm_content m') ++ lm_data todo').
        split; [reflexivity|].
        split; [unfold lm_data; cbn [map concat]; fold (lm_data todo'); rewrite app_assoc; f_equal;
                pose proof (seg_rest (lm_content m') 0 j) as X; cbn [Nat.add skipn] in X; symmetry; exact X|].
        split; [right; left; exists m', todo', j; cbn [Nat.add] in HI2; auto|].
        assert (Hlen : length (seg (lm_content m') 0 j) = j) by (apply seg_length; lia).
        split; [intros _ X | intros X]; rewrite X in Hlen; cbn [length] in Hlen; lia.
    - destruct (L_read_in s m todo k (S f) sz HI ltac:(lia) Hsz) as (j & s' & E & Hj & Hkj & HI').
      exists (seg (lm_content m) k j), s', (skipn (k + j) (lm_content m) ++ lm_data todo).
      split; [exact E|]. split; [rewrite app_assoc, seg_rest; reflexivity|].
      split; [right; left; exists m, todo, (k + j)%nat; auto|].
      assert (Hlen : length (seg (lm_content m) k j) = j) by (apply seg_length; lia).
      split; [intros _ X | intros X]; rewrite X in Hlen; cbn [length] in Hlen; lia.
  Qed.

  Lemma read_step s R sz : SI s R -> 0 < sz ->
    exists out s' R', lzr_read lz_fixed s sz = Ok (out, s') /\ R = out ++ R' /\ SI s' R' /\
      (R <> [] -> out <> []) /\ (out = [] -> Fin s').
  Proof.
    intros HS Hsz. unfold lzr_read. destruct (Z.leb_spec sz 0) as [?|_]; [lia|].
    assert (Hfuel : exists f, (lzr_source_len s + 4)%nat = S (S (S f))) by (exists (lzr_source_len s + 1)%nat; lia).
    destruct Hfuel as (f & ->).
    destruct HS as [(m & todo & -> & Hg & Hne & ->) | [(m & todo & k & HI & Hk & Hg & Hne & ->) | ((Hm & Hf & Hsrc) & ->)]].
    - (* first call *)
      inversion Hg as [|x l Hgm Hgt]; subst x l.
      destruct (start_member m todo false false Hgm) as (s1 & Es & HI).
      assert (E1 : lzr_read_loop (S (S (S f))) lz_fixed (lzr_new (lm_file penc (m :: todo))) sz
                   = lzr_read_loop (S (S f)) lz_fixed s1 sz).
      { cbn [lzr_read_loop]. unfold lzr_new. cbn [z_member z_finished]. rewrite Es. cbn [obind]. reflexivity. }
      rewrite E1.
      destruct (L_from_member s1 m todo 0 f sz HI ltac:(lia) Hgt Hne Hsz) as (out & s' & R' & E & HR & HS' & Hn & Hfin).
      cbn [skipn] in HR, Hn.
      exists out, s', R'. split; [exact E|]. split; [unfold lm_data in *; cbn [map concat]; exact HR|].
      split; [exact HS'|]. split; [unfold lm_data in *; cbn [map concat]; exact Hn | exact Hfin].
    - destruct (L_from_member s m todo k (S f) sz HI Hk Hg Hne Hsz) as (out & s' & R' & E & HR & HS' & Hn & Hfin).
      exists out, s', R'. auto.
    - cbn [lzr_read_loop]. rewrite Hm, Hf. exists [], s, []. split; [reflexivity|]. split; [reflexivity|].
      split; [right; right; split; [split; [exact Hm | split; assumption] | reflexivity]|].
      split; [intros X; exact X | intros _; split; [exact Hm | split; assumption]].
  Qed.

  (* ---- a whole history of positive destination sizes ------------------------------------------- *)
  Lemma lzr_read_all_step f s sizes all acc :
    lzr_read_all (S f) lz_fixed s sizes all acc =
    match lzr_read lz_fixed s (fst (l2_next sizes all)) with
    | Ok (out, s1) =>
        if (0 <? fst (l2_next sizes all)) && (zlen out =? 0) then Ok (frev acc, 0, s1)
        else lzr_read_all f lz_fixed s1
               (match snd (l2_next sizes all) with [] => all | _ => snd (l2_next sizes all) end)
               all (rev_append out acc)
    | Err e => Ok (frev acc, e, s)
    | Panic e => Panic e
    | Fuel => Fuel
    end.
  Proof. cbn [lzr_read_all]. destruct sizes as [|x r]; reflexivity. Qed.

  Theorem read_all_ok : forall fuel s R sizes all acc,
    SI s R -> Forall (fun z => 0 < z) sizes -> Forall (fun z => 0 < z) all -> (length R + 2 <= fuel)%nat ->
    exists st, lzr_read_all fuel lz_fixed s sizes all acc = Ok (rev acc ++ R, 0, st) /\ Fin st.
  Proof.
    induction fuel as [|f IH]; intros s R sizes all acc HS Hs Ha Hfuel; [lia|].
    destruct (l2_next_pos sizes all Hs Ha) as (Hsz & Hnext).
    rewrite lzr_read_all_step.
    destruct (read_step s R _ HS Hsz) as (out & s1 & R1 & Hrd & HR & HS1 & Hne & Hfin).
    rewrite Hrd. destruct (Z.ltb_spec 0 (fst (l2_next sizes all))) as [_|?]; [|lia]. cbn [andb].
    destruct (Z.eqb_spec (zlen out) 0) as [Hz|Hnz].
    - apply l2_zlen_zero in Hz. subst out. cbn [app] in HR. subst R1.
      assert (R = []) by (destruct R; [reflexivity | exfalso; apply Hne; [discriminate | reflexivity]]). subst R.
      exists s1. rewrite frev_rev, app_nil_r. split; [reflexivity | apply Hfin; reflexivity].
    - assert (Hon : out <> []) by (intros X; subst out; apply Hnz; reflexivity).
      pose proof (l2_length_pos out Hon) as Hlo.
      assert (Hlen : length R = (length out + length R1)%nat) by (rewrite HR; apply app_length).
      destruct (IH s1 R1 _ all (rev_append out acc) HS1 Hnext Ha ltac:(lia)) as (st & Hall & HF).
      exists st. rewrite Hall, l2_rev_rev_append, <- app_assoc, HR. split; [reflexivity | exact HF].
  Qed.

  (* LZIPReader::read under EVERY history of positive destination sizes *)
  Theorem lzr_read_all_rt : forall m ms sizes fuel,
    Forall mgood (m :: ms) -> Forall nonempty_m ms -> Forall (fun z => 0 < z) sizes ->
    (length (lm_data (m :: ms)) + 2 <= fuel)%nat ->
    exists st, lzr_read_all fuel lz_fixed (lzr_new (lm_file penc (m :: ms))) sizes sizes [] = Ok (lm_data (m :: ms), 0, st) /\
               lzr_unconsumed st = [].
  Proof.
    intros m ms sizes fuel Hg Hne Hs Hf.
    destruct (read_all_ok fuel (lzr_new (lm_file penc (m :: ms))) (lm_data (m :: ms)) sizes sizes []) as (st & Hra & (Hm & _ & Hsrc)).
    - left. exists m, ms. auto.
    - exact Hs.
    - exact Hs.
    - exact Hf.
    - exists st. split; [exact Hra|]. unfold lzr_unconsumed. rewrite Hm. exact Hsrc.
  Qed.
End LzStream.

(* the call-by-call model returns what the whole-file function returns *)
Theorem lzr_read_all_is_decode : forall ch calls m ms sizes fuel,
  Forall (lm_ok_l1 ch calls) (m :: ms) -> Forall nonempty_m ms -> Forall (fun z => 0 < z) sizes ->
  (length (lm_data (m :: ms)) + 2 <= fuel)%nat ->
  exists content left st,
    lz_decode (lzip_payload_dec_n calls) lz_fixed (lm_file (l1_penc ch) (m :: ms)) = Ok (content, left) /\
    lzr_read_all fuel lz_fixed (lzr_new (lm_file (l1_penc ch) (m :: ms))) sizes sizes [] = Ok (content, 0, st) /\
    lzr_unconsumed st = left.
Proof.
  intros ch calls m ms sizes fuel Hok Hne Hs Hf.
  assert (Hg : Forall (mgood ch) (m :: ms)).
  { eapply Forall_impl; [|exact Hok]. intros x (H1 & H2 & H3 & _). split; [exact H1|]. split; assumption. }
  destruct (lzr_read_all_rt ch m ms sizes fuel Hg Hne Hs Hf) as (st & Hra & Hun).
  exists (lm_data (m :: ms)), [], st. split; [|split; assumption].
  exact (C12_lzip_multi_lzma1_thm ch calls m ms Hok).
Qed.

(* on the file LZIPWriter returns (any dictionary size, member size, partition): the members the
   writer cuts are non-empty, or there is the single empty member of an empty input *)
Theorem lzr_read_all_written : forall ch o0 parts f sizes fuel,
  bytes_ok (concat parts) = true ->
  (forall members, lz_members_of (lo_member_size (lzw_new o0)) parts = Ok members ->
     lz_sizes_ok (l1_penc ch) (lo_dict (lzw_new o0)) members /\
     Forall (l1_member_ok ch (lo_dict (lzw_new o0))) members) ->
  match lo_member_size o0 with Some m => 1 <= m | None => True end ->
  lz_encode (l1_penc ch) o0 parts = Ok f ->
  Forall (fun z => 0 < z) sizes -> (length (concat parts) + 2 <= fuel)%nat ->
  exists st, lzr_read_all fuel lz_fixed (lzr_new f) sizes sizes [] = Ok (concat parts, 0, st) /\ lzr_unconsumed st = [].
Proof.
  intros ch o0 parts f sizes fuel Hb Hm Hms E Hs Hf.
  assert (Hsz1 : forall members, lz_members_of (lo_member_size (lzw_new o0)) parts = Ok members ->
                   lz_sizes_ok (l1_penc ch) (lo_dict (lzw_new o0)) members) by (intros mb Hmb; apply (Hm mb Hmb)).
  destruct (lz_encode_shape_c (l1_penc ch) o0 parts f Hb Hsz1 Hms E) as (byte & members & Em & Hne & Ef & Hok & Hcat).
  destruct (Hm members Em) as (_ & Hl1).
  set (d := lo_dict (lzw_new o0)) in *.
  (* the members after the first are non-empty *)
  assert (Htail : match members with [] => True | _ :: t => Forall (fun c => c <> []) t end).
  { pose proof Em as Em'. unfold lzw_new in Em'. cbn [lo_member_size] in Em'. destruct (lo_member_size o0) as [ms|].
    - destruct (lz_members_some (Z.max ms (lzip_clamp_dict (lo_dict o0))) parts ltac:(lia)) as (mb & E1 & _ & _ & _ & Hc).
      rewrite E1 in Em'. inversion Em'; subst mb. destruct Hc as [->|F]; [constructor|].
      destruct members as [|c cs]; [exact I|]. inversion F as [|x l _ Ft]; subst x l.
      eapply Forall_impl; [|exact Ft]. intros c' Hc' X. subst c'. cbn in Hc'. lia.
    - rewrite lz_members_none in Em'. inversion Em'; subst members. constructor. }
  destruct members as [|c cs]; [contradiction|]. cbn [map] in Ef, Hok.
  pose proof (lzw_new_dict_range o0) as Hr. fold d in Hr. unfold LZIP_MIN_DICT in Hr.
  assert (Hg : Forall (mgood ch) (mkLzm byte d c :: map (fun x => mkLzm byte d x) cs)).
  { change (mkLzm byte d c :: map (fun x => mkLzm byte d x) cs) with (map (fun x => mkLzm byte d x) (c :: cs)) in Hok |- *.
    clear - Hok Hl1 Hr. induction (c :: cs) as [|x xs IH]; [constructor|].
    inversion Hok; subst. inversion Hl1; subst. cbn [map]. constructor; [|apply IH; assumption].
    split; [assumption|]. cbn [lm_dict lm_content]. split; [lia | assumption]. }
  assert (Hne' : Forall nonempty_m (map (fun x => mkLzm byte d x) cs)).
  { clear - Htail. induction cs as [|x xs IH]; [constructor|]. inversion Htail; subst. cbn [map].
    constructor; [unfold nonempty_m; cbn [lm_content]; assumption | apply IH; assumption]. }
  assert (Hdata : lm_data (mkLzm byte d c :: map (fun x => mkLzm byte d x) cs) = concat parts).
  { change (mkLzm byte d c :: map (fun x => mkLzm byte d x) cs) with (map (fun x => mkLzm byte d x) (c :: cs)).
    rewrite concat_map_content. exact Hcat. }
  destruct (lzr_read_all_rt ch _ _ sizes fuel Hg Hne' Hs ltac:(rewrite Hdata; exact Hf)) as (st & Hra & Hun).
  exists st. rewrite Ef. rewrite Hdata in Hra. split; assumption.
Qed.

Print Assumptions lzr_read_all_rt.
Print Assumptions lzr_read_all_written.
