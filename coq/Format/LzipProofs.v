(* Format/LzipProofs.v — C02 (LZIP) and C12 (LZIP): what LZIPWriter writes, LZIPReader (whole-file
   function lz_decode of LzipFormat.v) reads back, for every dictionary size, member size and
   partition; any concatenation of members decodes to the concatenation of their contents;
   trailing data that does not begin like a member is ignored and left mostly unread.
   The LZMA payload codec (lc=3 lp=0 pb=2, end marker) is a Section variable with the round-trip
   statement of C01/C16 as hypothesis; the header byte lemma is lzip_dict_ok. *)
From LzVerif Require Import Base.Bytes Format.Crc Format.CrcProofs Format.LzipDict Format.LzipDictProofs
  Format.XzFormat Format.LzipFormat Format.XzSplitProofs Format.XzHeaderProofs Format.LzipSplitProofs.
Ltac Zify.zify_post_hook ::= Z.div_mod_to_equations.

Lemma lz_take_app_n n a b : zlen a = n -> lz_take n (a ++ b) = Ok (a, b).
Proof. intros Hn. pose proof (xz_take_app_n n a b Hn) as X. exact X. Qed.

Lemma lz_bytes_eqb_refl a : lz_bytes_eqb a a = true.
Proof. exact (bytes_eqb_refl a). Qed.

Section RoundTrip.
  Variable penc : Z -> list Z -> list Z.
  Variable pdec : Z -> list Z -> outcome (list Z * list Z).
  (* C01 + C16 for the .lzma codec used inside lzip members *)
  Hypothesis pdec_penc : forall d dd x tail, d <= dd -> pdec dd (penc d x ++ tail) = Ok (x, tail).

  (* one member as data: header byte, the dictionary the encoder used, content *)
  Record lzm := mkLzm { lm_byte : Z; lm_dict : Z; lm_content : list Z }.
  Definition lm_bytes (m : lzm) : list Z := lz_member (lm_byte m) (lm_content m) (penc (lm_dict m) (lm_content m)).
  (* the header byte announces at least the dictionary in use; the content consists of bytes; the
     u64 counters of the trailer do not wrap (fewer than 2^64 bytes) *)
  Definition lm_ok (m : lzm) : Prop :=
    (exists dd, lzip_decode_dict_size (lm_byte m) = Ok dd /\ lm_dict m <= dd) /\
    bytes_ok (lm_content m) = true /\
    zlen (lm_content m) < 2 ^ 64 /\ zlen (penc (lm_dict m) (lm_content m)) + 26 < 2 ^ 64.

  Notation lzd_members' := (lzd_members pdec).

  Lemma lz_header_ok first byte dd tail : lzip_decode_dict_size byte = Ok dd ->
    lz_parse_header lz_fixed first (LZIP_MAGIC ++ [1; byte] ++ tail) = Ok (Some dd, tail).
  Proof.
    intros Hd. unfold lz_parse_header. cbn [fz6 lz_fixed]. unfold lz_parse_header_fixed, LZIP_MAGIC.
    cbn [app firstn skipn length]. change (lz_bytes_eqb [76; 90; 73; 80] [76; 90; 73; 80]) with true.
    cbn [negb Nat.ltb Nat.leb]. cbn [Z.eqb Pos.eqb negb]. rewrite Hd. reflexivity.
  Qed.

  Lemma lz_member_rt m first rest acc fuel : lm_ok m ->
    lzd_members' (S fuel) lz_fixed first (lm_bytes m ++ rest) acc =
    lzd_members' fuel lz_fixed false rest (rev_append (lm_content m) acc).
  Proof.
    intros ((dd & Hd & Hle) & Hb & Hc64 & Hp64). unfold lm_bytes, lz_member. rewrite <- !app_assoc.
    cbn [lzd_members]. rewrite (lz_header_ok first _ dd) by exact Hd. cbn [obind].
    rewrite pdec_penc by exact Hle. cbn [obind].
    set (payload := penc (lm_dict m) (lm_content m)) in *.
    set (c := lm_content m) in *.
    set (tail := le_bytes 4 (crc32 c) ++ le_bytes 8 (zlen c) ++
                 le_bytes 8 (LZIP_HEADER_SIZE + zlen payload + LZIP_TRAILER_SIZE) ++ rest).
    assert (Z1 : zlen (payload ++ tail) - zlen tail = zlen payload) by (rewrite zlen_app; lia).
    rewrite Z1. unfold lz_check_trailer, tail.
    rewrite (lz_take_app_n 4) by apply zlen_le_bytes. cbn [obind].
    rewrite (lz_take_app_n 8) by apply zlen_le_bytes. cbn [obind].
    rewrite (lz_take_app_n 8) by apply zlen_le_bytes. cbn [obind].
    pose proof (crc32_range c Hb) as Hcr. pose proof (zlen_nonneg c). pose proof (zlen_nonneg payload).
    change (2 ^ 64) with 18446744073709551616 in Hc64, Hp64. change (2 ^ 32) with 4294967296 in Hcr.
    unfold LZIP_HEADER_SIZE, LZIP_TRAILER_SIZE in *.
    rewrite !le_value_bytes;
      try (change (256 ^ Z.of_nat 8) with 18446744073709551616; change (256 ^ Z.of_nat 4) with 4294967296; lia).
    rewrite !Z.eqb_refl. cbn [negb]. reflexivity.
  Qed.

  Definition lm_file (ms : list lzm) : list Z := concat (map lm_bytes ms).
  Definition lm_data (ms : list lzm) : list Z := concat (map lm_content ms).

  Lemma lz_members_rt : forall ms first rest acc fuel, Forall lm_ok ms ->
    lzd_members' (length ms + fuel) lz_fixed first (lm_file ms ++ rest) acc =
    lzd_members' fuel lz_fixed (match ms with [] => first | _ => false end) rest (rev_append (lm_data ms) acc).
  Proof.
    induction ms as [|m ms IH]; intros first rest acc fuel Hok; [reflexivity|].
    inversion Hok as [|x l Hm Hms]; subst x l.
    unfold lm_file, lm_data. cbn [map concat length Nat.add]. fold (lm_file ms). fold (lm_data ms).
    rewrite <- app_assoc, lz_member_rt by exact Hm. rewrite IH by exact Hms.
    rewrite !rev_append_rev, rev_app_distr, <- app_assoc. destruct ms; reflexivity.
  Qed.

  Lemma lm_file_len ms : zlen ms <= zlen (lm_file ms).
  Proof.
    induction ms as [|m ms IH]; [cbn; lia|]. unfold lm_file. cbn [map concat]. fold (lm_file ms).
    rewrite zlen_cons, zlen_app. unfold lm_bytes, lz_member. rewrite zlen_app.
    change (zlen LZIP_MAGIC) with 4.
    match goal with |- context [zlen (?a ++ ?b)] => pose proof (zlen_nonneg (a ++ b)) end. lia.
  Qed.

  (* C12 (LZIP): any number (at least one) of members decodes to the concatenation of the contents
     and the whole input is consumed *)
  Theorem lzip_multi_thm : forall m ms, Forall lm_ok (m :: ms) ->
    lz_decode pdec lz_fixed (lm_file (m :: ms)) = Ok (lm_data (m :: ms), []).
  Proof.
    intros m ms Hok. unfold lz_decode.
    pose proof (lm_file_len (m :: ms)) as Hl.
    assert (Ef : exists fuel, S (length (lm_file (m :: ms))) = (length (m :: ms) + S fuel)%nat).
    { exists (length (lm_file (m :: ms)) - length (m :: ms))%nat. unfold zlen in Hl. lia. }
    destruct Ef as (fuel & Ef). rewrite Ef.
    rewrite <- (app_nil_r (lm_file (m :: ms))) at 1. rewrite lz_members_rt by exact Hok.
    cbn [lzd_members lz_parse_header fz6 lz_fixed lz_parse_header_fixed firstn skipn obind].
    rewrite frev_rev, rev_append_rev, rev_app_distr, rev_involutive. cbn [rev app]. reflexivity.
  Qed.

  (* trailing data: after at least one member, bytes that are not (a prefix of) the member magic end
     the stream; the reader has looked at up to four of them *)
  Theorem lzip_trailing_thm : forall m ms t, Forall lm_ok (m :: ms) -> t <> [] ->
    lz_bytes_eqb (firstn 4 t) (firstn (length (firstn 4 t)) LZIP_MAGIC) = false ->
    lz_decode pdec lz_fixed (lm_file (m :: ms) ++ t) = Ok (lm_data (m :: ms), skipn 4 t).
  Proof.
    intros m ms t Hok Ht Hnm. unfold lz_decode.
    pose proof (lm_file_len (m :: ms)) as Hl.
    assert (Ef : exists fuel, S (length (lm_file (m :: ms) ++ t)) = (length (m :: ms) + S fuel)%nat).
    { exists (length (lm_file (m :: ms) ++ t) - length (m :: ms))%nat. rewrite app_length. unfold zlen in Hl. lia. }
    destruct Ef as (fuel & Ef). rewrite Ef, lz_members_rt by exact Hok.
    cbn [lzd_members lz_parse_header fz6 lz_fixed]. unfold lz_parse_header_fixed.
    destruct (firstn 4 t) as [|b0 bs] eqn:E4.
    { destruct t; [contradiction | discriminate]. }
    rewrite Hnm. cbn [negb obind]. rewrite frev_rev, rev_append_rev, rev_app_distr, rev_involutive. cbn [rev app]. reflexivity.
  Qed.

  (* ----------------------------------------------------------------------------------------- *)
  (* the writer *)

  Definition lz_encode (o0 : lzopts) (parts : list (list Z)) : outcome (list Z) :=
    let o := lzw_new o0 in
    do members <- lz_members_of (lo_member_size o) parts;
    lz_write o0 parts (map (penc (lo_dict o)) members).

  Lemma lz_members_bytes_file b d : forall members f,
    lz_members_bytes b members (map (penc d) members) = Ok f ->
    f = lm_file (map (fun c => mkLzm b d c) members).
  Proof.
    induction members as [|c cs IH]; intros f E; cbn [lz_members_bytes map] in E.
    - inversion E. reflexivity.
    - destruct (lz_members_bytes b cs (map (penc d) cs)) as [r| | |] eqn:Er; try discriminate. cbn [obind] in E.
      inversion E; subst f. unfold lm_file. cbn [map concat]. fold (lm_file (map (fun c0 => mkLzm b d c0) cs)).
      rewrite <- (IH r eq_refl). reflexivity.
  Qed.

  Lemma concat_map_content b d members : lm_data (map (fun c => mkLzm b d c) members) = concat members.
  Proof. unfold lm_data. rewrite map_map. cbn [lm_content]. rewrite map_id. reflexivity. Qed.

  (* u64 counters: the data and each member's payload stay below 2^64 bytes *)
  Definition lz_sizes_ok (d : Z) (members : list (list Z)) : Prop :=
    Forall (fun c => zlen c < 2 ^ 64 /\ zlen (penc d c) + 26 < 2 ^ 64) members.

  (* what the writer returns: members with one header byte that announces at least the (clamped)
     dictionary, covering the input *)
  Lemma lz_encode_shape : forall o0 parts f,
    bytes_ok (concat parts) = true ->
    (forall members, lz_members_of (lo_member_size (lzw_new o0)) parts = Ok members ->
                     lz_sizes_ok (lo_dict (lzw_new o0)) members) ->
    match lo_member_size o0 with Some m => 1 <= m | None => True end ->
    lz_encode o0 parts = Ok f ->
    exists byte c cs, 0 <= byte < 256 /\
      f = lm_file (map (fun x => mkLzm byte (lo_dict (lzw_new o0)) x) (c :: cs)) /\
      Forall lm_ok (map (fun x => mkLzm byte (lo_dict (lzw_new o0)) x) (c :: cs)) /\
      concat (c :: cs) = concat parts.
  Proof.
    intros o0 parts f Hb Hsz Hms E. unfold lz_encode in E. cbv zeta in E.
    destruct (lz_members_of (lo_member_size (lzw_new o0)) parts) as [members| | |] eqn:Em; try discriminate.
    cbn [obind] in E. unfold lz_write in E.
    set (o := lzw_new o0) in *.
    assert (Hd : LZIP_MIN_DICT <= lo_dict o <= LZIP_MAX_DICT).
    { unfold o, lzw_new; cbn [lo_dict]. unfold lzip_clamp_dict, LZIP_MIN_DICT, LZIP_MAX_DICT.
      destruct (Z.ltb_spec (lo_dict o0) 4096); [lia|]. destruct (Z.ltb_spec 536870912 (lo_dict o0)); lia. }
    destruct (lzip_dict_ok _ Hd) as (byte & dd & Eb & Hbr & Edd & Hle & _).
    rewrite Eb in E. cbn [obind] in E. rewrite Em in E. cbn [obind] in E.
    apply lz_members_bytes_file in E.
    assert (Hcat : concat members = concat parts /\ members <> []).
    { unfold o, lzw_new in Em; cbn [lo_member_size] in Em. destruct (lo_member_size o0) as [m|].
      - destruct (lz_members_some (Z.max m (lzip_clamp_dict (lo_dict o0))) parts ltac:(lia)) as (mb & E1 & C1 & _ & _ & Hne).
        rewrite E1 in Em. inversion Em; subst mb. split; [exact C1|]. destruct Hne as [->|F]; [discriminate|].
        destruct members; [|discriminate]. cbn in C1.
        exfalso. clear - E1. unfold lz_members_of in E1.
        destruct (lz_write_calls _ lzsplit_init parts); try discriminate. cbn [obind] in E1. inversion E1 as [E2].
        rewrite frev_rev in E2. apply (f_equal (@length (list Z))) in E2. rewrite rev_length in E2. cbn in E2. lia.
      - rewrite lz_members_none in Em. inversion Em; subst members. split; [cbn; apply app_nil_r | discriminate]. }
    destruct Hcat as [Hcat Hne].
    assert (Hok : Forall lm_ok (map (fun c => mkLzm byte (lo_dict o) c) members)).
    { specialize (Hsz members eq_refl). unfold lz_sizes_ok in Hsz.
      assert (Hbm : Forall (fun c => bytes_ok c = true) members).
      { rewrite <- Hcat in Hb. clear - Hb. induction members as [|c cs IH]; [constructor|].
        cbn [concat] in Hb. rewrite bytes_ok_app in Hb. apply andb_true_iff in Hb as [H1 H2]. constructor; auto. }
      clear - Hsz Hbm Edd Hle. induction members as [|c cs IH]; [constructor|].
      inversion Hsz; subst. inversion Hbm; subst. cbn [map]. constructor; [|apply IH; assumption].
      unfold lm_ok; cbn [lm_byte lm_dict lm_content]. split; [exists dd; auto|]. tauto. }
    destruct members as [|c cs]; [contradiction|]. exists byte, c, cs. auto.
  Qed.

  (* C02 (LZIP): for every requested dictionary size (the writer clamps it into [4 KiB, 512 MiB]),
     every member size and every partition, the file the writer returns is decoded by the reader to
     exactly the bytes written, the whole file is consumed. *)
  Theorem C02_lzip_thm : forall o0 parts f,
    bytes_ok (concat parts) = true ->
    (forall members, lz_members_of (lo_member_size (lzw_new o0)) parts = Ok members ->
                     lz_sizes_ok (lo_dict (lzw_new o0)) members) ->
    match lo_member_size o0 with Some m => 1 <= m | None => True end ->
    lz_encode o0 parts = Ok f ->
    lz_decode pdec lz_fixed f = Ok (concat parts, []).
  Proof.
    intros o0 parts f Hb Hsz Hms E.
    destruct (lz_encode_shape o0 parts f Hb Hsz Hms E) as (byte & c & cs & _ & Ef & Hok & Hcat).
    subst f. cbn [map] in *. rewrite lzip_multi_thm by exact Hok.
    change (mkLzm byte (lo_dict (lzw_new o0)) c :: map (fun c0 => mkLzm byte (lo_dict (lzw_new o0)) c0) cs)
      with (map (fun c0 => mkLzm byte (lo_dict (lzw_new o0)) c0) (c :: cs)).
    rewrite concat_map_content, Hcat. reflexivity.
  Qed.
End RoundTrip.
