(* Format/XzHeaderProofs.v — what XZWriter writes for the stream header, the block header and the
   stream footer is parsed back by the reader's parsers: same check type, same filter chain (with
   a dictionary at least as large as the encoder's), the rest of the input untouched. *)
From LzVerif Require Import Base.Bytes Format.Crc Format.CrcProofs Format.Vli Format.VliProofs
  Format.XzFormat Format.XzSplitProofs.
Ltac Zify.zify_post_hook ::= Z.div_mod_to_equations.

(* ------------------------------------------------------------------------------------------- *)
(* small list / byte facts *)

Lemma xz_take_app a b : xz_take (zlen a) (a ++ b) = Ok (a, b).
Proof.
  unfold xz_take. rewrite zlen_app. pose proof (zlen_nonneg b).
  destruct (Z.ltb_spec (zlen a + zlen b) (zlen a)); [lia|].
  unfold zlen. rewrite Nat2Z.id, firstn_app, Nat.sub_diag, firstn_all, skipn_app, Nat.sub_diag, skipn_all.
  cbn [firstn skipn app]. rewrite app_nil_r. reflexivity.
Qed.

Lemma xz_take_app_n n a b : zlen a = n -> xz_take n (a ++ b) = Ok (a, b).
Proof. intros <-. apply xz_take_app. Qed.

Lemma bytes_eqb_refl a : bytes_eqb a a = true.
Proof.
  unfold bytes_eqb. rewrite Nat.eqb_refl. cbn [andb].
  induction a as [|x t IH]; [reflexivity|]. cbn [combine forallb fst snd]. rewrite Z.eqb_refl. exact IH.
Qed.

Lemma bytes_eqb_eq a b : bytes_eqb a b = true -> a = b.
Proof.
  unfold bytes_eqb. intros H. apply andb_true_iff in H as [Hl Hf]. apply Nat.eqb_eq in Hl.
  revert b Hl Hf. induction a as [|x t IH]; intros [|y u] Hl Hf; try discriminate; [reflexivity|].
  cbn [combine forallb fst snd] in Hf. apply andb_true_iff in Hf as [Hxy Hr]. apply Z.eqb_eq in Hxy.
  cbn [length] in Hl. f_equal; [exact Hxy | apply IH; [lia | exact Hr]].
Qed.

Lemma zlen_le_bytes n v : zlen (le_bytes n v) = Z.of_nat n.
Proof. unfold zlen. rewrite le_bytes_length. reflexivity. Qed.

Lemma bytes_ok_le_bytes n v : bytes_ok (le_bytes n v) = true.
Proof.
  revert v. induction n as [|n IH]; intros v; [reflexivity|]. cbn [le_bytes bytes_ok forallb].
  fold (bytes_ok (le_bytes n (v / 256))). rewrite IH. unfold is_byte.
  destruct (Z.leb_spec 0 (v mod 256)); [|lia]. destruct (Z.ltb_spec (v mod 256) 256); [|lia]. reflexivity.
Qed.

Lemma zlen_repeatn {A} (x : A) n : zlen (repeatn x n) = Z.of_nat n.
Proof. unfold zlen. f_equal. induction n; cbn; auto. Qed.

Lemma bytes_ok_zeros n : bytes_ok (repeatn 0 n) = true.
Proof. induction n; [reflexivity|]. cbn. exact IHn. Qed.

Lemma forallb_zeros n : forallb (fun b => b =? 0) (repeatn 0 n) = true.
Proof. induction n; [reflexivity|]. cbn. exact IHn. Qed.

Lemma zlen_crc32_bytes l : zlen (crc32_bytes l) = 4.
Proof. unfold crc32_bytes. apply zlen_le_bytes. Qed.

Lemma pad4_range n : 0 <= pad4 n < 4.
Proof. unfold pad4. lia. Qed.
Lemma pad4_sum n : (n + pad4 n) mod 4 = 0.
Proof. unfold pad4. lia. Qed.

(* ------------------------------------------------------------------------------------------- *)
(* stream header and footer *)

Lemma bytes_ok_flags ct : check_known ct = true -> bytes_ok (xz_stream_flags ct) = true.
Proof.
  unfold check_known. intros H. repeat (apply orb_true_iff in H as [H|H]); apply Z.eqb_eq in H; subst; reflexivity.
Qed.

Lemma xz_parse_flags_crc_ok ct rest : check_known ct = true ->
  xz_parse_flags_crc (xz_stream_flags ct ++ crc32_bytes (xz_stream_flags ct) ++ rest) = Ok (ct, rest).
Proof.
  intros Hk. unfold xz_parse_flags_crc.
  rewrite (xz_take_app_n 2 (xz_stream_flags ct)) by reflexivity. cbn [obind].
  unfold xz_stream_flags at 1. rewrite Z.eqb_refl. cbn [negb]. rewrite Hk. cbn [negb].
  rewrite (xz_take_app_n 4) by apply zlen_crc32_bytes. cbn [obind].
  change [0; ct] with (xz_stream_flags ct).
  rewrite le_value_crc32_bytes by (apply bytes_ok_flags; exact Hk). rewrite Z.eqb_refl. reflexivity.
Qed.

Lemma xz_parse_stream_header_ok ct rest : check_known ct = true ->
  xz_parse_stream_header (xz_stream_header ct ++ rest) = Ok (ct, rest).
Proof.
  intros Hk. unfold xz_parse_stream_header, xz_stream_header. rewrite <- !app_assoc.
  rewrite (xz_take_app_n 6 XZ_MAGIC) by reflexivity. cbn [obind]. rewrite bytes_eqb_refl. cbn [negb].
  apply xz_parse_flags_crc_ok. exact Hk.
Qed.

Lemma zlen_stream_header ct : zlen (xz_stream_header ct) = 12.
Proof. unfold xz_stream_header. rewrite !zlen_app, zlen_crc32_bytes. reflexivity. Qed.

Lemma xz_parse_footer_ok ct recs rest : check_known ct = true ->
  xz_parse_footer (xz_stream_footer ct recs ++ rest) = Ok (xz_backward_size recs, xz_stream_flags ct, rest).
Proof.
  intros Hk. unfold xz_parse_footer, xz_stream_footer. rewrite <- !app_assoc.
  rewrite (xz_take_app_n 4) by apply zlen_crc32_bytes. cbn [obind].
  rewrite (xz_take_app_n 4) by apply zlen_le_bytes. cbn [obind].
  rewrite (xz_take_app_n 2 (xz_stream_flags ct)) by reflexivity. cbn [obind].
  rewrite le_value_crc32_bytes.
  2:{ rewrite bytes_ok_app, bytes_ok_le_bytes, bytes_ok_flags by exact Hk. reflexivity. }
  rewrite Z.eqb_refl. cbn [negb].
  rewrite (xz_take_app_n 2 XZ_FOOTER_MAGIC) by reflexivity. cbn [obind]. rewrite bytes_eqb_refl. cbn [negb].
  rewrite le_value_bytes; [reflexivity|]. unfold xz_backward_size, wrap32.
  change (256 ^ Z.of_nat 4) with 4294967296. apply Z.mod_pos_bound. lia.
Qed.

Lemma zlen_stream_footer ct recs : zlen (xz_stream_footer ct recs) = 12.
Proof. unfold xz_stream_footer. rewrite !zlen_app, zlen_crc32_bytes, zlen_le_bytes. reflexivity. Qed.

(* ------------------------------------------------------------------------------------------- *)
(* xz_dict_ok: the LZMA2 dictionary-size property announces at least the dictionary in use *)

Lemma xz_encode_dict_loop_spec d : forall n p,
  Z.of_nat n + p = 40 -> 0 <= p <= 39 -> d <= lzma2_prop_size 39 ->
  exists r, xz_encode_dict_loop n p d = Ok r /\ p <= r < 40 /\ d <= lzma2_prop_size r.
Proof.
  induction n as [|n IH]; intros p Hn Hp Hd.
  - exfalso. lia.
  - cbn [xz_encode_dict_loop]. destruct (Z.leb_spec d (lzma2_prop_size p)) as [Hle|Hgt].
    + exists p. repeat split; try lia.
    + destruct (Z.eq_dec p 39) as [->|Hne]; [lia|].
      destruct (IH (p + 1) ltac:(lia) ltac:(lia) Hd) as (r & E & Hr & Hs).
      exists r. repeat split; try assumption; lia.
Qed.

Theorem xz_dict_ok : forall d,
  4096 <= d <= 3221225472 \/ d = 4294967295 ->
  exists p dd, xz_encode_dict d = Ok p /\ 0 <= p <= 40 /\ xz_decode_dict p = Ok dd /\ d <= dd.
Proof.
  intros d [Hr|Hd]; [|subst d].
  - unfold xz_encode_dict. destruct (Z.ltb_spec d 4096); [lia|]. destruct (Z.eqb_spec d 4294967295); [lia|].
    assert (H39 : d <= lzma2_prop_size 39) by (change (lzma2_prop_size 39) with 3221225472; lia).
    pose proof (xz_encode_dict_loop_spec d 40 0 eq_refl ltac:(lia) H39) as X.
    destruct X as (r & E & Hr' & Hs).
    exists r, (lzma2_prop_size r). split; [exact E|]. split; [lia|]. split; [|exact Hs].
    unfold xz_decode_dict. destruct (Z.ltb_spec 40 r); [lia|]. destruct (Z.eqb_spec r 40); [lia | reflexivity].
  - exists 40, 4294967295. vm_compute. repeat split; congruence.
Qed.

(* for dictionary sizes above 3 GiB (other than 2^32 - 1) the writer refuses *)
Lemma xz_dict_out_of_range : exists d, 4096 <= d < 4294967296 /\ xz_encode_dict d = Err E_INVALID_INPUT.
Proof. exists 3221225473. vm_compute. split; [split; congruence | reflexivity]. Qed.

(* ------------------------------------------------------------------------------------------- *)
(* block header *)

(* options a caller can legally configure (C19 is about the others): known check type, delta
   distances 1..256, BCJ start offsets below 2^32 aligned to the filter's alignment, no LZMA2 among
   the pre-filters *)
Definition filter_ok (f : fkind * Z) : Prop :=
  match fst f with
  | FLZMA2 => False
  | FDelta => 1 <= snd f <= 256
  | k => 0 <= snd f < 4294967296 /\ snd f mod bcj_alignment k = 0
  end.

(* the reader's view of a filter written by the writer: same kind and property; for LZMA2 the
   decoded dictionary size *)
Definition reader_view (dd : Z) (f : fkind * Z) : fkind * Z :=
  match fst f with FLZMA2 => (FLZMA2, dd) | _ => f end.

Lemma vli_slice_single b tail : 0 <= b < 128 ->
  vli_parse_slice (b :: tail) = Ok b /\ vli_skip (b :: tail) = tail.
Proof.
  intros Hb. destruct (last_byte b Hb) as [L1 L2].
  unfold vli_parse_slice, vli_skip. cbn [vli_parse_slice_loop vli_size_slice]. rewrite L1, L2.
  cbn. split; [f_equal; lia | reflexivity].
Qed.

Lemma vli_encode_small b : 0 <= b < 128 -> vli_encode b = Ok [b].
Proof.
  intros Hb. unfold vli_encode, U63_MAX. destruct (Z.ltb_spec 9223372036854775807 b); [lia|].
  cbn [vli_encode_loop]. destruct (Z.leb_spec 128 b); [lia|]. rewrite Z.mod_small by lia. reflexivity.
Qed.

Lemma fkind_id_small k : 0 <= fkind_id k < 128.
Proof. destruct k; cbn; lia. Qed.
Lemma fkind_of_id_id k : fkind_of_id (fkind_id k) = Some k.
Proof. destruct k; reflexivity. Qed.

(* one filter: the written Filter Flags are parsed back *)
Lemma bh_filter_delta prop : 1 <= prop <= 256 ->
  exists bytes : list Z, (forall d : Z, xz_filter_flags d (FDelta, prop) = Ok bytes) /\
    bytes_ok bytes = true /\ 1 <= zlen bytes <= 6 /\
    forall tail : list Z, exists s1, bytes ++ tail = fkind_id FDelta :: s1 /\ bh_filter_props FDelta s1 = Ok (prop, tail).
Proof.
  intros Hp.
  assert (W : forall d, xz_filter_flags d (FDelta, prop) = Ok [3; 1; prop - 1]).
  { intros d. unfold xz_filter_flags. rewrite (vli_encode_small _ (fkind_id_small FDelta)). cbn [obind].
    rewrite (vli_encode_small 1 ltac:(lia)). cbn [obind]. destruct (Z.leb_spec prop 0); [lia|].
    unfold wrap8, wrap32. rewrite (Z.mod_small (prop - 1) 4294967296), (Z.mod_small (prop - 1) 256) by lia. reflexivity. }
  exists [3; 1; prop - 1]. split; [exact W|]. split; [|split].
  - cbn [bytes_ok forallb]. unfold is_byte. cbn.
    destruct (Z.leb_spec 0 (prop - 1)); [|lia]. destruct (Z.ltb_spec (prop - 1) 256); [|lia]. reflexivity.
  - cbn. lia.
  - intros tail. eexists. split; [reflexivity|]. cbn [bh_filter_props]. unfold bh_vli.
    destruct (vli_slice_single 1 (prop - 1 :: tail) ltac:(lia)) as [V1 V2]. rewrite V1, V2. cbn [obind fst snd].
    cbn [Z.eqb negb Pos.eqb]. f_equal. f_equal. lia.
Qed.

Lemma bh_filter_lzma2 dict p dd tail :
  xz_encode_dict dict = Ok p -> xz_decode_dict p = Ok dd -> 0 <= p <= 40 ->
  xz_filter_flags dict (FLZMA2, 0) = Ok [33; 1; p] /\
  bh_filter_props FLZMA2 (1 :: p :: tail) = Ok (dd, tail).
Proof.
  intros He Hd Hp. split.
  - unfold xz_filter_flags. rewrite (vli_encode_small _ (fkind_id_small FLZMA2)). cbn [obind].
    rewrite (vli_encode_small 1 ltac:(lia)). cbn [obind]. rewrite He. reflexivity.
  - cbn [bh_filter_props]. unfold bh_vli.
    destruct (vli_slice_single 1 (p :: tail) ltac:(lia)) as [V1 V2]. rewrite V1, V2. cbn [obind fst snd].
    cbn [Z.eqb negb Pos.eqb]. rewrite Hd. reflexivity.
Qed.

Lemma le_bytes4 v : le_bytes 4 v = [v mod 256; v / 256 mod 256; v / 256 / 256 mod 256; v / 256 / 256 / 256 mod 256].
Proof. reflexivity. Qed.

Lemma bh_filter_bcj k prop : fkind_is_bcj k = true -> 0 <= prop < 4294967296 -> prop mod bcj_alignment k = 0 ->
  exists bytes : list Z, (forall d : Z, xz_filter_flags d (k, prop) = Ok bytes) /\
    bytes_ok bytes = true /\ 1 <= zlen bytes <= 6 /\
    forall tail : list Z, exists s1, bytes ++ tail = fkind_id k :: s1 /\ bh_filter_props k s1 = Ok (prop, tail).
Proof.
  intros Hk Hp Ha.
  destruct (Z.eqb_spec prop 0) as [->|Hne].
  - exists [fkind_id k; 0]. split; [|split; [|split]].
    + intros d. unfold xz_filter_flags. rewrite (vli_encode_small _ (fkind_id_small k)). cbn [obind].
      destruct k; try discriminate; cbn [Z.eqb]; rewrite (vli_encode_small 0 ltac:(lia)); reflexivity.
    + destruct k; reflexivity.
    + cbn. lia.
    + intros tail. eexists. split; [reflexivity|].
      destruct (vli_slice_single 0 tail ltac:(lia)) as [V1 V2].
      destruct k; try discriminate; cbn [bh_filter_props]; unfold bh_vli; rewrite V1, V2; reflexivity.
  - exists (fkind_id k :: 4 :: le_bytes 4 prop). split; [|split; [|split]].
    + intros d. unfold xz_filter_flags. rewrite (vli_encode_small _ (fkind_id_small k)). cbn [obind].
      destruct (Z.eqb_spec prop 0); [contradiction|].
      destruct k; try discriminate; rewrite (vli_encode_small 4 ltac:(lia)); reflexivity.
    + cbn [bytes_ok forallb]. fold (bytes_ok (le_bytes 4 prop)). rewrite bytes_ok_le_bytes.
      destruct k; reflexivity.
    + rewrite !zlen_cons, zlen_le_bytes. lia.
    + intros tail. eexists. split; [reflexivity|].
      destruct (vli_slice_single 4 (le_bytes 4 prop ++ tail) ltac:(lia)) as [V1 V2].
      assert (LV : le_value (le_bytes 4 prop) = prop) by (apply le_value_bytes; cbn; lia).
      rewrite le_bytes4 in *. cbn [app] in *.
      destruct k; try discriminate; cbn [bh_filter_props]; unfold bh_vli; rewrite V1, V2; cbn [obind fst snd];
        cbn [Z.eqb Pos.eqb]; rewrite LV, Ha; reflexivity.
Qed.

(* any pre-filter a caller may configure *)
Lemma bh_filter_pre k prop : filter_ok (k, prop) ->
  exists bytes : list Z, (forall d : Z, xz_filter_flags d (k, prop) = Ok bytes) /\
    bytes_ok bytes = true /\ 1 <= zlen bytes <= 6 /\
    forall tail : list Z, exists s1, bytes ++ tail = fkind_id k :: s1 /\ bh_filter_props k s1 = Ok (prop, tail).
Proof.
  unfold filter_ok; cbn [fst snd]. intros Hf. destruct (fkind_is_bcj k) eqn:Eb.
  - assert (Hr : 0 <= prop < 4294967296 /\ prop mod bcj_alignment k = 0) by (destruct k; try discriminate; exact Hf).
    destruct Hr as [Hr Ha]. apply bh_filter_bcj; assumption.
  - destruct k; try discriminate; [apply bh_filter_delta; exact Hf | contradiction].
Qed.
